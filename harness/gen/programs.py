"""Structured bytecode program generator over the full opcode table.

Programs are sequences of *snippets*: for each opcode a fragment that first pushes operands
of the right kind (boundary-biased) and then executes the opcode, so that every opcode is
regularly exercised on its success path; ill-typed / truncated / starved variants come from
explicit perturbations. Control constructs wrap recursively generated sub-programs."""
from __future__ import annotations
import hashlib
from . import values as V
from ..vmrun import Cfg, NOW

OPN = {}   # name -> code, filled from the implementation's table at import of gen (see names())


def names():
    global OPN
    if not OPN:
        from .. import impl
        F = impl.functions()
        OPN = {v[0][3:]: k for k, v in F.opcodes.items()}
    return OPN


def u1(n): return bytes([n & 0xff])
def u2(n): return (n & 0xffff).to_bytes(2, 'big')


def push(b: bytes, rng=None) -> bytes:
    """Smallest push (the compiler's choice); with rng sometimes a wider form."""
    n = len(b)
    if rng is not None and rng.random() < .08:
        if n < 256 and rng.random() < .5: return b'\x03' + u1(n) + b
        return b'\x04' + u2(n) + b
    if n == 1: return b'\x02' + b
    if n < 256: return b'\x03' + u1(n) + b
    return b'\x04' + u2(n) + b


def ref_message(cache: dict, flag: int) -> bytes:
    m = b''
    for i in range(1, 9):
        k = f'sigfield{i}'
        if k in cache and not (flag >> (i - 1)) & 1 and isinstance(cache[k], (bytes, bytearray)):
            m += bytes(cache[k])
    return m


KEY_POOL = [b'a', b'b', b'P', b'E', b'x', b'X', b'IR', b's', b'sa', b'', b'timestamp', b'returned', b'sigfield1',
            b'k' * 40, b'\x00', b'R', b'T', b't', b'r', b'RT']
STR_KEYS = ['timestamp', 'sigfield1', 'sigfield2', 'sigfield8', 'returned', 'note', 'num', 'flt', 'lst', 'missing', 'ключ', '']


class ProgGen:
    def __init__(self, rng, cfg: Cfg, cache: dict, keys: V.Keys, ops=None, max_depth=4, weights=None, clean=False):
        self.clean = clean
        self.rng, self.cfg, self.cache, self.keys = rng, cfg, cache, keys
        self.N = names()
        self.max_depth = max_depth
        self.defined = []
        self.ops = ops            # restrict to these op names (None = all)
        self.weights = weights or {}
        self.used = {}

    # ---- helpers
    def op(self, name): return bytes([self.N[name]])
    def P(self, b): return push(b, self.rng)
    def ints(self, n): return b''.join(self.P(V.int_item(self.rng)) for _ in range(n))
    def count(self, n):
        """operand count: usually n, sometimes off"""
        r = self.rng.random()
        if self.clean: return n
        if r < .9: return n
        if r < .95: return n + 1
        return self.rng.choice([0, 255, max(0, n - 1)])

    def sig(self, flag=None, allowed=None, good=True):
        rng = self.rng
        ki = rng.randrange(len(self.keys.sks))
        if flag is None:
            flag = rng.choice([0, 0, 0, 1, 2, 3, 0x80, 0xff, rng.getrandbits(8)])
        msg = ref_message(self.cache, flag)
        s = self.keys.sks[ki].sign(msg).signature
        if flag or rng.random() < .1:
            s += bytes([flag])
        r = rng.random()
        if (not good or r > .8) and not (self.clean and good):
            c = rng.random()
            if c < .3:
                j = rng.randrange(len(s) * 8); bs = bytearray(s); bs[j // 8] ^= 1 << (j % 8); s = bytes(bs)
            elif c < .5: s = s[:rng.choice([0, 32, 63])]
            elif c < .7: s = s + b'\x00\x00'
            elif c < .85: ki = (ki + 1) % len(self.keys.sks)
            else: s = V.rbytes(rng, 64)
        return s, self.keys.pks[ki], flag

    # ---- sub-programs
    def body(self, depth, n=None):
        rng = self.rng
        if n is None: n = rng.choice([0, 1, 1, 2, 2, 3, 4])
        return b''.join(self.snippet(depth) for _ in range(n))

    def program(self, n=None):
        rng = self.rng
        if n is None: n = rng.choice([1, 2, 3, 4, 5, 6, 8, 12])
        V.CLEAN[0] = self.clean
        try:
            return b''.join(self.snippet(0) for _ in range(n))
        finally:
            V.CLEAN[0] = False

    def pick(self, depth):
        rng = self.rng
        cands = self.ops if self.ops is not None else (CLEAN_SNIPPETS if self.clean else ALL_SNIPPETS)
        if depth > 0 and self.ops is not None and len(self.ops) < 4:
            cands = FILLER + ([] if depth >= 2 else list(self.ops))
        if depth >= self.max_depth:
            cands = [c for c in cands if c not in CONTROL] or list(cands)
        if self.weights:
            ws = [self.weights.get(c, 1) for c in cands]
            return rng.choices(cands, ws)[0]
        return rng.choice(cands)

    def snippet(self, depth) -> bytes:
        name = self.pick(depth)
        self.used[name] = self.used.get(name, 0) + 1
        b = getattr(self, 's_' + name)(depth)
        r = self.rng.random()
        if r < .02 and len(b) > 1 and not self.clean:          # truncation
            b = b[:self.rng.randrange(1, len(b))]
        return b

    # ---- snippets (one per opcode)
    def s_FALSE(self, d): return self.op('FALSE')
    def s_TRUE(self, d): return self.op('TRUE')
    def s_PUSH0(self, d): return self.op('PUSH0') + V.rbytes(self.rng, 1)
    def s_PUSH1(self, d):
        b = V.bytes_item(self.rng, 255); return self.op('PUSH1') + u1(len(b)) + b
    def s_PUSH2(self, d):
        b = V.bytes_item(self.rng, 1100); return self.op('PUSH2') + u2(len(b)) + b
    def s_GET_MESSAGE(self, d): return self.op('GET_MESSAGE') + u1(self.rng.choice([0, 1, 2, 0xff, self.rng.getrandbits(8)]))
    def s_POP0(self, d): return (self.P(V.bytes_item(self.rng)) if self.clean or self.rng.random() < .7 else b'') + self.op('POP0')
    def s_POP1(self, d):
        n = self.rng.randrange(0, 4)
        return b''.join(self.P(V.bytes_item(self.rng, 40)) for _ in range(n)) + self.op('POP1') + u1(self.count(n))
    def s_SIZE(self, d): return self.P(V.bytes_item(self.rng)) + self.op('SIZE')
    def s_WRITE_CACHE(self, d):
        n = self.rng.randrange(0, 4); k = self.rng.choice(KEY_POOL)
        return b''.join(self.P(V.bytes_item(self.rng, 40)) for _ in range(n)) + self.op('WRITE_CACHE') + u1(len(k)) + k + u1(self.count(n))
    def _wr(self, k):
        return self.P(V.bytes_item(self.rng, 20)) + self.op('WRITE_CACHE') + u1(len(k)) + k + u1(1)
    def s_READ_CACHE(self, d):
        k = self.rng.choice(KEY_POOL)
        return (self._wr(k) if self.clean or self.rng.random() < .3 else b'') + self.op('READ_CACHE') + u1(len(k)) + k
    def s_READ_CACHE_SIZE(self, d):
        k = self.rng.choice(KEY_POOL); return self.op('READ_CACHE_SIZE') + u1(len(k)) + k
    def s_READ_CACHE_STACK(self, d):
        k = self.rng.choice(KEY_POOL)
        return (self._wr(k) if self.clean or self.rng.random() < .3 else b'') + self.P(k) + self.op('READ_CACHE_STACK')
    def s_READ_CACHE_STACK_SIZE(self, d): return self.P(self.rng.choice(KEY_POOL)) + self.op('READ_CACHE_STACK_SIZE')
    def _nints(self, name):
        n = self.rng.choice([0, 1, 2, 2, 3, 5])
        if self.clean and name != 'ADD_INTS': n = max(1, n)
        return self.ints(n) + self.op(name) + u1(self.count(n))
    def s_ADD_INTS(self, d): return self._nints('ADD_INTS')
    def s_SUBTRACT_INTS(self, d): return self._nints('SUBTRACT_INTS')
    def s_MULT_INTS(self, d): return self._nints('MULT_INTS')
    def _tape_int(self, name):
        dv = V.int_item(self.rng) if self.rng.random() < .9 else V.i2b(0)
        return self.ints(1) + self.op(name) + u1(len(dv) if self.rng.random() < .95 else len(dv) + 1) + dv
    def s_DIV_INT(self, d): return self._tape_int('DIV_INT')
    def s_MOD_INT(self, d): return self._tape_int('MOD_INT')
    def s_DIV_INTS(self, d): return self.ints(2) + self.op('DIV_INTS')
    def s_MOD_INTS(self, d): return self.ints(2) + self.op('MOD_INTS')
    def floats(self, n): return b''.join(self.P(V.f32_item(self.rng)) for _ in range(n))
    def s_ADD_FLOATS(self, d):
        n = self.rng.choice([0, 1, 2, 3]); return self.floats(n) + self.op('ADD_FLOATS') + u1(self.count(n))
    def s_SUBTRACT_FLOATS(self, d):
        n = self.rng.choice([0, 1, 2, 3])
        if self.clean: n = max(1, n)
        return self.floats(n) + self.op('SUBTRACT_FLOATS') + u1(self.count(n))
    def s_DIV_FLOAT(self, d): return self.floats(1) + self.op('DIV_FLOAT') + (V.f32_item(self.rng) + bytes(4))[:4]
    def s_MOD_FLOAT(self, d): return self.floats(1) + self.op('MOD_FLOAT') + (V.f32_item(self.rng) + bytes(4))[:4]
    def s_DIV_FLOATS(self, d): return self.floats(2) + self.op('DIV_FLOATS')
    def s_MOD_FLOATS(self, d): return self.floats(2) + self.op('MOD_FLOATS')
    def s_ADD_POINTS(self, d):
        n = self.rng.choice([0, 1, 2, 3])
        if self.clean: n = max(1, n)
        return b''.join(self.P(self.keys.point(self.rng)) for _ in range(n)) + self.op('ADD_POINTS') + u1(self.count(n))
    def s_COPY(self, d): return self.P(V.bytes_item(self.rng, 40)) + self.op('COPY') + u1(self.rng.choice([0, 1, 2, 3, 255]))
    def s_DUP(self, d): return (self.P(V.bytes_item(self.rng, 40)) if self.clean or self.rng.random() < .7 else b'') + self.op('DUP')
    def s_SHA256(self, d): return self.P(V.bytes_item(self.rng)) + self.op('SHA256')
    def s_SHAKE256(self, d): return self.P(V.bytes_item(self.rng)) + self.op('SHAKE256') + u1(self.rng.choice([0, 1, 20, 32, 136, 137, 255]))
    def s_VERIFY(self, d): return self.P(V.bool_item(self.rng) if self.rng.random() < .5 and not self.clean else b'\xff') + self.op('VERIFY')
    def _two(self):
        a = V.bytes_item(self.rng, 40); b = a if self.clean or self.rng.random() < .5 else V.bytes_item(self.rng, 40)
        return self.P(a) + self.P(b)
    def s_EQUAL(self, d): return self._two() + self.op('EQUAL')
    def s_EQUAL_VERIFY(self, d): return self._two() + self.op('EQUAL_VERIFY')
    def s_CHECK_SIG(self, d, name='CHECK_SIG'):
        s, pk, flag = self.sig()
        allowed = self.rng.choice([0, flag, 0xff, flag | self.rng.getrandbits(8), self.rng.getrandbits(8)])
        if self.clean: allowed = self.rng.choice([flag, 0xff, flag | self.rng.getrandbits(8)])
        return self.P(s) + self.P(pk) + self.op(name) + u1(allowed)
    def s_CHECK_SIG_VERIFY(self, d): return self.s_CHECK_SIG(d, 'CHECK_SIG_VERIFY')
    def _ts_constraint(self):
        rng = self.rng
        t = self.cache.get('timestamp', self.cfg.now)
        base = t if isinstance(t, int) and not isinstance(t, bool) else self.cfg.now
        c = max(0, base + rng.choice([-2, -1, 0, 1, 2, -100, 100, 59, 60, 61]))
        if self.clean: c = max(0, base - rng.choice([0, 1, 2, 1000]))
        b = c.to_bytes(max(1, (c.bit_length() + 7) // 8), 'big')
        r = rng.random()
        if self.clean: return b
        if r < .2: b = bytes(rng.randrange(1, 5)) + b
        elif r < .25: b = b''
        elif r < .3: b = V.rbytes(rng, rng.randrange(1, 10))
        return b
    def s_CHECK_TIMESTAMP(self, d): return self.P(self._ts_constraint()) + self.op('CHECK_TIMESTAMP')
    def s_CHECK_TIMESTAMP_VERIFY(self, d): return self.P(self._ts_constraint()) + self.op('CHECK_TIMESTAMP_VERIFY')
    def _epoch_constraint(self):
        rng = self.rng
        c = max(0, self.cfg.now + rng.choice([-2, -1, 0, 1, 2, 58, 59, 60, 61, 62, 1000]))
        if self.clean: c = max(0, self.cfg.now + rng.choice([-2, 0, 5, 59]))
        b = c.to_bytes(max(1, (c.bit_length() + 7) // 8), 'big')
        if self.clean: return b
        if rng.random() < .2: b = bytes(rng.randrange(1, 5)) + b
        elif rng.random() < .05: b = b''
        return b
    def s_CHECK_EPOCH(self, d): return self.P(self._epoch_constraint()) + self.op('CHECK_EPOCH')
    def s_CHECK_EPOCH_VERIFY(self, d): return self.P(self._epoch_constraint()) + self.op('CHECK_EPOCH_VERIFY')
    def s_DEF(self, d):
        h = self.rng.choice([0, 0, 1, 2, 255]); body = self.body(d + 1)
        if self.rng.random() < .3 and self.defined:      # recursion / mutual calls
            body += self.op('CALL') + u1(self.rng.choice(self.defined + [h]))
        elif self.rng.random() < .25:
            # (self-)recursion that passes through a construct: the call budget must be charged identically in every arm / body
            rng = self.rng; op = self.op
            call = op('CALL') + u1(rng.choice(self.defined + [h, h, h]))
            if rng.random() < .3: call = self.P(call) + op('EVAL')
            k = rng.randrange(7)
            if k == 0: w = op('TRUE') + op('IF') + u2(len(call)) + call
            elif k == 1: w = op('TRUE') + op('IF_ELSE') + u2(len(call)) + call + u2(0)
            elif k == 2: w = op('FALSE') + op('IF_ELSE') + u2(0) + u2(len(call)) + call
            elif k == 3: w = op('TRY_EXCEPT') + u2(len(call)) + call + u2(0)
            elif k == 4: fail = op('FALSE') + op('VERIFY'); w = op('TRY_EXCEPT') + u2(len(fail)) + fail + u2(len(call)) + call
            elif k == 5: lb = op('POP0') + call + op('FALSE'); w = op('TRUE') + op('LOOP') + u2(len(lb)) + lb
            else: inner = op('TRUE') + op('IF_ELSE') + u2(len(call)) + call + u2(0); w = op('TRUE') + op('IF') + u2(len(inner)) + inner
            body += w
        self.defined.append(h)
        return self.op('DEF') + u1(h) + u2(len(body)) + body
    def s_RECTRY(self, d):
        """a (self- or mutually) recursive function whose recursive call sits inside a TRY - optionally under an IF on the
        stack depth - and whose inner activation raises: the outer activation must resume where *it* was, with its own
        remaining instructions (checks after the construct) still to run"""
        rng = self.rng
        op, P = self.op, self.P
        h = rng.choice([0, 1, 2, 7]); h2 = h if rng.random() < .75 else (h + 1) % 256
        def iff(b): return op('IF') + u2(len(b)) + b
        def tri(a, b): return op('TRY_EXCEPT') + u2(len(a)) + a + u2(len(b)) + b
        guard = rng.choice([op('DEPTH') + P(b'\x00') + op('EQUAL'),                      # recurse once, from the empty stack
                            op('DEPTH') + P(b'\x00') + op('EQUAL') + op('NOT') + op('NOT'),
                            op('DEPTH') + P(bytes([rng.randrange(1, 3)])) + op('LESS_OR_EQUAL')])
        grow = P(rng.choice([b'\xaa', b'\x00', b'\xff\xff'])) * rng.randrange(1, 3)
        call = op('CALL') + u1(h2)
        raiser = lambda: rng.choice([op('FALSE') + op('VERIFY'), op('DEPTH') + P(b'\x01') + op('EQUAL') + op('NOT') + op('VERIFY'),
                                     op('POP0') * 3, P(b'\x01') + P(b'\x00') + op('DIV_INTS'), op('CALL') + b'\xee', b''])
        inner = iff(guard[:0] + grow + call) if rng.random() < .8 else grow + call
        tbody = (guard if inner[:1] == op('IF') else b'') + inner + (raiser() if rng.random() < .5 else b'')
        ebody = rng.choice([b'', P(b'\xee'), op('TRUE'), op('RETURN'), op('POP0')])
        post = (raiser() if rng.random() < .6 else b'') + P(b'\x01') + rng.choice([op('FALSE') + op('VERIFY'), b'', op('TRUE') + op('VERIFY')]) + P(b'\x02')
        body = tri(tbody, ebody) + post
        if rng.random() < .2: body = iff(body) if False else body
        out = op('DEF') + u1(h) + u2(len(body)) + body
        if h2 != h:
            b2 = rng.choice([call[:0] + op('CALL') + u1(h), raiser(), grow + op('CALL') + u1(h)])
            out += op('DEF') + u1(h2) + u2(len(b2)) + b2
        self.defined.append(h)
        return out + op('CALL') + u1(h)
    def s_CALL(self, d):
        pre = b''
        if not self.defined and (self.clean or self.rng.random() < .5):
            pre = self.s_DEF(d)
        h = self.rng.choice(self.defined) if self.defined and self.rng.random() < .9 else self.rng.randrange(256)
        return pre + self.op('CALL') + u1(h)
    def s_IF(self, d):
        body = self.body(d + 1)
        return self.P(V.bool_item(self.rng)) + self.op('IF') + u2(len(body)) + body
    def s_IF_ELSE(self, d):
        b1, b2 = self.body(d + 1), self.body(d + 1)
        return self.P(V.bool_item(self.rng)) + self.op('IF_ELSE') + u2(len(b1)) + b1 + u2(len(b2)) + b2
    def s_EVAL(self, d):
        body = self.body(d + 1) if self.rng.random() < .93 else b''
        if self.clean and not body: body = self.op('TRUE')
        return self.P(body) + self.op('EVAL')
    def s_NOT(self, d): return self.P(V.bytes_item(self.rng, 40)) + self.op('NOT')
    def s_RANDOM(self, d):
        n = self.rng.choice([0, 1, 5, 32, self.cfg.max_item_size, self.cfg.max_item_size + 1, -1, 100000000])
        if self.clean: n = self.rng.choice([0, 1, 5, min(32, self.cfg.max_item_size), self.cfg.max_item_size])
        return self.P(V.i2b(n)) + self.op('RANDOM')
    def s_RETURN(self, d): return self.op('RETURN')
    def s_SET_FLAG(self, d):
        f = self.rng.choice([b'\x01', b'1', b'ts_threshold', b'', b'\x0a']); return self.op('SET_FLAG') + u1(len(f)) + f
    def s_UNSET_FLAG(self, d):
        f = self.rng.choice([b'\x01', b'1', b'ts_threshold', b'', b'\x0a']); return self.op('UNSET_FLAG') + u1(len(f)) + f
    def s_DEPTH(self, d): return self.op('DEPTH')
    def s_SWAP(self, d):
        n = self.rng.randrange(0, 4)
        if self.clean:
            n = self.rng.randrange(1, 5)
            return b''.join(self.P(V.bytes_item(self.rng, 8)) for _ in range(n)) + self.op('SWAP') + u1(self.rng.randrange(n)) + u1(self.rng.randrange(n))
        return b''.join(self.P(V.bytes_item(self.rng, 8)) for _ in range(n)) + self.op('SWAP') + \
            u1(self.rng.choice([0, 1, 2, 3, 4, n, 255])) + u1(self.rng.choice([0, 1, 2, 3, 4, n, 255]))
    def s_SWAP2(self, d): return self.P(V.bytes_item(self.rng, 8)) + self.P(V.bytes_item(self.rng, 8)) + self.op('SWAP2')
    def s_REVERSE(self, d):
        n = self.rng.randrange(0, 5)
        return b''.join(self.P(V.bytes_item(self.rng, 8)) for _ in range(n)) + self.op('REVERSE') + u1(n if self.clean else self.rng.choice([n, n, n + 1, 0, 255, max(0, n - 1)]))
    def s_CONCAT(self, d): return self.P(V.bytes_item(self.rng)) + self.P(V.bytes_item(self.rng)) + self.op('CONCAT')
    def s_SPLIT(self, d):
        it = V.bytes_item(self.rng, 40)
        if self.clean and not it: it = b'ab'
        idx = self.rng.choice([0, 1, len(it) - 1, len(it), len(it) + 1, -1, len(it) // 2])
        if self.clean: idx = self.rng.randrange(len(it))
        return self.P(it) + self.P(V.i2b(idx)) + self.op('SPLIT')
    def s_CONCAT_STR(self, d): return self.P(V.utf8_item(self.rng)) + self.P(V.utf8_item(self.rng)) + self.op('CONCAT_STR')
    def s_SPLIT_STR(self, d):
        it = V.utf8_item(self.rng)
        try: ln = len(it.decode())
        except UnicodeDecodeError: ln = len(it)
        if self.clean and ln == 0: it, ln = 'añ€'.encode(), 3
        idx = self.rng.choice([0, 1, ln - 1, ln, ln + 1, -1, ln // 2])
        if self.clean: idx = self.rng.randrange(ln)
        return self.P(it) + self.P(V.i2b(idx)) + self.op('SPLIT_STR')
    def s_CHECK_TRANSFER(self, d):
        rng = self.rng
        cnt = rng.choice([0, 1, 2, 3])
        srcs = [rng.choice([b'', b'A', b'B', b'AA']) for _ in range(cnt)]
        proofs = [rng.choice([b'A1', b'B22', b'\x00x', b'', b'A']) for _ in range(cnt)]
        dest = rng.choice([b'D', b'', b'dest'])
        constraint = rng.choice([b'', b'', b'1', b'2', b'A'])
        amount = rng.choice([0, 1, 2, 3, 5, 100, -1])
        cid = self._cid()
        if self.clean:
            srcs = [rng.choice([b'', b'A', b'AA']) for _ in range(cnt)]
            proofs = [rng.choice([b'A1', b'A', b'Axyz']) for _ in range(cnt)]
            constraint = b''
            amount = rng.choice([0, sum(len(p) for p in proofs), -1, 1])
            tr = [i for i, k in self.cfg.contracts if k in 'xb']
            if tr: cid = rng.choice(tr)
            b = b''.join(self.P(p) for p in reversed(proofs)) + b''.join(self.P(s_) for s_ in reversed(srcs))
            return b + self.P(bytes([cnt])) + self.P(dest) + self.P(constraint) + self.P(V.i2b(amount)) + self.P(cid) + self.op('CHECK_TRANSFER')
        b = b''.join(self.P(p) for p in reversed(proofs)) + b''.join(self.P(s) for s in reversed(srcs))
        cb = rng.choice([bytes([cnt]), bytes([cnt]), b'\x00' + bytes([cnt]), b'', bytes([cnt + 1])])
        return b + self.P(cb) + self.P(dest) + self.P(constraint) + self.P(V.i2b(amount) if rng.random() < .95 else b'') + self.P(cid) + self.op('CHECK_TRANSFER')
    def _cid(self):
        ids = [i for i, _ in self.cfg.contracts]
        if ids and self.rng.random() < .85: return self.rng.choice(ids)
        return self.rng.choice([b'nope', b''])
    def s_MERKLEVAL(self, d):
        rng = self.rng
        script = self.body(d + 1) or b'\x01'
        sib = hashlib.sha256(V.rbytes(rng, 8)).digest() if rng.random() < .5 else V.bytes_item(rng, 40)
        h1 = hashlib.sha256(hashlib.sha256(script).digest()).digest()
        h2 = hashlib.sha256(sib).digest()
        root = bytes(a ^ b for a, b in zip(h1, h2))
        r = rng.random()
        if self.clean: r = 1
        if r < .25:
            j = rng.randrange(256); rb = bytearray(root); rb[j // 8] ^= 1 << (j % 8); root = bytes(rb)
        elif r < .3:
            script = script + b'\x01'
        return self.P(sib) + self.P(script) + self.op('MERKLEVAL') + root
    def s_TRY_EXCEPT(self, d):
        b1 = self.body(d + 1)
        if self.rng.random() < .5:
            b1 += self.rng.choice([self.op('FALSE') + self.op('VERIFY'), self.op('POP0') * 3, self.op('DIV_INTS'), self.op('CALL') + b'\xee'])
        b2 = self.body(d + 1)
        return self.op('TRY_EXCEPT') + u2(len(b1)) + b1 + u2(len(b2)) + b2
    def s_LESS(self, d): return self.ints(2) + self.op('LESS')
    def s_LESS_OR_EQUAL(self, d):
        a = V.int_item(self.rng); b = a if self.rng.random() < .4 else V.int_item(self.rng)
        return self.P(a) + self.P(b) + self.op('LESS_OR_EQUAL')
    def s_GET_VALUE(self, d):
        k = self.rng.choice(STR_KEYS).encode() if self.rng.random() < .93 else self.rng.choice(V.UTF8_BAD)
        present = [x for x in self.cache if isinstance(x, str)]
        if present and (self.clean or self.rng.random() < .5): k = self.rng.choice(present).encode()
        return self.op('GET_VALUE') + u1(len(k)) + k
    def s_FLOAT_LESS(self, d): return self.floats(2) + self.op('FLOAT_LESS')
    def s_FLOAT_LESS_OR_EQUAL(self, d):
        a = V.f32_item(self.rng); b = a if self.rng.random() < .4 else V.f32_item(self.rng)
        return self.P(a) + self.P(b) + self.op('FLOAT_LESS_OR_EQUAL')
    def s_INT_TO_FLOAT(self, d): return self.ints(1) + self.op('INT_TO_FLOAT')
    def s_FLOAT_TO_INT(self, d): return self.floats(1) + self.op('FLOAT_TO_INT')
    def s_LOOP(self, d):
        rng = self.rng
        r = rng.random()
        if r < .45:       # counted loop: push n; loop { body; push 1; swap2; sub 2 }   (counter kept on top)
            n = rng.choice([0, 1, 2, 3, self.cfg.call_limit, self.cfg.call_limit + 1])
            inner = self.body(d + 1, rng.choice([0, 1]))
            body = self.op('POP0') + inner + self.op('READ_CACHE') + b'\x01P' + self.P(b'\x01') + self.op('SWAP2') + self.op('SUBTRACT_INTS') + b'\x02'
            return self.P(V.i2b(n)) + self.op('LOOP') + u2(len(body)) + body
        if r < .8:        # run-once loop
            body = self.op('POP0') + self.body(d + 1) + self.op('FALSE')
            return self.op('TRUE') + self.op('LOOP') + u2(len(body)) + body
        body = self.body(d + 1)
        return (self.P(V.bool_item(rng)) if rng.random() < .8 else b'') + self.op('LOOP') + u2(len(body)) + body
    def s_CHECK_MULTISIG(self, d, name='CHECK_MULTISIG'):
        rng = self.rng
        n = rng.choice([0, 1, 2, 3]); m = rng.randrange(0, n + 1)
        idx = list(range(len(self.keys.pks))); rng.shuffle(idx); idx = idx[:n]
        flag_allowed = rng.choice([0, 1, 0xff])
        sigs = []
        for j in range(m):
            ki = idx[j % max(1, n)] if n else 0
            fl = rng.choice([0, 0, flag_allowed & 1])
            s = self.keys.sks[ki].sign(ref_message(self.cache, fl)).signature + (bytes([fl]) if fl else b'')
            c = rng.random()
            if c < .1: s = sigs[-1] if sigs else s              # duplicate
            elif c < .2:                                         # outsider / wrong
                s = self.keys.sks[(ki + 1) % len(self.keys.sks)].sign(ref_message(self.cache, fl)).signature
            elif c < .25: s = s[:40]
            sigs.append(s)
        rng.shuffle(sigs)
        b = b''.join(self.P(s) for s in sigs) + b''.join(self.P(self.keys.pks[i]) for i in idx)
        return b + self.op(name) + u1(flag_allowed) + u1(self.count(m)) + u1(self.count(n))
    def s_CHECK_MULTISIG_VERIFY(self, d): return self.s_CHECK_MULTISIG(d, 'CHECK_MULTISIG_VERIFY')
    def s_SIGN(self, d): return self.P(self.keys.seed(self.rng)) + self.op('SIGN') + u1(self.rng.choice([0, 0, 1, 3, 0xff, self.rng.getrandbits(8)]))
    def s_SIGN_STACK(self, d): return self.P(V.bytes_item(self.rng)) + self.P(self.keys.seed(self.rng)) + self.op('SIGN_STACK')
    def s_CHECK_SIG_STACK(self, d):
        rng = self.rng
        ki = rng.randrange(len(self.keys.sks)); m = V.bytes_item(rng, 80)
        s = self.keys.sks[ki].sign(m).signature; pk = self.keys.pks[ki]
        c = rng.random()
        if c < .1: m = m + b'x'
        elif c < .2: pk = self.keys.point(rng)
        elif c < .3:
            j = rng.randrange(512); bs = bytearray(s); bs[j // 8] ^= 1 << (j % 8); s = bytes(bs)
        elif c < .35: s = s + b'\x00'
        return self.P(s) + self.P(m) + self.P(pk) + self.op('CHECK_SIG_STACK')
    def s_DERIVE_SCALAR(self, d): return self.P(self.keys.seed(self.rng)) + self.op('DERIVE_SCALAR')
    def s_CLAMP_SCALAR(self, d):
        v = self.keys.scalar(self.rng) if self.rng.random() < .8 else V.rbytes(self.rng, self.rng.choice([31, 40, 64]))
        return self.P(v) + self.op('CLAMP_SCALAR') + self.rng.choice([b'\x00', b'\x01', b'\xff'])
    def _nscalars(self, name):
        n = self.rng.choice([0, 1, 2, 3])
        if self.clean: n = max(1, n)
        return b''.join(self.P(self.keys.scalar(self.rng)) for _ in range(n)) + self.op(name) + u1(self.count(n))
    def s_ADD_SCALARS(self, d): return self._nscalars('ADD_SCALARS')
    def s_SUBTRACT_SCALARS(self, d): return self._nscalars('SUBTRACT_SCALARS')
    def s_DERIVE_POINT(self, d): return self.P(self.keys.scalar(self.rng)) + self.op('DERIVE_POINT')
    def s_SUBTRACT_POINTS(self, d):
        n = self.rng.choice([0, 1, 2, 3])
        if self.clean: n = max(1, n)
        return b''.join(self.P(self.keys.point(self.rng)) for _ in range(n)) + self.op('SUBTRACT_POINTS') + u1(self.count(n))
    def s_MAKE_ADAPTER_SIG_PUBLIC(self, d):
        rng = self.rng
        seed_i = rng.randrange(len(self.keys.seeds)); m = V.bytes_item(rng, 80)
        T = self.keys.points[rng.randrange(len(self.keys.points))] if rng.random() < .85 else self.keys.point(rng)
        seed = self.keys.seeds[seed_i] if rng.random() < .9 else self.keys.seed(rng)
        b = self.P(seed) + self.P(m) + self.P(T) + self.op('MAKE_ADAPTER_SIG_PUBLIC')
        r = rng.random()
        if r < .4:      # followed by a check:  [R sa] -> sa R m T X
            X = self.keys.pks[seed_i] if rng.random() < .85 else self.keys.point(rng)
            m2 = m if rng.random() < .85 else m + b'!'
            b += self.op('SWAP2') + self.P(m2) + self.P(T) + self.P(X) + self.op('CHECK_ADAPTER_SIG')
        elif r < .7:    # followed by decrypt with the scalar of T (if T is ours)
            ti = self.keys.points.index(T) if T in self.keys.points else 0
            t = self.keys.scalars[ti] if rng.random() < .85 else self.keys.scalar(rng)
            b += self.op('SWAP2') + self.P(t) + self.op('DECRYPT_ADAPTER_SIG')
        return b
    def s_MAKE_ADAPTER_SIG_PRIVATE(self, d):
        return self.P(V.bytes_item(self.rng, 80)) + self.P(self.keys.scalar(self.rng)) + self.P(self.keys.seed(self.rng)) + self.op('MAKE_ADAPTER_SIG_PRIVATE')
    def s_CHECK_ADAPTER_SIG(self, d):
        k = self.keys
        return self.P(k.scalar(self.rng)) + self.P(k.point(self.rng)) + self.P(V.bytes_item(self.rng, 40)) + self.P(k.point(self.rng)) + self.P(k.point(self.rng)) + self.op('CHECK_ADAPTER_SIG')
    def s_DECRYPT_ADAPTER_SIG(self, d):
        k = self.keys
        return self.P(k.scalar(self.rng)) + self.P(k.point(self.rng)) + self.P(k.scalar(self.rng)) + self.op('DECRYPT_ADAPTER_SIG')
    def s_INVOKE(self, d):
        n = self.rng.choice([0, 1, 2, 3])
        argc = V.i2b(self.rng.choice([n, n, n, n + 1, -1, 0]))
        if self.clean:
            inv = [i for i, k in self.cfg.contracts if k in 'encb']
            if inv:
                return b''.join(self.P(V.bytes_item(self.rng, 20)) for _ in range(n)) + self.P(V.i2b(n)) + self.P(self.rng.choice(inv)) + self.op('INVOKE')
        return b''.join(self.P(V.bytes_item(self.rng, 20)) for _ in range(n)) + self.P(argc) + self.P(self._cid()) + self.op('INVOKE')
    def _bit(self, name):
        a = V.bytes_item(self.rng, 40); b = V.bytes_item(self.rng, len(a) if self.rng.random() < .5 else 40)
        return self.P(a) + self.P(b) + self.op(name)
    def s_XOR(self, d): return self._bit('XOR')
    def s_OR(self, d): return self._bit('OR')
    def s_AND(self, d): return self._bit('AND')
    def s_CHECK_TEMPLATE(self, d, name='CHECK_TEMPLATE'):
        rng = self.rng
        flags = rng.choice([0, 1, 2, 3, 0x81, rng.getrandbits(8)])
        if self.clean:
            flags = sum(1 << (i - 1) for i in range(1, 9) if isinstance(self.cache.get(f'sigfield{i}'), bytes) and rng.random() < .6)
        tm = []
        for i in range(8, 0, -1):          # pushed in reverse so that sigfield1's template is on top
            if (flags >> (i - 1)) & 1:
                f = self.cache.get(f'sigfield{i}')
                t = f if isinstance(f, bytes) and rng.random() < .6 else (f[:2] if isinstance(f, bytes) and rng.random() < .5 else V.bytes_item(rng, 20))
                tm.append(self.P(t))
        if rng.random() < .1 and tm and not self.clean: tm = tm[1:]
        return b''.join(tm) + self.op(name) + u1(flags)
    def s_CHECK_TEMPLATE_VERIFY(self, d): return self.s_CHECK_TEMPLATE(d, 'CHECK_TEMPLATE_VERIFY')
    def s_TAPROOT(self, d):
        rng = self.rng
        import nacl.bindings as nb
        ki = rng.randrange(len(self.keys.pks)); pk = self.keys.pks[ki]
        script = self.body(d + 1) or b'\x01'
        t = bytearray(hashlib.sha256(pk + hashlib.sha256(script).digest()).digest()); t[31] &= 0x7f
        try:
            root = nb.crypto_core_ed25519_add(nb.crypto_scalarmult_ed25519_base_noclamp(bytes(t)), pk)
        except BaseException:
            root = pk
        allowed = rng.choice([0, 1, 0xff])
        r = rng.random()
        if r < .45:     # script path
            c = rng.random()
            if c < .15: script2, pk2 = script + b'\x01', pk
            elif c < .3: script2, pk2 = script, self.keys.point(rng)
            else: script2, pk2 = script, pk
            return self.P(script2) + self.P(pk2) + self.P(root) + self.op('TAPROOT') + u1(allowed)
        if r < .9:      # key path: signature under the root is not available without the scalar; use honest pk as root
            s, pk3, flag = self.sig()
            return self.P(s) + self.P(pk3 if rng.random() < .8 else root) + self.op('TAPROOT') + u1(rng.choice([allowed, flag, 0xff]))
        return self.P(V.bytes_item(rng, 40)) + self.P(V.bytes_item(rng, 40)) + self.op('TAPROOT') + u1(allowed)
    def s_NOP(self, d):
        rng = self.rng
        n = rng.randrange(0, 4)
        code = rng.randrange(len(self.N), 256)
        return b''.join(self.P(V.bytes_item(rng, 8)) for _ in range(n)) + bytes([code]) + u1(n if self.clean else rng.choice([n, n, 0, n + 1, 0x80, 0xff, 0x7f]))
    def s_RAW(self, d):
        """an opcode with random operand bytes and whatever is on the stack"""
        rng = self.rng
        return bytes([rng.randrange(256)]) + V.rbytes(rng, rng.choice([0, 0, 1, 2, 3]))


FILLER = ['TRUE', 'FALSE', 'PUSH1', 'ADD_INTS', 'POP0', 'DUP', 'SIZE', 'DEPTH', 'WRITE_CACHE', 'READ_CACHE', 'RETURN', 'VERIFY']
CONTROL = ['RECTRY', 'DEF', 'CALL', 'IF', 'IF_ELSE', 'EVAL', 'TRY_EXCEPT', 'LOOP', 'MERKLEVAL', 'TAPROOT']
ALL_SNIPPETS = sorted(n[2:] for n in dir(ProgGen) if n.startswith('s_'))
CLEAN_SNIPPETS = [n for n in ALL_SNIPPETS if n not in ('RAW', 'RETURN', 'SET_FLAG', 'EQUAL_VERIFY', 'CHECK_SIG_VERIFY',
                  'CHECK_MULTISIG_VERIFY', 'CHECK_TEMPLATE_VERIFY', 'CHECK_TIMESTAMP_VERIFY', 'CHECK_EPOCH_VERIFY',
                  'CHECK_ADAPTER_SIG', 'DECRYPT_ADAPTER_SIG', 'CALL')]


def shuffled(rng, c: dict) -> dict:
    """the same entries in a random insertion order (a dict's order is not part of the embedder's contract)"""
    ks = list(c); rng.shuffle(ks)
    return {k: c[k] for k in ks}


def random_cache(rng, keys: V.Keys, now=NOW, rich=True, clean=False) -> dict:
    c = _random_cache(rng, keys, now, rich, clean)
    return shuffled(rng, c) if rng.random() < .5 else c


def _random_cache(rng, keys: V.Keys, now=NOW, rich=True, clean=False) -> dict:
    c = {}
    if clean:
        for i in range(1, 9):
            if rng.random() < .5: c[f'sigfield{i}'] = V.bytes_item(rng, 40)
        c['timestamp'] = now + rng.choice([-100, -2, -1, 0, 1, 2, 59])
        if rng.random() < .5: c['note'] = rng.choice(['héllo', '', 'x' * 50])
        if rng.random() < .5: c['num'] = rng.choice([0, -1, 255, 1 << 70])
        if rng.random() < .5: c['flt'] = rng.choice([1.5, -0.0, 3e38, 2.0 ** -140])
        if rng.random() < .5: c['lst'] = rng.choice([[b'a', 'b', 3, 1.25, None], (b'q', b'r'), []])
        return c
    for i in range(1, 9):
        r = rng.random()
        if r < .35:
            c[f'sigfield{i}'] = V.bytes_item(rng, 40)
        elif r < .38 and rich:
            c[f'sigfield{i}'] = rng.choice(['text', 5, [b'x'], bytearray(b'ba'), None])
    r = rng.random()
    if r < .6: c['timestamp'] = now + rng.choice([-100, -2, -1, 0, 1, 2, 59, 60, 61, 100])
    elif r < .7: c['timestamp'] = rng.randrange(0, 1 << 63)
    elif r < .75 and rich: c['timestamp'] = rng.choice(['soon', 1.5, True, None, [1]])
    else: c['timestamp'] = now
    if rich:
        if rng.random() < .3: c['note'] = rng.choice(['héllo', '', 'x' * 50])
        if rng.random() < .3: c['num'] = rng.choice([0, -1, 255, 1 << 70, True])
        if rng.random() < .3: c['flt'] = rng.choice([1.5, -0.0, 3e38, 1e39, float('inf'), 2.0 ** -140])
        if rng.random() < .3: c['lst'] = rng.choice([[b'a', 'b', 3, 1.25, None], (b'q', b'r'), [], [bytearray(b'z')], [[b'n']]])
        if rng.random() < .1: c['returned'] = rng.choice([True, b'x'])
        if rng.random() < .15: c[rng.choice(KEY_POOL)] = rng.choice([[b'pre'], b'rawbytes', 'strval', 7, [b'a', b'b', 5], (), None, 2.5])
        if rng.random() < .1: c['ключ'] = 'значение'
    return c


def random_cfg(rng, small_limits=.25, flags=.3, plugins=.25, contracts=.4) -> Cfg:
    cfg = Cfg()
    if rng.random() < small_limits:
        cfg.max_items = rng.choice([1, 2, 3, 4, 8, 1024])
        cfg.max_item_size = rng.choice([1, 2, 4, 8, 32, 64, 1024])
        cfg.call_limit = rng.choice([0, 1, 2, 3, 5, 128])
    if rng.random() < flags:
        cfg.mask = rng.choice([0, 2047 ^ (1 << rng.randrange(11)), rng.getrandbits(11)])
        cfg.ts = rng.choice([60, 0, -1, 1, 'x', 1000])
        cfg.epoch = rng.choice([60, 0, -1, 1, 'x', 1000])
        cfg.disallow_eval = rng.random() < .2
        cfg.eval_return = rng.random() < .3
    if rng.random() < plugins:
        cfg.sigexts = tuple(rng.choice(['l1', 'l2', 'l3', 'r']) if rng.random() < .9 else 'r' for _ in range(rng.choice([1, 1, 2])))
        if 'r' in cfg.sigexts and rng.random() < .7:
            cfg.sigexts = tuple(s for s in cfg.sigexts if s != 'r') or ('l1',)
        cfg.ct = tuple(rng.choice(['T', 'F', 'P', 'E']) for _ in range(rng.choice([0, 1, 2])))
    if rng.random() < contracts:
        kinds = rng.sample(['e', 'n', 'c', 'i', 't', 'x', 'b', 'z'], rng.choice([1, 2, 3]))
        cfg.contracts = tuple((bytes([0x41 + j]) * rng.choice([1, 32]), k) for j, k in enumerate(kinds))
    return cfg
