"""Boundary-biased value generators."""
from __future__ import annotations
import struct
import nacl.bindings as nb
from nacl.signing import SigningKey

P = 2**255 - 19
L = 2**252 + 27742317777372353535851937790883648493

SMALL_ORDER = [bytes.fromhex(h) for h in (
    '0100000000000000000000000000000000000000000000000000000000000000',
    'ecffffffffffffffffffffffffffffffffffffffffffffffffffffffffffff7f',
    '0000000000000000000000000000000000000000000000000000000000000000',
    '26e8958fc2b227b045c3f489f2ef98f0d5dfac05d3c63339b13802886d53fc05',
    'c7176a703d4dd84fba3c0b760d10670f2a2053fa2c39ccc64ec7fd7792ac037a')]


def i2b(n: int) -> bytes:
    nbytes = ((n.bit_length() if n >= 0 else (~n).bit_length()) // 8) + 1
    return n.to_bytes(nbytes, 'big', signed=True)


def rbytes(rng, n):
    return bytes(rng.getrandbits(8) for _ in range(n))


def int_val(rng) -> int:
    c = rng.random()
    if c < .35: return rng.randrange(-5, 12)
    if c < .6:
        k = rng.choice([7, 8, 15, 16, 31, 32, 63, 64])
        return rng.choice([1, -1]) * ((1 << k) + rng.randrange(-2, 3))
    if c < .85: return rng.randrange(-70000, 70000)
    if c < .97: return rng.choice([1, -1]) * rng.getrandbits(rng.randrange(1, 300))
    return rng.choice([1, -1]) * rng.getrandbits(rng.randrange(300, 3000))


CLEAN = [False]      # set by ProgGen: only well-formed values


def int_item(rng) -> bytes:
    """An item meant to be read as an int: usually canonical, sometimes padded / empty."""
    c = rng.random()
    b = i2b(int_val(rng))
    if CLEAN[0]: return b
    if c < .85: return b
    if c < .93: return (b'\xff' if b[0] & 0x80 else b'\x00') * rng.randrange(1, 3) + b
    if c < .97: return b''
    return rbytes(rng, rng.randrange(1, 6))


F32_EDGE = [0x00000000, 0x80000000, 0x3f800000, 0xbf800000, 0x40000000, 0x7f7fffff, 0xff7fffff, 0x7f800000, 0xff800000,
            0x7fc00000, 0x00000001, 0x807fffff, 0x00800000, 0x3eaaaaab, 0x4b800000, 0x5f000000, 0xdf000000, 0x7e967699]


def f32_item(rng) -> bytes:
    c = rng.random()
    if CLEAN[0]:
        return struct.pack('!f', rng.choice([1, -1]) * (rng.random() + .01) * 10 ** rng.randrange(-3, 6))
    if c < .4: return rng.choice(F32_EDGE).to_bytes(4, 'big')
    if c < .8:
        return struct.pack('!f', rng.choice([1, -1]) * rng.random() * 10 ** rng.randrange(-5, 9))
    if c < .93:
        p = rng.getrandbits(32)
        if (p >> 23) & 0xff == 0xff and p & 0x7fffff and not p & 0x400000:
            p |= 0x400000         # no signalling NaNs (excluded: conversion quiets them)
        return p.to_bytes(4, 'big')
    return rbytes(rng, rng.choice([0, 3, 5, 8]))


SIZES = [0, 1, 2, 3, 31, 32, 33, 63, 64, 65, 127, 128, 255, 256, 257]


def bytes_item(rng, maxlen=300) -> bytes:
    c = rng.random()
    if c < .5: n = rng.randrange(0, 9)
    elif c < .9: n = rng.choice(SIZES)
    else: n = rng.randrange(0, maxlen + 1)
    n = min(n, maxlen)
    c = rng.random()
    if c < .2: return bytes(n)
    if c < .3: return b'\xff' * n
    return rbytes(rng, n)


def bool_item(rng) -> bytes:
    if CLEAN[0]: return rng.choice([b'\xff', b'\x00', b'\x01'])
    return rng.choice([b'\xff', b'\x00', b'\x01', b'', b'\x00\x00', b'\x00\x80', b'\x80'])


UTF8_GOOD = ['', 'a', 'abc', 'é', '€uro', '𝄞clef', 'añb€c𝄞d', 'x' * 40, '\x00nul', 'späße']
UTF8_BAD = [b'\xc0\x80', b'\xed\xa0\x80', b'\xf4\x90\x80\x80', b'\xe2\x82', b'\x80', b'ab\xff', b'\xf0\x82\x82\xac', b'\xc3']


def utf8_item(rng) -> bytes:
    if CLEAN[0] or rng.random() < .85:
        return rng.choice(UTF8_GOOD).encode()
    return rng.choice(UTF8_BAD)


class Keys:
    """A small fixed pool of keys (deterministic per seed) with lazily cached derived values."""
    def __init__(self, rng, n=4):
        self.seeds = [rbytes(rng, 32) for _ in range(n)]
        self.sks = [SigningKey(s) for s in self.seeds]
        self.pks = [bytes(k.verify_key) for k in self.sks]
        self.scalars = [rbytes(rng, 32) for _ in range(n)]
        self.points = [nb.crypto_scalarmult_ed25519_base_noclamp(bytes(s[:31]) + bytes([s[31] & 0x7f]))
                       for s in self.scalars]
        self.mixed = []
        for so in SMALL_ORDER[1:3]:
            try: self.mixed.append(nb.crypto_core_ed25519_add(self.points[0], so))
            except BaseException: pass

    def point(self, rng) -> bytes:
        c = rng.random()
        if CLEAN[0]: return rng.choice(self.points + self.pks)
        if c < .7: return rng.choice(self.points + self.pks)
        if c < .8: return rng.choice(SMALL_ORDER)
        if c < .86 and self.mixed: return rng.choice(self.mixed)
        if c < .9: return ((P + rng.randrange(0, 19)) | (rng.getrandbits(1) << 255)).to_bytes(32, 'little')
        if c < .96: return rbytes(rng, 32)
        return rbytes(rng, rng.choice([0, 31, 33]))

    def scalar(self, rng) -> bytes:
        c = rng.random()
        if CLEAN[0]: return rng.choice(self.scalars)
        if c < .6: return rng.choice(self.scalars)
        if c < .85:
            return rng.choice([0, 1, L - 1, L, L + 1, 8 * L, 2**255 - 1, 2**256 - 1, 2**255, 2**252]).to_bytes(32, 'little')
        if c < .95: return rbytes(rng, 32)
        return rbytes(rng, rng.choice([0, 31, 33, 64]))

    def seed(self, rng) -> bytes:
        c = rng.random()
        if CLEAN[0]: return rng.choice(self.seeds)
        if c < .85: return rng.choice(self.seeds)
        if c < .93: return rbytes(rng, 32)
        return rbytes(rng, rng.choice([0, 31, 33]))
