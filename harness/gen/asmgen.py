"""Abstract programs over the full instruction set, their documented encoding (reference
assembler) and their rendering into source text in every spelling variant."""
from __future__ import annotations
import struct
from . import values as V

KIND = {}       # name -> operand kind, filled from the implementation's table + the classification below
U1 = ['PUSH0', 'GET_MESSAGE', 'POP1', 'ADD_INTS', 'SUBTRACT_INTS', 'MULT_INTS', 'ADD_FLOATS', 'SUBTRACT_FLOATS', 'ADD_POINTS', 'COPY', 'SHAKE256',
      'CHECK_SIG', 'CHECK_SIG_VERIFY', 'CALL', 'REVERSE', 'SIGN', 'CLAMP_SCALAR', 'ADD_SCALARS', 'SUBTRACT_SCALARS', 'SUBTRACT_POINTS',
      'CHECK_TEMPLATE', 'CHECK_TEMPLATE_VERIFY', 'TAPROOT']
SIZED1 = ['PUSH1', 'READ_CACHE', 'READ_CACHE_SIZE', 'DIV_INT', 'MOD_INT', 'SET_FLAG', 'UNSET_FLAG', 'GET_VALUE']
BLOCKS = ['DEF', 'IF', 'IF_ELSE', 'TRY_EXCEPT', 'LOOP']
SPECIAL = {'PUSH2': 'sized2', 'WRITE_CACHE': 'writeCache', 'DIV_FLOAT': 'f4', 'MOD_FLOAT': 'f4', 'SWAP': 'swap', 'CHECK_MULTISIG': 'multisig',
           'CHECK_MULTISIG_VERIFY': 'multisig', 'MERKLEVAL': 'bytes32'}


def kinds(F):
    global KIND
    if not KIND:
        for c, (name, _) in F.opcodes.items():
            n = name[3:]
            KIND[n] = 'u1' if n in U1 else 'sized1' if n in SIZED1 else SPECIAL.get(n, 'block' if n in BLOCKS else 'none')
    return KIND


def u1(n): return bytes([n & 0xff])
def u2(n): return (n & 0xffff).to_bytes(2, 'big')


class Gen:
    def __init__(self, rng, F, max_depth=4):
        self.rng, self.F = rng, F
        self.K = kinds(F)
        self.code = {v[0][3:]: k for k, v in F.opcodes.items()}
        self.aliases = {}
        for a, full in F.opcode_aliases.items():
            self.aliases.setdefault(full[3:], []).append(a)
        self.max_depth = max_depth
        self.plain = [n for n, k in self.K.items() if k != 'block']
        self.used_big = False

    # ---- abstract program: list of nodes
    def program(self, depth=0, n=None):
        rng = self.rng
        if depth == 0: self.used_big = False
        if n is None: n = rng.choice([0, 1, 1, 2, 3, 4, 6])
        return [self.node(depth) for _ in range(n)]

    def sized_val(self, mx, depth=0):
        rng = self.rng
        big = [256, 257, 1000] + ([32767, 32768, 65535] if depth == 0 and not self.used_big else [])
        n = rng.choice([0, 1, 2, 3, 31, 32, 33, 127, 128, 254, 255] + (big if mx > 255 else []))
        if n > 1000: self.used_big = True
        n = min(n, mx)
        if rng.random() < .3:
            # canonical encodings of integers on and around the byte-width boundaries (these may be written `d<n>`)
            k = rng.choice([7, 8, 15, 16, 23, 31, 32, 63])
            z = rng.choice([0, 1, -1, 127, 128, -127, -128, -129, 255, 256, -255, -256, 32767, 32768, -32768, -32769,
                            (1 << k), -(1 << k), (1 << k) - 1, -(1 << k) - 1, -(1 << k) + 1])
            b = V.i2b(z)
            if 0 < len(b) <= mx: return b
        return V.rbytes(rng, n) if n < 2000 else bytes([rng.getrandbits(8)]) * n

    def node(self, depth):
        rng = self.rng
        r = rng.random()
        if r < .22 and depth < self.max_depth:
            k = rng.choice(['if', 'ifelse', 'try', 'tryexcept', 'loop', 'def'])
            if k == 'def': return ('def', rng.randrange(256), self.program_no_def(depth + 1))
            if k == 'if': return ('if', self.program(depth + 1), None, self.program(depth + 1, rng.choice([0, 0, 1, 2])))
            if k == 'ifelse': return ('if', self.program(depth + 1), self.program(depth + 1), self.program(depth + 1, rng.choice([0, 0, 1])))
            if k == 'try': return ('try', self.program(depth + 1), [])
            if k == 'tryexcept': return ('try', self.program(depth + 1), self.program(depth + 1, rng.choice([1, 2])))
            return ('loop', self.program(depth + 1))
        if r < .34:
            return ('push', self.sized_val(65535, depth) or b'\x00')          # the PUSH pseudo-op (value must be non-empty)
        if r < .37:
            code = rng.randrange(len(self.code), 256)
            return ('nop', code, rng.randrange(256))
        name = rng.choice(self.plain)
        k = self.K[name]
        if k == 'none': return ('op', name)
        if k == 'u1': return ('op', name, rng.choice([0, 1, 2, 127, 128, 255, rng.randrange(256)]))
        if k == 'sized1': return ('op', name, self.sized_val(255))
        if k == 'sized2': return ('op', name, self.sized_val(65535, depth))
        if k == 'writeCache': return ('op', name, self.sized_val(255), rng.choice([0, 1, 3, 255]))
        if k == 'f4': return ('op', name, V.f32_item.__wrapped__(rng) if hasattr(V.f32_item, '__wrapped__') else struct.pack('!f', rng.choice([0.0, 1.0, -2.0, 100.0, 3e38, 1.5, 0.1])))
        if k == 'swap': return ('op', name, rng.randrange(256), rng.randrange(256))
        if k == 'multisig': return ('op', name, rng.randrange(256), rng.randrange(256), rng.randrange(256))
        if k == 'bytes32': return ('op', name, V.rbytes(rng, 32))
        raise AssertionError(k)

    def program_no_def(self, depth):
        # the compiler rejects OP_DEF directly inside an OP_DEF body (an un-hoisted IF condition is "directly inside" too)
        out = []
        for n in self.program(depth):
            if n[0] == 'def': continue
            if n[0] == 'if': n = ('if', n[1], n[2], [c for c in n[3] if c[0] != 'def'])
            out.append(n)
        return out

    def contains_def(self, prog):
        for n in prog:
            if n[0] == 'def': return True
            if n[0] == 'if' and (self.contains_def(n[1]) or self.contains_def(n[2] or []) or self.contains_def(n[3])): return True
            if n[0] == 'try' and (self.contains_def(n[1]) or self.contains_def(n[2])): return True
            if n[0] == 'loop' and self.contains_def(n[1]): return True
        return False

    # ---- reference assembler (the documented encoding)
    def enc(self, prog) -> bytes:
        return b''.join(self.enc1(n) for n in prog)

    def push_enc(self, v: bytes) -> bytes:
        if len(v) == 1: return bytes([self.code['PUSH0']]) + v
        if 1 < len(v) < 256: return bytes([self.code['PUSH1'], len(v)]) + v
        if 255 < len(v) < 65536: return bytes([self.code['PUSH2']]) + u2(len(v)) + v
        raise ValueError('unencodable push')

    def enc1(self, n) -> bytes:
        t = n[0]
        C = self.code
        if t == 'push': return self.push_enc(n[1])
        if t == 'nop': return bytes([n[1], n[2]])
        if t == 'def':
            b = self.enc(n[2]); assert len(b) < 65536
            return bytes([C['DEF'], n[1]]) + u2(len(b)) + b
        if t == 'if':
            cond, body = self.enc(n[3]), self.enc(n[1])
            if n[2] is None: return cond + bytes([C['IF']]) + u2(len(body)) + body
            e = self.enc(n[2])
            return cond + bytes([C['IF_ELSE']]) + u2(len(body)) + body + u2(len(e)) + e
        if t == 'try':
            a, e = self.enc(n[1]), self.enc(n[2])
            return bytes([C['TRY_EXCEPT']]) + u2(len(a)) + a + u2(len(e)) + e
        if t == 'loop':
            b = self.enc(n[1]); return bytes([C['LOOP']]) + u2(len(b)) + b
        name = n[1]; k = self.K[name]; c = bytes([C[name]])
        if k == 'none': return c
        if k == 'u1': return c + u1(n[2])
        if k == 'sized1': return c + u1(len(n[2])) + n[2]
        if k == 'sized2': return c + u2(len(n[2])) + n[2]
        if k == 'writeCache': return c + u1(len(n[2])) + n[2] + u1(n[3])
        if k == 'f4': return c + n[2]
        if k == 'swap': return c + u1(n[2]) + u1(n[3])
        if k == 'multisig': return c + u1(n[2]) + u1(n[3]) + u1(n[4])
        if k == 'bytes32': return c + n[2]
        raise AssertionError(k)

    # ---- rendering into source text
    def spell(self, name, in_def=False):
        """OP_ prefix / bare alias / registered alias, any letter case"""
        rng = self.rng
        forms = ['OP_' + name, name] + self.aliases.get(name, [])
        forms = [f for f in forms if f in self.F.opcode_aliases or f in self.F.opcodes_inverse]
        if in_def:
            # parse_def prefixes every alias found directly in a DEF body with OP_, so `OP_<alias>` spellings are
            # rejected there (SyntaxError: OP_OP_EQ) - a rejection, not a mis-assembly; not generated
            forms = [f for f in forms if not (f.startswith('OP_') and f in self.F.opcode_aliases)]
        s = rng.choice(forms)
        c = rng.random()
        if c < .4: s = s.lower()
        elif c < .5: s = ''.join(ch.lower() if rng.random() < .5 else ch for ch in s)
        return s

    def float_text(self, v: bytes):
        """whole-number text of the float32 with these 4 bytes (None when it has none: fractions, nan, inf, -0.0)"""
        import struct, math
        if len(v) != 4: return None
        x = struct.unpack('!f', v)[0]
        if math.isnan(x) or math.isinf(x) or (x == 0 and math.copysign(1, x) < 0): return None
        if x != int(x) or abs(x) >= 1e15: return None       # the DIV_FLOAT / MOD_FLOAT operand encoder accepts whole numbers only after `f`
        t = str(int(x))
        if struct.pack('!f', float(t)) != v: return None
        return t

    def val_sym(self, v: bytes, allow=('x', 'd', 's')):
        """a value symbol that denotes exactly the bytes v"""
        rng = self.rng
        opts = ['x']
        if 'd' in allow and 0 < len(v) <= 64:
            z = int.from_bytes(v, 'big', signed=True)
            if V.i2b(z) == v: opts.append('d')
        if 's' in allow and len(v) == 0 and rng.random() < .7:
            q = rng.choice(['"', "'"])
            return f's{q}{q}'          # the empty string literal: an operand like any other (boundary of the s-prefix)
        if 's' in allow and len(v) > 0:
            try:
                t = v.decode('utf-8')
                if t.isprintable() and all(ch.isalnum() or ch in ' _-.,:;' for ch in t) and not t.startswith(' ') and not t.endswith(' ') and '  ' not in t:
                    opts.append('s')
            except UnicodeDecodeError:
                pass
        o = rng.choice(opts)
        up = rng.random() < .12
        if up and o in ('x', 'd'): self.lenient = True       # upper-case value prefixes: accepted by some operand encoders only
        if o == 'x': return ('X' if up else 'x') + v.hex()
        if o == 'd': return ('D' if up else 'd') + str(int.from_bytes(v, 'big', signed=True))
        t = v.decode()
        q = rng.choice(['"', "'"])
        return f's{q}{t}{q}'

    def u1_sym(self, n):
        rng = self.rng
        up = rng.random() < .12
        if up: self.lenient = True
        if n < 128 and rng.random() < .5: return ('D' if up else 'd') + str(n)
        if n >= 128 and rng.random() < .3: return ('D' if up else 'd') + str(n - 256)
        return ('X%02x' if up else 'x%02x') % n

    def pos_sym(self, x):
        """operands of SWAP / CHECK_MULTISIG: unsigned decimal or hex"""
        rng = self.rng
        up = rng.random() < .12
        if up: self.lenient = True
        return (('D' if up else 'd') + str(x)) if rng.random() < .6 else (('X%02x' if up else 'x%02x') % x)

    def comment(self):
        rng = self.rng
        d = rng.choice(['#', '"', "'"])
        if rng.random() < .5: return f'{d} some words here {d}'
        # a comment ends at the next occurrence of the delimiter that opened it: the other two delimiters, instruction names
        # and values inside it are just text
        others = [x for x in ['#', '"', "'"] if x != d]
        words = [rng.choice(['was:', 'push', 'd1', 'true', 'false', 'x00', 'verify', 'OP_POP0', 'don\'t' if d != "'" else 'dont', rng.choice(others), rng.choice(others)])
                 for _ in range(rng.randrange(1, 7))]
        return f'{d} ' + ' '.join(words) + f' {d}'

    def render(self, prog, depth=0, in_def=False) -> list:
        out = []
        parts = []
        for n in prog:
            com = [self.comment()] if self.rng.random() < .06 else []
            parts.append((n, com, self.render1(n, depth, in_def)))
        for i, (n, com, syms) in enumerate(parts):
            # the explicit push instructions may be written with the value alone (size implied) when what follows is an
            # instruction name - of any spelling, including bare aliases whose initial is d / f / x / s
            if n[0] == 'op' and n[1] in ('PUSH1', 'PUSH2') and len(syms) == 3 and syms[1].startswith('d') and self.rng.random() < .5:
                nxt = parts[i + 1] if i + 1 < len(parts) else None
                follows_name = nxt is not None and not nxt[1] and nxt[0][0] in ('op', 'nop') and nxt[2] and nxt[2][0][:1].isalpha() and not nxt[2][0].lower().startswith(('push', 'op_push'))
                if follows_name:
                    syms = [syms[0], syms[2]]
            out.extend(com); out.extend(syms)
        return out

    def block(self, body_syms, end_kw):
        """brace or END_ terminator"""
        if self.rng.random() < .6 or end_kw is None: return ['{'] + body_syms + ['}']
        return body_syms + [end_kw]

    def render1(self, n, depth, in_def=False):
        rng = self.rng
        t = n[0]
        if t == 'push':
            v = n[1]
            r = rng.random()
            if r < .12 and len(v) < 200:          # comptime: push ~ { ops } where ops compile to v ... only when v is itself a program
                pass
            if r < .1 and 0 < len(v) <= 255 and v.isalnum():     # variable sugar is exercised separately
                pass
            return [rng.choice(['push', 'PUSH', 'OP_PUSH', 'op_push', 'Push']), self.val_sym(v)]
        if t == 'nop':
            cnt = n[2]
            return [rng.choice([f'NOP{n[1]}', f'nop{n[1]}']), ('d' + str(cnt if cnt < 128 else cnt - 256)) if rng.random() < .5 else 'x%02x' % cnt]
        if t == 'def':
            h = n[1]
            hs = rng.choice([str(h), 'd' + str(h), 'x%02x' % h])
            body = self.render(n[2], depth + 1, in_def=True)
            # END_DEF is found with symbols.index(): not nestable, so the END_DEF form is only used when no DEF is nested inside
            if rng.random() < .6 or self.contains_def(n[2]): return [rng.choice(['def', 'DEF', 'OP_DEF', 'op_def']), hs, '{'] + body + ['}']
            return [rng.choice(['def', 'OP_DEF']), hs] + body + ['END_DEF']
        if t == 'if':
            hoist = rng.random() < .5 and len(n[3]) > 0
            cond = self.render(n[3], depth + 1, in_def=in_def and not hoist)   # an un-hoisted condition sits directly in the enclosing body
            body = self.render(n[1], depth + 1)
            kw = rng.choice(['if', 'IF', 'OP_IF', 'op_if'])
            pre = [] if hoist else cond
            head = [kw] + (['('] + cond + [')'] if hoist else [])
            if n[2] is None:
                if rng.random() < .6: return pre + head + ['{'] + body + ['}']
                return pre + head + body + ['END_IF']
            e = self.render(n[2], depth + 1)
            dangling = bool(n[1]) and n[1][-1][0] == 'if' and n[1][-1][2] is None and body[-1:] == ['}']     # `IF IF { } ELSE ...` binds ELSE to the inner IF (an inner `IF ... END_IF` is closed: the ELSE is the outer one's)
            if rng.random() < .6 or dangling: return pre + head + ['{'] + body + ['}', rng.choice(['else', 'ELSE']), '{'] + e + ['}']
            return pre + head + body + ['ELSE'] + e + ['END_IF']
        if t == 'try':
            a = self.render(n[1], depth + 1); e = self.render(n[2], depth + 1)
            kw = rng.choice(['try', 'TRY', 'OP_TRY', 'op_try'])
            if not n[2]:
                # no EXCEPT clause, or an explicitly written empty one (same bytes: the EXCEPT length is 0 either way)
                r_ = rng.random()
                if r_ < .6: return [kw, '{'] + a + ['}']
                if r_ < .8: return [kw, '{'] + a + ['}', rng.choice(['except', 'EXCEPT']), '{', '}']
                if r_ < .9 or (bool(n[1]) and n[1][-1][0] == 'try' and not n[1][-1][2]):      # (`TRY TRY { } EXCEPT ...` would bind the EXCEPT to the inner TRY)
                    return [kw, '{'] + a + ['}', 'except', '{'] + [self.comment()] + ['}']
                return [kw] + a + ['EXCEPT', 'END_EXCEPT']
            dangling = bool(n[1]) and n[1][-1][0] == 'try' and not n[1][-1][2]
            if rng.random() < .6 or dangling: return [kw, '{'] + a + ['}', rng.choice(['except', 'EXCEPT']), '{'] + e + ['}']
            return [kw] + a + ['EXCEPT'] + e + ['END_EXCEPT']
        if t == 'loop':
            b = self.render(n[1], depth + 1)
            kw = rng.choice(['loop', 'LOOP', 'OP_LOOP', 'op_loop'])
            if rng.random() < .6: return [kw, '{'] + b + ['}']
            return [kw] + b + ['END_LOOP']
        name = n[1]; k = self.K[name]; s = self.spell(name, in_def)
        if k == 'none': return [s]
        if k == 'u1': return [s, self.u1_sym(n[2])]
        if k == 'sized1':
            v = n[2]
            if name == 'PUSH1' and rng.random() < .4:
                return [s, 'd' + str(len(v)), 'x' + v.hex()]
            if name == 'PUSH1':
                # a lone value symbol after OP_PUSH1 must not look like an op name: x-form is always safe
                return [s, 'x' + v.hex(), '#', 'c', '#'] if False else [s, 'd' + str(len(v)), 'x' + v.hex()]
            return [s, self.val_sym(v, allow=('x', 'd', 's'))]
        if k == 'sized2':
            v = n[2]
            return [s, 'd' + str(len(v)), 'x' + v.hex()]
        if k == 'writeCache':
            key, cnt = n[2], n[3]
            ks = 'x' + key.hex()
            if len(key) == 0 and rng.random() < .6: ks = rng.choice(['s""', "s''"])
            if len(key) > 0 and rng.random() < .4:
                try:
                    t_ = key.decode()
                    if t_.isalnum(): ks = 's"' + t_ + '"'
                except UnicodeDecodeError: pass
            if 0 < len(key) <= 8 and rng.random() < .35:
                # a `d` key of WRITE_CACHE is the unsigned big-endian number, at least one byte (d0 -> 00, d255 -> ff, d256 -> 0100)
                n_ = int.from_bytes(key, 'big')
                if n_.to_bytes(max(1, (n_.bit_length() + 7) // 8), 'big') == key: ks = 'd' + str(n_)
            return [s, ks, ('d' + str(cnt)) if rng.random() < .6 else 'x%02x' % cnt]
        if k == 'f4':
            ft = self.float_text(n[2])
            return [s, 'f' + ft] if ft is not None and rng.random() < .5 else [s, 'x' + n[2].hex()]
        if k == 'swap': return [s] + [self.pos_sym(x) for x in n[2:4]]
        if k == 'multisig': return [s] + [self.pos_sym(x) for x in n[2:5]]
        if k == 'bytes32': return [s, 'x' + n[2].hex()]
        raise AssertionError(k)

    lenient = False       # set while rendering: the source uses a spelling the compiler may legitimately reject (never mis-assemble)

    def source(self, prog) -> str:
        self.lenient = False
        syms = self.render(prog)
        rng = self.rng
        seps = [' ', '\n', '\t', '  ', ' \n ']
        return ''.join(s + rng.choice(seps) for s in syms)
