"""Running scripts on the real VM and rendering cases / outcomes in the driver's line
protocol (RUN / AUTH). The plugin and contract families here mirror Model/Instr.lean."""
from __future__ import annotations
import copy, struct, sys, threading
from dataclasses import dataclass, field
from . import impl

NOW = 1_700_000_000
FRAC = 0.73          # the pinned clock is fractional, like the real one


# ---------------------------------------------------------------- shared families
class Echo:
    def __init__(self, log): self.log = log
    def abi(self, args): self.log.append(1000); return list(args)
class RetNone:
    def __init__(self, log): self.log = log
    def abi(self, args): self.log.append(1000); return None
class Concat:
    def __init__(self, log): self.log = log
    def abi(self, args): self.log.append(1000); return [b''.join(args)]
class BadItem:
    def __init__(self, log): self.log = log
    def abi(self, args): self.log.append(1000); return [b'ok', 5]
class BadType:
    def __init__(self, log): self.log = log
    def abi(self, args): self.log.append(1000); return b'raw'
class Transfer:
    def __init__(self, log): self.log = log; self._logged = False
    def verify_txn_proof(self, proof): return len(proof) > 0 and proof[0] != 0
    def verify_transfer(self, proof, source, destination): return len(source) == 0 or proof[:1] == source[:1]
    def verify_txn_constraint(self, proof, constraint): return constraint[:1] == proof[-1:]
    def calc_txn_aggregates(self, proofs, scope=None):
        self.log.append(2000)
        return {scope: sum(len(p) for p in proofs)}
class Both(Transfer):
    def abi(self, args): self.log.append(1000); return list(args)
class Neither:
    def __init__(self, log): self.log = log

CONTRACT_KINDS = {'e': Echo, 'n': RetNone, 'c': Concat, 'i': BadItem, 't': BadType, 'x': Transfer, 'b': Both, 'z': Neither}


def make_sigext(spec, log):
    if spec == 'r':
        def raising(tape, stack, cache): raise ValueError('sigext')
        return raising
    tag = int(spec[1:])
    def logger(tape, stack, cache): log.append(tag)
    return logger


def make_ct(spec, log):
    def plugin(tape, stack, cache):
        items = stack.list()       # [field, template]
        field_, tmpl = items[0], items[1]
        if spec == 'T': return True
        if spec == 'F': return False
        if spec == 'P': return field_[:len(tmpl)] == tmpl
        return field_ == tmpl
    return plugin


# ---------------------------------------------------------------- case description
@dataclass
class Cfg:
    max_items: int = 1024
    max_item_size: int = 1024
    call_limit: int = 128
    now: int = NOW
    mask: int = 2047                 # truthiness of integer flags 0..10
    ts: object = 60                  # int or 'x' (malformed)
    epoch: object = 60
    disallow_eval: bool = False
    eval_return: bool = False
    sigexts: tuple = ()              # 'l<tag>' | 'r'
    ct: tuple = ()                   # 'T','F','P','E'
    contracts: tuple = ()            # (id bytes, kind letter)
    falsy: tuple = ()                # named settings passed explicitly with a false value (same meaning as absent; not part of line())

    def line(self) -> str:
        return ':'.join([
            str(self.max_items), str(self.max_item_size), str(self.call_limit), str(self.now), str(self.mask),
            str(self.ts), str(self.epoch), '1' if self.disallow_eval else '0', '1' if self.eval_return else '0',
            ','.join(self.sigexts) or '-', ','.join(self.ct) or '-',
            ','.join(f'{(i.hex() or "-")}={k}' for i, k in self.contracts) or '-'])

    def is_default_flags(self):
        return self.mask == 2047 and self.ts == 60 and self.epoch == 60 and not self.disallow_eval and not self.eval_return

    def additional_flags(self):
        fl = {}
        for i in range(11):
            if not (self.mask >> i) & 1:
                fl[i] = False
        if self.ts != 60: fl['ts_threshold'] = 'sixty' if self.ts == 'x' else self.ts
        if self.epoch != 60: fl['epoch_threshold'] = 'sixty' if self.epoch == 'x' else self.epoch
        if self.disallow_eval: fl['disallow_OP_EVAL'] = True
        if self.eval_return: fl['eval_return'] = True
        for k in self.falsy:
            if k not in fl: fl[k] = False
        return fl


def hx(b: bytes) -> str:
    return b.hex()


def atom_str(v) -> str:
    t = type(v)
    if t is bytes: return 'B' + v.hex()
    if t is str: return 'S' + v.encode('utf-8', 'surrogatepass').hex()
    if t is int: return 'I' + str(v)
    if t is float: return 'F' + struct.pack('>d', v).hex()
    if t is bytearray: return 'A' + bytes(v).hex()
    return 'O'


def val_str(v) -> str:
    if type(v) in (list, tuple):
        return 'L' + ','.join(atom_str(a) for a in v)
    return atom_str(v)


def key_str(k) -> str:
    if type(k) is bytes: return 'b' + k.hex()
    if type(k) is str: return 's' + k.encode('utf-8').hex()
    return 'o' + repr(k)


def cache_str(cache: dict, drop_returned=True) -> str:
    es = []
    for k, v in cache.items():
        if drop_returned and k == 'returned':
            continue
        es.append(key_str(k) + '=' + val_str(v))
    es.sort()
    return ';'.join(es) or '-'


def stack_str(items) -> str:
    return ','.join((b.hex() or 'e') for b in items) or '-'


def case_line(kind: str, cfg: Cfg, cache: dict, scripts) -> str:
    if 'timestamp' not in cache:
        cache = {'timestamp': cfg.now, **cache}      # run_script: {'timestamp': int(time()), **cache_vals}
    return f'{kind} {cfg.line()} {cache_str(cache, drop_returned=False)} ' + ','.join((s.hex() or '-') for s in scripts)


# ---------------------------------------------------------------- running the implementation
class HarnessAbort(BaseException):
    """raised inside the VM when one case used up its run_tape budget (runaway recursion / loops)"""


RUN_TAPE_BUDGET = 30_000
RETRY_FACTOR = 15        # a case that exhausts the budget is run once more with this many times the budget before it is called ABORT
RUNAWAY_LIMIT = 2
RUNAWAYS = [0]           # retries that *still* did not finish: after RUNAWAY_LIMIT of them the implementation is taken to be running away and
                         # further budget-exhausting cases are called ABORT at once (keeps a check on a broken tree within minutes)
LAST = {}              # observations of the most recent auth_impl call (tapes handed to run_tape)
CASE_SECONDS = 6.0          # generous: a loaded machine must never turn a slow case into an ABORT (the call budget is the deterministic bound)


# ---- watchdog for loops *inside* one instruction (the run_tape budget cannot see them): a daemon thread injects HarnessAbort into
# the thread that runs the case once the case is well past its wall-clock cap
import threading as _threading, ctypes as _ctypes
_WATCH = {'tid': None, 'deadline': None, 'fired': False, 'mark': None}
_WATCH_LOCK = _threading.Lock()
_WATCH_STARTED = [False]

def _watch_loop():
    import time as _t
    while True:
        _t.sleep(0.25)
        with _WATCH_LOCK:
            if _WATCH['deadline'] is not None and not _WATCH['fired'] and _t.time() > _WATCH['deadline']:
                _WATCH['fired'] = True
                if _WATCH['mark'] is not None: _WATCH['mark']()
                _ctypes.pythonapi.PyThreadState_SetAsyncExc(_ctypes.c_ulong(_WATCH['tid']), _ctypes.py_object(HarnessAbort))

def watch_begin(seconds, mark=None):
    """arm the watchdog for the current thread; `mark` is called (in the watchdog thread) when it fires"""
    import time as _t
    if not _WATCH_STARTED[0]:
        _WATCH_STARTED[0] = True
        _threading.Thread(target=_watch_loop, daemon=True).start()
    with _WATCH_LOCK:
        _WATCH.update(tid=_threading.get_ident(), deadline=_t.time() + seconds, fired=False, mark=mark)

def watch_end():
    """disarm; returns True when the watchdog had fired for this case"""
    with _WATCH_LOCK:
        fired = _WATCH['fired']
        _WATCH['deadline'] = None
        if fired:
            _ctypes.pythonapi.PyThreadState_SetAsyncExc(_ctypes.c_ulong(_WATCH['tid']), None)      # cancel if not yet delivered
    return fired


def case_seconds(factor):
    """wall-clock cap of one case: generous while the implementation has not been seen running away (so a
    loaded machine never turns a slow case into an ABORT), short once two retries with the enlarged budget
    have confirmed a runaway implementation (keeps a check on a broken tree within minutes)"""
    if RUNAWAYS[0] >= RUNAWAY_LIMIT: return 1.5
    return CASE_SECONDS if factor == 1 else 30.0

class Capture:
    """Wraps functions.run_tape to capture the (tape, stack, cache) of top-level runs."""
    def __init__(self, F, factor=1):
        self.factor = factor
        self.F = F; self.depth = 0; self.tops = []
        self.datas = []          # bytes of every tape handed to run_tape, in order (first 256)
        self.orig = F.run_tape
    def __enter__(self):
        cap = self
        orig = self.orig
        cap.calls = 0
        import time as _t
        cap.deadline = _t.time() + case_seconds(cap.factor)
        budget = RUN_TAPE_BUDGET * cap.factor
        def _mark():
            cap.calls = RUN_TAPE_BUDGET * RETRY_FACTOR * 2
            if cap.factor > 1: RUNAWAYS[0] = RUNAWAY_LIMIT        # even the retry sat in one instruction for seconds: no further retries
        watch_begin(case_seconds(cap.factor) + (4 if RUNAWAYS[0] < RUNAWAY_LIMIT else 1.5), _mark)
        def run_tape(tape, stack, cache, additional_flags={}):
            if cap.depth == 0:
                cap.tops.append((tape, stack, cache))
            cap.calls += 1
            if len(cap.datas) < 256:
                cap.datas.append(bytes(tape.data))
            if cap.calls > budget or (cap.calls & 255 == 0 and _t.time() > cap.deadline):
                cap.calls = RUN_TAPE_BUDGET * RETRY_FACTOR * 2
                raise HarnessAbort('run_tape budget')
            cap.depth += 1
            try:
                return orig(tape, stack, cache, additional_flags=additional_flags)
            finally:
                cap.depth -= 1
        self.F.run_tape = run_tape
        return self
    def __exit__(self, *a):
        try: watch_end()
        finally: self.F.run_tape = self.orig


class Env:
    """Pinned clock, deterministic token_bytes, plugin/contract families for one case."""
    def __init__(self, cfg: Cfg):
        self.F = impl.functions()
        self.cfg = cfg
        self.log = []
        self.rand = 0
    def __enter__(self):
        F = self.F
        self.saved = (F.time, F.token_bytes)
        now = self.cfg.now
        F.time = lambda: now + FRAC
        env = self
        def token_bytes(n):
            ctr = env.rand; env.rand += 1
            if n < 0:
                raise ValueError('negative argument not allowed')
            if n > (1 << 26):
                # the real token_bytes would try to allocate n bytes; the harness does not follow it there
                raise MemoryError(f'token_bytes({n}) requested by the script (harness cap 64 MiB)')
            base = bytes((ctr * 31 + j * 7 + 13) % 256 for j in range(256))     # the stream has period 256 in j
            return (base * (n // 256 + 1))[:n]
        F.token_bytes = token_bytes
        return self
    def __exit__(self, *a):
        self.F.time, self.F.token_bytes = self.saved
    def plugins(self):
        p = {}
        if self.cfg.sigexts:
            p['signature_extensions'] = [make_sigext(s, self.log) for s in self.cfg.sigexts]
        if self.cfg.ct:
            log = self.log
            fs = []
            for s in self.cfg.ct:
                fs.append(make_ct(s, log))
            # one log entry per template judged (first plugin logs)
            first = fs[0]
            def logging_first(tape, stack, cache, first=first):
                log.append(3000); return first(tape, stack, cache)
            p['check_template'] = [logging_first] + fs[1:]
        return p
    def contracts(self):
        return {i: CONTRACT_KINDS[k](self.log) for i, k in self.cfg.contracts}


def canon_E(cache_field: str) -> str:
    """cache[b'E'] holds 'Class|message'; messages are not modelled: keep 'Class|'."""
    if 'b45=' not in cache_field:
        return cache_field
    out = []
    for e in cache_field.split(';'):
        if e.startswith('b45=LB') and ',' not in e:
            raw = bytes.fromhex(e[6:])
            if b'|' in raw:
                e = 'b45=LB' + raw[:raw.index(b'|') + 1].hex()
        out.append(e)
    return ';'.join(out)


def render(status, stack, cache, log, cnt, rand):
    return (f'{status} stack={stack_str(stack.list()) if stack is not None else "?"} '
            f'cache={canon_E(cache_str(cache)) if cache is not None else "?"} '
            f'ret={1 if cache is not None and "returned" in cache else 0} '
            f'plog={",".join(map(str, log)) or "-"} taint=? cnt={cnt} rand={rand}')


def _guarded(fn, *a):
    """the watchdog's exception can arrive while the context managers unwind: such a case is an ABORT"""
    try: return fn(*a)
    except HarnessAbort:
        try: watch_end()
        except HarnessAbort: pass
        return None


def run_impl(cfg: Cfg, cache_in: dict, script: bytes) -> str:
    o = _guarded(_run_impl, cfg, cache_in, script, 1) or 'ABORT stack=? cache=? ret=0 plog=- taint=? cnt=0 rand=0'
    if o.startswith('ABORT') and RUNAWAYS[0] < RUNAWAY_LIMIT:
        o = _guarded(_run_impl, cfg, cache_in, script, RETRY_FACTOR) or 'ABORT stack=? cache=? ret=0 plog=- taint=? cnt=0 rand=0'      # legitimately heavy (but terminating) scripts exist: give them room once
        if o.startswith('ABORT'): RUNAWAYS[0] += 1
    return o


def _run_impl(cfg: Cfg, cache_in: dict, script: bytes, factor: int) -> str:
    """run_script on the implementation, rendered like the driver's reply."""
    cache_in = copy.deepcopy(cache_in)      # a run must never be able to disturb the case for later runs
    with Env(cfg) as env, Capture(env.F, factor) as cap:
        F = env.F
        try:
            tape, stack, cache = F.run_script(
                script, cache_vals=cache_in, contracts=env.contracts(), additional_flags=cfg.additional_flags(),
                plugins=env.plugins(), stack_max_items=cfg.max_items, stack_max_item_size=cfg.max_item_size,
                callstack_limit=cfg.call_limit)
            if cap.calls > RUN_TAPE_BUDGET * factor:
                return 'ABORT stack=? cache=? ret=0 plog=- taint=? cnt=0 rand=0'
            return render('OK', stack, cache, env.log, tape.callstack_count, env.rand)
        except BaseException as e:
            if isinstance(e, (KeyboardInterrupt, SystemExit)):
                raise
            st, ca = (cap.tops[0][1], cap.tops[0][2]) if cap.tops else (None, None)
            if cap.calls > RUN_TAPE_BUDGET * factor:
                return 'ABORT stack=? cache=? ret=0 plog=- taint=? cnt=0 rand=0'
            return render('ERR:' + type(e).__name__, st, ca, env.log, 0, env.rand)


def auth_impl(cfg: Cfg, cache_in: dict, scripts) -> str:
    o = _guarded(_auth_impl, cfg, cache_in, scripts, 1) or 'RAISED:HarnessAbort ? stack=? cache=? ret=0 plog=- taint=? cnt=0 rand=0'
    if o.startswith('RAISED:HarnessAbort') and RUNAWAYS[0] < RUNAWAY_LIMIT:
        o = _guarded(_auth_impl, cfg, cache_in, scripts, RETRY_FACTOR) or 'RAISED:HarnessAbort ? stack=? cache=? ret=0 plog=- taint=? cnt=0 rand=0'
        if o.startswith('RAISED:HarnessAbort'): RUNAWAYS[0] += 1
    return o


def _auth_impl(cfg: Cfg, cache_in: dict, scripts, factor: int) -> str:
    cache_in = copy.deepcopy(cache_in)
    with Env(cfg) as env, Capture(env.F, factor) as cap:
        F = env.F
        try:
            v = F.run_auth_scripts(list(scripts), cache_in, env.contracts(), env.plugins(),
                                   cfg.max_items, cfg.max_item_size, cfg.call_limit)
            verdict = 'T' if v is True else ('F' if v is False else 'NONBOOL')
        except BaseException as e:
            if isinstance(e, (KeyboardInterrupt, SystemExit)):
                raise
            verdict = 'RAISED:' + type(e).__name__
        if cap.calls > RUN_TAPE_BUDGET * factor:
            # the harness's own abort was raised somewhere inside (run_auth_scripts, or a TRY of the script, swallows it like any
            # other exception): what the run returned is not an outcome of the scripts
            verdict = 'RAISED:HarnessAbort'
        LAST['tapes'] = list(cap.datas)
        if cap.tops:
            _, st, ca = cap.tops[-1]
            tail = render('?', st, ca, env.log, cap.tops[-1][0].callstack_count, env.rand)
        else:
            tail = '? stack=? cache=? ret=0 plog=- taint=? cnt=0 rand=0'
        return verdict + ' ' + tail


def fields(line: str) -> dict:
    parts = line.split(' ')
    d = {'status': parts[0]}
    for p in parts[1:]:
        if '=' in p:
            k, v = p.split('=', 1)
            d[k] = v
    return d


def compare_run(model: str, impl_: str, want=('stack', 'cache', 'ret', 'plog', 'rand', 'cnt')):
    """Returns (agree: bool, soft_class_mismatch: bool, why)."""
    if model in ('FUEL', 'GHOST', 'GUARD', 'bad-op'):
        return False, False, 'model:' + model
    if impl_.startswith('ABORT'):
        return False, False, 'implementation did not finish within the run_tape budget (the model did)'
    m, i = fields(model), fields(impl_)
    ms, is_ = m['status'], i['status']
    ok_m, ok_i = ms == 'OK', is_ == 'OK'
    if m.get('taint') == '1':
        # the script read the *text* of an exception message (cache[b'E']), which the model does not carry: from that point on
        # the two runs may legitimately differ (e.g. the real message is longer than stack_max_item_size) - not comparable
        return True, False, 'tainted'
    if ok_m != ok_i:
        return False, False, 'status'
    soft = (not ok_m) and ms != is_
    m['cache'] = canon_E(m.get('cache', '-'))
    for k in want:
        if k == 'cnt' and not ok_m:
            continue
        if i.get(k) == '?':
            continue
        if m.get(k) != i.get(k):
            return False, soft, k
    return True, soft, ''


def compare_auth(model: str, impl_: str):
    mv, mrest = model.split(' ', 1)
    iv, irest = impl_.split(' ', 1)
    if fields(mrest).get('taint') == '1':
        return True, ''          # see compare_run: the script read an exception message text
    if mv != iv:
        return False, 'verdict'
    m, i = fields(mrest), fields(irest)
    if m.get('taint') == '1' or mrest.startswith(('FUEL', 'GHOST', 'GUARD')):
        return (not mrest.startswith(('FUEL', 'GHOST', 'GUARD'))), 'model-internal' if mrest.startswith(('FUEL', 'GHOST', 'GUARD')) else ''
    m['cache'] = canon_E(m.get('cache', '-'))
    if m['status'] == 'OK':
        # all scripts ran: the final state is comparable (on an error the implementation
        # stops at the same point, and the captured objects are the same shared ones)
        pass
    for k in ('stack', 'cache', 'plog', 'rand'):
        if i.get(k) == '?':
            continue
        if k == 'stack' and m['status'] == 'OK' and m.get('stack', '-') != '-' and ',' not in m.get('stack', ''):
            continue    # run_auth_scripts pops the single remaining item before judging it
        if m.get(k) != i.get(k):
            return False, k
    return True, ''


def in_big_thread(fn, *a, stack_mb=512, reclimit=60000):
    """Run fn in a thread with a large stack and recursion limit (deep nesting is a known
    finding of its own and must not leak into unrelated comparisons)."""
    res = {}
    def target():
        sys.setrecursionlimit(reclimit)
        try:
            res['v'] = fn(*a)
        except BaseException as e:
            res['e'] = e
    threading.stack_size(stack_mb * 1024 * 1024)
    t = threading.Thread(target=target)
    t.start(); t.join()
    if 'e' in res:
        raise res['e']
    return res.get('v')
