"""Runs in a FRESH interpreter: optionally installs one soft fork, then answers requests.
stdin: one JSON object {"repo":..., "code": int, "kind": str|null, "name": str, "aliases": [...], "auth": [[hex,...],...],
"compile": [src,...], "decompile": [hex,...]}; stdout: one JSON object with the answers."""
import json, sys


def main():
    req = json.load(sys.stdin)
    sys.path.insert(0, req['repo'])
    import tapescript.functions as F, tapescript.parsing as P, tapescript.tools as T, tapescript.errors as E
    F.time = lambda: req.get('now', 1_700_000_000) + 0.73
    kind = req.get('kind')
    rejected = []
    for badname in req.get('rejected_installs', []):
        # installs that must be refused and must leave the byte exactly as it was
        try:
            T.add_soft_fork(req['code'], badname, lambda tape, stack, cache: None)
            rejected.append('accepted')
        except BaseException as e:
            rejected.append(type(e).__name__)
        try:
            F.add_opcode(req['code'], badname, lambda tape, stack, cache: None)
            rejected.append('accepted')
        except BaseException as e:
            rejected.append(type(e).__name__)
    for e in req.get('earlier_installs', []):
        # an earlier fork at another byte that used the same aliases: the later install takes them over
        T.add_soft_fork(e['code'], e['name'], lambda tape, stack, cache: tape.read(1) and None, e.get('aliases', []))
    if req.get('earlier_handlers'):
        # parsing handlers registered for the same name before (a prototype with a two-byte operand): the install replaces them
        def proto_c(opname, symbols, symbols_to_advance, symbol_index):
            return (symbols_to_advance + 1, (b'\x00', bytes([int(symbols[0][1:]) & 255])))
        def proto_d(op_name, tape):
            return [f'{op_name} d{int.from_bytes(tape.read(2), "big")}']
        P.add_opcode_parsing_handlers(req['name'], proto_c, proto_d)
    for h in req.get('decompile_before_install', []):
        try: P.decompile_script(bytes.fromhex(h))
        except BaseException: pass
    pre_scripts = None
    if req.get('script_objects_before_install'):
        # Script objects made while the byte is still an ordinary NOP (their source says NOP<code>) ...
        try: pre_scripts = (T.Script.from_src('true true'), T.Script.from_src(f"NOP{req['code']} d2 true"))
        except BaseException: pre_scripts = None
    if kind:
        def fork(tape, stack, cache):
            """reads the count as NOP does, removes that many items, may raise"""
            count = F.bytes_to_int(tape.read(1))
            if count < 0:
                raise E.ScriptExecutionError('count must not be negative')
            items = [stack.get() for _ in range(count)]
            ok = {'all_equal': len(set(items)) <= 1, 'all_nonempty': all(len(i) > 0 for i in items), 'first_is_ff': (not items) or items[0] == b'\xff',
                  'always_fail': False, 'never_fail': True, 'even_total': sum(map(len, items)) % 2 == 0}[kind]
            if not ok:
                raise E.ScriptExecutionError('fork check failed')
        try:
            T.add_soft_fork(req['code'], req['name'], fork, req.get('aliases', []))
        except BaseException as e:
            print(json.dumps({'install_error': type(e).__name__ + ': ' + str(e)[:200]}))
            return
    out = {'auth': [], 'compile': [], 'decompile': [], 'rejected': rejected}
    if pre_scripts is not None:
        # ... are still the same bytes after the fork is installed: joining them is concatenation, and the joined script authorizes as before
        try:
            joined = pre_scripts[0] + pre_scripts[1]
            out['script_add'] = joined.bytes.hex() if joined.bytes == pre_scripts[0].bytes + pre_scripts[1].bytes else 'DIFFERENT:' + joined.bytes.hex()
        except BaseException as e:
            out['script_add'] = 'ERR:' + type(e).__name__
    for scripts in req.get('auth', []):
        try:
            out['auth'].append(bool(F.run_auth_scripts([bytes.fromhex(s) for s in scripts])))
        except BaseException as e:
            out['auth'].append('RAISED:' + type(e).__name__)
    for src in req.get('compile', []):
        try:
            out['compile'].append(P.compile_script(src).hex())
        except BaseException as e:
            out['compile'].append('ERR:' + type(e).__name__)
    for h in req.get('decompile', []):
        try:
            out['decompile'].append(P.decompile_script(bytes.fromhex(h)))
        except BaseException as e:
            out['decompile'].append('ERR:' + type(e).__name__)
    print(json.dumps(out))


main()
