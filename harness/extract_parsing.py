"""Translator part 2: operand classes per opcode, read from tapescript/parsing.py.
compiler class  = which `_get_*_args` encoder `get_args` dispatches the op name to (AST walk);
decompiler class = measured behaviourally: bytes consumed by `decompile_script` on two probe
operand patterns plus the printed line shape."""
from __future__ import annotations
import ast, json, os, re, subprocess, sys
from .core import REPO

COMPILER_FN_KIND = {
    None: 'none', '_get_OP_PUSH_args': 'pushpseudo', '_get_OP_WRITE_CACHE_args': 'writeCache', '_get_OP_PUSH1_type_args': 'sized1',
    '_get_OP_PUSH0_type_args': 'u1', '_get_OP_PUSH2_args': 'sized2', '_get_OP_DIV_FLOAT_args': 'f4', '_get_OP_SWAP_type_args': 'swap',
    '_get_OP_CHECK_MULTISIG_args': 'multisig', '_get_OP_MERKLEVAL_args': 'bytes32',
}
BLOCK_PARSERS = {'OP_IF': ('parse_if', 'body1'), 'OP_DEF': ('parse_def', 'def'), 'OP_TRY': ('parse_try', 'body2'), 'OP_LOOP': ('parse_loop', 'body1')}


def compiler_classes():
    src = open(os.path.join(REPO, 'tapescript', 'parsing.py')).read()
    tree = ast.parse(src)
    fn = next(n for n in tree.body if isinstance(n, ast.FunctionDef) and n.name == 'get_args')
    match = next(n for n in ast.walk(fn) if isinstance(n, ast.Match))
    out = {}
    def names_of(pat):
        if isinstance(pat, ast.MatchValue): return [pat.value.value]
        if isinstance(pat, ast.MatchOr): return [x for p in pat.patterns for x in names_of(p)]
        return []
    for case in match.cases:
        ns = names_of(case.pattern)
        if not ns: continue
        body = case.body
        callee = None
        for st in body:
            if isinstance(st, ast.Return) and isinstance(st.value, ast.Call) and isinstance(st.value.func, ast.Name):
                callee = st.value.func.id
        kind = COMPILER_FN_KIND.get(callee, 'unknown:' + str(callee))
        for n in ns:
            out[n] = kind
    # block constructs are dispatched by parse_next
    pn = next(n for n in tree.body if isinstance(n, ast.FunctionDef) and n.name == 'parse_next')
    pn_src = ast.unparse(pn)
    for op, (parser, kind) in BLOCK_PARSERS.items():
        if re.search(r"current_symbol == '%s':\s*\n\s*\(?advance, parts\)? = %s\(" % (op, parser), pn_src):
            out[op] = kind
        else:
            out[op] = 'unknown:dispatch'
    out['OP_IF_ELSE'] = out.get('OP_IF') and 'body2'
    out['OP_TRY_EXCEPT'] = out.pop('OP_TRY', 'unknown:dispatch')
    return out


def decompiler_classes():
    code = r'''
import json, sys, re
sys.path.insert(0, %r)
import tapescript.functions as F, tapescript.parsing as P
A = bytes([2]) + bytes(600)
B = bytes([0, 3]) + bytes(900)
out = {}
for c, (name, _) in sorted(F.opcodes.items()):
    res = []
    for probe in (A, B):
        data = bytes([c]) + probe
        consumed, first = None, None
        for n in range(1, len(data) + 1):
            try:
                lines = P.decompile_script(data[:n])
            except BaseException as e:
                continue
            consumed = n - 1
            txt = lines[0][len(name):] if lines[0].startswith(name) else lines[0]
            first = re.sub(r'\d+', 'N', re.sub(r'd-?\d+', 'dN', re.sub(r'x[0-9a-f]+', 'xH', txt)))
            break
        res.append((consumed, first))
    out[name] = res
print(json.dumps(out))
''' % REPO
    p = subprocess.run([sys.executable, '-c', code], stdout=subprocess.PIPE, stderr=subprocess.PIPE, text=True, timeout=300)
    if p.returncode:
        raise RuntimeError('decompiler probing failed: ' + p.stderr[-400:])
    raw = json.loads(p.stdout)
    TABLE = {
        ((0, ''), (0, '')): 'none',
        ((1, ' dN'), (1, ' dN')): 'u1', ((1, ' xH'), (1, ' xH')): 'u1',
        ((3, ' xH'), (1, ' x')): 'sized1', ((3, ' dN xH'), (1, ' dN x')): 'sized1', ((3, ' dN'), (1, ' x')): 'sized1',
        ((514, ' dN xH'), (5, ' dN xH')): 'sized2',
        ((4, ' xH dN'), (2, ' x dN')): 'writeCache',
        ((4, ' xH'), (4, ' xH')): 'f4', ((2, ' dN dN'), (2, ' dN dN')): 'swap', ((3, ' xH dN dN'), (3, ' xH dN dN')): 'multisig',
        ((32, ' xH'), (32, ' xH')): 'bytes32',
        ((3, ' N {'), (771, ' N {')): 'def',
    }
    out = {}
    for name, res in raw.items():
        key = tuple((r[0], r[1]) for r in res)
        k = TABLE.get(key)
        if k is None:
            # block constructs print their own keywords
            if key == ((514, 'OP_IF {'), (5, 'OP_IF {')) or key == ((514, 'OP_LOOP {'), (5, 'OP_LOOP {')) or key == ((514, ' {'), (5, ' {')):
                k = 'body1'
            elif name in ('OP_IF_ELSE', 'OP_TRY_EXCEPT') and key[1][0] == 7 and key[0][0] == 516:
                k = 'body2'
            else:
                k = 'unknown:' + json.dumps(key)
        out[name] = k
    return out


def lean_str(s): return '"' + s.replace('\\', '\\\\').replace('"', '\\"') + '"'


def defs():
    cc, dc = compiler_classes(), decompiler_classes()
    L = []
    L.append('def compilerClass : List (String × String) := [' + ', '.join(f'({lean_str(k)}, {lean_str(str(v))})' for k, v in sorted(cc.items())) + ']')
    L.append('def decompilerClass : List (String × String) := [' + ', '.join(f'({lean_str(k)}, {lean_str(str(v))})' for k, v in sorted(dc.items())) + ']')
    return L


if __name__ == '__main__':
    cc, dc = compiler_classes(), decompiler_classes()
    for k in sorted(dc):
        print(f'{k:32s} {cc.get(k)!s:12s} {dc[k]}')
