"""C08 — scripts can read but never alter interpreter-owned (string-keyed) cache values.
Theorems: Props/C08.lean. Tie: a recording dict as the cache of the real VM logs every write /
delete with its key at the moment it happens (so failed runs and every step are covered), deep
snapshots detect in-place mutation of values, run_script's own cache handling is compared with
its input, and the model's cache is compared with the implementation's."""
from __future__ import annotations
import copy
from ..core import Result, Ctx, known_ids
from .. import vmrun, instrument
from ..gen import programs as G, values as V
from . import c06

RULE = ("programs biased to the cache-writing instructions (WRITE_CACHE / POP0 / POP1 / TRY / crypto ops caching under flags / INVOKE) with keys "
        "spelling the protected names in several encodings, all initial cache value types; each case: run_script (returned cache vs input), "
        "instrumented run with a recording dict (every write/delete logged with key type, deep value snapshots), model comparison on the "
        "whole cache; non-trivial = executes a cache-writing or cache-reading instruction; distinct = distinct (cache, script)")

WRITERS = ['WRITE_CACHE', 'WRITE_CACHE', 'WRITE_CACHE', 'POP0', 'POP1', 'TRY_EXCEPT', 'DERIVE_SCALAR', 'DERIVE_POINT', 'SIGN', 'SIGN_STACK',
           'MAKE_ADAPTER_SIG_PUBLIC', 'MAKE_ADAPTER_SIG_PRIVATE', 'DECRYPT_ADAPTER_SIG', 'INVOKE', 'GET_VALUE', 'GET_VALUE', 'GET_VALUE',
           'READ_CACHE', 'READ_CACHE_STACK', 'READ_CACHE_SIZE', 'GET_MESSAGE', 'CHECK_SIG', 'CHECK_TIMESTAMP', 'RETURN', 'IF', 'LOOP',
           'EVAL', 'DEF', 'CALL', 'PUSH1', 'TRUE', 'CHECK_TEMPLATE', 'CONCAT', 'RAW']

PROTECTED = ['timestamp', 'sigfield1', 'sigfield2', 'sigfield8', 'returned', 'note', 'num', 'flt', 'lst']


def spelled_keys(rng):
    name = rng.choice(PROTECTED)
    return rng.choice([name.encode(), name.encode('utf-16-le'), name.encode('utf-16-be'), name.encode() + b'\x00', b'\x00' + name.encode(),
                       name.upper().encode(), name.encode()[:-1], b'E', b'P', b''])


def gen(ctx: Ctx, n):
    rng = ctx.sub_rng('c08')
    keys = V.Keys(ctx.sub_rng('keys'))
    cases = []
    for i in range(n):
        cfg = G.random_cfg(rng, small_limits=.05, flags=.3, plugins=0, contracts=0)   # the property is stated for "no plugin or contract installed"
        cache = G.random_cache(rng, keys)
        if rng.random() < .3:
            cache['timestamp'] = rng.choice([0, 0, 1, vmrun.NOW])
        if rng.random() < .3:
            # embedder keys that merely resemble the interpreter's own control key ('returned'): parts of it, one-letter names
            for k_ in rng.sample(['r', 't', 'e', 'd', 'ret', 'turn', 'return', 'urn', 'eturned', 'returne', 'returned2', 'Returned', 'n'], rng.choice([1, 2, 3])):
                cache[k_] = rng.choice([b'v', V.rbytes(rng, 3), 7, 'text'])
        old = G.KEY_POOL
        try:
            G.KEY_POOL = [spelled_keys(rng) for _ in range(6)] + [b'a', b'x', b'timestamp', b'sigfield1']
            g = G.ProgGen(rng, cfg, cache, keys, ops=WRITERS, clean=rng.random() < .6, max_depth=3)
            script = g.program()
        finally:
            G.KEY_POOL = old
        cases.append((cfg, cache, script, g.used))
    # values read with GET_VALUE and then fed to instructions that build a result from an operand (bitwise padding, concatenation,
    # splitting, hashing, arithmetic): whatever type the embedder's value has, the embedder's object must not change
    N = G.names()
    def P(b): return G.push(b)
    for i in range(max(40, n // 40)):
        cfg = vmrun.Cfg()
        key = rng.choice(['sigfield1', 'sigfield2', 'note', 'ключ'])
        val = rng.choice([bytearray(V.rbytes(rng, rng.choice([1, 3, 8]))), V.rbytes(rng, rng.choice([1, 3, 8])), [bytearray(b'ab'), b'cd'], (b'x', bytearray(b'yz')), 'text', 7])
        cache = {key: val, 'sigfield3': bytearray(b'\x01\x02')}
        other = V.rbytes(rng, rng.choice([1, 4, 9, 16]))
        gv = bytes([N['GET_VALUE'], len(key.encode())]) + key.encode()
        follow = rng.choice([P(other) + bytes([N['XOR']]), P(other) + bytes([N['OR']]), P(other) + bytes([N['AND']]),
                             P(other) + bytes([N['SWAP2'], N['XOR']]), P(other) + bytes([N['SWAP2'], N['AND']]), P(other) + bytes([N['SWAP2'], N['OR']]),
                             P(other) + bytes([N['CONCAT']]), bytes([N['DUP'], N['CONCAT']]), bytes([N['NOT']]), bytes([N['SHA256']]),
                             bytes([N['DUP'], N['XOR']]), P(b'\x01') + bytes([N['SPLIT']])])
        script = gv + follow
        if rng.random() < .3: script = bytes([N['TRY_EXCEPT']]) + G.u2(len(script)) + script + G.u2(0) + gv + follow
        cases.append((cfg, cache, script, {'GET_VALUE': 1}))
    return cases


def str_view(d: dict):
    return {k: copy.deepcopy(v) for k, v in d.items() if not isinstance(k, bytes)}


def same(a, b):
    """deep equality that distinguishes types (5 vs b'\\x05', list vs tuple) and NaN-safe"""
    return repr(a) == repr(b) and type(a) is type(b)


def run(ctx: Ctx) -> Result:
    res = Result(rule=RULE)
    known = known_ids('C08')
    cases = gen(ctx, ctx.n(12000, 500000))
    results = c06.run_cases(ctx, res, cases)
    for (cfg, cache, script, used), r, o, ok, why in results:
        nontrivial = any(k not in ('TRUE', 'PUSH1') for k in used)
        res.note_case((vmrun.cache_str(cache, False), script), nontrivial)
        if ok is False and why in ('cache', 'status', 'model:GHOST', 'model:FUEL', 'model:GUARD'):
            res.disagreements.append({'cfg': cfg.line(), 'cache': vmrun.cache_str(cache, False)[:300], 'script': script.hex()[:300],
                                      'why': why, 'model': (r or '')[:300], 'impl': o[:300]})
    k5_seen = [0]
    def viol(cfg, cache, script, observed, finding=None):
        if len(res.violations) < 20:
            v = {'input': {'cfg': cfg.line(), 'cache': vmrun.cache_str(cache, False), 'script': script.hex()},
                 'expected': 'string-keyed cache entries identical before and after (only bytes-keyed entries may be added or changed)',
                 'observed': observed, 'how_to_run': './check C08 --replay <this file>'}
            if finding: v['finding'] = finding
            res.violations.append(v)
    def work():
        F = vmrun.impl.functions()
        for i, (cfg, cache, script, used) in enumerate(cases):
            if len(res.violations) >= 3 or (i % 64 == 0 and ctx.expired()):
                break
            # (1) run_script itself: returned cache vs the embedder's input
            snapshot = copy.deepcopy(cache)
            with vmrun.Env(cfg) as env:
                try:
                    _, _, out = F.run_script(script, cache_vals=cache, contracts={}, additional_flags=cfg.additional_flags(), plugins={},
                                             stack_max_items=cfg.max_items, stack_max_item_size=cfg.max_item_size, callstack_limit=cfg.call_limit)
                except BaseException:
                    out = None
            if not same(cache, snapshot):
                viol(cfg, snapshot, script, f'the caller\'s cache_vals dict was modified: {str(cache)[:200]}')
            if out is not None:
                for k, v in snapshot.items():
                    if isinstance(k, bytes) or k == 'returned':
                        continue
                    if k not in out or not same(out[k], v):
                        viol(cfg, snapshot, script, f'entry {k!r} is {out.get(k, "<missing>")!r} after run_script, was {v!r}')
                for k in out:
                    if not isinstance(k, bytes) and k not in snapshot and k not in ('timestamp',):
                        if k == 'returned':
                            k5_seen[0] += 1
                        else:
                            viol(cfg, snapshot, script, f'string key {k!r} was added')
            # (2) recording dict: every write at the moment it happens, incl. failed runs
            with vmrun.Env(cfg) as env:
                st, tape, stack, rec, tr = instrument.run_instrumented(cfg, snapshot, script, env)
            for opname, k in tr.str_writes:
                if k == 'returned':
                    k5_seen[0] += 1
                    continue
                viol(cfg, snapshot, script, f'{opname} of non-bytes key {k!r} during the run (ended {st})')
            before = str_view({'timestamp': vmrun.NOW, **snapshot}); before.pop('returned', None)
            after = str_view(rec); after.pop('returned', None)
            if not same(before, after):
                viol(cfg, snapshot, script, f'string-keyed values differ after the run (ended {st}): {str(after)[:160]} vs {str(before)[:160]}')
    vmrun.in_big_thread(work)
    # consequence clause: no witness can change the time used by time locks. Whatever bytes keys the interpreter leaves in the cache
    # after a time check (none on this tree), plus the obvious spellings, written by a witness first, must not move the verdict.
    def timelocks():
        F = vmrun.impl.functions()
        N = G.names()
        now = vmrun.NOW
        far = (now + 10 * 365 * 86400).to_bytes(5, 'big')
        locks = {'CHECK_EPOCH far in the future': (G.push(far) + bytes([N['CHECK_EPOCH']]), {}),
                 'CHECK_TIMESTAMP with a future-dated timestamp': (G.push(b'\x01') + bytes([N['CHECK_TIMESTAMP']]), {'timestamp': now + 5000}),
                 'CHECK_EPOCH already open': (G.push((now - 5).to_bytes(5, 'big')) + bytes([N['CHECK_EPOCH']]), {}),
                 'CHECK_TIMESTAMP not yet reached': (G.push((now + 100).to_bytes(5, 'big')) + bytes([N['CHECK_TIMESTAMP']]), {'timestamp': now})}
        with vmrun.Env(vmrun.Cfg(now=now)) as env:
            for what, (lock, cache) in locks.items():
                base = F.run_auth_scripts([lock], dict(cache))
                keys = {b'now', b'time', b'timestamp', b't', b'ts', b'clock', b'epoch', b'n'}
                try:
                    _, _, out = F.run_script(lock, dict(cache))
                    keys |= {k for k in out if isinstance(k, bytes)}
                except BaseException: pass
                for k in sorted(keys):
                    for v in (b'\x01', (now + 20 * 365 * 86400).to_bytes(5, 'big'), b'\x00'):
                        wit = G.push(v) + bytes([N['WRITE_CACHE'], len(k)]) + k + b'\x01'
                        res.note_case(('timelock-key', what, k, v))
                        got = F.run_auth_scripts([wit, lock], dict(cache))
                        if got != base and len(res.violations) < 20:
                            res.violations.append({'input': {'cfg': vmrun.Cfg(now=now).line(), 'cache': vmrun.cache_str(cache, False), 'scripts': [wit.hex(), lock.hex()], 'script': (wit + lock).hex()},
                                                   'expected': f'{what}: verdict {base} whatever bytes-keyed entries a witness wrote before (the time is interpreter-owned)',
                                                   'observed': f'verdict {got} after the witness wrote cache[{k!r}] = {v.hex()}', 'how_to_run': './check C08 --tier quick'})
    vmrun.in_big_thread(timelocks)
    # consequence clause, the other half: no witness can change the message a signature is checked against - neither by leaving
    # a message-like item under the signature, nor by writing bytes keys that spell the sigfield names; and a later read of an
    # embedder value (GET_VALUE) returns the embedder's value whatever bytes-keyed entries a witness wrote before
    def messages():
        from nacl.signing import SigningKey
        F = vmrun.impl.functions(); N = G.names()
        sk = SigningKey(bytes(range(1, 33))); pk = bytes(sk.verify_key)
        def report(what, cache, scripts, exp, got):
            if len(res.violations) < 20:
                res.violations.append({'input': {'cfg': vmrun.Cfg().line(), 'cache': vmrun.cache_str(cache, False), 'scripts': [x.hex() for x in scripts], 'script': b''.join(scripts).hex()},
                                       'expected': f'{what}: {exp}', 'observed': str(got), 'how_to_run': './check C08 --tier quick'})
        with vmrun.Env(vmrun.Cfg()) as env:
            for cache, flag in (({}, 0), ({'sigfield1': b'abc'}, 0), ({'sigfield1': b'abc'}, 1), ({'sigfield1': b'abc', 'sigfield2': b'de'}, 3), ({'sigfield1': b'abc', 'sigfield2': b'de'}, 2), ({'sigfield7': b''}, 0)):
                msg = b''.join(cache[f'sigfield{i}'] for i in range(1, 9) if f'sigfield{i}' in cache and not (flag >> (i - 1)) & 1)
                fb = bytes([flag]) if flag else b''
                for lock in (G.push(pk) + bytes([N['CHECK_SIG'], flag]), G.push(pk) + bytes([N['CHECK_MULTISIG'], flag, 1, 1])):
                    honest = G.push(sk.sign(msg).signature + fb)
                    res.note_case(('message', tuple(cache), flag, lock))
                    got = F.run_auth_scripts([honest, lock], dict(cache))
                    if got is not True: report('signature over the flag-selected sigfields', cache, [honest, lock], True, got)
                    for M in (b'forged', b'abc!', b'\x00', msg + b'x'):
                        wits = {'a message-like item left under a signature over it': G.push(M) + G.push(sk.sign(M).signature + fb),
                                'a signature over it above a message-like item': G.push(sk.sign(M).signature + fb) + G.push(M) + bytes([N['SWAP2']]),
                                'bytes keys spelling sigfield1 / sigfield2 written first': G.push(M) + bytes([N['WRITE_CACHE'], 9]) + b'sigfield1\x01' + G.push(M) + bytes([N['WRITE_CACHE'], 9]) + b'sigfield2\x01' + G.push(sk.sign(M).signature + fb)}
                        for what, w in wits.items():
                            res.note_case(('message-forge', tuple(cache), flag, lock, M, what))
                            got = F.run_auth_scripts([w, lock], dict(cache))
                            if got is not False: report(f'witness with {what} (M = {M!r}, the covered message is {msg!r})', cache, [w, lock], False, got)
                        w = G.push(M) + bytes([N['WRITE_CACHE'], 9]) + b'sigfield1\x01' + honest
                        got = F.run_auth_scripts([w, lock], dict(cache))
                        if got is not True: report('honest signature after a witness wrote the bytes key b"sigfield1"', cache, [w, lock], True, got)
            # what a successful signature / multisig check leaves in the cache has byte-string keys only, and a check a witness ran
            # itself under a permissive allowance does not carry over to the lock's stricter one
            cache = {'sigfield1': b'abc', 'sigfield2': b'de'}
            s02 = sk.sign(b'abc').signature + b'\x02'          # valid over sigfield1 only (flag 02 excludes sigfield2)
            for lockop, tail in ((N['CHECK_SIG'], b''), (N['CHECK_MULTISIG'], b'\x01\x01')):
                permissive = G.push(s02) + G.push(pk) + bytes([lockop, 0xff]) + tail
                strict = G.push(pk) + bytes([lockop, 0x00]) + tail
                res.note_case(('memo', lockop))
                try:
                    _, st_, out = F.run_script(permissive, dict(cache))
                    odd = [repr(k)[:60] for k in out if not isinstance(k, (bytes, str))] + [k for k in out if isinstance(k, str) and k not in cache and k != 'timestamp']
                    if odd: report('keys a successful check added to the cache', cache, [permissive], 'byte-string keys only', odd)
                except BaseException as e: report('a permitted flagged signature is checked', cache, [permissive], 'runs', type(e).__name__)
                got = F.run_auth_scripts([permissive + bytes([N['POP0']]) + G.push(s02), strict], dict(cache))
                if got is not False: report('a signature flagged 02, first checked by the witness itself under allowance ff, then by the lock under allowance 00', cache, [permissive + bytes([N['POP0']]) + G.push(s02), strict], False, got)
            # no bytes-keyed entry a witness can write widens what a lock permits: candidate names are every short bytes literal that
            # occurs in the interpreter's source (whatever slot an instruction might read implicitly) plus obvious spellings
            import re as _re, os as _os
            try: src_ = open(_os.path.join(_os.path.dirname(F.__file__), 'functions.py'), encoding='utf-8').read()
            except Exception: src_ = ''
            names_ = {m_.encode() for m_ in _re.findall(r"b'([A-Za-z_][A-Za-z0-9_]{0,24})'", src_)} | {b'trsf', b'sigflags', b'flags', b'allowable_sigflags', b'af', b'allowed'}
            T_ = vmrun.impl.tools()
            seed_ = bytes(range(1, 33)); cache = {'sigfield1': b'abc', 'sigfield2': b'de', 'sigfield3': b'f'}
            scr_ = T_.Script.from_src('true')
            tlock = T_.make_taproot_lock(pk, scr_).bytes                       # allows flags 00 only
            tw06 = T_.make_taproot_witness_keyspend(seed_, {'sigfield1': b'abc'}, scr_, sigflags='06').bytes      # signs sigfield1 only, flagged 06
            s06 = sk.sign(b'abc').signature + b'\x06'
            targets = (('taproot key path', tw06, tlock), ('CHECK_SIG', G.push(s06), G.push(pk) + bytes([N['CHECK_SIG'], 0])), ('CHECK_MULTISIG', G.push(s06), G.push(pk) + bytes([N['CHECK_MULTISIG'], 0, 1, 1])))
            for what_, w_, l_ in targets:
                base_ = F.run_auth_scripts([w_, l_], dict(cache))
                if base_ is not False: report(f'{what_}: a signature flagged 06 against a lock that permits 00', cache, [w_, l_], False, base_)
                for k_ in sorted(names_):
                    for v_ in (b'\x06', b'\xff'):
                        pre_ = G.push(v_) + bytes([N['WRITE_CACHE'], len(k_)]) + k_ + b'\x01'
                        res.note_case(('permit-widening', what_, k_, v_))
                        got = F.run_auth_scripts([pre_ + w_, l_], dict(cache))
                        if got is not False: report(f'{what_}: signature flagged 06, lock permits 00, after the witness wrote cache[{k_!r}] = {v_.hex()}', cache, [pre_ + w_, l_], False, got)
            # "when no plugin is installed": after the embedder removed its extensions again (two or three were installed, then reset /
            # removed one by one) none is installed - a script's signature instructions leave the sigfields alone
            def _audit(t_, s_, c_): pass
            def _rewrite(t_, s_, c_): c_['sigfield1'] = b'rewritten'
            def _rewrite2(t_, s_, c_): c_['sigfield2'] = b'rewritten'
            for how_ in ('reset', 'remove'):
                for exts in ((_audit, _rewrite), (_rewrite, _audit), (_audit, _rewrite, _rewrite2), (_rewrite, _rewrite2)):
                    try:
                        for e_ in exts: F.add_signature_extension(e_)
                        if how_ == 'reset': F.reset_signature_extensions()
                        else:
                            for e_ in exts: F.remove_signature_extension(e_)
                        cache = {'sigfield1': b'abc', 'sigfield2': b'de'}
                        probe = bytes([N['GET_MESSAGE'], 0]) + G.push(sk.sign(b'abcde').signature) + G.push(pk) + bytes([N['CHECK_SIG'], 0])
                        res.note_case(('uninstalled-extensions', how_, len(exts), exts[0].__name__))
                        _, st_, out = F.run_script(probe, dict(cache))
                        left = [f_.__name__ for f_ in F._plugins.get('signature_extensions', []) if f_ in exts]
                        if out.get('sigfield1') != b'abc' or out.get('sigfield2') != b'de' or left or [x for x in st_.list()][-1:] != [b'\xff']:
                            report(f'{len(exts)} signature extensions installed, then all of them {"reset" if how_ == "reset" else "removed"}; GET_MESSAGE and CHECK_SIG of a valid signature afterwards', cache, [probe],
                                   'sigfields unchanged, signature accepted, no extension left', f"sigfield1={out.get('sigfield1')!r} sigfield2={out.get('sigfield2')!r} still installed: {left}")
                    finally:
                        for e_ in exts:
                            while e_ in F._plugins.get('signature_extensions', []): F._plugins['signature_extensions'].remove(e_)
            for name, val in (('timestamp', vmrun.NOW), ('sigfield3', b'embedder'), ('input_ts', 1700000000), ('note', 'text'), ('amount', 2.5)):
                cache = {name: val}
                probe = bytes([N['GET_VALUE'], len(name)]) + name.encode()
                try: base = [x.hex() for x in F.run_script(probe, dict(cache))[1].list()]
                except BaseException as e: base = 'ERR:' + type(e).__name__
                for forged in (b'\x01', (vmrun.NOW + 99999).to_bytes(5, 'big'), b'forged'):
                    w = G.push(forged) + bytes([N['WRITE_CACHE'], len(name)]) + name.encode() + b'\x01'
                    res.note_case(('value-read', name, forged))
                    try: got = [x.hex() for x in F.run_script(w + probe, dict(cache))[1].list()]
                    except BaseException as e: got = 'ERR:' + type(e).__name__
                    if got != base: report(f'GET_VALUE "{name}" after a witness wrote the bytes key {name.encode()!r}', cache, [w, probe], base, got)
    vmrun.in_big_thread(messages)
    # K5: OP_RETURN keeps its control flag under the *string* key 'returned'
    if k5_seen[0]:
        if 'K5' in known:
            res.known.append(('K5', "OP_RETURN writes the string key 'returned' into the cache (e.g. script 30)"))
        else:
            cfg = vmrun.Cfg()
            viol(cfg, {}, bytes([G.names()['RETURN']]), "string key 'returned' written by OP_RETURN", finding='K5')
    res.stats['returned_key_writes_seen'] = k5_seen[0]
    res.sample({'cache': vmrun.cache_str(cases[0][1], False)[:200], 'script': cases[0][2].hex()[:120], 'impl': results[0][2][:200]})
    res.stats['search'] = 'every case is judged on the implementation alone: recording-dict write log, deep snapshots of string-keyed values, run_script output vs input'
    return res


def replay(ctx: Ctx, payload) -> bool:
    inp = payload['input']
    cfg, cache = c06.parse_case(inp['cfg'], inp['cache'])
    script = bytes.fromhex(inp['script'])
    snapshot = copy.deepcopy(cache)
    def work():
        with vmrun.Env(cfg) as env:
            return instrument.run_instrumented(cfg, cache, script, env)
    st, tape, stack, rec, tr = vmrun.in_big_thread(work)
    before = str_view({'timestamp': vmrun.NOW, **snapshot}); before.pop('returned', None)
    after = str_view(rec); after.pop('returned', None)
    bad = [w for w in tr.str_writes if w[1] != 'returned']
    print('status', st, 'str writes', tr.str_writes[:5], 'same', same(before, after))
    return not bad and same(before, after)
