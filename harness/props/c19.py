"""C19 — extension registries behave as sets; runs do not leak state into later runs.
Theorems: Props/C19.lean (the list/dict registry state machine refines the set specification
'last relevant operation was an add'). Tie: the implementation is driven through histories of
add / remove / reset / run / compile calls; after every step the active entries, what a probe
run actually consults, and the results of compiling probe sources are compared with the set
specification, and the caller's dictionaries are compared with their snapshots."""
from __future__ import annotations
import copy, itertools
from ..core import Result, Ctx
from .. import vmrun, impl
from ..gen import programs as G

RULE = ("bounded-exhaustive histories per registry (plugins: 3 plugins x 2 scopes x {add, remove} + reset per scope; contracts; interfaces; aliases) up to length 4 (quick) / 5 "
        "(thorough), plus random mixed histories of length 6-40 including run / compile steps; plugin objects are plain functions, bound methods (a fresh but equal object on every "
        "access) and callables with __eq__; after every step: registry contents vs set specification, probe run consults exactly the active plugins / contracts, compile results for "
        "probe sources (defining / invoking macros) independent of history, caller dicts unchanged; non-trivial = history length >= 1; distinct = distinct history")


class Obj:
    def __init__(self, tag, log): self.tag, self.log = tag, log
    def ext(self, tape, stack, cache): self.log.append(self.tag)


class Eqable:
    def __init__(self, tag, log): self.tag, self.log = tag, log
    def __call__(self, tape, stack, cache): self.log.append(self.tag)
    def __eq__(self, o): return isinstance(o, Eqable) and o.tag == self.tag
    def __hash__(self): return hash(self.tag)


def run(ctx: Ctx) -> Result:
    res = Result(rule=RULE)
    rng = ctx.sub_rng('c19')
    F, P, T = impl.functions(), impl.parsing(), impl.tools()
    log = []
    def plain(tape, stack, cache): log.append('p0')
    obj = Obj('p1', log)
    plugs = {'p0': lambda: plain, 'p1': lambda: obj.ext, 'p2': lambda: Eqable('p2', log)}   # p1: a NEW bound-method object on each access; p2: a new equal object
    scopes = ['signature_extensions', 'custom_scope']
    class CA:
        def abi(self, args): log.append('cA'); return [b'A']
    class CB:
        def abi(self, args): log.append('cB'); return [b'B']
        def __len__(self): return 0              # a contract object may well be falsy (e.g. an empty allow-list): it is an entry like any other
    contracts = {'cA': (b'A', CA()), 'cB': (b'B', CB())}
    from typing import Protocol, runtime_checkable
    @runtime_checkable
    class IfaceX(Protocol):
        def foo(self): ...
    @runtime_checkable
    class IfaceY(Protocol):
        def bar(self): ...
    ifaces = {'iX': IfaceX, 'iY': IfaceY}
    class OnlyFoo:
        def foo(self): return 1
    xobjs = {'k1': OnlyFoo(), 'k2': OnlyFoo(), 'none': object()}
    snap = dict(plugins=copy.copy(F._plugins), contracts=dict(F._contracts), ifaces=dict(F._contract_interfaces), aliases=dict(F.opcode_aliases))
    def restore():
        F._plugins.clear(); F._plugins.update({k: list(v) for k, v in snap['plugins'].items()})
        F._contracts.clear(); F._contracts.update(snap['contracts'])
        F._contract_interfaces.clear(); F._contract_interfaces.update(snap['ifaces'])
        F.opcode_aliases.clear(); F.opcode_aliases.update(snap['aliases'])
    probe_sig = bytes([G.names()['GET_MESSAGE'], 0])
    probe_inv = G.push(b'\x00') + G.push(b'A') + bytes([G.names()['INVOKE']]) + G.push(b'\x00') + G.push(b'B') + bytes([G.names()['INVOKE']])
    compile_probes = ['!= two [ ] { dup dup } true !two [ ]', 'false !two [ ]', 'push d1 push d2 add d2', '!= m [ a ] { push a } !m [ d5 ]', '!m [ d7 ]']
    def fresh_compile(src):
        try: return P.compile_script(src).hex()
        except BaseException as e: return 'ERR:' + type(e).__name__
    # what each probe source compiles to in a FRESH interpreter (one process per source: no history at all)
    import json, subprocess, sys
    from ..core import REPO
    def in_fresh_process(src, how):
        code = ("import sys, json; sys.path.insert(0, %r)\nimport tapescript.parsing as P\nsrc = json.loads(sys.stdin.read())\n"
                "try:\n    print((P.compile_script(src) if %r == 'compile' else P.assemble(P.get_symbols(src))).hex())\n"
                "except BaseException as e: print('ERR:' + type(e).__name__)\n" % (REPO, how))
        return subprocess.run([sys.executable, '-c', code], input=json.dumps(src), stdout=subprocess.PIPE, stderr=subprocess.PIPE, text=True, timeout=120).stdout.strip()
    baseline = {s_: in_fresh_process(s_, 'compile') for s_ in compile_probes}
    base_asm = {s_: in_fresh_process(s_, 'assemble') for s_ in compile_probes}
    def viol(hist, step, exp, obs):
        if len(res.violations) < 10:
            res.violations.append({'input': {'history': [list(map(str, h)) for h in hist], 'failing_step': step}, 'expected': str(exp)[:400], 'observed': str(obs)[:400],
                                   'how_to_run': './check C19 --replay <this file>'})
    def apply(hist):
        """runs the history on the implementation, checking the set specification after every step; returns False on the first problem"""
        shared_ts = {'timestamp': 1700000000, 'sigfield1': b'abc'}; shared_plain = {'sigfield1': b'abc', 'note': 'n'}
        restore()
        spec_pl = {s: [] for s in scopes}; spec_ct = {}; spec_if = set(snap['ifaces']); spec_al = {}; spec_x = [None]
        for idx, h in enumerate(hist):
            op = h[0]
            try:
                if op == 'add_plugin':
                    F.add_plugin(h[1], plugs[h[2]]())
                    if h[2] not in spec_pl[h[1]]: spec_pl[h[1]].append(h[2])
                elif op == 'remove_plugin':
                    F.remove_plugin(h[1], plugs[h[2]]())
                    if h[2] in spec_pl[h[1]]: spec_pl[h[1]].remove(h[2])
                elif op == 'reset_plugins':
                    F.reset_plugins(h[1]); spec_pl[h[1]] = []
                elif op == 'add_contract':
                    cid, c = contracts[h[1]]; F.add_contract(cid, c); spec_ct[cid] = h[1]
                elif op == 'remove_contract':
                    cid, c = contracts[h[1]]; F.remove_contract(cid); spec_ct.pop(cid, None)
                elif op == 'add_contract_x':
                    # an object that fulfils only the custom interface iX (or nothing at all): accepted exactly while a matching
                    # interface is active - whether or not the id is already registered
                    want_ok = h[1] != 'none' and 'IfaceX' in spec_if
                    try: F.add_contract(b'X', xobjs[h[1]]); ok = True
                    except BaseException: ok = False
                    if ok != want_ok: viol(hist, idx, f'add_contract(X, {h[1]}) accepted={want_ok} (interfaces active: {sorted(spec_if)})', f'accepted={ok}'); return False
                    if ok: spec_x[0] = h[1]
                elif op == 'remove_contract_x':
                    F.remove_contract(b'X'); spec_x[0] = None
                elif op == 'add_iface':
                    F.add_contract_interface(ifaces[h[1]]); spec_if.add(ifaces[h[1]].__name__)
                elif op == 'remove_iface':
                    F.remove_contract_interface(ifaces[h[1]]); spec_if.discard(ifaces[h[1]].__name__)
                elif op == 'add_alias':
                    try:
                        F.add_alias(h[1], h[2]); ok = True
                    except ValueError:
                        ok = False
                    want_ok = (h[1].upper() not in spec_al and h[1].upper() not in snap['aliases'] and h[1].replace('_', '').isalnum()
                               and h[2].upper().startswith('OP_') and h[2].upper()[3:] in G.names())       # a refused add leaves nothing behind (registry compared below)
                    if ok != want_ok: viol(hist, idx, f'add_alias accepted={want_ok}', f'accepted={ok}'); return False
                    if ok: spec_al[h[1].upper()] = h[2].upper()
                elif op == 'run':
                    caller_cache = {'sigfield1': b'x', 'lst': [1, 'a']}; caller_contracts = {}; caller_plugins = {}
                    snaps = copy.deepcopy((caller_cache, caller_contracts, caller_plugins))
                    del log[:]
                    try: F.run_script(probe_sig + (probe_inv if all(c in spec_ct for c in (b'A', b'B')) else b''), caller_cache, caller_contracts, {}, caller_plugins)
                    except BaseException as e: viol(hist, idx, 'probe run succeeds', type(e).__name__ + str(e)); return False
                    want = spec_pl['signature_extensions'] + (['cA', 'cB'] if all(c in spec_ct for c in (b'A', b'B')) else [])
                    if log != want: viol(hist, idx, f'probe run consults exactly {want}', list(log)); return False
                    if repr((caller_cache, caller_contracts, caller_plugins)) != repr(snaps): viol(hist, idx, "caller's dicts unchanged", (caller_cache, caller_contracts, caller_plugins)); return False
                    # an active entry is used wherever in the script the instruction sits (every block construct, function, evaluated script)
                    from . import c09 as _c09
                    names_ = list(_c09.CONTEXTS)
                    for cname in (names_[(idx + k_) % len(names_)] for k_ in range(3)):
                        if cname in ('MERKLEVAL', 'TAPROOT'): continue
                        body_ = probe_sig + (probe_inv if all(c in spec_ct for c in (b'A', b'B')) else b'')
                        del log[:]
                        try: F.run_script(_c09.CONTEXTS[cname](body_), {'sigfield1': b'x'})
                        except BaseException as e: viol(hist, idx, f'probe run inside {cname} succeeds', type(e).__name__ + str(e)); return False
                        if log != want: viol(hist, idx, f'probe run inside {cname} consults exactly {want}', list(log)); return False
                    # the same registry governs every script of a run_auth_scripts list, not only the first one
                    if all(c in spec_ct for c in (b'A', b'B')):
                        del log[:]
                        try: F.run_auth_scripts([probe_sig, probe_inv, probe_sig + probe_inv], {'sigfield1': b'x'})
                        except BaseException as e: viol(hist, idx, 'run_auth_scripts returns', type(e).__name__ + str(e)); return False
                        want3 = spec_pl['signature_extensions'] + ['cA', 'cB'] + spec_pl['signature_extensions'] + ['cA', 'cB']
                        if log != want3: viol(hist, idx, f'a three-script authorization consults exactly {want3}', list(log)); return False
                    # each contract on its own through run_auth_scripts with nothing injected (all defaults): consulted iff active NOW -
                    # an authorization made earlier, while it was active, must not keep it reachable
                    for cid_, tag_ in ((b'A', 'cA'), (b'B', 'cB')):
                        del log[:]
                        one_ = G.push(b'\x00') + G.push(cid_) + bytes([G.names()['INVOKE']])
                        try: F.run_auth_scripts([bytes([1]), one_])
                        except BaseException as e: viol(hist, idx, 'run_auth_scripts returns', type(e).__name__ + str(e)); return False
                        want1 = [tag_] if cid_ in spec_ct else []
                        if log != want1: viol(hist, idx, f'an authorization (no contracts injected) invoking {cid_!r} consults exactly {want1}', list(log)); return False
                        mine_ = {}
                        del log[:]
                        try: F.run_auth_scripts([bytes([1]), one_], {}, mine_)
                        except BaseException as e: viol(hist, idx, 'run_auth_scripts returns', type(e).__name__ + str(e)); return False
                        if mine_ != {}: viol(hist, idx, "caller's (empty) contracts dict unchanged by run_auth_scripts", sorted(map(repr, mine_))); return False
                    # the same caller dict reused for several runs (with and without its own 'timestamp'): a run that writes to its
                    # cache must neither change the caller's dict nor be visible to the next run
                    for d in (shared_ts, shared_plain):
                        snap_d = copy.deepcopy(d)
                        outs_ = []
                        for scr in (b'\x0b\x01k', b'\x02\x2a\x09\x01k\x01\x02\x01\x06\x30', b'\x0b\x01k'):      # @#k ; @= k [ x2a ] push x01 pop0 return ; @#k
                            try:
                                _, st_, _ = F.run_script(scr, d)
                                outs_.append([bytes(x) for x in st_.list()])
                            except BaseException as e:
                                outs_.append('ERR:' + type(e).__name__)
                        if repr(d) != repr(snap_d): viol(hist, idx, f"caller's cache dict unchanged by run_script: {snap_d}", d); return False
                        if outs_[0] != outs_[2] or outs_[0] != [b'\x00']: viol(hist, idx, 'a reader run sees an empty cache key whatever ran before: [00]', outs_); return False
                elif op == 'compile':
                    got = fresh_compile(h[1])
                    if got != baseline[h[1]]: viol(hist, idx, f'compile_script({h[1]!r}) = {baseline[h[1]]} (as in a fresh process)', got); return False
                elif op == 'compile_rt':
                    # a compile-time executed block sees the registries: its result depends on the *current* registry contents only
                    src = 'push ~! { push d0 push x41 invoke }'
                    got = fresh_compile(src)
                    want = '0241' if b'A' in spec_ct else 'ERR'
                    del log[:]
                    if not (got == want or (want == 'ERR' and got.startswith('ERR'))):
                        viol(hist, idx, f'compile_script({src!r}) with contract A ' + ('active' if b'A' in spec_ct else 'not active') + f' = {want}', got); return False
                elif op == 'compile_alias':
                    # an alias is usable in every position while it is active - also right after a one-symbol explicit push
                    opc_ = {k: v for k, v in G.names().items()}
                    for al_ in ('ZZ1', 'ZZ2', 'OP_XOR'):
                        for src, enc in ((f'OP_PUSH1 x01 {al_}', b'\x03\x01\x01'), (f'true {al_.lower()}', b'\x01'), (f'OP_PUSH2 x0102 {al_}', b'\x04\x00\x02\x01\x02'), (f'push d1 {al_}', b'\x02\x01')):
                            got = fresh_compile(src)
                            if al_ in spec_al:
                                want = (enc + bytes([opc_[spec_al[al_][3:]]])).hex()
                                if got != want: viol(hist, idx, f'compile_script({src!r}) with alias {al_} -> {spec_al[al_]} active = {want}', got); return False
                            elif al_ == 'OP_XOR':
                                # an alias spelled like an instruction name: while it is not active the name means the instruction itself
                                if got != (enc + bytes([opc_['XOR']])).hex(): viol(hist, idx, f'compile_script({src!r}) while OP_XOR is not an alias = the XOR instruction', got); return False
                            elif not got.startswith('ERR'):
                                viol(hist, idx, f'compile_script({src!r}) is rejected while {al_} is not an alias', got); return False
                elif op == 'assemble':
                    try: got = P.assemble(P.get_symbols(h[1])).hex()
                    except BaseException as e: got = 'ERR:' + type(e).__name__
                    if got != base_asm[h[1]]: viol(hist, idx, f'assemble(get_symbols({h[1]!r})) = {base_asm[h[1]]}', got); return False
            except BaseException as e:
                viol(hist, idx, 'the call returns', type(e).__name__ + ': ' + str(e)); return False
            # registry contents vs the set specification
            for s in scopes:
                act = F._plugins.get(s, [])
                names = []
                for p_ in act:
                    names.append('p0' if p_ is plain else 'p1' if getattr(p_, '__self__', None) is obj else 'p2' if isinstance(p_, Eqable) else '?')
                if names != spec_pl[s]: viol(hist, idx, f'plugins[{s}] = {spec_pl[s]}', names); return False
            ct = {k: next(n for n, (cid, c) in contracts.items() if c is v) for k, v in F._contracts.items() if k in (b'A', b'B')}
            if ct != spec_ct: viol(hist, idx, f'contracts = {spec_ct}', ct); return False
            gotx = next((n for n, o_ in xobjs.items() if F._contracts.get(b'X') is o_), None)
            if gotx != spec_x[0]: viol(hist, idx, f'contract X = {spec_x[0]}', gotx); return False
            if set(F._contract_interfaces) != spec_if: viol(hist, idx, f'interfaces = {sorted(spec_if)}', sorted(F._contract_interfaces)); return False
            al = {k: v for k, v in F.opcode_aliases.items() if k not in snap['aliases']}
            if al != spec_al: viol(hist, idx, f'aliases added = {spec_al}', al); return False
        return True
    # the two built-in plugin scopes in a FRESH interpreter (no registry object rebuilt by this harness): an operation on one scope
    # never shows in the other
    def fresh_plugin_history(hist):
        code = ("import sys, json; sys.path.insert(0, %r)\nimport tapescript.functions as F\n"
                "def p1(t, s, c): pass\ndef p2(t, s, c): pass\nP = {'p1': p1, 'p2': p2}\nout = []\n"
                "for h in json.load(sys.stdin):\n"
                "    try:\n"
                "        if h[0] == 'add': F.add_plugin(h[1], P[h[2]])\n"
                "        elif h[0] == 'remove': F.remove_plugin(h[1], P[h[2]])\n"
                "        else: F.reset_plugins(h[1])\n"
                "    except BaseException as e: out.append('ERR:' + type(e).__name__); continue\n"
                "    out.append({s: [f.__name__ for f in F._plugins.get(s, [])] for s in ('signature_extensions', 'check_template')})\n"
                "print(json.dumps(out))\n" % REPO)
        r = subprocess.run([sys.executable, '-c', code], input=json.dumps(hist), stdout=subprocess.PIPE, stderr=subprocess.PIPE, text=True, timeout=120)
        try: return json.loads(r.stdout)
        except Exception: return 'ERR: ' + r.stderr[-300:]
    SE, CT = 'signature_extensions', 'check_template'
    fresh_hists = [[('add', SE, 'p1')], [('add', CT, 'p1')], [('add', SE, 'p1'), ('reset', CT)], [('add', CT, 'p2'), ('reset', SE)],
                   [('add', SE, 'p1'), ('add', CT, 'p2'), ('remove', SE, 'p2'), ('remove', CT, 'p1')], [('add', SE, 'p1'), ('add', SE, 'p2'), ('remove', CT, 'p1'), ('reset', CT), ('add', CT, 'p1'), ('reset', SE)]]
    for hist in fresh_hists:
        res.note_case(('fresh-plugins', tuple(hist)))
        got = fresh_plugin_history(hist)
        spec = {SE: [], CT: []}; want = []
        for h in hist:
            if h[0] == 'add' and h[2] not in spec[h[1]]: spec[h[1]].append(h[2])
            elif h[0] == 'remove' and h[2] in spec[h[1]]: spec[h[1]].remove(h[2])
            elif h[0] == 'reset': spec[h[1]] = []
            want.append({k: list(v) for k, v in spec.items()})
        if got != want:
            viol([('fresh interpreter',)] + [tuple(h) for h in hist], next((i for i, (a_, b_) in enumerate(zip(got, want)) if a_ != b_), 0) if isinstance(got, list) else 0,
                 f'active plugins per scope after each step: {want}', got)
    # a plugin is handed the run's tape and may write to that run's plugin / contract tables (run_script builds them afresh for each
    # run): the registries change only through add / remove / reset, and an identical later run behaves identically
    def fresh_runlocal_writers(how):
        code = ("import sys, json; sys.path.insert(0, %r)\nimport tapescript.functions as F\nfrom tapescript.parsing import compile_script\n"
                "calls = []\nclass SC:\n    def abi(self, args): return [b'\\xff']\n"
                "def once(t, s, c):\n    calls.append('once'); t.plugins['signature_extensions'] = []\n"
                "def session(t, s, c):\n    calls.append('session'); t.contracts[b'session-contract'] = SC()\n"
                "def snap(): return [{k: [f.__name__ for f in v] for k, v in F._plugins.items()}, sorted(k.hex() for k in F._contracts)]\n"
                "how = %r\nout = {}\n"
                "if how[0] == 'registry': F.add_signature_extension(session); F.add_signature_extension(once); kw = {}\n"
                "else: kw = {'plugins': {'signature_extensions': [session, once]}}\n"
                "out['before'] = snap()\n"
                "msg = compile_script('GET_MESSAGE x00 POP0 GET_MESSAGE x00 POP0 PUSH d0 PUSH x' + b'session-contract'.hex() + ' INVOKE')\n"
                "inv = compile_script('PUSH d0 PUSH x' + b'session-contract'.hex() + ' INVOKE')\n"
                "runs = []\n"
                "for i in range(2):\n"
                "    calls.clear()\n"
                "    try:\n"
                "        if how[1] == 'auth': r = F.run_auth_scripts([compile_script('true'), msg], **kw)\n"
                "        else: r = [x.hex() for x in F.run_script(msg, **kw)[1].list()]\n"
                "    except BaseException as e: r = 'ERR:' + type(e).__name__\n"
                "    runs.append([list(calls), r])\n"
                "out['runs'] = runs; out['after'] = snap()\n"
                "try: F.run_script(inv); out['later_invoke'] = 'ran'\n"
                "except BaseException as e: out['later_invoke'] = 'ERR'\n"
                "print(json.dumps(out))\n" % (REPO, list(how)))
        r = subprocess.run([sys.executable, '-c', code], stdout=subprocess.PIPE, stderr=subprocess.PIPE, text=True, timeout=120)
        try: return json.loads(r.stdout)
        except Exception: return {'error': r.stderr[-400:]}
    for how in (('registry', 'run'), ('registry', 'auth'), ('argument', 'run'), ('argument', 'auth')):
        res.note_case(('fresh-runlocal-writers', how))
        got = fresh_runlocal_writers(how)
        hist_ = [('fresh interpreter',), ('plugins that write to their run\'s tape.plugins / tape.contracts', how[0]), ('run twice through', how[1])]
        if 'error' in got: viol(hist_, 0, 'the probe runs', got['error']); continue
        if got['before'] != got['after']:
            viol(hist_, 2, f"registries unchanged by runs: {got['before']}", got['after'])
        elif got['runs'][0] != got['runs'][1]:
            viol(hist_, 2, f"the second identical run behaves like the first: {got['runs'][0]}", got['runs'][1])
        elif got['later_invoke'] != 'ERR':
            viol(hist_, 2, 'a contract a plugin put into an earlier run\'s table is unknown to a later run', got['later_invoke'])
    try:
        depth = ctx.n(4, 5)
        pl_letters = [('add_plugin', s, p) for s in scopes for p in plugs] + [('remove_plugin', s, p) for s in scopes for p in plugs] + [('reset_plugins', s) for s in scopes] + [('run',)]
        if ctx.tier == 'quick':
            pl_letters = [l for l in pl_letters if l[0] == 'run' or l[1] == 'signature_extensions'] + [('add_plugin', 'custom_scope', 'p1'), ('reset_plugins', 'custom_scope')]
        small = {
            'contracts': [('add_contract', 'cA'), ('add_contract', 'cB'), ('remove_contract', 'cA'), ('remove_contract', 'cB'), ('run',)],
            'interfaces': [('add_iface', 'iX'), ('add_iface', 'iY'), ('remove_iface', 'iX'), ('remove_iface', 'iY')],
            'iface_gate': [('add_iface', 'iX'), ('remove_iface', 'iX'), ('add_contract_x', 'k1'), ('add_contract_x', 'k2'), ('add_contract_x', 'none'), ('remove_contract_x',)],
            'aliases': [('add_alias', 'zz1', 'OP_TRUE'), ('add_alias', 'zz2', 'op_false'), ('add_alias', 'ZZ1', 'OP_DUP'), ('add_alias', 'true', 'OP_TRUE'), ('add_alias', 'OP_XOR', 'OP_OR'), ('add_alias', 'keep-true', 'OP_TRUE'), ('add_alias', 'zz3', 'OP_NO_SUCH_OP'), ('compile_alias',)],
            'compile': [('compile', s) for s in compile_probes[:3]] + [('assemble', compile_probes[0]), ('assemble', compile_probes[1])],
            'compile_rt': [('add_contract', 'cA'), ('remove_contract', 'cA'), ('compile_rt',), ('compile', compile_probes[2])],
        }
        stop = False
        for ln in range(1, depth + 1):
            for hist in itertools.product(pl_letters, repeat=ln):
                if ln >= 4 and rng.random() > (.15 if ctx.tier == 'quick' else .6): continue
                res.note_case(hist)
                if not apply(hist) and len(res.violations) >= 3: stop = True; break
            if stop or ctx.expired(): break
        for name, letters in small.items():
            for ln in range(1, (ctx.n(4, 5) if name == 'iface_gate' else ctx.n(5, 6)) + 1):
                for hist in itertools.product(letters, repeat=ln):
                    if ln >= 5 and rng.random() > .3: continue
                    res.note_case((name,) + hist)
                    if not apply(hist) and len(res.violations) >= 6: break
        all_letters = pl_letters + [('compile_rt',), ('compile_alias',)] + [l for v in small.values() for l in v] + [('compile', s) for s in compile_probes] + [('assemble', s) for s in compile_probes]
        for _ in range(ctx.n(1500, 30000)):
            hist = tuple(rng.choice(all_letters) for _ in range(rng.randrange(6, 41)))
            res.note_case(hist)
            if not apply(hist) and len(res.violations) >= 8: break
            if ctx.expired(): break
    finally:
        restore()
    res.sample({'history': [list(h) for h in (('add_plugin', 'signature_extensions', 'p1'), ('remove_plugin', 'signature_extensions', 'p1'), ('run',))]})
    res.stats['compile_baseline'] = baseline
    res.stats['search'] = 'each history is judged on the implementation alone against the set specification after every step'
    return res


def replay(ctx: Ctx, payload) -> bool:
    return False
