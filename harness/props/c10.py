"""C10 — integer and float encodings are exact inverses.
Tie: int_to_bytes / bytes_to_int / uint_to_bytes / bytes_to_bool / float codecs called directly
vs the Lean model through the driver; property oracle = Python's own signed big-int codec."""
from __future__ import annotations
import math, struct
from ..core import Result, Ctx, DriverCrash
from .. import impl

RULE = ("ints: boundary bands around +-2^k, exhaustive/strided [-2^17,2^17], 2^k+d to k=16384, random to 8192 bits; "
        "byte strings: all of length 1-2, sampled 3..64; float32 bit patterns per exponent x sign x mantissa set; "
        "a case is non-trivial when it is a distinct input that reached the codec (all are); distinct = distinct (kind,input)")


def ref_i2b(n: int) -> bytes:
    nbytes = ((n.bit_length() if n >= 0 else (~n).bit_length()) // 8) + 1
    return n.to_bytes(nbytes, 'big', signed=True)


def ref_b2i(b: bytes) -> int:
    return int.from_bytes(b, 'big', signed=True)


def int_cases(ctx: Ctx):
    rng = ctx.sub_rng('ints')
    seen = set()
    def emit(n):
        if n not in seen:
            seen.add(n); return True
        return False
    out = []
    lim = 1 << 17
    if ctx.tier == 'thorough':
        out.extend(range(-lim, lim + 1))
    else:
        out.extend(range(-lim, lim + 1, 7))
        for k in range(0, 18):
            for d in range(-300, 301):
                out.append((1 << k) + d); out.append(-(1 << k) + d)
    # 2^k + d
    if ctx.tier == 'thorough':
        ks = list(range(0, 4097)) + [k for k in range(4097, 16385) if k % 8 in (0, 1, 7)]
    else:
        ks = list(range(0, 200)) + [k for k in range(200, 2049) if k % 8 in (0, 1, 7)] + \
             [rng.randrange(2049, 16385) for _ in range(60)] + [16383, 16384]
    for k in ks:
        for d in (-3, -2, -1, 0, 1, 2, 3):
            out.append((1 << k) + d); out.append(-((1 << k) + d))
    for _ in range(ctx.n(3000, 60000)):
        bits = rng.choice([rng.randrange(1, 80), rng.randrange(1, 8193)])
        n = rng.getrandbits(bits)
        out.append(n if rng.random() < .5 else -n)
    return [n for n in out if emit(n)]


def bytes_cases(ctx: Ctx):
    rng = ctx.sub_rng('bytes')
    out = [bytes([a]) for a in range(256)] + [bytes([a, b]) for a in range(256) for b in range(256)]
    for _ in range(ctx.n(20000, 400000)):
        ln = rng.choice([3, 3, 4, 8, 9, rng.randrange(3, 65)])
        b = bytearray(rng.getrandbits(8) for _ in range(ln))
        if rng.random() < .5:
            b[0] = rng.choice([0, 0xff, 0x80, 0x7f])
            if rng.random() < .5 and ln > 1:
                b[1] = rng.choice([0, 0xff, 0x80, 0x7f])
        out.append(bytes(b))
    out.append(b'')
    return out


def float_patterns(ctx: Ctx):
    rng = ctx.sub_rng('floats')
    pats = []
    for sign in (0, 1):
        for e in range(256):
            ms = {0, 1, 2, 0x400000, 0x400001, 0x3fffff, 0x7fffff, 0x7ffffe}
            for _ in range(ctx.n(4, 40)):
                ms.add(rng.getrandbits(23))
            for m in ms:
                pats.append((sign << 31) | (e << 23) | m)
    return pats


def hexs(b: bytes) -> str:
    return b.hex() or '-'


def run(ctx: Ctx) -> Result:
    F = impl.functions()
    res = Result(rule=RULE)
    lines, expect, meta = [], [], []
    counts = {'I2B': 0, 'B2I': 0, 'U2B': 0, 'B2BOOL': 0, 'F32RT': 0}

    def viol(kind, inp, expected, observed):
        res.violations.append({'input': {'kind': kind, 'value': inp}, 'expected': expected, 'observed': observed,
                               'how_to_run': f'./check C10 --replay <this file>'})

    # --- integers
    for n in int_cases(ctx):
        res.note_case(('i', n))
        try:
            got = F.int_to_bytes(n)
            obs = got.hex()
        except BaseException as e:
            got, obs = None, 'ERR:' + type(e).__name__
        ref = ref_i2b(n)
        if got != ref:
            viol('int_to_bytes', str(n), ref.hex(), obs)
        else:
            try:
                back = F.bytes_to_int(got)
            except BaseException as e:
                back = 'ERR:' + type(e).__name__
            if back != n:
                viol('bytes_to_int(int_to_bytes(n))', str(n), str(n), str(back))
        lines.append(f'I2BX {"-" if n < 0 else "+"} {abs(n):x}')
        expect.append(obs); meta.append(('int_to_bytes', str(n) if abs(n) < 1 << 80 else f'{"-" if n<0 else ""}0x{abs(n):x}'))
        counts['I2B'] += 1
        if n >= 0:
            try:
                u = F.uint_to_bytes(n).hex()
            except BaseException as e:
                u = 'ERR:' + type(e).__name__
            refu = n.to_bytes(max(1, (n.bit_length() + 7) // 8), 'big').hex()
            if u != refu:
                viol('uint_to_bytes', str(n), refu, u)
            lines.append(f'U2BX {n:x}'); expect.append(u); meta.append(('uint_to_bytes', str(n)))
            counts['U2B'] += 1
    res.sample({'int_to_bytes': '-32769', 'impl': F.int_to_bytes(-32769).hex()})

    # --- byte strings
    for b in bytes_cases(ctx):
        res.note_case(('b', b))
        try:
            obs = str(F.bytes_to_int(b))
        except BaseException as e:
            obs = 'ERR:' + type(e).__name__
        refv = str(ref_b2i(b)) if b else 'ERR:ValueError'
        if obs != refv:
            viol('bytes_to_int', b.hex(), refv, obs)
        lines.append(f'B2I {hexs(b)}'); expect.append(obs); meta.append(('bytes_to_int', b.hex()))
        counts['B2I'] += 1
        try:
            ob = 'T' if F.bytes_to_bool(b) else 'F'
        except BaseException as e:
            ob = 'ERR:' + type(e).__name__
        if ob != ('T' if any(b) else 'F'):
            viol('bytes_to_bool', b.hex(), 'T' if any(b) else 'F', ob)
        lines.append(f'B2BOOL {hexs(b)}'); expect.append(ob); meta.append(('bytes_to_bool', b.hex()))
        counts['B2BOOL'] += 1
    res.sample({'bytes_to_int': 'ff7f', 'impl': F.bytes_to_int(b'\xff\x7f')})

    # --- float32 bit patterns
    snan = 0
    for p in float_patterns(ctx):
        b = p.to_bytes(4, 'big')
        e, m = (p >> 23) & 0xff, p & 0x7fffff
        is_nan = e == 255 and m != 0
        if is_nan and not (m & 0x400000):
            snan += 1      # signalling NaN: the C float->double conversion quiets it; excluded, counted
            continue
        res.note_case(('f', p))
        try:
            back = F.float_to_bytes(F.bytes_to_float(b))
            obs = back.hex()
        except BaseException as ex:
            obs = 'ERR:' + type(ex).__name__
        if obs != b.hex():
            viol('float_to_bytes(bytes_to_float(b))', b.hex(), b.hex(), obs)
        if not is_nan:
            lines.append(f'F32RT {b.hex()}'); expect.append(obs); meta.append(('float32 round trip', b.hex()))
            counts['F32RT'] += 1
    for ln in (0, 1, 3, 5, 8):
        b = bytes(ln)
        try:
            F.bytes_to_float(b); obs = 'ok'
        except BaseException as ex:
            obs = 'ERR:' + type(ex).__name__
        res.note_case(('fl', ln))
        if obs != 'ERR:ValueError':
            viol('bytes_to_float on non-4-byte input', b.hex(), 'ERR:ValueError', obs)
    res.sample({'float32': '7f800000', 'impl': F.float_to_bytes(F.bytes_to_float(bytes.fromhex('7f800000'))).hex()})
    res.stats['excluded_signalling_nan_patterns'] = snan
    res.stats['per_function'] = counts

    # --- "integer instructions compute exact results at any magnitude that fits the item limit"
    from .. import vmrun
    from ..gen import programs as G
    N = G.names()
    irng = ctx.sub_rng('intops')
    cfg = vmrun.Cfg()
    def big(rng):
        c = rng.random()
        k = rng.choice([1, 7, 8, 15, 31, 52, 53, 54, 63, 64, 65, 127, 128, 255, 256, 1023, 1024, 1025, 2047, 4095, ctx.n(4095, 8100)])
        if c < .35: n = (1 << k) + rng.randrange(-3, 4)
        elif c < .7: n = rng.getrandbits(k + 1)
        elif c < .8: n = rng.randrange(0, 4)
        else: n = rng.getrandbits(rng.randrange(1, 200))
        return -n if rng.random() < .4 else n
    def fits(n): return len(ref_i2b(n)) <= cfg.max_item_size
    def fdiv(a, b): return a // b if b else None
    def fmod(a, b): return a % b if b else None
    # operand order as documented: a is pushed first, b last (b is the top item - "the first" - or the immediate of DIV_INT / MOD_INT)
    OPS = {'ADD_INTS': lambda a, b: {a + b}, 'SUBTRACT_INTS': lambda a, b: {b - a}, 'MULT_INTS': lambda a, b: {a * b},
           'DIV_INTS': lambda a, b: {fdiv(b, a)}, 'MOD_INTS': lambda a, b: {fmod(b, a)},
           'DIV_INT': lambda a, b: {fdiv(a, b)}, 'MOD_INT': lambda a, b: {fmod(a, b)},
           'LESS': lambda a, b: {b < a}, 'LESS_OR_EQUAL': lambda a, b: {b <= a}}
    run_lines, run_outs = [], []
    nops = 0
    for it in range(ctx.n(1500, 30000)):
        if it % 256 == 0 and ctx.expired(): break
        name = irng.choice(list(OPS))
        a, b = big(irng), big(irng)
        if not (fits(a) and fits(b)): continue
        def enc(n):
            # decoding is many-to-one: every sign-extended spelling of n is the same integer to every instruction
            e = ref_i2b(n)
            if irng.random() < .25:
                e2 = (b'\xff' if n < 0 else b'\x00') * irng.choice([1, 2, 3, 8]) + e
                if len(e2) <= cfg.max_item_size: e = e2
            return e
        if irng.random() < .15: b = a                                   # equal operands (in possibly different spellings)
        if name in ('DIV_INT', 'MOD_INT'):
            if not -2**2030 < b < 2**2030: b = irng.randrange(-300, 300)     # the immediate's length byte goes up to 255
            eb = enc(b)
            if len(eb) > 255: eb = ref_i2b(b)
            if len(eb) > 255: continue
            script = G.push(enc(a)) + bytes([N[name], len(eb)]) + eb
        elif name in ('LESS', 'LESS_OR_EQUAL'):
            script = G.push(enc(a)) + G.push(enc(b)) + bytes([N[name]])
        else:
            script = G.push(enc(a)) + G.push(enc(b)) + bytes([N[name]]) + (b'\x02' if name in ('ADD_INTS', 'SUBTRACT_INTS', 'MULT_INTS') else b'')
        if len(script) > 60000: continue
        o = vmrun.run_impl(cfg, {}, script)
        run_lines.append(vmrun.case_line('RUN', cfg, {}, [script])); run_outs.append(o)
        res.note_case(('intop', name, a, b)); nops += 1
        cands = OPS[name](a, b)
        f = vmrun.fields(o)
        if f['status'] == 'OK':
            top = f.get('stack', '-').split(',')[0]
            got = bytes.fromhex(top) if top not in ('-', 'e') else b''
            if name in ('LESS', 'LESS_OR_EQUAL'):
                okv = got in (b'\xff', b'\x00') and (got == b'\xff') in cands
            else:
                okv = len(got) > 0 and ref_b2i(got) in cands and got == ref_i2b(ref_b2i(got))
            if not okv:
                viol(name, {'a': str(a)[:80] + ('...' if len(str(a)) > 80 else ''), 'b': str(b)[:80], 'script': script.hex()[:400]},
                     'the exact integer result (minimal two\'s-complement encoding)', 'stack top ' + top[:120])
        else:
            excusable = any(c is None for c in cands) or any(c is not None and not isinstance(c, bool) and not fits(c) for c in cands)
            if not excusable:
                viol(name, {'a': str(a)[:80], 'b': str(b)[:80], 'script': script.hex()[:400]}, 'the exact integer result (it fits the item limit)', f['status'])
    # n-ary forms close to the item limit: every operand and the exact result fit, partial results (a tail sum, a partial product) do not —
    # "exact at any magnitude that fits the item limit" is about operands and result, not about an order of evaluation
    for it in range(ctx.n(240, 2400)):
        lim = [1024, 4, 8, 2, 33, 1024, 3, 16][it % 8]
        cfgn = vmrun.Cfg(max_item_size=lim)
        k = 8 * lim - 2
        cnt = irng.choice([3, 3, 4, 5, 6])
        name = ['SUBTRACT_INTS', 'ADD_INTS', 'MULT_INTS', 'SUBTRACT_INTS'][(it // 8) % 4]
        sg = irng.choice([1, -1])
        if name == 'SUBTRACT_INTS':
            tail = [sg * ((1 << k) - irng.randrange(0, 3)) for _ in range(cnt - 1)]
            first = sum(tail) + irng.choice([0, 1, -1, -sg * (1 << k), irng.randrange(-100, 100)])
            ops_ = [first] + tail; want = first - sum(tail)
        elif name == 'ADD_INTS':
            ops_ = [sg * ((1 << k) - irng.randrange(0, 3)) for _ in range(cnt - 1)]
            ops_.append(-sum(ops_) + irng.choice([0, 1, -1, sg * (1 << k), irng.randrange(-100, 100)])); irng.shuffle(ops_); want = sum(ops_)
        else:
            ops_ = [sg * (1 << (k // 2 + 1)) for _ in range(cnt - 1)] + [irng.choice([0, 0, 1, -1])]; irng.shuffle(ops_)
            want = 1
            for x_ in ops_: want *= x_
        if not all(len(ref_i2b(x_)) <= lim for x_ in ops_ + [want]): continue
        # the first popped item is the minuend: push the tail first, the first operand last
        script = b''.join(G.push(ref_i2b(x_)) for x_ in reversed(ops_)) + bytes([N[name], cnt])
        o = vmrun.run_impl(cfgn, {}, script)
        run_lines.append(vmrun.case_line('RUN', cfgn, {}, [script])); run_outs.append(o)
        res.note_case(('nary-near-limit', name, lim, tuple(ops_))); nops += 1
        f = vmrun.fields(o)
        top = f.get('stack', '-').split(',')[0] if f['status'] == 'OK' else None
        if top is None or top in ('-', 'e') or bytes.fromhex(top) != ref_i2b(want):
            viol(name + f' with {cnt} operands, item limit {lim} bytes: every operand and the exact result fit the limit',
                 {'operands_top_first': [str(x_)[:60] for x_ in ops_], 'limit': lim, 'script': script.hex()[:400], 'cfg': cfgn.line()},
                 'stack top ' + ref_i2b(want).hex()[:80], f['status'] + ' ' + str(top)[:80])
    # floats that are integers, in every binade up to the top one (|x| < 2^128): FLOAT_TO_INT gives the exact integer, INT_TO_FLOAT of it
    # gives the same 32 bits back
    import struct as _st
    for e_ in list(range(0, 128, 9)) + [23, 24, 52, 53, 63, 64, 125, 126, 127]:
        for man in (0, 1, 0x400000, 0x7fffff, irng.getrandbits(23)):
            for sgn in (0, 1):
                bits = (sgn << 31) | ((e_ + 127) << 23) | man
                fb = bits.to_bytes(4, 'big'); x = _st.unpack('!f', fb)[0]
                if x != int(x): continue
                z = int(x)
                for what_, script, want in (('FLOAT_TO_INT', G.push(fb) + bytes([N['FLOAT_TO_INT']]), ref_i2b(z)),
                                            ('INT_TO_FLOAT', G.push(ref_i2b(z)) + bytes([N['INT_TO_FLOAT']]), fb if z != 0 or sgn == 0 else None),
                                            ('FLOAT_TO_INT INT_TO_FLOAT', G.push(fb) + bytes([N['FLOAT_TO_INT'], N['INT_TO_FLOAT']]), fb if z != 0 or sgn == 0 else None)):
                    if want is None: continue
                    o = vmrun.run_impl(cfg, {}, script)
                    run_lines.append(vmrun.case_line('RUN', cfg, {}, [script])); run_outs.append(o)
                    res.note_case(('int-float', what_, bits)); nops += 1
                    f = vmrun.fields(o)
                    top = f.get('stack', '-').split(',')[0] if f['status'] == 'OK' else None
                    if top is None or top in ('-', 'e') or bytes.fromhex(top) != want:
                        viol(what_ + f' on the integer-valued float32 {fb.hex()} (= {"-" if sgn else ""}2^{e_} * (1 + {man}/2^23))', {'script': script.hex(), 'value': str(z)[:60]},
                             'stack top ' + want.hex(), f['status'] + ' ' + str(top)[:80])
    # ... and floats with a fractional part: FLOAT_TO_INT drops the fraction (towards zero, for both signs)
    for x_ in (0.5, 2.5, 123.75, 8388607.5, 1e-40, 0.999, 1.5, 3.4e5 + 0.5):
        for sg_ in (1.0, -1.0):
            fb = _st.pack('!f', sg_ * x_); xv = _st.unpack('!f', fb)[0]
            script = G.push(fb) + bytes([N['FLOAT_TO_INT']])
            o = vmrun.run_impl(cfg, {}, script)
            run_lines.append(vmrun.case_line('RUN', cfg, {}, [script])); run_outs.append(o)
            res.note_case(('float-to-int-fraction', fb)); nops += 1
            f = vmrun.fields(o); top = f.get('stack', '-').split(',')[0] if f['status'] == 'OK' else None
            want = ref_i2b(int(xv))
            if top is None or top in ('-', 'e') or bytes.fromhex(top) != want:
                viol(f'FLOAT_TO_INT on {xv!r}', {'script': script.hex()}, 'stack top ' + want.hex() + f' (= {int(xv)}, the fraction dropped)', f['status'] + ' ' + str(top)[:40])
    # the most negative value of a width (-2^(8W-1): top byte 80, W bytes) as an exact RESULT under an item limit of W bytes - two's
    # complement is asymmetric: it fits although its magnitude has one bit more than any positive value that fits
    for lim in (1, 2, 4, 8, 33, 1024):
        cfgm = vmrun.Cfg(max_item_size=lim); mn = -(1 << (8 * lim - 1)); h = 1 << (8 * lim - 2)
        for what_, script in (('ADD_INTS', G.push(ref_i2b(-h)) * 2 + bytes([N['ADD_INTS'], 2])),
                              ('ADD_INTS of three', G.push(ref_i2b(-h)) + G.push(ref_i2b(-h + 5)) + G.push(ref_i2b(-5)) + bytes([N['ADD_INTS'], 3])),
                              ('SUBTRACT_INTS', G.push(ref_i2b(h)) + G.push(ref_i2b(-h)) + bytes([N['SUBTRACT_INTS'], 2])),
                              ('MULT_INTS', G.push(ref_i2b(-2)) + G.push(ref_i2b(h)) + bytes([N['MULT_INTS'], 2])),
                              ('DIV_INTS', G.push(ref_i2b(1)) + G.push(ref_i2b(mn)) + bytes([N['DIV_INTS']]))):
            o = vmrun.run_impl(cfgm, {}, script)
            run_lines.append(vmrun.case_line('RUN', cfgm, {}, [script])); run_outs.append(o)
            res.note_case(('most-negative-result', what_, lim)); nops += 1
            f = vmrun.fields(o); top = f.get('stack', '-').split(',')[0] if f['status'] == 'OK' else None
            if top is None or top in ('-', 'e') or bytes.fromhex(top) != ref_i2b(mn):
                viol(what_ + f' with the exact result -2^{8 * lim - 1} under an item limit of {lim} byte(s)', {'script': script.hex()[:400], 'cfg': cfgm.line()}, 'stack top ' + ref_i2b(mn).hex()[:40], f['status'] + ' ' + str(top)[:40])
    # instructions that *produce* integers from lengths / counts use the same signed encoding (SIZE, DEPTH)
    for n in sorted({0, 1, 2, 126, 127, 128, 129, 200, 254, 255, 256, 257, 511, 512, 1000, 1023, 1024} | {irng.randrange(0, 1025) for _ in range(ctx.n(20, 200))}):
        script = G.push(bytes([7]) * n) + bytes([N['SIZE']]) if n else bytes([N['PUSH1'], 0, N['SIZE']])
        o = vmrun.run_impl(cfg, {}, script)
        run_lines.append(vmrun.case_line('RUN', cfg, {}, [script])); run_outs.append(o)
        res.note_case(('intop', 'SIZE', n)); nops += 1
        f = vmrun.fields(o); top = f.get('stack', '-').split(',')[-1]
        if f['status'] != 'OK' or top in ('-', 'e') or bytes.fromhex(top) != ref_i2b(n):
            viol('SIZE', {'item_length': n, 'script': script.hex()[:80]}, 'the length as a signed integer: ' + ref_i2b(n).hex(), f['status'] + ' stack top ' + top[:40])
    for n in (0, 1, 127, 128, 129, 255, 256, 300):
        script = bytes([N['TRUE']]) * n + bytes([N['DEPTH']])
        o = vmrun.run_impl(cfg, {}, script)
        run_lines.append(vmrun.case_line('RUN', cfg, {}, [script])); run_outs.append(o)
        res.note_case(('intop', 'DEPTH', n)); nops += 1
        f = vmrun.fields(o); top = f.get('stack', '-').split(',')[-1]
        if f['status'] != 'OK' or top in ('-', 'e') or bytes.fromhex(top) != ref_i2b(n):
            viol('DEPTH', {'items': n}, 'the count as a signed integer: ' + ref_i2b(n).hex(), f['status'] + ' stack top ' + top[:40])
    # decimal literals of every magnitude reach the byte code as the encoding of exactly that integer (no detour through a float)
    from .. import impl as _impl
    Pp = _impl.parsing()
    lit = [n for n in int_cases(ctx) if 0 < len(ref_i2b(n)) <= 200]
    lit = [lit[i] for i in range(0, len(lit), max(1, len(lit) // ctx.n(400, 4000)))] + [2**53 + 1, -(2**53 + 1), 2**64 - 1, 10**30 + 7, -(10**40) - 3, 9007199254740993]
    for n in lit:
        e = ref_i2b(n)
        res.note_case(('literal', n))
        for src, want in ((f'OP_PUSH1 d{n} true', bytes([3, len(e)]) + e + b'\x01'), (f'push d{n}', (bytes([2]) if len(e) == 1 else bytes([3, len(e)])) + e),
                          (f'div_int d{n}', bytes([N['DIV_INT'], len(e)]) + e), (f'mod_int d{n}', bytes([N['MOD_INT'], len(e)]) + e)):
            try: got = Pp.compile_script(src)
            except BaseException as ex: got = ('ERR:' + type(ex).__name__).encode()
            if got != want:
                viol('compile_script(' + src[:60] + ('...' if len(src) > 60 else '') + ')', {'source': src[:300]}, want.hex()[:120], got.hex()[:120] if not got.startswith(b'ERR:') else got.decode())
    res.stats['integer_instruction_cases'] = nops
    if ctx.driver.available and run_lines:
        try:
            for l, r, o in zip(run_lines, ctx.driver.run(run_lines), run_outs):
                ok, soft, why = vmrun.compare_run(r, o)
                if not ok and len(res.disagreements) < 50:
                    res.disagreements.append({'function': 'integer instruction', 'input': l[-200:], 'model': r[:200], 'implementation': o[:200], 'why': why})
        except DriverCrash as e:
            res.disagreements.append({'driver': str(e)})

    # --- model vs implementation
    if ctx.driver.available:
        try:
            replies = ctx.driver.run(lines)
        except DriverCrash as e:
            replies = None
            res.disagreements.append({'driver': str(e)})
        if replies is not None:
            for r, x, m in zip(replies, expect, meta):
                if r != x:
                    if len(res.disagreements) < 50:
                        res.disagreements.append({'function': m[0], 'input': m[1], 'model': r, 'implementation': x})
                    else:
                        res.disagreements.append(None)
            res.disagreements = [d for d in res.disagreements if d is not None] + \
                [{'more': True}] * 0
    else:
        res.disagreements.append({'driver': 'not built'})
    res.stats['search'] = ('every generated case is also judged by the property oracle (Python signed big-int codec / '
                           'bit-exact float round trip) on the implementation alone')
    return res


def replay(ctx: Ctx, payload) -> bool:
    F = impl.functions()
    inp = payload.get('input')
    if not inp:
        return False
    k, v = inp['kind'], inp['value']
    try:
        if k == 'int_to_bytes':
            n = int(v, 0); return F.int_to_bytes(n) == ref_i2b(n)
        if k.startswith('bytes_to_int(int'):
            n = int(v, 0); return F.bytes_to_int(F.int_to_bytes(n)) == n
        if k == 'bytes_to_int':
            b = bytes.fromhex(v); return F.bytes_to_int(b) == ref_b2i(b)
        if k == 'uint_to_bytes':
            n = int(v, 0); return F.uint_to_bytes(n) == n.to_bytes(max(1, (n.bit_length() + 7) // 8), 'big')
        if k == 'bytes_to_bool':
            b = bytes.fromhex(v); return F.bytes_to_bool(b) == any(b)
        if k.startswith('float_to_bytes'):
            b = bytes.fromhex(v); return F.float_to_bytes(F.bytes_to_float(b)) == b
    except BaseException:
        return False
    return False
