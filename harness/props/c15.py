"""C15 — hash- and point-time-locked contracts: claim and refund paths are exact.
Theorems: Props/C15.lean. Tie: lock builder bytes vs the model's; verdicts of the four witness
kinds against the six lock kinds at timestamps around the deadline and around the clock slack,
judged on the implementation alone by the property's sentence; every list also run on the model."""
from __future__ import annotations
import hashlib
import nacl.bindings as nb
from nacl.signing import SigningKey
from ..core import Result, Ctx
from .. import vmrun
from ..builders import Bench, try_build, hexof, replay_scripts
from ..gen import values as V

RULE = ("receiver / refund seeds x preimage lengths 1..64 x digest sizes x timeouts x timestamps {deadline-1, deadline, deadline+1} x clock offsets {t-now = 59, 60, 61} x tweak scalars "
        "x sigfields x flags: claim = right preimage + receiver signature (any time); refund = refund-key signature with t >= deadline and t - now < 60; wrong preimage, early refund, "
        "refund ahead of the clock by the threshold or more, any other key -> rejected; PTLC with and without tweak (claim key = receiver + T, witness signs with x + t); "
        "cross-pairings of the four witness kinds with the six lock kinds; non-trivial = all; distinct = distinct tuples")


def run(ctx: Ctx) -> Result:
    res = Result(rule=RULE)
    rng = ctx.sub_rng('c15')
    B = Bench(ctx, res); T = B.T
    for it in range(ctx.n(40, 500)):
        rs, fs, os_ = V.rbytes(rng, 32), V.rbytes(rng, 32), V.rbytes(rng, 32)
        rk, fk = bytes(SigningKey(rs).verify_key), bytes(SigningKey(fs).verify_key)
        pre = V.rbytes(rng, rng.choice([1, 2, 16, 32, 33, 64]))
        hs = rng.choice([20, 20, 16, 32, 1, 4, 8, 15, 17, 41, 64])
        far = [2**31 - vmrun.NOW - 1, 2**31 - vmrun.NOW, 2**31 - vmrun.NOW + 1, 2**32 - vmrun.NOW - 1, 2**32 - vmrun.NOW, 2**32 - vmrun.NOW + 7]      # deadlines around 2^31 and 2^32
        timeout = far[(it // 4) % len(far)] if it % 4 == 3 else rng.choice([0, 1, 30, 60, 61, 3600])
        flags = rng.choice(['00', '00', '01', '03', '80', '40', '%02x' % (1 << rng.randrange(8)), '%02x' % rng.randrange(256)])
        sf = {'sigfield1': V.rbytes(rng, 6), 'sigfield2': V.rbytes(rng, 9)}
        tw = V.rbytes(rng, 32)
        if it % 9 in (4, 7):
            # degenerate but legal: the tweak scalar is the receiver's (or the refund key's) own secret scalar, so T equals that key
            h_ = bytearray(hashlib.sha512(rs if it % 9 == 4 else fs).digest()[:32]); h_[0] &= 248; h_[31] &= 127; h_[31] |= 64
            tw = bytes(h_)
        twc = bytes(tw[:31]) + bytes([tw[31] & 0x7f]); Tp = nb.crypto_scalarmult_ed25519_base_noclamp(twc)
        deadline = B.now + timeout
        inp = {'receiver_seed': rs.hex(), 'refund_seed': fs.hex(), 'preimage': pre.hex(), 'timeout': timeout, 'flags': flags}
        res.note_case((rs, fs, pre, hs, timeout, flags))
        with B.pinned():
            locks = {
                'htlc_sha256': try_build(T.make_htlc_sha256_lock, rk, fk, pre, None, timeout, flags),
                'htlc_shake256': try_build(T.make_htlc_shake256_lock, rk, fk, pre, None, hs, timeout, flags),
                'htlc2_sha256': try_build(T.make_htlc2_sha256_lock, rk, fk, pre, None, timeout, flags),
                'htlc2_shake256': try_build(T.make_htlc2_shake256_lock, rk, fk, pre, None, hs, timeout, flags),
                'ptlc': try_build(T.make_ptlc_lock, rk, fk, None, timeout, flags),
                'ptlc_tweak': try_build(T.make_ptlc_lock, rk, fk, Tp, timeout, flags),
            }
        fl = int(flags, 16)
        B.build(f'BUILD2 htlc_sha256_lock {hashlib.sha256(pre).hexdigest()} {rk.hex()} {fk.hex()} {deadline} {fl}', hexof(locks['htlc_sha256']))
        B.build(f'BUILD2 htlc_shake256_lock {hashlib.shake_256(pre).hexdigest(hs)} {rk.hex()} {fk.hex()} {hs} {deadline} {fl}', hexof(locks['htlc_shake256']))
        B.build(f'BUILD2 htlc2_sha256_lock {hashlib.sha256(pre).hexdigest()} {rk.hex()} {fk.hex()} {deadline} {fl}', hexof(locks['htlc2_sha256']))
        B.build(f'BUILD2 htlc2_shake256_lock {hashlib.shake_256(pre).hexdigest(hs)} {rk.hex()} {fk.hex()} {hs} {deadline} {fl}', hexof(locks['htlc2_shake256']))
        B.build(f'BUILD2 ptlc_lock {rk.hex()} {fk.hex()} none {deadline} {fl}', hexof(locks['ptlc']))
        B.build(f'BUILD2 ptlc_lock {rk.hex()} {fk.hex()} {Tp.hex()} {deadline} {fl}', hexof(locks['ptlc_tweak']))
        if any(isinstance(l, str) for l in locks.values()):
            B.viol('a lock builder raised', inp, 'locks', {k: v for k, v in locks.items() if isinstance(v, str)}); continue
        # the signer may hold the same sigfields in another insertion order than the verifier: the message is in index order
        sfw = dict(reversed(list(sf.items()))) if it % 3 == 1 else sf
        def W(seed, preimage, sf=sfw):
            return {'htlc': try_build(T.make_htlc_witness, seed, preimage, sf, flags), 'htlc2': try_build(T.make_htlc2_witness, seed, preimage, sf, flags),
                    'ptlc': try_build(T.make_ptlc_witness, seed, sf, None, flags), 'ptlc_tweak': try_build(T.make_ptlc_witness, seed, sf, twc, flags),
                    'ptlc_refund': try_build(T.make_ptlc_refund_witness, seed, sf, flags)}
        import hashlib as _h
        def differs(c): return _h.shake_256(c).digest(hs) != _h.shake_256(pre).digest(hs) and c != pre      # tiny digests collide: "wrong" must mean a different digest
        wrong = next(c for c in (pre + bytes([j]) for j in range(256)) if differs(c))
        dummy = next(c for c in (bytes([j]) for j in range(256)) if differs(c))
        claim, refund, stranger, wrongpre = W(rs, pre), W(fs, dummy), W(os_, pre), W(rs, wrong)
        if any(isinstance(w, str) for d in (claim, refund, stranger) for w in d.values()):
            B.viol('a witness builder raised', inp, 'witnesses', [w for d in (claim, refund, stranger) for w in d.values() if isinstance(w, str)]); continue
        fam = {'htlc_sha256': 'htlc', 'htlc_shake256': 'htlc', 'htlc2_sha256': 'htlc2', 'htlc2_shake256': 'htlc2', 'ptlc': 'ptlc', 'ptlc_tweak': 'ptlc_tweak'}
        times = [(deadline - 1, B.now if deadline - 1 - B.now < 60 else deadline - 1), (deadline, B.now if deadline - B.now < 60 else deadline), (deadline + 1, deadline + 1),
                 (deadline + 5, deadline + 5 - 59), (deadline + 5, deadline + 5 - 60), (deadline + 5, deadline + 5 - 61),
                 # validated again later: the verifier's clock is well past the execution timestamp (only a timestamp AHEAD of the clock is refused)
                 (deadline, deadline + 60), (deadline + 1, deadline + 1 + 3600), (deadline + 5, deadline + 5 + 61)]
        for lk, l in locks.items():
            for t, now in times:
                if now < 0 or t < 0: continue
                cache = {**sf, 'timestamp': t}
                ctx_inp = {**inp, 'lock': lk, 't': t, 'now': now, 'deadline': deadline, 'cache': vmrun.cache_str(cache, False)}
                def chk(what, w, want):
                    ok, v = B.auth([w.bytes, l.bytes], cache, now=now)
                    if ok != want: B.viol(what + f' vs {lk} lock (t - deadline = {t - deadline}, t - now = {t - now})', {**ctx_inp, 'scripts': [w.bytes.hex(), l.bytes.hex()]}, want, v)
                wk = fam[lk]
                chk('claim witness (right preimage / receiver key)', claim[wk], True)
                refund_ok = t >= deadline and t - now < 60
                chk('refund witness (refund key)', refund['ptlc_refund'] if wk.startswith('ptlc') else refund[wk], refund_ok)
                if wk in ('htlc', 'htlc2'):
                    chk('receiver signature with a wrong preimage', wrongpre[wk], False)
                chk('claim attempt by another key', stranger[wk], False)
                if wk.startswith('ptlc') and refund['ptlc_refund'].bytes.endswith(b'\x00'):
                    # the path selector is a stack item like any other: any set bit makes it true - a refund signature under a selector
                    # that merely begins with a zero byte is a claim attempt by the wrong key
                    for sel in (b'\x00\x01', b'\x00\x00\x07', b'\x00' + pre[:3] + b'\x01'):
                        wsel = T.Script.from_bytes(refund['ptlc_refund'].bytes[:-1] + bytes([3, len(sel)]) + sel)
                        chk(f'refund-key signature under the truthy selector {sel.hex()}', wsel, False)
                if wk.startswith('ptlc'): chk('refund attempt by another key', stranger['ptlc_refund'], False)
                if lk == 'ptlc_tweak': chk('receiver signature without the tweak scalar', claim['ptlc'], False)
                if lk == 'ptlc': chk('tweaked signature against the untweaked lock', claim['ptlc_tweak'], False)
                # a sigfield the flags exclude is not signed: the verifier may see another value there (or none) without effect
                masked = [k for k in sf if (fl >> (int(k[8:]) - 1)) & 1]
                if masked and t == deadline + 1:
                    k_ = masked[0]
                    for cache2 in ({**cache, k_: sf[k_] + b'!'}, {k2: v2 for k2, v2 in cache.items() if k2 != k_}):
                        def chk2(what, w, want):
                            ok, v = B.auth([w.bytes, l.bytes], cache2, now=now)
                            if ok != want: B.viol(what + f' vs {lk} lock, excluded {k_} changed / absent at validation', {**ctx_inp, 'cache': vmrun.cache_str(cache2, False), 'scripts': [w.bytes.hex(), l.bytes.hex()]}, want, v)
                        chk2('claim witness', claim[wk], True)
                        chk2('refund witness', refund['ptlc_refund'] if wk.startswith('ptlc') else refund[wk], refund_ok)
            # the slack threshold is the verifier's: passed per run (additional_flags), it governs the refund branch like the default does
            wk_ = fam[lk]
            for thr_, lead in ((10, 30), (10, 5), (3600, 100), (3600, 30), (0, 100000), (60, 30), (60, 100)):
                t_ = deadline + 5; now_ = t_ - lead
                if now_ < 0: continue
                cfg2 = vmrun.Cfg(now=now_, ts=thr_)
                cache2 = {**sf, 'timestamp': t_}
                wr_ = (refund['ptlc_refund'] if wk_.startswith('ptlc') else refund[wk_])
                o2 = vmrun.run_impl(cfg2, cache2, wr_.bytes + l.bytes)
                f2 = vmrun.fields(o2); got2 = f2['status'] == 'OK' and f2.get('stack') == 'ff'
                want2 = thr_ <= 0 or lead < thr_
                res.note_case(('per-run-slack', lk, thr_, lead, rs))
                if got2 != want2:
                    B.viol(f'refund witness vs {lk} lock as one script, ts_threshold = {thr_} passed for this run, t - now = {lead}', {**inp, 'lock': lk, 'cfg': cfg2.line(), 'cache': vmrun.cache_str(cache2, False), 'scripts': [wr_.bytes.hex(), l.bytes.hex()]}, want2, o2[:80])
            # "once the execution timestamp reaches creation time + timeout": a verifier that passes no timestamp gets the clock of
            # *that* run - also when it hands the same context dict (or none) to an earlier run before the deadline
            if it % 4 == 0 and timeout >= 1:
                wr_ = (refund['ptlc_refund'] if wk_.startswith('ptlc') else refund[wk_])
                ctxd = dict(sf)                     # no 'timestamp': the run's own clock applies
                hist = []
                for now_ in (deadline - 1, deadline, deadline + 7):
                    if now_ < 0: continue
                    with vmrun.Env(vmrun.Cfg(now=now_)) as env:
                        try: got_ = env.F.run_auth_scripts([wr_.bytes, l.bytes], ctxd)
                        except BaseException as e: got_ = 'RAISED:' + type(e).__name__
                    hist.append((now_ - deadline, got_))
                    res.note_case(('clock-history', lk, now_ - deadline, rs))
                    if got_ is not (now_ >= deadline):
                        B.viol(f'refund witness vs {lk} lock, no timestamp supplied, the same context dict reused over runs at clock - deadline = {[h[0] for h in hist]}',
                               {**inp, 'lock': lk, 'scripts': [wr_.bytes.hex(), l.bytes.hex()], 'context_after': sorted(str(k) for k in ctxd)}, now_ >= deadline, hist)
                        break
            # the interpreter-wide slack threshold (functions.flags['ts_threshold'], the documented knob) as it is NOW governs the refund
            # branch - also when authorizations ran in this process before the operator changed it
            if it % 10 == 0:
                F_ = B.F; saved_ = dict(F_.flags)
                wr_ = (refund['ptlc_refund'] if wk_.startswith('ptlc') else refund[wk_])
                try:
                    with vmrun.Env(vmrun.Cfg(now=B.now)) as env: env.F.run_auth_scripts([claim[wk_].bytes, l.bytes], {**sf, 'timestamp': B.now})
                    for thr_, lead in ((10, 30), (3600, 120), (60, 30), (5, 5), (0, 5000)):
                        F_.flags['ts_threshold'] = thr_
                        t_ = deadline + 5; now_ = t_ - lead
                        if now_ < 0: continue
                        with vmrun.Env(vmrun.Cfg(now=now_)) as env:
                            try: got_ = env.F.run_auth_scripts([wr_.bytes, l.bytes], {**sf, 'timestamp': t_})
                            except BaseException as e: got_ = 'RAISED:' + type(e).__name__
                        want_ = thr_ <= 0 or lead < thr_
                        res.note_case(('global-slack-history', lk, thr_, lead, rs))
                        if got_ is not want_:
                            B.viol(f"refund witness vs {lk} lock after functions.flags['ts_threshold'] was set to {thr_} (an authorization had run before), t - now = {lead}", {**inp, 'lock': lk, 'scripts': [wr_.bytes.hex(), l.bytes.hex()]}, want_, got_)
                finally:
                    F_.flags.clear(); F_.flags.update(saved_)
            # cross-pairings at a neutral time
            cache = {**sf, 'timestamp': B.now}
            for wk2, w in stranger.items():          # "any other key is rejected": every witness kind made by a stranger, against every lock kind
                ok, v = B.auth([w.bytes, l.bytes], cache)
                if ok: B.viol(f'{wk2} witness made with an unrelated key unlocks a {lk} lock', {**inp, 'scripts': [w.bytes.hex(), l.bytes.hex()], 'cache': vmrun.cache_str(cache, False)}, False, v)
            for wk2, w in claim.items():             # same-key cross layouts may legitimately coincide (a preimage is a truthy path marker): model comparison only
                B.auth([w.bytes, l.bytes], cache)
    B.finish()
    res.sample({'htlc_sha256_lock': B.builds[0][1][:200]})
    res.stats['search'] = 'each (witness, lock, time) judged on the implementation alone by the property sentence'
    return res


def replay(ctx: Ctx, payload) -> bool:
    return replay_scripts(payload)
