"""C18 — anonymous multi-hop locks: consistent setup and right-to-left release cascade.
Theorems: Props/C18.lean (group-level). Tie: AMHL.* and setup_amhl / release_left_amhl_lock /
decrypt_adapter for chains of 2..8, judged on the implementation alone by independent integer /
PyNaCl arithmetic; histories of several setups in one process (no state may leak between them)."""
from __future__ import annotations
import hashlib, itertools
import nacl.bindings as nb
from nacl.signing import SigningKey
from ..core import Result, Ctx, known_ids
from .. import vmrun, impl
from ..gen import values as V
from .c02 import ref_verify

L = 2**252 + 27742317777372353535851937790883648493
RULE = ("seeds (incl. empty / None) x chain lengths 2..8 x key sets x sigfields per hop x with / without refund keys: hop i's tweak point = sum of the points of secrets 0..i, "
        "every party's view passes check_setup, the final key opens the last lock, the release cascade right to left yields exactly the scalar that decrypts the next-left "
        "adapter into a signature satisfying that hop's lock, scalars from other hops / other chains do not; repeated and interleaved setups in one process; "
        "non-trivial = all; distinct = distinct (seed, n, variant)")


def run(ctx: Ctx) -> Result:
    res = Result(rule=RULE)
    rng = ctx.sub_rng('c18')
    F, T = impl.functions(), impl.tools()
    A = T.AMHL
    cfg = vmrun.Cfg()
    def viol(what, inp, exp, obs):
        if len(res.violations) < 10:
            res.violations.append({'input': {'what': what, **inp}, 'expected': exp, 'observed': str(obs)[:300], 'how_to_run': './check C18 --replay <this file>'})
    base = lambda s: nb.crypto_scalarmult_ed25519_base_noclamp(s)
    histories = []
    builds, autheds = [], []          # model ties: builder bytes per hop, and (cache, scripts, verdict) of every hop's adapter check
    for it in range(ctx.n(60, 600)):
        n = rng.choice([2, 2, 3, 4, 5, 8])
        seed = rng.choice([V.rbytes(rng, rng.choice([1, 3, 16, 32, 33, 40, 64, 100])), b'', None, b'fixed-seed', b'fixed-seed', b'route-prefix-of-thirty-two-bytes!' + bytes([rng.randrange(4)]), b'route-prefix-of-thirty-two-bytes!' + V.rbytes(rng, 8)])
        histories.append((n, seed))
    prev_by_seed = {}
    seedless_seen = {}
    for n, seed in histories:
        res.note_case(('setup', n, seed, len(prev_by_seed)))
        inp = {'n': n, 'seed': None if seed is None else seed.hex(), 'earlier_setups_in_process': len(prev_by_seed)}
        try:
            s = A.setup(n, seed)
        except BaseException as e:
            viol('AMHL.setup raised', inp, 'a setup', type(e).__name__); continue
        y, Y = s
        if not seed:
            # no seed: the secrets are drawn at random for THIS setup - two seedless setups in one process never share a secret
            # ("a scalar from any other chain does not" open a lock would otherwise fail by construction)
            prev_ = seedless_seen.get(bytes(y[0])) if len(y) else None
            if prev_ is not None:
                viol('two seedless setups in one process drew the same secrets: the scalars of one chain open the other chain\'s locks', {**inp, 'earlier_seedless_setup': prev_}, 'fresh random secrets per setup', y[0].hex())
            for y_ in y: seedless_seen[bytes(y_)] = len(seedless_seen)
        if len(y) != n or len(Y) != n:
            viol('AMHL.setup length', inp, f'{n} scalars and {n} points', f'{len(y)} / {len(Y)}'); continue
        if seed:
            exp_y = [bytes(bytearray(hashlib.sha256(seed + i.to_bytes(8, 'big')).digest()[:31]) + bytes([hashlib.sha256(seed + i.to_bytes(8, 'big')).digest()[31] & 0x7f])) for i in range(n)]
            if list(y) != exp_y: viol('AMHL.samples are not the documented function of (seed, i)', inp, exp_y[0].hex(), y[0].hex())
        acc = None
        for i in range(n):
            pt = base(y[i]); acc = pt if acc is None else nb.crypto_core_ed25519_add(acc, pt)
            if Y[i] != acc: viol(f'tweak point of hop {i} is not the sum of the points of secrets 0..{i}', inp, acc.hex(), Y[i].hex()); break
        for i in range(n + 1):
            view = A.setup_for(s, i)
            if not A.check_setup(view, i, n): viol(f'party {i} of {n}: check_setup rejects its own view', inp, 'True', view)
        final = A.setup_for(s, n)
        k = final[-1]
        # the receiver's view: the lock it is handed is the last one, and the key in the same view opens it
        try:
            if final[0][0] != Y[n - 1] or not A.verify_lock_key(final[0][0], final[-1]):
                viol('receiver view: the key in the view does not open the lock in the view / the lock is not the last one', inp, Y[n - 1].hex(), str(final[0][0].hex() if isinstance(final[0][0], bytes) else final[0][0]))
        except BaseException as e:
            viol('receiver view: malformed', inp, '((Y_last, 0, 0), key)', type(e).__name__)
        ksum = sum(int.from_bytes(x, 'little') for x in y) % L
        if int.from_bytes(k, 'little') % L != ksum: viol('final key is not the sum of all secrets', inp, hex(ksum), k.hex())
        if not A.verify_lock_key(Y[n - 1], k): viol('final key does not open the last lock', inp, 'True', False)
        # hop i's tweak point is the sum of the points of secrets 0..i - judged with the module's own key test on the *raw* sums
        # (hop 0's key is the raw sample, which need not be reduced mod L)
        raw = 0
        for i in range(n):
            raw += int.from_bytes(y[i], 'little')
            if i == 0 and not A.verify_lock_key(Y[0], y[0]): viol('verify_lock_key(Y_0, y_0) with the raw first secret', inp, 'True', False)
            if not A.verify_lock_key(Y[i], (raw % L).to_bytes(32, 'little')): viol(f'verify_lock_key(Y_{i}, y_0 + ... + y_{i} mod L)', inp, 'True', False)
        kk = k
        for i in range(n - 1, 0, -1):
            r = A.release(kk, y[i])
            if not A.verify_lock_key(Y[i - 1], r): viol(f'release at hop {i} does not open hop {i-1}', inp, 'True', False)
            for j in range(n):
                if j != i - 1 and Y[j] != Y[i - 1] and A.verify_lock_key(Y[j], r): viol(f'released scalar for hop {i-1} opens hop {j}', inp, 'False', True)
            kk = r
    # different seeds give unrelated chains: no scalar of one chain opens a lock of the other (also when the seeds share a long prefix)
    pairs = [(b'route-prefix-of-thirty-two-bytes!' + b'\x00', b'route-prefix-of-thirty-two-bytes!' + b'\x01'), (b'a' * 40, b'a' * 41), (b'a' * 32, b'a' * 33),
             (V.rbytes(rng, 31) + b'\x00', None)]
    pairs = [(a, b if b is not None else a[:-1] + b'\x01') for a, b in pairs]
    for sa_, sb_ in pairs:
        n = rng.choice([2, 3, 5])
        res.note_case(('two-chains', sa_, sb_, n))
        (ya, Ya), (yb, Yb) = A.setup(n, sa_), A.setup(n, sb_)
        inp = {'n': n, 'seed_a': sa_.hex(), 'seed_b': sb_.hex()}
        if list(ya) == list(yb) or list(Ya) == list(Yb):
            viol('two different seeds give the same chain', inp, 'different secrets', ya[0].hex()); continue
        kb = A.setup_for((yb, Yb), n)[-1]
        cum = 0
        for j in range(n):
            cum = (cum + int.from_bytes(yb[j], 'little')) % L
            for i in range(n):
                if A.verify_lock_key(Ya[i], cum.to_bytes(32, 'little')): viol(f'a cumulative scalar of another chain opens hop {i}', inp, 'False', True)
        if A.verify_lock_key(Ya[n - 1], kb): viol('the final key of another chain opens the last lock', inp, 'False', True)
    # broad sweep: among many chains, a lock is opened by the cumulative scalar of its own hop and by no other scalar of any
    # hop of any chain (an equality test that looks at part of a point would pass a fraction of these)
    pool = []
    for c in range(ctx.n(24, 120)):
        n = 8
        yc, Yc = A.setup(n, b'sweep' + c.to_bytes(2, 'big') + V.rbytes(rng, 4))
        cum = 0
        for j in range(n):
            cum = (cum + int.from_bytes(yc[j], 'little')) % L
            pool.append((c, j, Yc[j], cum.to_bytes(32, 'little')))
    wrong = 0
    for a_i, (ca, ja, Ya_, _) in enumerate(pool):
        for b_i in rng.sample(range(len(pool)), min(len(pool), ctx.n(24, 60))) + [a_i]:
            cb, jb, Yb_, kb_ = pool[b_i]
            got = A.verify_lock_key(Ya_, kb_)
            res.note_case(('sweep', a_i, b_i))
            if got != (Ya_ == Yb_):
                wrong += 1
                if wrong <= 3:
                    viol(f'verify_lock_key(lock of chain {ca} hop {ja}, cumulative scalar of chain {cb} hop {jb})', {'lock': Ya_.hex(), 'scalar': kb_.hex()}, str(Ya_ == Yb_), str(got))
    res.stats['sweep_pairs'] = len(pool) * (min(len(pool), ctx.n(24, 60)) + 1)
    # release_left_amhl_lock is a function of the witness's byte layout (push <sa 32> push <R 32>): for every adapter scalar - also
    # one whose own bytes look like push headers - it returns (s - sa) - y
    for it in range(ctx.n(400, 4000)):
        sa_ = bytearray(V.rbytes(rng, 32)); sa_[31] &= 0x0f
        pat = rng.choice([b'\x03\x20', b'\x03\x20', b'\x03\x40', b'\x02\x20', b'\x03\x20\x03\x20', b''])
        if pat:
            off = rng.randrange(0, 30 - len(pat)); sa_[off:off + len(pat)] = pat
        sa_ = bytes(sa_); R_ = V.rbytes(rng, 32)
        s_ = (rng.getrandbits(252)).to_bytes(32, 'little'); y_ = (rng.getrandbits(252)).to_bytes(32, 'little')
        wit = b'\x03\x20' + sa_ + b'\x03\x20' + R_
        res.note_case(('release-layout', sa_, s_, y_))
        want = ((int.from_bytes(s_, 'little') - int.from_bytes(sa_, 'little') - int.from_bytes(y_, 'little')) % L).to_bytes(32, 'little')
        try: got = T.release_left_amhl_lock(wit, V.rbytes(rng, 32) + s_, y_)
        except BaseException as e: got = ('ERR:' + type(e).__name__).encode()
        # ... and given the 65-byte form of the signature (R' || s || flag byte) it either refuses or still recovers the same scalar
        try: got65 = T.release_left_amhl_lock(wit, V.rbytes(rng, 32) + s_ + bytes([rng.choice([1, 2, 0x80])]), y_)
        except BaseException: got65 = want
        if got65 != want:
            viol('release_left_amhl_lock given the 65-byte signature form', {'adapter_witness': wit.hex(), 's': s_.hex(), 'y': y_.hex()}, 'a refusal, or ' + want.hex(), got65.hex())
        if got != want:
            viol('release_left_amhl_lock(push sa push R, R\'||s, y)', {'adapter_witness': wit.hex(), 's': s_.hex(), 'y': y_.hex()}, want.hex(), got.hex() if got[:4] != b'ERR:' else got.decode())
    # setup_amhl + adapters end to end
    for it in range(ctx.n(25, 250)):
        n = rng.choice([2, 3, 3, 4, 6])
        seed = rng.choice([V.rbytes(rng, 8), b'', b'\x00', b'abc'])
        seeds = [V.rbytes(rng, 32) for _ in range(n)]; pks = [bytes(SigningKey(s_).verify_key) for s_ in seeds]
        refund = None
        if rng.random() < .4:
            rk = bytes(SigningKey(V.rbytes(rng, 32)).verify_key); refund = {pks[rng.randrange(n)]: rk}
        flags = rng.choice(['00', '00', '01'])
        sfs = [{'sigfield1': b'pay %d' % i, 'sigfield2': V.rbytes(rng, 5)} for i in range(n)]
        if it % 3 == 1:      # each hop commits through whichever sigfields it likes, e.g. a single one at any index 1..8
            sfs = [{f'sigfield{k}': b'pay %d ' % i + V.rbytes(rng, 3) for k in rng.sample(range(1, 9), rng.choice([1, 1, 2]))} for i in range(n)]
            if it % 6 == 1: sfs[rng.randrange(n)] = {'sigfield8': b'only field eight'}
        inp = {'n': n, 'seed': seed.hex(), 'flags': flags, 'refund': bool(refund), 'signer_seeds': [x.hex() for x in seeds]}
        res.note_case(('amhl', n, seed, flags, bool(refund), tuple(seeds)))
        try:
            with vmrun.Env(cfg) as env:
                F.time = lambda: vmrun.NOW + .73; T.time = F.time
                # parties may be handed over as VerifyKey objects (the refund map stays keyed by the 32 key bytes): same chain
                from nacl.signing import VerifyKey as _VK
                pk_args = [_VK(p_) for p_ in pks] if (n + len(seed or b'')) % 3 == 1 else pks
                amhl = T.setup_amhl(seed, pk_args, flags, refund) if refund else T.setup_amhl(seed, pk_args, flags)
                key = amhl['key']
                tw = [amhl[pk][2] for pk in pks]; sc = [amhl[pk][3] for pk in pks]
                # what setup_amhl reports per hop is consistent with the chain the module derives from the same seed: tweak point i =
                # sum of the points of the reported secrets 0..i, and hop 0's reported secret is the first sample itself
                ys_, Ys_ = A.setup(n, seed if seed else None) if seed else (None, None)
                acc_ = None
                for i in range(n):
                    try: pt_ = nb.crypto_scalarmult_ed25519_base_noclamp(sc[i]) if len(sc[i]) == 32 else None
                    except BaseException: pt_ = None
                    if pt_ is None: viol(f'setup_amhl: the secret reported for hop {i} is not a scalar whose point exists', inp, 'a 32-byte scalar', sc[i].hex()); break
                    acc_ = pt_ if acc_ is None else nb.crypto_core_ed25519_add(acc_, pt_)
                    if acc_ != tw[i]: viol(f'setup_amhl: tweak point of hop {i} is not the sum of the points of the reported secrets 0..{i}', inp, acc_.hex(), tw[i].hex()); break
                if ys_ is not None and (list(ys_) != list(sc) or list(Ys_) != list(tw)):
                    viol('setup_amhl reports other secrets / points than AMHL.setup derives from the same seed', inp, [x.hex()[:16] for x in ys_], [x.hex()[:16] for x in sc])
                if not A.verify_lock_key(tw[n - 1], key):
                    viol('setup_amhl: the returned key does not open the last hop', inp, 'True', False); continue
                ws = [T.make_adapter_witness(seeds[i], tw[i], sfs[i], flags) for i in range(n)]
                for i in range(n):
                    builds.append((f'BUILD2 adapter_lock1 {pks[i].hex()} {tw[i].hex()} {int(flags, 16)}', amhl[pks[i]][0].bytes.hex()))
                    if not (refund and pks[i] in refund):
                        builds.append((f'BUILD2 single_sig_lock {pks[i].hex()} {int(flags, 16)}', amhl[pks[i]][1].bytes.hex()))
                    ok_i = F.run_auth_scripts([ws[i].bytes, amhl[pks[i]][0].bytes], dict(sfs[i]))
                    autheds.append((dict(sfs[i]), [ws[i].bytes, amhl[pks[i]][0].bytes], bool(ok_i)))
                    j_ = (i + 1) % n          # another hop's adapter against this hop's lock: model and implementation agree on that verdict too
                    autheds.append((dict(sfs[i]), [ws[j_].bytes, amhl[pks[i]][0].bytes], bool(F.run_auth_scripts([ws[j_].bytes, amhl[pks[i]][0].bytes], dict(sfs[i])))))
                    if not ok_i:
                        viol(f'adapter witness of hop {i} fails its adapter lock', inp, 'True', False)
                kcur = key
                for i in range(n - 1, -1, -1):
                    sig = T.decrypt_adapter(ws[i], kcur)
                    if not ref_verify(pks[i], T.run_script(T.compile_script('msg x' + flags), dict(sfs[i]))[1].get(), sig):
                        viol(f'cascade: decrypted adapter of hop {i} is not a valid signature', inp, 'valid', sig.hex()); break
                    lock = amhl[pks[i]][1]
                    wit = T.Script.from_src('push x' + sig.hex() + (flags if flags != '00' else '') + (' true' if refund and pks[i] in refund else ''))
                    if not F.run_auth_scripts([wit.bytes, lock.bytes], dict(sfs[i])):
                        viol(f'cascade: decrypted signature does not satisfy the lock of hop {i}', inp, 'True', False); break
                    # scalars of other hops must not decrypt this hop
                    for j in range(n):
                        if j != i:
                            other = T.decrypt_adapter(ws[i], sc[j] if j > 0 else key)
                            msg = T.run_script(T.compile_script('msg x' + flags), dict(sfs[i]))[1].get()
                            if other != sig and ref_verify(pks[i], msg, other): viol(f'scalar of hop {j} decrypts hop {i}', inp, 'invalid', other.hex())
                    if i > 0:
                        kcur = T.release_left_amhl_lock(ws[i], sig, sc[i])
        except BaseException as e:
            viol('AMHL builders raised', inp, 'no exception', type(e).__name__ + ': ' + str(e))
    # the model's builders and the model's run of every hop's lock (theorem adapterLock1_run speaks about these bytes)
    if ctx.driver.available:
        try:
            for (line, got), r in zip(builds, ctx.driver.run([b[0] for b in builds])):
                if r != got and len(res.disagreements) < 20:
                    res.disagreements.append({'builder': line, 'model': r[:300], 'impl': got[:300]})
            replies = ctx.driver.run([vmrun.case_line('AUTH', cfg, c, sc) for c, sc, _ in autheds])
            for (c, sc, ok_), r in zip(autheds, replies):
                if (r.split(' ')[0] == 'T') != ok_ and len(res.disagreements) < 20:
                    res.disagreements.append({'scripts': [x.hex() for x in sc], 'cache': vmrun.cache_str(c, False), 'model': r[:200], 'impl': str(ok_)})
        except Exception as e:
            res.disagreements.append({'driver': str(e)[:300]})
    else:
        res.disagreements.append({'driver': 'not built'})
    res.stats['builder_outputs_compared_with_model'] = len(builds); res.stats['hop_lock_runs_compared_with_model'] = len(autheds)
    res.sample({'n': histories[0][0], 'seed': str(histories[0][1])})
    res.stats['setups'] = len(histories)
    res.stats['search'] = 'each history judged on the implementation alone by independent integer / PyNaCl arithmetic'
    return res


def replay(ctx: Ctx, payload) -> bool:
    T = impl.tools(); A = T.AMHL
    inp = payload['input']
    if 'lock' in inp and 'scalar' in inp:
        import nacl.bindings as nb
        lock, k = bytes.fromhex(inp['lock']), bytes.fromhex(inp['scalar'])
        got = A.verify_lock_key(lock, k); want = nb.crypto_scalarmult_ed25519_base_noclamp(k) == lock
        print('verify_lock_key:', got, 'the scalar opens the lock:', want)
        return got == want
    if 'adapter_witness' in inp:
        L_ = 2**252 + 27742317777372353535851937790883648493
        wit = bytes.fromhex(inp['adapter_witness']); s_ = bytes.fromhex(inp['s']); y_ = bytes.fromhex(inp['y'])
        want = ((int.from_bytes(s_, 'little') - int.from_bytes(wit[2:34], 'little') - int.from_bytes(y_, 'little')) % L_).to_bytes(32, 'little')
        got = T.release_left_amhl_lock(wit, bytes(32) + s_, y_)
        print('release_left_amhl_lock:', got.hex(), 'expected', want.hex())
        return got == want
    if 'n' not in inp: return False
    seed = None if inp.get('seed') is None else bytes.fromhex(inp['seed'])
    y, Y = A.setup(inp['n'], seed)
    k = A.setup_for((y, Y), inp['n'])[-1]
    ok = A.verify_lock_key(Y[-1], k) and all(A.check_setup(A.setup_for((y, Y), i), i, inp['n']) for i in range(inp['n'] + 1))
    print('final key opens last lock and all views valid:', ok)
    return ok
