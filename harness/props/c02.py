"""C02 — signature instructions verify exactly the flag-selected message.
Theorems: Props/C02.lean. Tie: CHECK_SIG / CHECK_SIG_VERIFY / CHECK_SIG_STACK / SIGN / SIGN_STACK /
GET_MESSAGE as one-instruction scripts; each case is judged on the implementation alone by an
independent reference (message built from the property's sentence, PyNaCl verify), and compared
with the model (whose Ed25519 is itself validated against libsodium on every run)."""
from __future__ import annotations
import nacl.bindings as nb
from nacl.signing import SigningKey, VerifyKey
from nacl.exceptions import BadSignatureError
from ..core import Result, Ctx, DriverCrash
from .. import vmrun, primval
from ..gen import programs as G, values as V
from . import c06

RULE = ("random seeds x every subset pattern of present sigfields (lengths 0-40) x (flag, allowed) pairs sampled from the 256x256 matrix (quick) / "
        "the full matrix for two presence patterns (thorough) x {honest, single-bit corruption of key / signature / one covered field, change of an "
        "excluded field, wrong lengths}; instructions CHECK_SIG, CHECK_SIG_VERIFY, SIGN (then CHECK_SIG), SIGN_STACK, CHECK_SIG_STACK, GET_MESSAGE; "
        "non-trivial = all; distinct = distinct (cache, script)")


def op(n): return bytes([G.names()[n]])
push = G.push


def ref_msg(cache, flag):
    return b''.join(cache[f'sigfield{i}'] for i in range(1, 9) if f'sigfield{i}' in cache and not (flag >> (i - 1)) & 1)


def ref_verify(pk, m, sig):
    try:
        VerifyKey(pk).verify(m, sig); return True
    except BadSignatureError:
        return False


def P(b): return push(b) if len(b) else b'\x03\x00'


def run(ctx: Ctx) -> Result:
    res = Result(rule=RULE)
    primval.validate(ctx, res, scale=1)
    rng = ctx.sub_rng('c02')
    keys = V.Keys(ctx.sub_rng('keys'), n=3)
    cases = []   # (what, cfg, cache, script, expected)  expected: 'T'/'F'/'ERR'/'ERR:see'/('stack', hex)
    def flip(b, rng):
        j = rng.randrange(len(b) * 8); x = bytearray(b); x[j // 8] ^= 1 << (j % 8); return bytes(x)
    def presence(rng):
        c = {}
        for i in range(1, 9):
            if rng.random() < .5: c[f'sigfield{i}'] = V.rbytes(rng, rng.choice([0, 1, 5, 40]))
        return G.shuffled(rng, c) if rng.random() < .6 else c      # the message is in index order whatever the dict's insertion order
    pairs = []
    if ctx.tier == 'thorough':
        pats = [presence(rng), {f'sigfield{i}': bytes([i]) * i for i in range(1, 9)}]
        for c in pats:
            for f in range(256):
                for a in range(256):
                    pairs.append((c, f, a))
    else:
        for _ in range(2500):
            f = rng.choice([0, 1, 0x80, 0xff, rng.getrandbits(8)]); a = rng.choice([0, f, 0xff, f | rng.getrandbits(8), rng.getrandbits(8), f & rng.getrandbits(8)])
            pairs.append((presence(rng), f, a))
        c = {f'sigfield{i}': bytes([i]) * i for i in range(1, 9)}
        for bit in range(8):
            for abit in range(8):
                pairs.append((c, 1 << bit, 0xff ^ (1 << abit)))
    cfg = vmrun.Cfg()
    for cache, flag, allowed in pairs:
        ki = rng.randrange(len(keys.sks)); sk, pk, seed = keys.sks[ki], keys.pks[ki], keys.seeds[ki]
        msg = ref_msg(cache, flag)
        sig = sk.sign(msg).signature
        sigf = sig + (bytes([flag]) if flag else b'')
        permitted = (flag & ~allowed & 0xff) == 0
        exp = ('T' if permitted else 'ERR:ScriptExecutionError')
        cases.append(('CHECK_SIG honest', cfg, cache, P(sigf) + P(pk) + op('CHECK_SIG') + bytes([allowed]), exp))
        r = rng.random()
        if r < .25:
            cases.append(('CHECK_SIG_VERIFY honest', cfg, cache, P(sigf) + P(pk) + op('CHECK_SIG_VERIFY') + bytes([allowed]) + op('TRUE'), exp))
        if r < .5:        # sign in the VM, then check: the two instructions cover the same bytes
            cases.append(('SIGN then CHECK_SIG', cfg, cache, P(seed) + op('SIGN') + bytes([flag]) + P(pk) + op('CHECK_SIG') + bytes([allowed]), exp))
        if not permitted:
            continue
        kind = rng.choice(['sigbit', 'keybit', 'covered', 'excluded', 'msgsig', 'flagbyte'])
        if kind == 'sigbit':
            s2 = flip(sig, rng) + (bytes([flag]) if flag else b'')
            cases.append(('corrupt signature bit', cfg, cache, P(s2) + P(pk) + op('CHECK_SIG') + bytes([allowed]), 'F'))
        elif kind == 'keybit':
            cases.append(('corrupt key bit', cfg, cache, P(sigf) + P(flip(pk, rng)) + op('CHECK_SIG') + bytes([allowed]), 'F'))
        elif kind == 'covered':
            cov = [i for i in range(1, 9) if f'sigfield{i}' in cache and not (flag >> (i - 1)) & 1 and len(cache[f'sigfield{i}'])]
            if cov:
                i = rng.choice(cov); c2 = dict(cache); c2[f'sigfield{i}'] = flip(cache[f'sigfield{i}'], rng)
                cases.append(('corrupt covered field', cfg, c2, P(sigf) + P(pk) + op('CHECK_SIG') + bytes([allowed]), 'F'))
        elif kind == 'excluded':
            exc = [i for i in range(1, 9) if (flag >> (i - 1)) & 1]
            if exc:
                i = rng.choice(exc); c2 = dict(cache); c2[f'sigfield{i}'] = V.rbytes(rng, rng.choice([0, 3, 30]))
                if rng.random() < .3: c2.pop(f'sigfield{i}')
                cases.append(('change excluded field', cfg, c2, P(sigf) + P(pk) + op('CHECK_SIG') + bytes([allowed]), 'T'))
        elif kind == 'msgsig':
            cases.append(('GET_MESSAGE', cfg, cache, op('GET_MESSAGE') + bytes([flag]), ('stack', (msg.hex() or 'e'))))
            cases.append(('SIGN_STACK then CHECK_SIG_STACK', cfg, cache, P(msg) + P(seed) + op('SIGN_STACK') + P(msg) + P(pk) + op('CHECK_SIG_STACK'), 'T'))
            cases.append(('CHECK_SIG_STACK wrong message', cfg, cache, P(sig) + P(msg + b'!') + P(pk) + op('CHECK_SIG_STACK'), 'F'))
            cases.append(('CHECK_SIG_STACK honest', cfg, cache, P(sig) + P(msg) + P(pk) + op('CHECK_SIG_STACK'), 'T'))
        else:
            # a flag byte different from the one signed for (still permitted): covered set changes -> false unless messages coincide
            f2 = flag ^ (1 << rng.randrange(8))
            if (f2 & ~allowed & 0xff) == 0 and ref_msg(cache, f2) != msg and f2:
                cases.append(('wrong flag byte', cfg, cache, P(sig + bytes([f2])) + P(pk) + op('CHECK_SIG') + bytes([allowed]), 'F'))
    # embedder item limits other than the default: the message is built under the *configured* limit by SIGN, GET_MESSAGE
    # and CHECK_SIG alike (a message longer than the limit is an error everywhere, a shorter one is signed and checked)
    for _ in range(ctx.n(60, 600)):
        lim = rng.choice([65, 100, 1500, 4096])
        c2 = vmrun.Cfg(); c2.max_item_size = lim
        total = rng.choice([lim - 1, lim, lim + 1, lim // 2, min(lim + 400, 5000), 1025 if lim > 1025 else lim - 3])
        nf = rng.randrange(1, 4); idx = sorted(rng.sample(range(1, 9), nf))
        cuts = sorted(rng.randrange(0, total + 1) for _ in range(nf - 1))
        lens = [b_ - a_ for a_, b_ in zip([0] + cuts, cuts + [total])]
        cache = {f'sigfield{i}': V.rbytes(rng, n_) for i, n_ in zip(idx, lens)}
        flag = 0
        ki = rng.randrange(len(keys.sks)); sk, pk, seed = keys.sks[ki], keys.pks[ki], keys.seeds[ki]
        msg = ref_msg(cache, flag); sig = sk.sign(msg).signature
        fits = len(msg) <= lim
        cases.append(('limits: CHECK_SIG honest', c2, cache, P(sig) + P(pk) + op('CHECK_SIG') + b'\x00', 'T' if fits else 'ERR'))
        cases.append(('limits: SIGN then CHECK_SIG', c2, cache, P(seed) + op('SIGN') + b'\x00' + P(pk) + op('CHECK_SIG') + b'\x00', 'T' if fits else 'ERR'))
        cases.append(('limits: GET_MESSAGE', c2, cache, op('GET_MESSAGE') + b'\x00', ('stack', (msg.hex() or 'e')) if fits else 'ERR'))
        if fits and len(msg):
            i = rng.choice([j for j in idx if len(cache[f'sigfield{j}'])]); c3 = dict(cache); c3[f'sigfield{i}'] = flip(cache[f'sigfield{i}'], rng)
            cases.append(('limits: corrupt covered field', c2, c3, P(sig) + P(pk) + op('CHECK_SIG') + b'\x00', 'F'))
    # "changes to excluded fields are irrelevant" - also their length: a flag-excluded field longer than the item limit (it never
    # becomes a stack item) changes nothing for GET_MESSAGE, SIGN and CHECK_SIG as long as the covered message fits
    for _ in range(ctx.n(40, 300)):
        lim = rng.choice([65, 100, 1024, 1024])
        c2 = vmrun.Cfg(); c2.max_item_size = lim
        i_cov, i_exc = rng.sample(range(1, 9), 2)
        cache = {f'sigfield{i_cov}': V.rbytes(rng, rng.choice([0, 1, lim // 2, lim - 1, lim])), f'sigfield{i_exc}': V.rbytes(rng, rng.choice([lim, lim + 1, 2 * lim, 2000]))}
        if rng.random() < .5: cache = dict(reversed(list(cache.items())))
        flag = (1 << (i_exc - 1)) | (rng.getrandbits(8) & ~(1 << (i_cov - 1)) & 0xff if rng.random() < .3 else 0)
        ki = rng.randrange(len(keys.sks)); sk, pk, seed = keys.sks[ki], keys.pks[ki], keys.seeds[ki]
        msg = ref_msg(cache, flag); sigf = sk.sign(msg).signature + bytes([flag])
        cases.append(('long excluded field: CHECK_SIG honest', c2, cache, P(sigf) + P(pk) + op('CHECK_SIG') + bytes([rng.choice([flag, 0xff])]), 'T'))
        cases.append(('long excluded field: SIGN then CHECK_SIG', c2, cache, P(seed) + op('SIGN') + bytes([flag]) + P(pk) + op('CHECK_SIG') + b'\xff', 'T'))
        cases.append(('long excluded field: GET_MESSAGE', c2, cache, op('GET_MESSAGE') + bytes([flag]), ('stack', (msg.hex() or 'e'))))
    # SIGN replaces the seed by the signature: it needs no free stack slot (a stack that is exactly full still signs)
    for _ in range(ctx.n(30, 200)):
        k = rng.choice([1, 1, 2, 5, 1024])
        c2 = vmrun.Cfg(); c2.max_items = k
        cache = presence(rng); flag = rng.choice([0, 0, 1, 0x80, rng.getrandbits(8)])
        ki = rng.randrange(len(keys.sks)); sk, pk, seed = keys.sks[ki], keys.pks[ki], keys.seeds[ki]
        sigf = sk.sign(ref_msg(cache, flag)).signature + (bytes([flag]) if flag else b'')
        cases.append(('SIGN on a full stack', c2, cache, op('FALSE') * (k - 1) + P(seed) + op('SIGN') + bytes([flag]), ('stack', sigf.hex())))
    # with a signature-extension plugin installed: every signature instruction runs it exactly once (SIGN must not run it again
    # through its inner GET_MESSAGE), so that a plugin that is not idempotent still sees signing and checking cover the same bytes
    cfgp = vmrun.Cfg(); cfgp.sigexts = ('l1',)
    plug_expect = {}
    for _ in range(ctx.n(40, 300)):
        cache = presence(rng); flag = rng.choice([0, 0, 1, 0x80, rng.getrandbits(8)])
        ki = rng.randrange(len(keys.sks)); sk, pk, seed = keys.sks[ki], keys.pks[ki], keys.seeds[ki]
        msg = ref_msg(cache, flag); sigf = sk.sign(msg).signature + (bytes([flag]) if flag else b'')
        for what, script, n_ext in (('plugin: CHECK_SIG', P(sigf) + P(pk) + op('CHECK_SIG') + b'\xff', 1),
                                    ('plugin: SIGN then CHECK_SIG', P(seed) + op('SIGN') + bytes([flag]) + P(pk) + op('CHECK_SIG') + b'\xff', 2),
                                    ('plugin: SIGN', P(seed) + op('SIGN') + bytes([flag]) + op('POP0') + op('TRUE'), 1),
                                    ('plugin: GET_MESSAGE', op('GET_MESSAGE') + bytes([flag]), 1)):
            plug_expect[len(cases)] = ','.join(['1'] * n_ext)
            cases.append((what, cfgp, cache, script, 'T' if 'GET_MESSAGE' not in what else ('stack', (msg.hex() or 'e'))))
    # every single bit of one signature and of its key (not left to the luck of the draw)
    sk_, pk_ = keys.sks[1], keys.pks[1]
    c_ = {'sigfield1': b'every-bit', 'sigfield3': b'xyz'}
    sig_ = sk_.sign(ref_msg(c_, 0)).signature
    for j_ in range(512):
        v_ = bytearray(sig_); v_[j_ // 8] ^= 1 << (j_ % 8)
        cases.append((f'bit {j_} of the signature flipped', cfg, c_, P(bytes(v_)) + P(pk_) + op('CHECK_SIG') + b'\x00', 'F'))
    for j_ in range(256):
        v_ = bytearray(pk_); v_[j_ // 8] ^= 1 << (j_ % 8)
        cases.append((f'bit {j_} of the key flipped', cfg, c_, P(sig_) + P(bytes(v_)) + op('CHECK_SIG') + b'\x00', 'F'))
    # the same signature with its scalar written non-canonically (s + k*L, same value mod L): other bytes, so not the signature
    L_ = 2**252 + 27742317777372353535851937790883648493
    s_int = int.from_bytes(sig_[32:], 'little')
    for k_ in range(1, 16):
        if s_int + k_ * L_ >= 2**256: break
        alt = sig_[:32] + (s_int + k_ * L_).to_bytes(32, 'little')
        cases.append((f'signature scalar s + {k_}*L', cfg, c_, P(alt) + P(pk_) + op('CHECK_SIG') + b'\x00', 'F'))
        cases.append((f'signature scalar s + {k_}*L (CHECK_SIG_STACK)', cfg, c_, P(alt) + P(ref_msg(c_, 0)) + P(pk_) + op('CHECK_SIG_STACK'), 'F'))
    cases.append(('CHECK_SIG_STACK honest (control)', cfg, c_, P(sig_) + P(ref_msg(c_, 0)) + P(pk_) + op('CHECK_SIG_STACK'), 'T'))
    # a check's verdict is a function of (key, signature item, sigfields): the same 64 bytes rejected earlier in the same run (bare, or
    # under another flag byte) are accepted when they come with the flag byte they were signed for
    for _ in range(ctx.n(30, 200)):
        cache = {f'sigfield{i}': V.rbytes(rng, rng.choice([1, 5])) for i in range(1, 9) if rng.random() < .6}
        cache.setdefault('sigfield1', b'a'); cache.setdefault('sigfield2', b'b')
        present = [i for i in range(1, 9) if f'sigfield{i}' in cache]
        fl = 1 << (rng.choice(present) - 1)
        ki = rng.randrange(len(keys.sks)); sk, pk = keys.sks[ki], keys.pks[ki]
        s64 = sk.sign(ref_msg(cache, fl)).signature
        f2 = fl ^ (1 << (rng.choice([i for i in present if (1 << (i - 1)) != fl]) - 1))
        first = rng.choice([P(s64), P(s64 + bytes([f2]))])
        script = first + P(pk) + op('CHECK_SIG') + b'\xff' + op('POP0') + P(s64 + bytes([fl])) + P(pk) + op(rng.choice(['CHECK_SIG', 'CHECK_SIG'])) + b'\xff'
        cases.append(('the same signature bytes first rejected (bare / other flag), then checked with their own flag byte', cfg, cache, script, 'T'))
    # sigfields held as bytearray (as the embedder may): the message is built from them without touching them - building it twice in one
    # run gives the same message twice
    for _ in range(ctx.n(20, 150)):
        cache = {f'sigfield{i}': (bytearray(V.rbytes(rng, rng.choice([1, 5]))) if rng.random() < .6 else V.rbytes(rng, rng.choice([1, 5]))) for i in range(1, 9) if rng.random() < .6}
        cache['sigfield1'] = bytearray(V.rbytes(rng, 3)); cache.setdefault('sigfield2', b'bb')
        fl = rng.choice([0, 0, 1 << rng.randrange(1, 8)])
        ki = rng.randrange(len(keys.sks)); sk, pk, seed = keys.sks[ki], keys.pks[ki], keys.seeds[ki]
        msg = ref_msg({k: bytes(v) for k, v in cache.items()}, fl)
        cases.append(('bytearray sigfields: GET_MESSAGE twice', cfg, cache, op('GET_MESSAGE') + bytes([fl]) + op('POP0') + op('GET_MESSAGE') + bytes([fl]), ('stack', (msg.hex() or 'e'))))
        cases.append(('bytearray sigfields: SIGN then CHECK_SIG', cfg, cache, P(seed) + op('SIGN') + bytes([fl]) + P(pk) + op('CHECK_SIG') + b'\xff', 'T'))
        cases.append(('bytearray sigfields: GET_MESSAGE, then CHECK_SIG of an external signature', cfg, cache, op('GET_MESSAGE') + bytes([fl]) + op('POP0') + P(sk.sign(msg).signature + (bytes([fl]) if fl else b'')) + P(pk) + op('CHECK_SIG') + b'\xff', 'T'))
    # wrong lengths: error, never true
    sk, pk = keys.sks[0], keys.pks[0]
    sig = sk.sign(b'').signature
    for s_, k_ in ((sig[:63], pk), (sig + b'\x00\x00', pk), (b'', pk), (sig, pk[:31]), (sig, pk + b'\x00'), (sig, b'')):
        cases.append(('wrong length', cfg, {}, P(s_) + P(k_) + op('CHECK_SIG') + b'\xff', 'ERR'))
    cases.append(('CHECK_SIG_STACK wrong length', cfg, {}, P(sig + b'\x00') + P(b'') + P(pk) + op('CHECK_SIG_STACK'), 'ERR'))
    for k_ in (pk[:31], pk + b'\x00', pk + pk, b'', pk[:1]):
        cases.append(('CHECK_SIG_STACK wrong key length', cfg, {}, P(sig) + P(b'') + P(k_) + op('CHECK_SIG_STACK'), 'ERR'))
        cases.append(('CHECK_SIG_STACK wrong key length (then NOT)', cfg, {}, P(sig) + P(b'm') + P(k_) + op('CHECK_SIG_STACK') + op('NOT'), 'ERR'))
    for s_ in (sig[:63], sig + b'\x01', b'', sig + sig):
        cases.append(('CHECK_SIG_STACK wrong signature length', cfg, {}, P(s_) + P(b'') + P(pk) + op('CHECK_SIG_STACK'), 'ERR'))
    cases.append(('SIGN wrong seed length', cfg, {}, P(b'short') + op('SIGN') + b'\x00', 'ERR'))
    outs = []
    def work():
        for what, cfg_, cache, script, exp in cases:
            outs.append(vmrun.run_impl(cfg_, cache, script))
    vmrun.in_big_thread(work)
    kinds = {}
    for ci_, ((what, cfg_, cache, script, exp), o) in enumerate(zip(cases, outs)):
        res.note_case((vmrun.cache_str(cache, False), script))
        kinds[what] = kinds.get(what, 0) + 1
        f = vmrun.fields(o); st = f['status']
        top = f['stack'].split(',')[-1] if f.get('stack', '-') != '-' else None
        if isinstance(exp, tuple): ok = st == 'OK' and top == exp[1]
        elif exp == 'T': ok = st == 'OK' and top == 'ff'
        elif exp == 'F': ok = st == 'OK' and top == '00'
        elif exp == 'ERR': ok = st.startswith('ERR')
        else: ok = st == exp
        if ok and ci_ in plug_expect and f.get('plog') != plug_expect[ci_]:
            ok = False; o = f'plugin log {f.get("plog")} (expected {plug_expect[ci_]}: once per signature instruction) ' + o
        if not ok and len(res.violations) < 10:
            res.violations.append({'input': {'what': what, 'cfg': cfg_.line(), 'cache': vmrun.cache_str(cache, False), 'script': script.hex()},
                                   'expected': str(exp), 'observed': o[:200], 'how_to_run': './check C02 --replay <this file>'})
    if ctx.driver.available:
        try:
            replies = ctx.driver.run([vmrun.case_line('RUN', c[1], c[2], [c[3]]) for c in cases])
            for c, r, o in zip(cases, replies, outs):
                ok, soft, why = vmrun.compare_run(r, o)
                res.soft_mismatches += soft
                if not ok and len(res.disagreements) < 30:
                    res.disagreements.append({'what': c[0], 'script': c[3].hex()[:200], 'why': why, 'model': r[:160], 'impl': o[:160]})
        except DriverCrash as e:
            res.disagreements.append({'driver': str(e)[:300]})
    else:
        res.disagreements.append({'driver': 'not built'})
    res.stats['cases_per_kind'] = kinds
    res.sample({'what': cases[0][0], 'cache': vmrun.cache_str(cases[0][2], False)[:200], 'script': cases[0][3].hex()[:200], 'expected': cases[0][4], 'impl': outs[0][:80]})
    res.sample({'what': cases[-1][0], 'script': cases[-1][3].hex()[:200], 'expected': cases[-1][4], 'impl': outs[-1][:80]})
    res.stats['search'] = 'each case judged on the implementation alone by an independent reference (message from the property sentence, PyNaCl verify)'
    return res


def replay(ctx: Ctx, payload) -> bool:
    inp = payload['input']
    cfg, cache = c06.parse_case(inp['cfg'], inp['cache'])
    o = vmrun.in_big_thread(vmrun.run_impl, cfg, cache, bytes.fromhex(inp['script']))
    print(o[:200], 'expected', payload['expected'])
    f = vmrun.fields(o); st = f['status']; exp = payload['expected']
    top = f['stack'].split(',')[-1] if f.get('stack', '-') != '-' else None
    if exp.startswith('('): return st == 'OK' and top == eval(exp)[1]
    if exp == 'T': return st == 'OK' and top == 'ff'
    if exp == 'F': return st == 'OK' and top == '00'
    if exp == 'ERR': return st.startswith('ERR')
    return st == exp
