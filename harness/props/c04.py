"""C04 — merklized scripts: only committed branches run, and every committed branch can.
Theorems: Props/C04.lean (OP_MERKLEVAL rejects a non-matching pair before EVAL; on a matching
pair it is exactly EVAL; every level of every tree verifies; pack / unpack round trip).
Tie: root / locking script / unlocking scripts / pack of every tree vs the model's Tree functions;
every run also executed on the model VM. Oracles on the implementation alone: the tapes handed
to run_tape and the per-leaf cache markers show which supplied scripts started."""
from __future__ import annotations
import hashlib
from functools import lru_cache
from nacl.signing import SigningKey
from ..core import Result, Ctx, DriverCrash
from .. import vmrun
from ..builders import Bench, try_build, replay_scripts
from ..gen import values as V

RULE = ("all binary tree shapes with 2..8 leaves (quick: all shapes to 5 leaves + random shapes to 8) x leaf scripts (constants, comparisons, erroring, RETURN, signature locks with their "
        "witness below the proof, PUSH2-sized) x every leaf: the leaf's unlocking script + the tree's locking script runs exactly the level scripts of its path and that leaf, "
        "nothing else, with the leaf's own verdict; corruptions per level (script byte, sibling-hash byte, script/sibling swapped, two levels swapped, foreign leaf, whole foreign proof): "
        "verdict false and the altered script never handed to run_tape, no leaf marker written; prioritized / balanced builders with 1..24 leaves incl. filler leaves; "
        "pack -> unpack preserves root and every unlocking script, also with the same leaf script at several non-sibling positions and after several trees were read back; "
        "a leaf gives the same result through the tree as on its own under non-default embedder flags (ts_threshold, integer flags); non-trivial = all; distinct = distinct (shape, leaf scripts, leaf, corruption)")


@lru_cache(maxsize=None)
def shapes(n):
    """all binary tree shapes with n leaves: 'L' or (left, right)"""
    if n == 1: return ('L',)
    out = []
    for k in range(1, n):
        for l in shapes(k):
            for r in shapes(n - k):
                out.append((l, r))
    return tuple(out)


def random_shape(rng, n):
    if n == 1: return 'L'
    k = rng.randrange(1, n)
    return (random_shape(rng, k), random_shape(rng, n - k))


def marker(i):
    """first instructions of leaf i: cache[b'L'+i] = [b'\\x01']"""
    return bytes([2, 1, 9, 2, 0x4c, i, 1])


PROBLEMS = []          # sources / values the compiler unexpectedly rejected while the harness was building its inputs


def src_bytes(T, source: str) -> bytes:
    """compile a source the property takes for granted; a rejection is recorded (reported as a violation) and replaced by `true`"""
    try:
        return T.Script.from_src(source).bytes
    except BaseException as e:
        if isinstance(e, (KeyboardInterrupt, SystemExit)): raise
        PROBLEMS.append((source if len(source) < 300 else source[:120] + f'... ({len(source)} chars)', type(e).__name__ + ': ' + str(e)[:120]))
        return b'\x01'


class LeafSpec:
    def __init__(self, i, body, prefix=b''):
        self.i, self.code, self.prefix = i, marker(i) + body, prefix


def leaf_specs(rng, T, n, sf, base=0):
    """n distinct leaf scripts with a mix of own verdicts"""
    out = []
    for i in range(n):
        r = rng.random()
        prefix = b''
        if r < .07:
            # the leaf calls a function a script run *before* the proof defined (run_auth_scripts copies definitions from tape to tape)
            h_ = rng.choice([0, 3, 100]); prefix = T.Script.from_src('def %d { %s }' % (h_, rng.choice(['true', 'false', 'push d1 push d1 equal']))).bytes
            body = T.Script.from_src('call d%d' % h_).bytes
        elif r < .12:
            # a countdown loop close to the loop bound (= the call-stack limit, 128): it runs the same number of times wherever the leaf sits
            body = T.Script.from_src('push d%d loop { push d-1 add_ints d2 } pop0 true' % rng.choice([126, 127, 128, 128, 129])).bytes
        elif r < .3: body = T.Script.from_src('true').bytes
        elif r < .4: body = T.Script.from_src('false').bytes
        elif r < .5: body = T.Script.from_src(rng.choice(['push d1 push d1 equal', 'push d1 push d2 less', 'push x0102 size push d2 equal verify pop0 true'])).bytes
        elif r < .58: body = T.Script.from_src(rng.choice(['pop0 pop0 pop0 pop0 true', 'false verify true', 'push d1 push d0 div_ints'])).bytes
        elif r < .66: body = T.Script.from_src(rng.choice(['true return false', 'false return true', 'true if { return } false'])).bytes
        elif r < .74: body = src_bytes(T, 'push x' + V.rbytes(rng, rng.choice([255, 256, 300])).hex() + ' pop0 true')
        elif r < .8: body = T.Script.from_src('def 0 { true } call d0').bytes
        elif r < .86:
            # a leaf whose *whole script* has a length on a push-size boundary (the unlocking script pushes the leaf script)
            total = rng.choice([255, 256, 257, 127, 128])
            padlen = total - 7 - 3 - 2            # marker, PUSH1 header (+1 if PUSH2), `pop0 true`
            if padlen > 255: padlen -= 1
            body = (bytes([3, padlen]) if padlen < 256 else bytes([4, 0, padlen])) + V.rbytes(rng, padlen) + bytes([6, 1])
        else:
            seed = V.rbytes(rng, 32)
            body = T.make_single_sig_lock(bytes(SigningKey(seed).verify_key)).bytes
            wseed = seed if rng.random() < .7 else V.rbytes(rng, 32)
            prefix = T.make_single_sig_witness(wseed, sf).bytes
        out.append(LeafSpec(base + i, body, prefix))
    return out


def build(T, shape, specs, it=None):
    """implementation tree + per-leaf (spec, leaf object, path)"""
    it = it if it is not None else iter(specs)
    leaves = []
    def go(s, path):
        if s == 'L':
            sp = next(it)
            lf = T.ScriptLeaf.from_code(sp.code)
            leaves.append((sp, lf, path))
            return lf
        l = go(s[0], path + (0,)); r = go(s[1], path + (1,))
        return T.ScriptNode(l, r)
    return go(shape, ()), leaves


def tokens(T, node):
    if isinstance(node, T.ScriptLeaf): return ['L' + node.script.bytes.hex()]
    return ['N'] + tokens(T, node.left) + tokens(T, node.right)


def all_leaves(T, node):
    if isinstance(node, T.ScriptLeaf): return [node]
    return all_leaves(T, node.left) + all_leaves(T, node.right)


def proof_pairs(T, leaf):
    """[(sibling commitment, script)] innermost level first, as unlocking_script() pushes them"""
    pairs = []
    cur = leaf
    while cur.parent is not None:
        par = cur.parent
        other = par.right if par.left is cur else par.left
        code = cur.script.bytes if isinstance(cur, T.ScriptLeaf) else cur.locking_script().bytes
        pairs.append((other.commitment(), code))
        cur = par
    return pairs


def push(T, b):
    return src_bytes(T, 'push x' + b.hex())


def serialise(T, pairs):
    return b''.join(push(T, sib) + push(T, code) for sib, code in pairs)


def markers_in(outcome):
    """indices of the leaf markers present in the final cache of a rendered outcome"""
    f = vmrun.fields(outcome.split(' ', 1)[1])
    out = set()
    for e in f.get('cache', '-').split(';'):
        if e.startswith('b4c') and len(e.split('=')[0]) == 5:
            out.add(int(e[3:5], 16))
    return out


def run(ctx: Ctx) -> Result:
    res = Result(rule=RULE)
    rng = ctx.sub_rng('c04')
    B = Bench(ctx, res); T = B.T
    sf = {'sigfield1': b'merkle', 'sigfield2': b'tree'}
    cfg = B.cfg()
    tree_lines = []        # (TREE line, expected reply)

    def auth(scripts, record=True):
        o = vmrun.auth_impl(cfg, sf, [bytes(s) for s in scripts])
        if record and len(B.records) < ctx.n(2500, 12000):
            B.records.append((cfg, dict(sf), [bytes(s) for s in scripts], o))
        return o.split(' ')[0] == 'T', o, list(vmrun.LAST.get('tapes', []))

    def check_honest(what, lock, unlock, sp_code, sp_prefix, idx, level_codes, inp):
        """unlock + lock runs exactly: [prefix+unlock, lock, level scripts..., leaf] and gives the leaf's own verdict"""
        own, _, _ = auth([sp_prefix, sp_code], record=False) if sp_prefix else auth([sp_code], record=False)
        ok, o, tapes = auth([sp_prefix + unlock, lock])
        want_tapes = [sp_prefix + unlock, lock] + level_codes + [sp_code]
        # scripts a leaf itself evaluates / calls come after the leaf in the list
        got = tapes[:len(want_tapes)]
        extra = [t for t in tapes[len(want_tapes):] if t in inp.get('_all_leaf_codes', ())]
        case = {**{k: v for k, v in inp.items() if not k.startswith('_')}, 'leaf': idx, 'scripts': [(sp_prefix + unlock).hex(), lock.hex()], 'cache': vmrun.cache_str(sf, False)}
        if got != want_tapes or extra:
            B.viol(f'{what}: scripts that started are not exactly the path of leaf {idx}', case, [t.hex()[:40] for t in want_tapes], [t.hex()[:40] for t in tapes])
        elif markers_in(o) != {idx}:
            B.viol(f'{what}: leaf markers in the final cache', case, {idx}, sorted(markers_in(o)))
        elif ok != own:
            B.viol(f'{what}: verdict differs from the leaf script\'s own verdict', case, own, o[:80])
        return ok

    def check_rejected(what, lock, unlock, forbidden, inp):
        """a proof that does not hash to the root: false, and the altered script never starts"""
        ok, o, tapes = auth([unlock, lock])
        case = {**{k: v for k, v in inp.items() if not k.startswith('_')}, 'scripts': [unlock.hex(), lock.hex()], 'cache': vmrun.cache_str(sf, False)}
        if ok:
            B.viol(f'{what}: accepted', case, False, o[:80])
        elif any(t in forbidden for t in tapes[2:]):
            B.viol(f'{what}: the supplied script was handed to run_tape although the proof does not hash to the root', case, 'not started', [t.hex()[:40] for t in tapes])
        elif markers_in(o):
            B.viol(f'{what}: a leaf body started (marker written)', case, 'no marker', sorted(markers_in(o)))
        elif 'RAISED' in o.split(' ')[0]:
            B.viol(f'{what}: run_auth_scripts raised', case, False, o[:80])

    # ---------------------------------------------------------------- tree classes, all shapes
    todo = []
    small = ctx.n(5, 8)
    for n in range(2, small + 1):
        todo += [(n, s) for s in shapes(n)]
    if ctx.tier == 'quick':
        for n in (6, 7, 8):
            todo += [(n, random_shape(rng, n)) for _ in range(8)]
    foreign_tree, foreign_leaves = build(T, random_shape(rng, 4), leaf_specs(rng, T, 4, sf, base=100))
    for n, shape in todo:
        if ctx.expired(): break
        specs = leaf_specs(rng, T, n, sf)
        tree, leaves = build(T, shape, specs)
        lock = tree.locking_script().bytes
        codes = tuple(sp.code for sp in specs)
        inp = {'shape': repr(shape), 'leaves': [c.hex() for c in codes], '_all_leaf_codes': codes}
        unl = []
        for sp, lf, path in leaves:
            res.note_case((repr(shape), codes, sp.i))
            pairs = proof_pairs(T, lf)
            u = try_build(lambda: lf.unlocking_script().bytes)
            if isinstance(u, str):
                B.viol('unlocking_script raised', {**inp, 'leaf': sp.i}, 'script', u); continue
            unl.append(u)
            if u != serialise(T, pairs):
                B.viol('unlocking_script is not the pushes of (sibling commitment, script) per level', {**inp, 'leaf': sp.i}, serialise(T, pairs).hex()[:80], u.hex()[:80])
            level_codes = [c for _, c in reversed(pairs)][:-1]
            check_honest('tree classes', lock, u, sp.code, sp.prefix, sp.i, level_codes, inp)
        # model: root, lock, pack, unpack, unlocking scripts
        try:
            packed = tree.pack()
            tree_lines.append(('TREE ' + ' '.join(tokens(T, tree)),
                               f'root={tree.root().hex()} lock={lock.hex()} pack={packed.hex()} unpack=same unlock=' + '|'.join(x.hex() for x in unl)))
            back = T.ScriptNode.unpack(packed)
            bl = all_leaves(T, back)
            if back.root() != tree.root() or [l.unlocking_script().bytes for l in bl] != unl:
                B.viol('pack -> unpack changed the root or an unlocking script', inp, tree.root().hex(), back.root().hex())
        except BaseException as e:
            B.viol('pack / unpack raised', inp, 'round trip', type(e).__name__)
        # corruptions of one leaf's proof
        for sp, lf, path in rng.sample(leaves, min(len(leaves), ctx.n(2, 4))):
            pairs = proof_pairs(T, lf)
            d = len(pairs)
            lv = rng.randrange(d)
            sib, code = pairs[lv]
            def with_pair(lv, p):
                ps = list(pairs); ps[lv] = p; return ps
            deeper = {c for _, c in pairs[:lv]}          # scripts of the levels below the altered one: must not start either
            j = rng.randrange(len(code)); bad = code[:j] + bytes([code[j] ^ (1 << rng.randrange(8))]) + code[j + 1:]
            res.note_case((repr(shape), codes, sp.i, 'script-byte', lv, j))
            check_rejected(f'leaf {sp.i} level {lv}: one bit of the script flipped', lock, serialise(T, with_pair(lv, (sib, bad))), {bad} | deeper, inp)
            j = rng.randrange(32); bads = sib[:j] + bytes([sib[j] ^ (1 << rng.randrange(8))]) + sib[j + 1:]
            res.note_case((repr(shape), codes, sp.i, 'sibling-byte', lv, j))
            check_rejected(f'leaf {sp.i} level {lv}: one bit of the sibling hash flipped', lock, serialise(T, with_pair(lv, (bads, code))), {code} | deeper, inp)
            res.note_case((repr(shape), codes, sp.i, 'swapped-pair', lv))
            check_rejected(f'leaf {sp.i} level {lv}: script and sibling exchanged', lock, serialise(T, with_pair(lv, (code, sib))), {sib} | deeper, inp)
            if d >= 2:
                a, b = rng.sample(range(d), 2)
                ps = list(pairs); ps[a], ps[b] = ps[b], ps[a]
                res.note_case((repr(shape), codes, sp.i, 'levels-swapped', a, b))
                check_rejected(f'leaf {sp.i}: levels {a} and {b} exchanged', lock, serialise(T, ps), {c for _, c in ps[:max(a, b) + 1]}, inp)
            # truncated proofs: the outermost sibling hash missing (MERKLEVAL finds a single item), nothing at all, one level missing
            top_sib, top_code = pairs[-1]
            res.note_case((repr(shape), codes, sp.i, 'truncated'))
            check_rejected(f'leaf {sp.i}: only the outermost script, no sibling hash', lock, push(T, top_code), {top_code}, inp)
            check_rejected(f'leaf {sp.i}: empty witness', lock, b'', set(), inp)
            if d >= 2:
                check_rejected(f'leaf {sp.i}: innermost level missing', lock, serialise(T, pairs[1:]), set(), inp)
                check_rejected(f'leaf {sp.i}: outermost level missing', lock, serialise(T, pairs[:-1]), {c for _, c in pairs[:-1]}, inp)
            # ... and the honest proof still works afterwards (a rejected proof leaves nothing behind in the interpreter)
            ok_again, o_again, _ = auth([lf.unlocking_script().bytes, lock])
            own_again = auth([sp.code], record=False)[0]
            if ok_again != own_again:
                B.viol(f'leaf {sp.i}: honest proof after rejected proofs does not give the leaf\'s own verdict', {**{k: v for k, v in inp.items() if not k.startswith('_')}, 'scripts': [lf.unlocking_script().bytes.hex(), lock.hex()]}, own_again, o_again[:80])
            # a foreign leaf in place of this one (sibling hashes kept), and a whole foreign proof
            fsp, flf, _ = rng.choice(foreign_leaves)
            res.note_case((repr(shape), codes, sp.i, 'foreign-leaf'))
            check_rejected(f'leaf {sp.i}: foreign leaf script with this leaf\'s sibling hashes', lock, serialise(T, with_pair(0, (pairs[0][0], fsp.code))), {fsp.code}, inp)
            check_rejected(f'whole proof of a leaf of another tree', lock, flf.unlocking_script().bytes, {c for _, c in proof_pairs(T, flf)}, inp)
            # a new (uncommitted) leaf claiming the sibling's place
            newleaf = marker(200) + T.Script.from_src('true').bytes
            check_rejected(f'leaf {sp.i}: uncommitted script', lock, serialise(T, with_pair(0, (pairs[0][0], newleaf))), {newleaf}, inp)

    # ---------------------------------------------------------------- the same leaf script at several (non-sibling) positions, several trees
    def dup_tree(shape, codes_):
        leaves_ = []
        ci = iter(codes_)
        def go(s_):
            if s_ == 'L':
                lf = T.ScriptLeaf.from_code(next(ci)); leaves_.append(lf); return lf
            return T.ScriptNode(go(s_[0]), go(s_[1]))
        return go(shape), leaves_
    A = marker(50) + T.Script.from_src('true').bytes; Bc = marker(51) + T.Script.from_src('push d1 push d1 equal').bytes
    Cc = marker(52) + T.Script.from_src('false').bytes; Dc = marker(53) + T.Script.from_src('true').bytes
    dup_cases = [((('L', 'L'), ('L', 'L')), [A, Bc, Cc, A]), (('L', ('L', ('L', 'L'))), [A, Bc, A, Cc]), ((('L', 'L'), 'L'), [A, Bc, A]),
                 ((('L', ('L', 'L')), ('L', 'L')), [A, Bc, Cc, Dc, A]), ((('L', 'L'), (('L', 'L'), 'L')), [Bc, A, Cc, A, Dc])]
    unpacked = []
    for shape, cs in dup_cases:
        tree, lvs = dup_tree(shape, cs)
        lockb = tree.locking_script().bytes
        inp = {'shape': repr(shape), 'leaves': [c.hex() for c in cs], 'note': 'the same leaf script at two non-sibling positions'}
        unl = [lf.unlocking_script().bytes for lf in lvs]
        for i, (lf, u) in enumerate(zip(lvs, unl)):
            res.note_case(('dup', repr(shape), i))
            own = auth([lf.script.bytes], record=False)[0]
            ok, o, tapes = auth([u, lockb])
            if ok != own or [t for t in tapes[2:] if not (len(t) == 33 and t[0] == 60)][:1] != [lf.script.bytes]:
                B.viol(f'duplicate-leaf tree: leaf {i} does not run alone with its own verdict', {**inp, 'leaf': i, 'scripts': [u.hex(), lockb.hex()]}, own, o[:80])
        try:
            back = T.ScriptNode.unpack(tree.pack())
            unpacked.append((back, unl, lockb, inp))
            tree_lines.append(('TREE ' + ' '.join(tokens(T, tree)),
                               f'root={tree.root().hex()} lock={lockb.hex()} pack={tree.pack().hex()} unpack=same unlock=' + '|'.join(x.hex() for x in unl)))
        except BaseException as e:
            B.viol('duplicate-leaf tree: pack / unpack raised', inp, 'round trip', type(e).__name__)
    # judged after *all* trees were read back: reading one tree must not disturb another
    for back, unl, lockb, inp in unpacked:
        res.note_case(('dup-unpack', inp['shape']))
        got = [l.unlocking_script().bytes for l in all_leaves(T, back)]
        if back.root() != lockb[1:] or got != unl:
            k = next((i for i, (a, b_) in enumerate(zip(got, unl)) if a != b_), -1)
            B.viol('pack -> unpack changed the root or a leaf\'s unlocking script (same leaf script at several positions / several trees read back)',
                   {**inp, 'leaf': k}, unl[k].hex()[:120] if k >= 0 else lockb.hex(), got[k].hex()[:120] if k >= 0 else back.root().hex())
            continue
        for i, (l, u) in enumerate(zip(all_leaves(T, back), got)):
            ok, o, tapes = auth([u, lockb], record=False)
            if ok != auth([l.script.bytes], record=False)[0]:
                B.viol('unpacked tree: a leaf\'s unlocking script no longer unlocks the tree\'s lock', {**inp, 'leaf': i, 'scripts': [u.hex(), lockb.hex()]}, 'own verdict', o[:80])

    # ---------------------------------------------------------------- build-and-query histories: a tree that grows after it was asked for proofs
    for it in range(ctx.n(6, 40)):
        cs = [marker(70 + j) + T.Script.from_src(rng.choice(['true', 'false', 'push d1 push d1 equal'])).bytes for j in range(5)]
        def fresh():
            sub_ = T.ScriptNode(T.ScriptLeaf.from_code(cs[0]), T.ScriptLeaf.from_code(cs[1]))
            return sub_
        how = rng.choice(['node-left', 'node-right', 'prioritized'])
        def grow(sub_):
            if how == 'node-left': return T.ScriptNode(sub_, T.ScriptLeaf.from_code(cs[2]))
            if how == 'node-right': return T.ScriptNode(T.ScriptNode(T.ScriptLeaf.from_code(cs[2]), T.ScriptLeaf.from_code(cs[3])), sub_)
            return T.make_script_tree_prioritized([T.Script.from_bytes(cs[2]), T.Script.from_bytes(cs[3])], sub_)
        try:
            ref = grow(fresh())                                     # built in one go, never queried before it was complete
            ref_unl = [l.unlocking_script().bytes for l in all_leaves(T, ref)]
            sub = fresh()
            early = [l.unlocking_script().bytes for l in all_leaves(T, sub)]       # proofs against the small tree
            _ = sub.locking_script().bytes
            top = grow(sub)                                         # ... which then becomes a subtree
            if rng.random() < .5: top = T.ScriptNode(top, T.ScriptLeaf.from_code(cs[4])); ref = T.ScriptNode(ref, T.ScriptLeaf.from_code(cs[4])); ref_unl = [l.unlocking_script().bytes for l in all_leaves(T, ref)]
            got_unl = [l.unlocking_script().bytes for l in all_leaves(T, top)]
        except BaseException as e:
            if isinstance(e, (KeyboardInterrupt, SystemExit)): raise
            B.viol('building a tree from an already-queried subtree raised', {'how': how, 'leaves': [c.hex() for c in cs]}, 'a tree', type(e).__name__); continue
        res.note_case(('grow', how, it))
        inp = {'history': f'subtree of 2 leaves queried for proofs, then grown ({how})', 'leaves': [c.hex() for c in cs]}
        lockb = top.locking_script().bytes
        if top.root() != ref.root() or got_unl != ref_unl:
            k = next((i for i, (a, b_) in enumerate(zip(got_unl, ref_unl)) if a != b_), -1)
            B.viol('a tree grown from a subtree that had already been asked for proofs differs from the same tree built in one go', {**inp, 'leaf': k},
                   ref_unl[k].hex()[:160] if k >= 0 else ref.root().hex(), got_unl[k].hex()[:160] if k >= 0 else top.root().hex())
            continue
        for i, (l, u) in enumerate(zip(all_leaves(T, top), got_unl)):
            own = auth([l.script.bytes], record=False)[0]
            ok, o, tapes = auth([u, lockb])
            if ok != own:
                B.viol('grown tree: a committed leaf cannot be run with its own verdict', {**inp, 'leaf': i, 'scripts': [u.hex(), lockb.hex()]}, own, o[:80])
        # the same subtree combined into a second tree afterwards: the tree built last is a tree like any other
        try:
            top2 = T.ScriptNode(sub, T.ScriptLeaf.from_code(cs[4])) if it % 2 == 0 else T.ScriptNode(T.ScriptLeaf.from_code(cs[4]), sub)
            lock2 = top2.locking_script().bytes
            for i, l in enumerate(all_leaves(T, top2)):
                u = l.unlocking_script().bytes
                own = auth([l.script.bytes], record=False)[0]
                ok, o, tapes = auth([u, lock2])
                res.note_case(('regrow', how, it, i))
                if ok != own:
                    B.viol('a subtree combined into a second tree: a leaf of the tree built last cannot be run with its own verdict', {**inp, 'leaf': i, 'scripts': [u.hex(), lock2.hex()]}, own, o[:80])
        except BaseException as e:
            if isinstance(e, (KeyboardInterrupt, SystemExit)): raise
            B.viol('combining an already-used subtree into a second tree raised', inp, 'a tree', type(e).__name__)

    # ---------------------------------------------------------------- the embedder's configuration reaches the leaf (own verdict under the same flags)
    N = {'CTS': 37, 'GETV': 64}
    for it in range(ctx.n(30, 300)):
        fcfg = vmrun.Cfg(now=B.now)
        fcfg.ts = rng.choice([0, 10, 3600])
        fcfg.mask = rng.choice([2047, 2047 ^ 2, 2047 ^ 512])
        ahead = rng.choice([0, 5, 30, 59, 60, 61, 300, 4000])
        cache = {**sf, 'timestamp': B.now + ahead}
        cons = (B.now - rng.choice([0, 5])).to_bytes(5, 'big')
        body = rng.choice([push(T, cons) + bytes([N['CTS']]),
                           push(T, V.rbytes(rng, 32)) + bytes([75, 6]) + bytes([11, 1]) + b'x' + push(T, b'\x01') + bytes([33]),      # derive_scalar pop0; size of cache x == 1 ?
                           T.Script.from_src('true').bytes])
        code = marker(60) + body
        other = marker(61) + T.Script.from_src('false').bytes
        tree = T.ScriptNode(T.ScriptLeaf.from_code(code), T.ScriptNode(T.ScriptLeaf.from_code(other), T.ScriptLeaf.from_code(marker(62) + b'\x01')))
        lf = tree.left
        script = lf.unlocking_script().bytes + tree.locking_script().bytes
        res.note_case(('flags', fcfg.line(), ahead, code))
        own = vmrun.run_impl(fcfg, cache, code); via = vmrun.run_impl(fcfg, cache, script)
        fo, fv = vmrun.fields(own), vmrun.fields(via)
        if (fo['status'] == 'OK') != (fv['status'] == 'OK') or (fo['status'] == 'OK' and fo.get('stack') != fv.get('stack')):
            B.viol('a leaf gives a different result through the tree than on its own under the same embedder flags',
                   {'cfg': fcfg.line(), 'cache': vmrun.cache_str(cache, False), 'leaf': code.hex(), 'script': script.hex()}, own[:100], via[:100])
    # ---------------------------------------------------------------- every committed branch can be run under a call budget that just fits its depth
    for it in range(ctx.n(10, 60)):
        d = [3, 5, 8, 12, 23, 2, 16, 7, 23, 23][it % 10]
        codes_ = [marker(80 + j) + T.Script.from_src(rng.choice(['true', 'true', 'false', 'push d1 push d1 equal'])).bytes for j in range(d + 1)]
        out = try_build(T.make_merklized_script_prioritized, [T.Script.from_bytes(c) for c in codes_])
        if isinstance(out, str): B.viol('make_merklized_script_prioritized raised', {'leaves': [c.hex() for c in codes_]}, '(lock, scripts)', out); continue
        lock, unlocks = out
        for li in sorted({0, d // 2, d - 1, d}):
            u = unlocks[li].bytes
            depth = (len(vmrun.auth_impl(B.cfg(), sf, [u, lock.bytes]).split(' ')) and len(vmrun.LAST.get('tapes', [])) - 2)       # scripts evaluated below the lock
            for extra in (0, 1, 5):
                tcfg = vmrun.Cfg(now=B.now, call_limit=max(1, depth + extra))
                res.note_case(('tight-budget', d, li, extra, tuple(codes_)))
                own = vmrun.auth_impl(tcfg, sf, [codes_[li]])
                via = vmrun.auth_impl(tcfg, sf, [u, lock.bytes])
                if len(B.records) < ctx.n(2500, 12000) + 400: B.records.append((tcfg, dict(sf), [u, lock.bytes], via))
                if own.split(' ')[0] != via.split(' ')[0]:
                    B.viol(f'a leaf {depth} evaluations below the lock, callstack_limit = {depth + extra}: verdict differs from the leaf script\'s own verdict',
                           {'cfg': tcfg.line(), 'leaf': li, 'scripts': [u.hex(), lock.bytes.hex()], 'cache': vmrun.cache_str(sf, False)}, own[:60], via[:80])
    # ---------------------------------------------------------------- a stack that is exactly full when a level starts: the tree cannot turn a leaf's False into True
    for it in range(ctx.n(6, 30)):
        d = [1, 2, 3, 1, 2, 4][it % 6]
        codes_ = [marker(90 + j) + T.Script.from_src(rng.choice(['true', 'true', 'push d1 pop0 true'])).bytes for j in range(d + 1)]
        out = try_build(T.make_merklized_script_prioritized, [T.Script.from_bytes(c) for c in codes_])
        if isinstance(out, str): continue
        lock, unlocks = out
        for li in sorted({0, d}):
            for wit in (bytes([0]), bytes([0, 0]), bytes([0, 1]), bytes([3, 4]) + b'junk'):
                for m_ in range(2, 2 * d + 6):
                    mcfg = vmrun.Cfg(now=B.now, max_items=m_)
                    own = vmrun.auth_impl(mcfg, sf, [wit, codes_[li]]); via = vmrun.auth_impl(mcfg, sf, [wit, unlocks[li].bytes, lock.bytes])
                    res.note_case(('full-stack', d, li, wit, m_))
                    if len(B.records) < ctx.n(2500, 12000) + 900 and m_ % 2 == 0: B.records.append((mcfg, dict(sf), [wit, unlocks[li].bytes, lock.bytes], via))
                    if via.split(' ')[0] == 'T' and own.split(' ')[0] != 'T':
                        B.viol(f'stack_max_items = {m_}, witness leaves {wit.hex()} below the proof: the tree authorizes although the leaf on that stack does not',
                               {'cfg': mcfg.line(), 'leaf': li, 'scripts': [wit.hex(), unlocks[li].bytes.hex(), lock.bytes.hex()], 'cache': vmrun.cache_str(sf, False)}, own[:60], via[:80])
    # ---------------------------------------------------------------- builders
    maxn = 24
    sizes = list(range(1, maxn + 1)) if ctx.tier == 'thorough' else [1, 2, 3, 4, 5, 7, 8, 9, 16, 17, 24]
    for n in sizes:
        if ctx.expired(): break
        specs = leaf_specs(rng, T, n, sf)
        codes = tuple(sp.code for sp in specs)
        for kind in ('prioritized', 'balanced'):
            inp = {'builder': kind, 'leaves': [c.hex() for c in codes], '_all_leaf_codes': codes}
            scripts_in = [T.Script.from_bytes(sp.code) for sp in specs]
            fn = T.make_merklized_script_prioritized if kind == 'prioritized' else T.make_merklized_script_balanced
            out = try_build(fn, list(scripts_in))
            if isinstance(out, str):
                B.viol(f'make_merklized_script_{kind} raised', inp, '(lock, scripts)', out); continue
            lock, unlocks = out
            if len(unlocks) != (max(n, 2) if kind == 'prioritized' else n):
                B.viol(f'make_merklized_script_{kind}: number of unlocking scripts', inp, n, len(unlocks))
            for sp, u in zip(specs, unlocks):
                res.note_case((kind, codes, sp.i))
                # level scripts are not known here: require that the last started script is the leaf, all others are MERKLEVAL levels
                own = auth([sp.prefix, sp.code], record=False)[0] if sp.prefix else auth([sp.code], record=False)[0]
                ok, o, tapes = auth([sp.prefix + u.bytes, lock.bytes])
                started_leaves = [t for t in tapes[2:] if t in codes]
                levels = tapes[2:tapes.index(sp.code)] if sp.code in tapes[2:] else tapes[2:]
                case = {'builder': kind, 'leaf': sp.i, 'n': n, 'scripts': [(sp.prefix + u.bytes).hex(), lock.bytes.hex()], 'cache': vmrun.cache_str(sf, False)}
                if started_leaves != [sp.code] or any(len(t) != 33 or t[0] != 60 for t in levels):
                    B.viol(f'{kind} builder, {n} leaves: scripts that started are not exactly the path of leaf {sp.i}', case, 'MERKLEVAL levels then the leaf', [t.hex()[:40] for t in tapes])
                elif markers_in(o) != {sp.i}:
                    B.viol(f'{kind} builder, {n} leaves: leaf markers in the final cache', case, {sp.i}, sorted(markers_in(o)))
                elif ok != own:
                    B.viol(f'{kind} builder, {n} leaves: verdict differs from the leaf script\'s own verdict', case, own, o[:80])
            # the tree behind the builder (incl. filler leaves): every committed leaf can run; model tie; pack / unpack
            tfn = T.make_script_tree_prioritized if kind == 'prioritized' else T.make_script_tree_balanced
            tree = try_build(tfn, list(scripts_in))
            if isinstance(tree, str):
                B.viol(f'make_script_tree_{kind} raised', inp, 'tree', tree); continue
            tl = all_leaves(T, tree)
            lockb = tree.locking_script().bytes
            unl = []
            for lf in tl:
                u = lf.unlocking_script().bytes; unl.append(u)
                code = lf.script.bytes
                if code in codes: continue
                # a filler leaf: committed, so it can run; it must run alone and give its own verdict
                res.note_case((kind, codes, 'filler', code))
                own = auth([code], record=False)[0]
                ok, o, tapes = auth([u, lockb], record=False)
                if [t for t in tapes[2:] if not (len(t) == 33 and t[0] == 60)][:1] != [code] or ok != own or markers_in(o):
                    B.viol(f'{kind} tree, {n} leaves: filler leaf does not run alone with its own verdict', {'builder': kind, 'n': n, 'scripts': [u.hex(), lockb.hex()]}, own, o[:80])
            # forgery against a node whose two children carry the same commitment (its root would be all zeros and (sha256(X), X)
            # would verify there for any X): tried at the place of every leaf, filler leaves included
            X = marker(201) + T.Script.from_src('true').bytes
            for lf in tl:
                try: pairs_ = proof_pairs(T, lf)
                except BaseException: continue
                forged = serialise(T, [(hashlib.sha256(X).digest(), X)] + pairs_[1:])
                res.note_case((kind, codes, 'zero-root-forgery', lf.script.bytes))
                check_rejected(f'{kind} tree, {n} leaves: uncommitted script X with sibling hash sha256(X) in place of a leaf', lockb, forged, {X}, inp)
            present = [l.script.bytes for l in tl]
            if [c for c in present if c in codes] != list(codes):
                B.viol(f'{kind} tree, {n} leaves: input leaves missing or reordered in the tree', inp, n, len([c for c in present if c in codes]))
            try:
                packed = tree.pack()
                tree_lines.append(('TREE ' + ' '.join(tokens(T, tree)),
                                   f'root={tree.root().hex()} lock={lockb.hex()} pack={packed.hex()} unpack=same unlock=' + '|'.join(x.hex() for x in unl)))
                back = T.ScriptNode.unpack(packed)
                if back.root() != tree.root() or [l.unlocking_script().bytes for l in all_leaves(T, back)] != unl:
                    B.viol(f'{kind} tree, {n} leaves: pack -> unpack changed the root or an unlocking script', inp, tree.root().hex(), back.root().hex())
            except BaseException as e:
                B.viol(f'{kind} tree, {n} leaves: pack / unpack raised', inp, 'round trip', type(e).__name__)

    for source, err in PROBLEMS[:5]:
        B.viol('the compiler rejected a source the tree classes need (a committed branch could not be given an unlocking script)', {'source': source}, 'compiles', err)
    del PROBLEMS[:]
    # ---------------------------------------------------------------- model
    B.finish()
    if ctx.driver.available and tree_lines:
        try:
            replies = ctx.driver.run([l for l, _ in tree_lines])
            for (l, want), r in zip(tree_lines, replies):
                if r != want and len(res.disagreements) < 20:
                    k = next((i for i in range(min(len(r), len(want))) if r[i] != want[i]), 0)
                    res.disagreements.append({'tree': l[:200], 'model': r[max(0, k - 40):k + 80], 'impl': want[max(0, k - 40):k + 80]})
            res.stats['trees_compared_with_model'] = len(tree_lines)
        except DriverCrash as e:
            res.disagreements.append({'driver': str(e)[:300]})
    res.stats['shapes'] = len(todo)
    res.stats['search'] = 'each run judged on the implementation alone: tapes handed to run_tape, leaf markers in the final cache, verdict vs the leaf\'s own verdict'
    res.sample({'lock': tree_lines[0][1][:160] if tree_lines else ''})
    return res


def replay(ctx: Ctx, payload) -> bool:
    return replay_scripts(payload)
