"""C05 — taproot: the root binds key and script; key path and script path are exact.
Theorems: Props/C05.lean. Tie: lock bytes (native and non-native) vs the model's builders, every
run also executed on the model VM. Oracles on the implementation alone: an independent
pure-Python Ed25519 (harness/ed.py) recomputes the root and judges signatures; the tapes handed
to run_tape and a cache marker show whether the supplied script started."""
from __future__ import annotations
import hashlib
from nacl.signing import SigningKey
from ..core import Result, Ctx
from .. import vmrun, ed
from ..builders import Bench, try_build, hexof, replay_scripts
from ..gen import values as V, programs as G
from .c01 import W_OPS

RULE = ("seeds x committed scripts (constants, comparisons, erroring, RETURN, own signature lock, CALL of function 0) x sigfield subsets x (lock flags, witness flags): "
        "root == P + clamp(sha256(P || sha256(S))) * G by an independent pure-Python Ed25519; key path: verdict == (flag permitted and signature valid under the root by that "
        "independent verifier) for the builder's witness, a signature by the untweaked key, by another key, with one bit flipped, over other sigfields, with a non-permitted flag; "
        "script path: the script starts exactly when (script, key) recomputes to the root, with the script's own verdict, else false and the script is never handed to run_tape "
        "(script bit, other key, key = root, invalid point, root bit in the lock); native vs non-native lock on honest + adversarial witnesses (C01 family: RETURN at depth, "
        "definitions shadowing handle 0, cache writes, stack junk, call burning) at default and restricted limits; non-trivial = all; distinct = distinct tuples")

MARK = bytes([2, 1, 9, 2, 0x4c, 0x37, 1])      # cache[b'L7'] = [01]


def push_(b):
    return bytes([3, len(b)]) + b


def committed_scripts(T, rng, sf):
    """(script bytes, witness prefix it needs)"""
    r = rng.random()
    prefix = b''
    if r < .3: body = T.Script.from_src('true').bytes
    elif r < .4: body = T.Script.from_src('false').bytes
    elif r < .55: body = T.Script.from_src(rng.choice(['push d1 push d1 equal', 'push d7 push d9 less', 'push x0102 size push d2 equal verify pop0 true'])).bytes
    elif r < .65: body = T.Script.from_src(rng.choice(['pop0 pop0 pop0 true', 'false verify true', 'push d1 push d0 div_ints'])).bytes
    elif r < .7: body = T.Script.from_src(rng.choice(['true return false', 'true if { return } false'])).bytes
    elif r < .76:     # a block construct followed by instructions that decide the verdict
        body = T.Script.from_src(rng.choice(['true true if { pop0 } false verify', 'true if { true } pop0 false', 'try { true } except { } pop0 push d1 push d2 equal',
                                             'true true if { pop0 } pop0 true', 'push d1 loop { pop0 false } pop0 true'])).bytes
    elif r < .79:      # a committed script of exactly 32 bytes (the length of a hash / a key)
        body = push_(V.rbytes(rng, 21)) + bytes([6, 1])
        assert len(MARK + body) == 32
    elif r < .82: body = T.Script.from_src('def 1 { true } call d1').bytes
    elif r < .86: body = T.Script.from_src('call d0').bytes          # relies on a function the witness defines
    else:
        seed = V.rbytes(rng, 32)
        body = T.make_single_sig_lock(bytes(SigningKey(seed).verify_key)).bytes
        prefix = T.make_single_sig_witness(seed if rng.random() < .7 else V.rbytes(rng, 32), sf).bytes
    return MARK + body, prefix


def started(o):
    f = vmrun.fields(o.split(' ', 1)[1])
    return any(e.startswith('b4c37=') for e in f.get('cache', '-').split(';'))


def run(ctx: Ctx) -> Result:
    # adversarial witnesses recurse: run with a deep Python stack so that known finding K3 (RecursionError observable through
    # TRY at the default recursion limit) does not leak into this property's comparisons
    return vmrun.in_big_thread(_run, ctx)


def _run(ctx: Ctx) -> Result:
    res = Result(rule=RULE)
    rng = ctx.sub_rng('c05')
    B = Bench(ctx, res); T = B.T
    flagsets = ['00', '01', '02', '03', '7f', '80', '04', '08', '10', '20', '40', '5a', 'ef', 'df', '30']      # incl. every single bit
    keys = V.Keys(ctx.sub_rng('keys'))
    n_diff_excluded = 0; k6 = []; k7 = []
    known = ctx.known if hasattr(ctx, 'known') else set()

    def auth(scripts, cache, cfg=None, record=True):
        cfg = cfg or B.cfg()
        o = vmrun.auth_impl(cfg, cache, [bytes(s) for s in scripts])
        if record and len(B.records) < ctx.n(3000, 14000):
            B.records.append((cfg, dict(cache), [bytes(s) for s in scripts], o))
        return o.split(' ')[0] == 'T', o, list(vmrun.LAST.get('tapes', []))

    def push(b):
        return G.push(b)          # the documented smallest push, encoded by the harness itself (not by the compiler under test)

    # ---- deterministic probes of the two recorded native / non-native differences (K6, K7)
    pseed = bytes(range(32)); ppk = bytes(SigningKey(pseed).verify_key)
    ptrue = T.Script.from_src('true'); pcall = T.Script.from_src('call d0')
    psf = {'sigfield1': b'a'}
    for what, scr, w, kw in (
            ('script path, stack_max_item_size=32', ptrue, T.make_taproot_witness_scriptspend(ppk, ptrue).bytes, dict(max_item_size=32)),
            ('script path, callstack_limit=1', ptrue, T.make_taproot_witness_scriptspend(ppk, ptrue).bytes, dict(call_limit=1)),
            ('key path, stack_max_items=2', ptrue, T.make_taproot_witness_keyspend(pseed, psf, ptrue).bytes, dict(max_items=2)),
            ('key path, callstack_limit=0', ptrue, T.make_taproot_witness_keyspend(pseed, psf, ptrue).bytes, dict(call_limit=0))):
        cfg = vmrun.Cfg(now=B.now, **kw)
        lk, nlk = T.make_taproot_lock(ppk, scr).bytes, T.make_nonnative_taproot_lock(ppk, scr).bytes
        a = auth([w, lk], psf, cfg)[0]; b = auth([w, nlk], psf, cfg)[0]
        a2 = auth([w, lk], psf)[0]; b2 = auth([w, nlk], psf)[0]
        res.note_case(('probe', what))
        if a and not b and a2 == b2:
            k6.append({'limits': cfg.line(), 'what': what, 'scripts': [w.hex(), lk.hex(), nlk.hex()], 'cache': vmrun.cache_str(psf, False)})
        elif a != b or a2 != b2:
            B.viol(f'native and non-native taproot locks disagree ({what})', {'scripts': [w.hex(), lk.hex(), nlk.hex()], 'limits': cfg.line(), 'cache': vmrun.cache_str(psf, False)}, f'native={a}', f'nonnative={b}')
    # ... and the other side of each K6 boundary: one unit more and the two locks agree (K6 is exactly that much room, not more)
    for what, scr, w, kw in (
            ('script path, stack_max_item_size=64', ptrue, T.make_taproot_witness_scriptspend(ppk, ptrue).bytes, dict(max_item_size=64)),
            ('script path, callstack_limit=2', ptrue, T.make_taproot_witness_scriptspend(ppk, ptrue).bytes, dict(call_limit=2)),
            ('key path, stack_max_items=3', ptrue, T.make_taproot_witness_keyspend(pseed, psf, ptrue).bytes, dict(max_items=3)),
            ('key path, callstack_limit=1', ptrue, T.make_taproot_witness_keyspend(pseed, psf, ptrue).bytes, dict(call_limit=1))):
        cfg = vmrun.Cfg(now=B.now, **kw)
        lk, nlk = T.make_taproot_lock(ppk, scr).bytes, T.make_nonnative_taproot_lock(ppk, scr).bytes
        a = auth([w, lk], psf, cfg)[0]; b = auth([w, nlk], psf, cfg)[0]
        res.note_case(('probe-agree', what))
        if not (a and b):
            B.viol(f'native and non-native taproot locks: honest builder witness, {what}', {'scripts': [w.hex(), lk.hex(), nlk.hex()], 'limits': cfg.line(), 'cache': vmrun.cache_str(psf, False)}, 'native=True nonnative=True', f'native={a} nonnative={b}')
    w7 = T.Script.from_src('def 0 { true }').bytes + T.make_taproot_witness_scriptspend(ppk, pcall).bytes
    a = auth([w7, T.make_taproot_lock(ppk, pcall).bytes], psf)[0]; b = auth([w7, T.make_nonnative_taproot_lock(ppk, pcall).bytes], psf)[0]
    res.note_case(('probe', 'K7'))
    if a != b:
        k7.append({'what': 'witness `def 0 { true }` + script-spend of the committed script `call d0`', 'scripts': [w7.hex(), T.make_taproot_lock(ppk, pcall).bytes.hex(), T.make_nonnative_taproot_lock(ppk, pcall).bytes.hex()], 'cache': vmrun.cache_str(psf, False), 'native': a, 'nonnative': b})

    # ---- every allowed-flags byte of the lock: honest spends succeed, non-matching (script, key) pairs fail whatever lies below them
    sseed = V.rbytes(rng, 32); spk = bytes(SigningKey(sseed).verify_key); sq = bytes(SigningKey(V.rbytes(rng, 32)).verify_key)
    sscr = T.Script.from_bytes(MARK + T.Script.from_src('push d7 push d7 equal').bytes); sbad = T.Script.from_bytes(MARK + T.Script.from_src('true').bytes)
    for flags in range(256):
        fl = f'{flags:02x}'
        lk = try_build(T.make_taproot_lock, spk, sscr, None, fl)
        if isinstance(lk, str):
            B.viol(f'make_taproot_lock raised for sigflags {fl}', {'flags': fl}, 'lock', lk); continue
        res.note_case(('flag-sweep', flags))
        rec = flags % 16 == 0
        def expect(what, w, want):
            ok, o, tapes = auth([w, lk.bytes], psf, record=rec)
            if ok != want or (not want and started(o)):
                B.viol(f'lock flags {fl}: {what}', {'scripts': [w.hex(), lk.bytes.hex()], 'cache': vmrun.cache_str(psf, False)}, want, o[:80])
        expect('honest script spend', T.make_taproot_witness_scriptspend(spk, sscr).bytes, True)
        expect('honest key spend (witness flag 00)', T.make_taproot_witness_keyspend(sseed, psf, sscr).bytes, True)
        for pre in ('', 'true', 'false', 'true true'):
            preb = T.Script.from_src(pre).bytes if pre else b''
            expect(f'`{pre}` + wrong script, right key', preb + T.make_taproot_witness_scriptspend(spk, sbad).bytes, False)
            expect(f'`{pre}` + right script, wrong key', preb + T.make_taproot_witness_scriptspend(sq, sscr).bytes, False)

    for it in range(ctx.n(70, 900)):
        if ctx.expired(): break
        seed = V.rbytes(rng, 32); pk = bytes(SigningKey(seed).verify_key)
        sf = {f'sigfield{i}': V.rbytes(rng, rng.choice([1, 6, 33])) for i in range(1, 9) if rng.random() < .6}
        if not sf: sf['sigfield2'] = b'xyz'
        if it % 3 == 0: sf = {f'sigfield{i}': V.rbytes(rng, rng.choice([1, 6])) for i in range(1, 9)}        # all eight present: every flag bit matters
        lf = rng.choice(flagsets)
        wf = rng.choice([f for f in flagsets if int(f, 16) & ~int(lf, 16) == 0])
        bad_flags = [f for f in flagsets if int(f, 16) & ~int(lf, 16)]
        if it % 9 == 4:
            # the flags exclude every sigfield that is present: the signature is over the empty message - a message like any other
            ks_ = sorted(rng.sample(range(1, 9), rng.choice([1, 1, 2])))
            sf = {f'sigfield{k_}': V.rbytes(rng, rng.choice([1, 6])) for k_ in ks_}
            lf = wf = '%02x' % sum(1 << (k_ - 1) for k_ in ks_)
            bad_flags = [f for f in flagsets if int(f, 16) & ~int(lf, 16)]
        code, prefix = committed_scripts(T, rng, sf)
        if it % 5 == 2:      # a committed script of exactly 32 bytes (the length of a hash / a key)
            code, prefix = MARK + push_(V.rbytes(rng, 21)) + bytes([6, 1]), b''
        if it % 7 == 3:      # committed scripts whose length sits on a push-size boundary (the script-spend witness pushes the script)
            ln_ = [255, 256, 257, 254, 1000, 1024][(it // 7) % 6]
            padlen = ln_ - len(MARK) - 2 - 3            # marker, `pop0 true`, PUSH header
            code, prefix = MARK + (bytes([3, padlen]) if padlen < 256 else bytes([4]) + (padlen - 1).to_bytes(2, 'big')) + V.rbytes(rng, padlen if padlen < 256 else padlen - 1) + bytes([6, 1]), b''
        script = T.Script.from_bytes(code)
        inp = {'seed': seed.hex(), 'script': code.hex(), 'lock_flags': lf, 'witness_flags': wf, 'sigfields': {k: v.hex() for k, v in sf.items()}}
        res.note_case((seed, code, lf, wf, tuple(sorted(sf))))
        lock = try_build(T.make_taproot_lock, pk, script, None, lf)
        nlock = try_build(T.make_nonnative_taproot_lock, pk, script, None, lf)
        cm = hashlib.sha256(code).hexdigest()
        B.build(f'BUILD2 taproot_lock {pk.hex()} {cm} {int(lf, 16)}', hexof(lock))
        B.build(f'BUILD2 nonnative_taproot_lock {pk.hex()} {cm} {int(lf, 16)}', hexof(nlock))
        if isinstance(lock, str) or isinstance(nlock, str):
            B.viol('a taproot lock builder raised', inp, 'locks', (lock, nlock)); continue
        # ---- the root
        root = ed.taproot_root(pk, code)
        if lock.bytes != push(root) + bytes([91, int(lf, 16)]):
            B.viol('taproot lock is not `push <P + clamp(sha256(P||sha256(S)))*G> taproot <flags>`', inp, (push(root) + bytes([91, int(lf, 16)])).hex(), lock.bytes.hex())
            continue
        def case(scripts, cache=sf):
            return {**inp, 'scripts': [bytes(s).hex() for s in scripts], 'cache': vmrun.cache_str(cache, False)}
        # ---- key path
        def keypath(what, w, cache, expect):
            ok, o, tapes = auth([w, lock.bytes], cache)
            if ok != expect:
                B.viol(f'key path: {what}', case([w, lock.bytes], cache), expect, o[:80])
            return ok
        wk = try_build(T.make_taproot_witness_keyspend, seed, sf, script, None, wf)
        if isinstance(wk, str):
            B.viol('make_taproot_witness_keyspend raised', inp, 'witness', wk); continue
        sigitem = wk.bytes[2:]                          # push1 <len> <sig [flag]>
        sig64 = sigitem[:64]; wflag = sigitem[64] if len(sigitem) == 65 else 0
        valid = ed.verify(root, G.ref_message(sf, wflag), sig64)
        if not valid:
            B.viol('builder key-spend signature is not valid under the root (independent Ed25519)', inp, True, False)
        keypath('the builder\'s key-spend witness', wk.bytes, sf, True)
        w_plain = T.make_single_sig_witness(seed, sf, wf).bytes
        keypath('signature by the untweaked internal key', w_plain, sf, ed.verify(root, G.ref_message(sf, int(wf, 16)), w_plain[2:66]))
        w_other = T.make_taproot_witness_keyspend(V.rbytes(rng, 32), sf, script, None, wf).bytes
        keypath('key-spend witness of another key', w_other, sf, False)
        w_otherscript = T.make_taproot_witness_keyspend(seed, sf, T.Script.from_src('true true'), None, wf).bytes
        keypath('key-spend witness made for a different committed script', w_otherscript, sf, False)
        j = rng.randrange(64); flipped = sig64[:j] + bytes([sig64[j] ^ (1 << rng.randrange(8))]) + sig64[j + 1:] + sigitem[64:]
        keypath('one bit of the signature flipped', push(flipped), sf, ed.verify(root, G.ref_message(sf, wflag), flipped[:64]))
        for junk in (b'\x00', b'\x00\x00', bytes([wflag]) + b'\x01', V.rbytes(rng, 3)):
            item = sigitem + (b'' if len(sigitem) == 65 else bytes([wflag])) + junk
            keypath(f'valid signature item followed by {len(junk)} extra byte(s) ({len(item)} bytes)', push(item), sf, False)
        covered = [k for k in sf if not (wflag >> (int(k[8:]) - 1)) & 1]
        if covered:
            k = rng.choice(covered); sf2 = {**sf, k: sf[k] + b'!'}
            keypath(f'a covered sigfield changed ({k})', wk.bytes, sf2, False)
        excluded = [k for k in sf if (wflag >> (int(k[8:]) - 1)) & 1]
        if excluded:
            k = rng.choice(excluded); sf2 = {**sf, k: sf[k] + b'!'}
            keypath(f'an excluded sigfield changed ({k})', wk.bytes, sf2, True)
        for bf in bad_flags[:2]:
            wb = try_build(T.make_taproot_witness_keyspend, seed, sf, script, None, bf)
            if not isinstance(wb, str):
                keypath(f'witness flag {bf} not permitted by lock flags {lf}', wb.bytes, sf, False)
        # ---- script path
        own = auth([prefix, code], sf, record=False)[0] if prefix else auth([code], sf, record=False)[0]
        def scriptpath(what, s, k, lk=lock.bytes):
            rootop = lk[1:2] if lk[:1] == b'\x02' else lk[2:2 + lk[1]]          # the item the lock pushes before OP_TAPROOT
            recomputes = (len(k) == 32 and ed.dec(k) is not None and ed.mul(ed.L, ed.dec(k)) == (0, 1) and rootop == ed.enc(ed.add(ed.dec(k), ed.mul(int.from_bytes(hashlib.sha256(k + hashlib.sha256(s).digest()).digest(), 'little') & (2**255 - 1), ed.B))))
            w = prefix + push(s) + push(k)
            ok, o, tapes = auth([w, lk], sf)
            c = case([w, lk])
            if recomputes:
                if s not in tapes[2:] or (s[:len(MARK)] == MARK and not started(o)):
                    B.viol(f'script path: {what}: the pair recomputes to the root but the script did not run', c, 'script runs', o[:80])
                elif s == code and ok != own:
                    B.viol(f'script path: {what}: verdict is not the script\'s own verdict', c, own, o[:80])
            else:
                if ok: B.viol(f'script path: {what}: accepted', c, False, o[:80])
                elif s in tapes[2:] or started(o):
                    B.viol(f'script path: {what}: the supplied script ran although the pair does not recompute to the root', c, 'not started', [t.hex()[:40] for t in tapes])
        ws = try_build(T.make_taproot_witness_scriptspend, pk, script)
        if isinstance(ws, str) or ws.bytes != push(code) + push(pk):
            B.viol('make_taproot_witness_scriptspend is not `push <script> push <key>`', inp, (push(code) + push(pk)).hex(), hexof(ws)); continue
        scriptpath('the builder\'s script-spend witness', code, pk)
        # the witness's own RETURN (at top level) ends the witness script only: the committed script still runs to its own end
        wret = prefix + push(code) + push(pk) + bytes([48])
        ok_r, o_r, tapes_r = auth([wret, lock.bytes], sf)
        if ok_r != own or code not in tapes_r[2:]:
            B.viol('script path: the builder\'s script-spend witness followed by the witness\'s own RETURN: verdict is not the script\'s own verdict', case([wret, lock.bytes]), own, o_r[:80])
        j = rng.randrange(len(code)); bad = code[:j] + bytes([code[j] ^ (1 << rng.randrange(8))]) + code[j + 1:]
        scriptpath('one bit of the script flipped', bad, pk)
        scriptpath('an uncommitted script', MARK + T.Script.from_src('true').bytes + b'\x01' * rng.randrange(1, 3), pk)
        scriptpath('another key', code, bytes(SigningKey(V.rbytes(rng, 32)).verify_key))
        scriptpath('the root itself as key', code, root)
        scriptpath('a small-order / mixed-order / invalid point as key', code, keys.point(rng)[:32].ljust(32, b'\x00'))
        # a key that is on the curve but not in the prime-order group (P + a point of order 8) is not a key: the builder refuses
        # it, and a lock whose root was computed for it by the documented formula must not run the script either
        T8 = ed.dec(bytes.fromhex('c7176a703d4dd84fba3c0b760d10670f2a2053fa2c39ccc64ec7fd7792ac037a'))
        Kt = ed.enc(ed.add(ed.dec(pk), T8))
        lkt = lock.bytes[:2] + ed.taproot_root(Kt, code) + lock.bytes[34:]
        scriptpath('key with a torsion component (P + order-8 point), root computed for it by the formula', code, Kt, lkt)
        j = rng.randrange(32); lk2 = lock.bytes[:2 + j] + bytes([lock.bytes[2 + j] ^ (1 << rng.randrange(8))]) + lock.bytes[3 + j:]
        scriptpath('one bit of the root in the lock flipped', code, pk, lk2)
        # the root with the SAME bit flipped in two bytes a multiple of 8 (or of 4, 16) apart - differences that cancel in a folded comparison
        for gap in (8, 16, 24, 4):
            j_ = rng.randrange(32 - gap); mk = 1 << rng.randrange(8)
            r2 = bytearray(root); r2[j_] ^= mk; r2[j_ + gap] ^= mk
            scriptpath(f'the root with bit {mk:02x} flipped in bytes {j_} and {j_ + gap}', code, pk, lock.bytes[:2] + bytes(r2) + lock.bytes[34:])
        # a root operand that is not 32 bytes (the true root with bytes appended, or a prefix of it) is not the root
        for what_, r_ in (('the true root with a byte appended', root + b'\x00'), ('the true root with five bytes appended', root + bytes(5)), ('the first 31 bytes of the true root', root[:31]),
                          ('the first 16 bytes of the true root', root[:16]), ('the first byte of the true root', root[:1])):
            lkr = G.push(r_) + lock.bytes[34:]
            scriptpath(f'{what_} as the lock\'s root operand', code, pk, lkr)
        okk, o, _ = auth([wk.bytes, lk2], sf)
        if okk: B.viol('key path: honest witness against a lock whose root has one bit flipped', case([wk.bytes, lk2]), False, o[:80])
        # ---- history: a Script object whose bytes are replaced in place between two builds - the second lock commits to the new bytes
        if len(code) < 200:
            S_ = T.Script.from_bytes(MARK + T.Script.from_src('true').bytes)
            try:
                l1_ = T.make_taproot_lock(pk, S_, None, lf)
                S_.bytes = code; S_.src = script.src
                l2_ = T.make_taproot_lock(pk, S_, None, lf)
                res.note_case((seed, code, 'script-object-reused'))
                if l2_.bytes[2:34] != ed.taproot_root(pk, code):
                    B.viol('make_taproot_lock on a Script object whose bytes were replaced after an earlier build: the root does not commit to the current bytes',
                           {**inp, 'first_script': S_.bytes.hex()}, ed.taproot_root(pk, code).hex(), l2_.bytes[2:34].hex())
            except BaseException as e:
                B.viol('make_taproot_lock raised on a reused Script object', inp, 'lock', type(e).__name__)
        # ---- history: taproot instructions the witness itself runs before the lock must not help a forged pair
        # (point subtraction: K = root - clamp(sha256(A || sha256(M))) * G would recompute to the root only with the tweak of (A, M))
        aseed = V.rbytes(rng, 32); A = bytes(SigningKey(aseed).verify_key)
        M = MARK + T.Script.from_src('true').bytes
        tA = int.from_bytes(hashlib.sha256(A + hashlib.sha256(M).digest()).digest(), 'little') & (2**255 - 1)
        K = ed.enc(ed.add(ed.dec(root), ed.neg(ed.mul(tA, ed.B))))
        rootA = ed.taproot_root(A, M)
        prime = push(M) + push(A) + push(rootA) + bytes([91, 0]) + bytes([32])          # attacker's own script-spend, result dropped with VERIFY
        for what, pre in (('forged key K = root - t(A,M)*G, no history', b''), ('the same after the witness ran its own taproot script-spend of (A, M)', prime),
                          ('after the witness ran the victim\'s root against a wrong pair', push(M) + push(A) + push(root) + bytes([91, 0]) + bytes([6]))):
            w = pre + push(M) + push(K)
            ok, o, tapes = auth([w, lock.bytes], sf)
            res.note_case((seed, code, 'history', what))
            if ok or (tapes and M in tapes[2 + (1 if pre == prime else 0):] and pre != prime and started(o)):
                B.viol(f'script path with history: {what}: accepted', case([w, lock.bytes]), False, o[:80])
            elif pre == prime and tapes.count(M) > 1:
                B.viol(f'script path with history: {what}: the forged pair\'s script ran', case([w, lock.bytes]), 'not started', [t.hex()[:40] for t in tapes])
        # ---- key path when the witness has used the whole call budget: the native instruction needs no call
        kcl = rng.choice([1, 2, 3, 128])
        burn = T.Script.from_src('def 0 { true verify }').bytes + bytes([42, 0]) * kcl
        ccfg = vmrun.Cfg(now=B.now, call_limit=kcl)
        ok, o, _ = auth([burn + wk.bytes, lock.bytes], sf, ccfg)
        res.note_case((seed, 'burned', kcl))
        if not ok:
            B.viol(f'key path: valid signature after the witness made exactly callstack_limit = {kcl} calls', {**case([burn + wk.bytes, lock.bytes]), 'limits': ccfg.line()}, True, o[:80])

        # ---- native vs non-native
        cache = {**sf}
        if rng.random() < .2: cache[b'k'] = [rng.choice(keys.pks)]
        honest = [wk.bytes, prefix + ws.bytes, w_plain, w_other, prefix + push(bad) + push(pk), push(code) + push(root), push(V.rbytes(rng, 32)), push(V.rbytes(rng, 64)), b'']
        honest += [prefix + ws.bytes + bytes([48]), wk.bytes + bytes([48]), bytes([1, 43, 0, 1, 48]) + prefix + ws.bytes]      # ... ending in / starting with a RETURN of the witness's own
        for wi in range(ctx.n(6, 10)):
            cfg = vmrun.Cfg(now=B.now)
            restricted = rng.random() < .3
            if restricted:
                cfg.max_items = rng.choice([2, 3, 4, 5, 6, 1024]); cfg.max_item_size = rng.choice([32, 63, 64, 65, 1024]); cfg.call_limit = rng.choice([1, 2, 3, 128])
            g = G.ProgGen(rng, cfg, cache, keys, ops=W_OPS, clean=rng.random() < .6, max_depth=3)
            h = rng.choice(honest)
            r = rng.random()
            w = h if r < .35 else g.program(rng.choice([1, 2, 3])) + h if r < .65 else h + g.program(rng.choice([1, 2])) if r < .8 else g.program(rng.choice([1, 2, 4]))
            if rng.random() < .15:
                w = T.Script.from_src(rng.choice(['def 0 { true }', 'def 0 { false } def 1 { true }', 'def 0 { return }'])).bytes + w
            res.note_case((seed, code, lf, w, cfg.line()))
            a, oa, _ = auth([w, lock.bytes], cache, cfg)
            b, ob, _ = auth([w, nlock.bytes], cache, cfg)
            if a == b: continue
            # the witness itself used up the call budget (excluded by the property): fewer than 3 calls left after it
            wo = vmrun.run_impl(cfg, cache, w)
            cnt = int(vmrun.fields(wo).get('cnt', '0') or 0) if wo.startswith('OK') else 0
            c = {**inp, 'scripts': [w.hex(), lock.bytes.hex(), nlock.bytes.hex()], 'cache': vmrun.cache_str(cache, False), 'limits': cfg.line(), 'native': oa[:60], 'nonnative': ob[:60]}
            if cfg.call_limit - cnt < 3 and cnt > 0:
                n_diff_excluded += 1; continue
            # K6: the non-native lock needs room the native instruction does not (3 stack slots, a 64-byte item, one more call):
            # the difference disappears when the same lists run with the default limits
            tight = cfg.max_items < 1024 or cfg.max_item_size < 64 or cfg.call_limit - cnt < 2      # what K6 is about, as written in the case
            if restricted and tight and a and not b:
                d = vmrun.Cfg(now=B.now)
                a2 = auth([w, lock.bytes], cache, d, record=False)[0]; b2 = auth([w, nlock.bytes], cache, d, record=False)[0]
                if a2 == b2:
                    k6.append(c); continue
            # K7: the non-native lock redefines function 0: a committed script that calls function 0 of the witness sees the lock's instead
            if b'\x29\x00' in w and b'\x2a\x00' in code:
                k7.append(c); continue
            B.viol('native and non-native taproot locks disagree on a witness', c, f'native={a}', f'nonnative={b}')
    B.finish()
    from ..core import known_ids
    if k6:
        if 'K6' in known_ids('C05'):
            res.known.append(('K6', f'the non-native taproot lock fails where the native instruction succeeds when limits are tight ({len(k6)} cases this run, e.g. limits {k6[0]["limits"].split(":")[:3]}); same verdict at default limits'))
        else:
            res.violations.append({'finding': 'K6', 'input': {'what': 'native True, non-native False under restricted limits', **k6[0]}, 'expected': 'same verdict', 'observed': 'native=True nonnative=False', 'how_to_run': 'scripts[0]+scripts[1] vs scripts[0]+scripts[2] with the limits given'})
    if k7:
        if 'K7' in known_ids('C05'):
            res.known.append(('K7', f'the non-native taproot lock redefines function 0: witness `def 0 {{ true }}` + committed script `call d0` is accepted by the native lock and rejected by the non-native one ({len(k7)} cases this run)'))
        else:
            res.violations.append({'finding': 'K7', 'input': k7[0], 'expected': 'same verdict', 'observed': f"native={k7[0].get('native')} nonnative={k7[0].get('nonnative')}", 'how_to_run': 'scripts[0]+scripts[1] vs scripts[0]+scripts[2]'})
    res.stats['K6_cases'] = len(k6); res.stats['K7_cases'] = len(k7)
    res.stats['differences_excluded_call_budget_used_up_by_witness'] = n_diff_excluded
    res.stats['search'] = 'each run judged on the implementation alone: independent Ed25519 for root / signatures, tapes handed to run_tape and a cache marker for "script started"'
    res.sample({'taproot_lock': B.builds[0][1][:160] if B.builds else ''})
    return res


def replay(ctx: Ctx, payload) -> bool:
    return replay_scripts(payload)
