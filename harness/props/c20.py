"""C20 — unassigned opcodes are soft-fork-safe no-ops.
Theorems: Props/C20.lean (table obligations over the regenerated opcode tables, NOP spec).
Tie: NOP codes x all 256 count bytes x stack depths on the implementation (judged by the
documented behaviour, compared with the model), compile / decompile of `NOPn d<signed>` for every
(code, count), and the soft-fork implication measured in fresh interpreters with and without a
fork installed, for a family of fork ops written to the readme's contract."""
from __future__ import annotations
import json, subprocess, sys, os
from concurrent.futures import ThreadPoolExecutor
from ..core import Result, Ctx, DriverCrash, REPO, VERIF
from .. import vmrun, impl
from ..gen import programs as G, values as V
from . import c06

RULE = ("(a) every unassigned code x count byte 0..255 x stack depth in {0,1,2,3,5,130}: documented NOP behaviour (signed count, pops exactly count, "
        "error if negative or deeper than the stack, nothing else changes) and model comparison; (b) `NOP<code> d<signed count>` / x<count> compiles to "
        "[code,count] and decompiles back, every pair; (c) soft forks: fork op family (predicates over the popped items) installed at free codes in a "
        "fresh interpreter vs an interpreter without it, on TRY-free generated script lists using that code: authorized-with-fork implies authorized-without; "
        "new name / aliases compile to the bytes of the old NOP spelling; non-trivial = all; distinct = distinct tuples")

FORK_KINDS = ['all_equal', 'all_nonempty', 'first_is_ff', 'always_fail', 'never_fail', 'even_total']
NO_TRY = ['TRUE', 'FALSE', 'PUSH1', 'PUSH0', 'DUP', 'IF', 'IF_ELSE', 'LOOP', 'DEF', 'CALL', 'EVAL', 'VERIFY', 'POP0', 'DEPTH', 'ADD_INTS',
          'EQUAL', 'SWAP2', 'CONCAT', 'SIZE', 'RETURN']


def worker(req):
    p = subprocess.run([sys.executable, os.path.join(VERIF, 'harness', 'forkworker.py')], input=json.dumps(req), stdout=subprocess.PIPE,
                       stderr=subprocess.PIPE, text=True, timeout=900)
    if p.returncode != 0:
        return {'error': p.stderr[-400:]}
    return json.loads(p.stdout)


def fork_scripts(rng, keys, code, n):
    """script lists (TRY-free) that use `code` with small counts after pushing items"""
    out = []
    for _ in range(n):
        cfg = vmrun.Cfg()
        cache = {}
        g = G.ProgGen(rng, cfg, cache, keys, ops=NO_TRY, clean=rng.random() < .7, max_depth=2)
        def use():
            k = rng.choice([0, 1, 2, 3])
            items = [rng.choice([b'\xff', b'\x01\x23', b'', b'ab', b'\xff']) for _ in range(k)]
            if rng.random() < .5 and items: items = [items[0]] * k
            cnt = rng.choice([k, k, k, k + 1, 0, 0x80, 0xff, 0x7f]) & 0xff
            return b''.join(G.push(i) if i else b'\x03\x00' for i in items) + bytes([code, cnt])
        parts = [g.program(rng.choice([0, 1, 2])), use(), g.program(rng.choice([0, 1])), use() if rng.random() < .3 else b'', bytes([G.names()['TRUE']])]
        body = b''.join(parts)
        if rng.random() < .3:       # inside a construct
            body = bytes([G.names()['TRUE'], G.names()['IF']]) + G.u2(len(use())) + use() + bytes([G.names()['TRUE']])
        scripts = [body] if rng.random() < .6 else [g.program(1), body]
        out.append([s.hex() for s in scripts])
    return out


def run(ctx: Ctx) -> Result:
    res = Result(rule=RULE)
    rng = ctx.sub_rng('c20')
    keys = V.Keys(ctx.sub_rng('keys'))
    F, P = impl.functions(), impl.parsing()
    n_ops = len(F.opcodes)
    free = [c for c in range(256) if c not in F.opcodes]
    def viol(inp, exp, obs):
        if len(res.violations) < 10:
            res.violations.append({'input': inp, 'expected': exp, 'observed': obs, 'how_to_run': './check C20 --replay <this file>'})
    # (a) NOP behaviour
    depths = [0, 1, 2, 3, 5, 130]
    codes_a = free if ctx.tier == 'thorough' else sorted(set(free[:3] + free[-3:] + rng.sample(free, min(10, len(free)))))
    cases = []
    for code in codes_a:
        for cnt in range(256):
            for d in depths:
                if d == 130 and cnt not in (0, 1, 127, 128, 129, 130, 131, 255): continue
                items = [bytes([i % 251]) if i % 7 else b'' for i in range(d)]
                script = b''.join((G.push(i) if i else b'\x03\x00') for i in items) + bytes([code, cnt]) + b'\x01'
                cases.append((vmrun.Cfg(), {'sigfield1': b'x', b'k': [b'v']}, script, {'NOP': 1}, (code, cnt, d, items)))
    outs = []
    def work():
        for cfg, cache, script, used, meta in cases:
            outs.append(vmrun.run_impl(cfg, cache, script))
    vmrun.in_big_thread(work)
    for (cfg, cache, script, used, (code, cnt, d, items)), o in zip(cases, outs):
        res.note_case(('nop', code, cnt, d))
        f = vmrun.fields(o)
        signed = cnt - 256 if cnt >= 128 else cnt
        if signed < 0: exp = 'ERR:ScriptExecutionError'
        elif signed > d: exp = 'ERR'
        else: exp = 'OK'
        got = f['status']
        ok = (got == exp) if exp != 'ERR' else got.startswith('ERR')
        if ok and exp == 'OK':
            want_stack = vmrun.stack_str(items[:d - signed] + [b'\xff'])
            if f['stack'] != want_stack:
                ok = False; got = f'stack {f["stack"][:80]} (wanted {want_stack[:80]})'
            if f['cache'] != vmrun.canon_E(vmrun.cache_str({'timestamp': vmrun.NOW, **cache})):
                ok = False; got = 'cache changed: ' + f['cache'][:120]
        if not ok:
            viol({'what': 'NOP behaviour', 'code': code, 'count_byte': cnt, 'stack_depth': d, 'script': script.hex(), 'cfg': cfg.line(),
                  'cache': vmrun.cache_str(cache, False)}, exp, got)
    if ctx.driver.available:
        try:
            replies = ctx.driver.run([vmrun.case_line('RUN', c[0], c[1], [c[2]]) for c in cases])
            for c, r, o in zip(cases, replies, outs):
                ok, soft, why = vmrun.compare_run(r, o)
                if not ok and len(res.disagreements) < 30:
                    res.disagreements.append({'script': c[2].hex()[:80], 'why': why, 'model': r[:120], 'impl': o[:120]})
        except DriverCrash as e:
            res.disagreements.append({'driver': str(e)[:300]})
    else:
        res.disagreements.append({'driver': 'not built'})
    # (b) compile / decompile of every (code, count)
    for code in free:
        name = F.nopcodes[code][0] if code in F.nopcodes else None
        if name != f'NOP{code}':
            viol({'what': 'nopcode table', 'code': code}, f'NOP{code}', str(name)); continue
        for cnt in range(256):
            res.note_case(('asm', code, cnt))
            signed = cnt - 256 if cnt >= 128 else cnt
            want = bytes([code, cnt])
            for src in (f'{name} d{signed}', f'{name.lower()} x{cnt:02x}'):
                try: got = P.compile_script(src)
                except BaseException as e: got = 'ERR:' + type(e).__name__
                if got != want:
                    viol({'what': 'compile', 'source': src}, want.hex(), got.hex() if isinstance(got, bytes) else got)
            if cnt in (0, 1, 0x80, 0xff):
                # a NOP name is an instruction name in every context: after other instructions, inside blocks, and right after the
                # one-symbol forms of the explicit pushes (whose look-ahead must recognise it as a name, not a value)
                ctxs = ((f'true {name} d{signed} false', b'\x01' + want + b'\x00'), (f'OP_PUSH1 x2a {name} d{signed}', b'\x03\x01\x2a' + want),
                        (f'OP_PUSH2 x2a2b {name.lower()} x{cnt:02x} true', b'\x04\x00\x02\x2a\x2b' + want + b'\x01'), (f'push1 x01 {name} d{signed}', b'\x03\x01\x01' + want),
                        (f'true if {{ {name} d{signed} }}', b'\x01\x2b\x00\x02' + want), (f'def 0 {{ {name} d{signed} }}', b'\x29\x00\x00\x02' + want))
                for src, w2 in ctxs:
                    res.note_case(('asm-ctx', src))
                    try: got = P.compile_script(src)
                    except BaseException as e: got = 'ERR:' + type(e).__name__
                    if got != w2:
                        viol({'what': 'compile', 'source': src}, w2.hex(), got.hex() if isinstance(got, bytes) else got)
            try: lst = P.decompile_script(want)
            except BaseException as e: lst = 'ERR:' + type(e).__name__
            if lst != [f'{name} d{signed}']:
                viol({'what': 'decompile', 'bytes': want.hex()}, str([f'{name} d{signed}']), str(lst))
            else:
                try: back = P.compile_script('\n'.join(lst))
                except BaseException as e: back = 'ERR:' + type(e).__name__
                if back != want:
                    viol({'what': 'decompile then compile', 'bytes': want.hex(), 'listing': lst}, want.hex(), str(back if not isinstance(back, bytes) else back.hex()))
    # (c) soft forks in fresh interpreters
    codes_c = free if ctx.tier == 'thorough' else sorted(set([free[0], free[-1]] + rng.sample(free, min(3, len(free)))))
    reqs = []
    for ci_, code in enumerate(codes_c):
        scripts = fork_scripts(rng, keys, code, ctx.n(120, 400))
        # a fork's name is the embedder's choice: any OP_-prefixed word, also one that contains the letters of a built-in spelling
        name = [f'OP_FORK_{code}', f'OP_CANOPY_{code}', f'OP_X{code}_NOPE', f'OP_PUSHY_{code}'][ci_ % 4]
        al_ = [f'FK{code}', f'OP_FK{code}'] if ci_ % 2 == 0 else [f'KNOPF{code}', f'OP_FK{code}']
        srcs_new = [f'{name} d{n}' for n in (0, 1, 3, 127)] + [f'{name.lower()} x{n:02x}' for n in (0, 3, 0x80, 0xff)] + [f'{al_[0]} d2', f'{al_[1].lower()} d2']
        srcs_old = [f'NOP{code} d{n}' for n in (0, 1, 3, 127)] + [f'nop{code} x{n:02x}' for n in (0, 3, 0x80, 0xff)] + [f'NOP{code} d2', f'NOP{code} d2']
        # ... and inside every block construct (name and alias alike)
        blocks_ = ['true loop {{ {0} d2 false }}', 'try {{ {0} d2 }} except {{ {0} d1 }}', 'true if {{ {0} d2 }} else {{ {0} d1 }}', 'true if {{ true loop {{ {0} d0 false }} }}', 'true if ( {0} d0 ) {{ {0} d1 }}']
        srcs_new += [b_.format(al_[0]) for b_ in blocks_] + [b_.format(name) for b_ in blocks_] + [b_.format(al_[0].lower()) for b_ in blocks_[:2]] + [f'def 0 {{ {name} d2 }}']
        srcs_old += [b_.format(f'NOP{code}') for b_ in blocks_] * 2 + [b_.format(f'NOP{code}') for b_ in blocks_[:2]] + [f'def 0 {{ NOP{code} d2 }}']
        base = {'repo': REPO, 'code': code, 'name': name, 'aliases': al_, 'auth': scripts}
        reqs.append(({**base, 'kind': None, 'compile': srcs_old, 'decompile': [bytes([code, 3]).hex()]}, None))
        # an install attempt that is refused (name without the OP_ prefix) must leave the byte an ordinary NOP
        reqs.append(({**base, 'kind': None, 'rejected_installs': [f'FORK_{code}', f'fork{code}'], 'compile': srcs_old, 'decompile': [bytes([code, 3]).hex()]}, 'rejected-install'))
        for kind in (FORK_KINDS if ctx.tier == 'thorough' else FORK_KINDS[:4] + [rng.choice(FORK_KINDS[4:])]):
            reqs.append(({**base, 'kind': kind, 'compile': srcs_new, 'decompile': [bytes([code, 3]).hex()]}, kind))
        # history: the same bytes were listed (as NOPs) before the fork was installed - afterwards they are listed with the fork's name
        nested_ = bytes([1, 43, 0, 2, code, 3])
        reqs.append(({**base, 'kind': FORK_KINDS[0], 'decompile_before_install': [bytes([code, 3]).hex(), nested_.hex()], 'compile': srcs_new, 'decompile': [bytes([code, 3]).hex()]}, FORK_KINDS[0]))
        # history: Script objects built BEFORE the install (their source text says NOP<code>) are joined afterwards
        reqs.append(({**base, 'kind': FORK_KINDS[0], 'script_objects_before_install': True, 'compile': srcs_new, 'decompile': [bytes([code, 3]).hex()]}, FORK_KINDS[0]))
        # history: parsing handlers had been registered for the same name before (a prototype): the install's own handlers replace them
        reqs.append(({**base, 'kind': FORK_KINDS[0], 'earlier_handlers': True, 'compile': srcs_new, 'decompile': [bytes([code, 3]).hex()]}, FORK_KINDS[0]))
        # history: an earlier fork at another byte had claimed the same aliases; after this install name and aliases reach THIS byte
        other = next(c for c in reversed(free) if c != code)
        reqs.append(({**base, 'kind': FORK_KINDS[0], 'earlier_installs': [{'code': other, 'name': f'OP_OLDFORK_{other}', 'aliases': base['aliases']}],
                      'compile': srcs_new, 'decompile': [bytes([code, 3]).hex()]}, FORK_KINDS[0]))
    with ThreadPoolExecutor(12) as ex:
        answers = list(ex.map(lambda r: worker(r[0]), reqs))
    base_by_code = {}
    for (req, kind), ans in zip(reqs, answers):
        if 'error' in ans:
            res.disagreements.append({'forkworker': ans['error']}); continue
        if kind is None:
            base_by_code[req['code']] = ans
    fork_true = 0
    for (req, kind), ans in zip(reqs, answers):
        if kind != 'rejected-install' or 'error' in ans or req['code'] not in base_by_code: continue
        old = base_by_code[req['code']]
        res.note_case(('rejected-install', req['code']))
        if any(r == 'accepted' for r in ans.get('rejected', [])):
            viol({'what': 'install with a name that lacks the OP_ prefix', 'code': req['code'], 'names': req['rejected_installs']}, 'refused', str(ans.get('rejected')))
        for field in ('auth', 'compile', 'decompile'):
            if ans[field] != old[field]:
                k = next(i for i, (a, b) in enumerate(zip(ans[field], old[field])) if a != b)
                viol({'what': f'after a *refused* install the byte is no longer an ordinary NOP ({field})', 'code': req['code'], 'names': req['rejected_installs'],
                      'item': (req[field][k] if field != 'auth' else req['auth'][k])}, str(old[field][k])[:200], str(ans[field][k])[:200])
                break
    for (req, kind), ans in zip(reqs, answers):
        if 'install_error' in ans:
            viol({'what': 'a fork could not be installed at a free code', 'code': req['code'], 'earlier_installs': [e['code'] for e in req.get('earlier_installs', [])]}, 'installed', ans['install_error'])
    for (req, kind), ans in zip(reqs, answers):
        if kind is None or kind == 'rejected-install' or 'error' in ans or 'install_error' in ans or req['code'] not in base_by_code: continue
        old = base_by_code[req['code']]
        for scripts, v_new, v_old in zip(req['auth'], ans['auth'], old['auth']):
            res.note_case(('fork', req['code'], kind, tuple(scripts)))
            fork_true += v_new is True
            if v_new is True and v_old is not True:
                viol({'what': 'soft fork safety', 'code': req['code'], 'fork_op': kind, 'scripts': scripts},
                     'authorized with the fork => authorized without it', f'with fork: {v_new}, without: {v_old}')
            if isinstance(v_new, str) or isinstance(v_old, str):
                viol({'what': 'run_auth_scripts raised', 'code': req['code'], 'fork_op': kind, 'scripts': scripts}, 'bool', f'{v_new} / {v_old}')
        for src_new, b_new, b_old in zip(req['compile'], ans['compile'], old['compile']):
            res.note_case(('forkasm', req['code'], src_new))
            if b_new != b_old or b_new.startswith('ERR'):
                viol({'what': 'fork name / alias compiles to the NOP bytes', 'code': req['code'], 'source': src_new}, b_old, b_new)
        if req.get('script_objects_before_install') and ans.get('script_add', '').startswith(('ERR', 'DIFFERENT')):
            viol({'what': 'two Script objects built before the fork was installed, joined with + afterwards', 'code': req['code'], 'sources': ['true true', f"NOP{req['code']} d2 true"]}, 'the concatenation of their bytes', ans.get('script_add'))
        if ans['decompile'] and ans['decompile'][0] != [f"{req['name']} d3"]:
            viol({'what': 'decompile with fork installed', 'code': req['code']}, str([f"{req['name']} d3"]), str(ans['decompile'][0]))
    res.stats['fork_cases_authorized_with_fork'] = fork_true
    res.stats['codes_nop_behaviour'] = len(codes_a); res.stats['codes_forked'] = len(codes_c)
    res.sample({'nop': cases[5][2].hex(), 'impl': outs[5][:100]})
    res.sample({'fork_request': {k: (v if k != 'auth' else v[:2]) for k, v in reqs[1][0].items()}})
    res.stats['search'] = 'every case is judged on the implementation alone by the documented NOP behaviour / round trip / fork implication'
    return res


def replay(ctx: Ctx, payload) -> bool:
    inp = payload['input']
    F, P = impl.functions(), impl.parsing()
    w = inp.get('what')
    try:
        if w == 'compile': return P.compile_script(inp['source']).hex() == payload['expected']
        if w in ('decompile', 'decompile then compile'):
            lst = P.decompile_script(bytes.fromhex(inp['bytes'])); print(lst)
            return str(lst) == payload['expected'] if w == 'decompile' else P.compile_script('\n'.join(lst)).hex() == inp['bytes']
        if w == 'NOP behaviour':
            cfg, cache = c06.parse_case(inp['cfg'], inp['cache'])
            o = vmrun.run_impl(cfg, cache, bytes.fromhex(inp['script'])); print(o[:200])
            exp = payload['expected']; st = o.split(' ')[0]
            return st == exp if exp != 'ERR' else st.startswith('ERR')
        if w == 'soft fork safety':
            base = {'repo': REPO, 'code': inp['code'], 'name': f"OP_FORK_{inp['code']}", 'auth': [inp['scripts']]}
            a = worker({**base, 'kind': inp['fork_op']}); b = worker({**base, 'kind': None}); print(a, b)
            return not (a['auth'][0] is True and b['auth'][0] is not True)
    except BaseException as e:
        print('raised', type(e).__name__, e)
    return False
