"""C13 — signature and commitment lock builders: exactly the intended holder can unlock.
Theorems: Props/C13.lean. Tie: builder bytes vs the model's builders; verdicts of all pairings
and single-field perturbations judged on the implementation alone by the property's sentence."""
from __future__ import annotations
from nacl.signing import SigningKey
from ..core import Result, Ctx
from .. import vmrun, impl
from ..builders import Bench, try_build, hexof, replay_scripts
from ..gen import values as V, programs as G

RULE = ("random keys x sigfield subsets x (lock flags, witness flags) x committed / surrogate scripts for: single-sig both layouts, m-of-n multisig, script-hash, graftroot key / surrogate "
        "paths, graftap key / script paths: the sibling builder's witness unlocks; a witness by another key, over different covered sigfields, with a non-permitted flag, for a different "
        "committed / surrogate script, or a surrogate not signed by the lock's key is rejected; cross-pairings of every witness kind with every lock kind; builder bytes vs model; "
        "non-trivial = all; distinct = distinct (keys, fields, flags, pairing)")


def run(ctx: Ctx) -> Result:
    res = Result(rule=RULE)
    rng = ctx.sub_rng('c13')
    B = Bench(ctx, res); T = B.T
    flagsets = ['00', '01', '02', '03', '7f', '80', 'ff', '04', '08', '10', '20', '40', 'df', 'ef', 'bf', '30']      # incl. every single bit and its complement neighbours
    for it in range(ctx.n(60, 700)):
        seeds = [V.rbytes(rng, 32) for _ in range(4)]; pks = [bytes(SigningKey(s).verify_key) for s in seeds]
        sf = {f'sigfield{i}': V.rbytes(rng, rng.choice([1, 6, 33])) for i in range(1, 9) if rng.random() < .6}
        if not sf: sf['sigfield3'] = b'abc'
        lf = rng.choice(flagsets)                                   # flags the lock permits
        sub = [f for f in flagsets if int(f, 16) & ~int(lf, 16) == 0 and f != 'ff']
        wf = rng.choice(sub)                                        # a permitted witness flag
        if it % 7 == 3:
            # the covered message is empty: no sigfield at all, only empty ones, or every present one excluded by the flag
            k_ = rng.randrange(1, 9)
            sf, lf, wf = rng.choice([({}, lf, wf), ({f'sigfield{k_}': b''}, lf, wf), ({f'sigfield{k_}': V.rbytes(rng, 5)}, '%02x' % (1 << (k_ - 1)), '%02x' % (1 << (k_ - 1))),
                                     ({'sigfield2': b'x', 'sigfield8': b'y'}, '82', '82')])
            sub = [f for f in flagsets if int(f, 16) & ~int(lf, 16) == 0 and f != 'ff']
        bad = [f for f in flagsets if int(f, 16) & ~int(lf, 16)]
        surrogate = T.Script.from_src(rng.choice(['true', 'push d1 push d1 equal', 'pop0 true', 'false', 'push x0102 size push d2 equal']))
        committed = T.Script.from_src(rng.choice(['true', 'push d2 push d2 equal', 'depth push d0 equal']))
        inp = {'seeds': [s.hex() for s in seeds[:2]], 'lock_flags': lf, 'witness_flags': wf, 'sigfields': {k: v.hex() for k, v in sf.items()}}
        res.note_case((tuple(seeds), lf, wf, tuple(sorted(sf))))
        hs_ = [26, 26, 20, 32, 16, 64, 2, 127][it % 8]          # the commitment's hash size is the builder's parameter
        locks = {
            'single': try_build(T.make_single_sig_lock, pks[0], lf),
            'single2': try_build(T.make_single_sig_lock2, pks[0], lf),
            'multisig': try_build(T.make_multisig_lock, [pks[0], pks[1], pks[2]], 2, lf),
            'scripthash': try_build(T.make_scripthash_lock, committed, hs_),
            'graftroot': try_build(T.make_graftroot_lock, pks[0], lf),
            'graftap': try_build(T.make_graftap_lock, pks[0], lf),
        }
        B.build(f'BUILD2 single_sig_lock {pks[0].hex()} {int(lf, 16)}', hexof(locks['single']))
        B.build(f'BUILD2 single_sig_lock2 {pks[0].hex()} {int(lf, 16)}', hexof(locks['single2']))
        B.build(f'BUILD2 multisig_lock 2 {int(lf, 16)} {pks[0].hex()} {pks[1].hex()} {pks[2].hex()}', hexof(locks['multisig']))
        B.build(f'BUILD2 scripthash_lock {committed.bytes.hex()} {hs_}', hexof(locks['scripthash']))
        B.build(f'BUILD2 graftroot_lock {pks[0].hex()} {int(lf, 16)}', hexof(locks['graftroot']))
        B.build(f'BUILD2 graftap_lock {pks[0].hex()} {int(lf, 16)}', hexof(locks['graftap']))
        if any(isinstance(l, str) for l in locks.values()):
            B.viol('a lock builder raised', inp, 'locks', {k: v for k, v in locks.items() if isinstance(v, str)}); continue
        def wit(seed, flags, fields=sf):
            return {
                'single': try_build(T.make_single_sig_witness, seed, fields, flags),
                'single2': try_build(T.make_single_sig_witness2, seed, fields, flags),
                'graftroot_key': try_build(T.make_graftroot_witness_keyspend, seed, fields, flags),
                'graftap_key': try_build(T.make_graftap_witness_keyspend, seed, fields, flags),
            }
        W = wit(seeds[0], wf)
        W['multisig'] = try_build(lambda: T.make_single_sig_witness(seeds[0], sf, wf) + T.make_single_sig_witness(seeds[2], sf, wf))
        W['scripthash'] = try_build(T.make_scripthash_witness, committed)
        W['graftroot_surrogate'] = try_build(T.make_graftroot_witness_surrogate, seeds[0], surrogate)
        W['graftap_script'] = try_build(T.make_graftap_witness_scriptspend, seeds[0], surrogate)
        if any(isinstance(w, str) for w in W.values()):
            B.viol('a witness builder raised', inp, 'witnesses', {k: v for k, v in W.items() if isinstance(v, str)}); continue
        # what the committed / surrogate scripts themselves decide (on an empty stack)
        sur_ok = B.auth([surrogate.bytes], sf, record=False)[0]
        com_ok = B.auth([committed.bytes], sf, record=False)[0]
        compat = {'single': {'single'}, 'single2': {'single2'}, 'multisig': {'multisig'}, 'scripthash': {'scripthash'}, 'graftroot_key': {'graftroot'},
                  'graftroot_surrogate': {'graftroot'}, 'graftap_key': {'graftap'}, 'graftap_script': {'graftap'}}
        for wk, w in W.items():
            for lk, l in locks.items():
                ok, v = B.auth([w.bytes, l.bytes], sf)
                if lk in compat[wk]:
                    want = sur_ok if wk in ('graftroot_surrogate', 'graftap_script') else com_ok if wk == 'scripthash' else True
                    if ok != want:
                        B.viol(f'{wk} witness vs its own {lk} lock', {**inp, 'scripts': [w.bytes.hex(), l.bytes.hex()], 'cache': vmrun.cache_str(sf, False)}, want, v)
                elif ok and not (wk == 'single' and lk == 'single') :
                    # cross-pairings unlock only by coincidence of layout; none of these layouts coincide
                    B.viol(f'{wk} witness unlocks a {lk} lock', {**inp, 'scripts': [w.bytes.hex(), l.bytes.hex()], 'cache': vmrun.cache_str(sf, False)}, False, v)
        # two key-path spends of the same graftap / taproot lock over different sigfields: the signatures must not share their nonce point
        # (with a shared R the key follows from the two public witnesses: x = (s1 - s2) / (c1 - c2) - "exactly the intended holder" is over)
        try:
            sfb = {**sf, 'sigfield1': sf.get('sigfield1', b'') + b'#2'}
            covered1 = not (int(wf, 16) & 1)
            wa_ = T.make_graftap_witness_keyspend(seeds[0], sf, wf).bytes; wb_ = T.make_graftap_witness_keyspend(seeds[0], sfb, wf).bytes
            res.note_case((tuple(seeds), 'nonce-history', wf))
            if covered1 and wa_[2:34] == wb_[2:34] and wa_ != wb_:
                B.viol('graftap key path: two witnesses by the same key over different sigfields share the nonce point R', {**inp, 'scripts': [wa_.hex(), wb_.hex()], 'cache': vmrun.cache_str(sf, False)}, 'different R', wa_[2:34].hex())
        except BaseException as e:
            if isinstance(e, (KeyboardInterrupt, SystemExit)): raise
        # a script-hash lock whose commitment differs from the witness script's digest in ONE bit - wherever in the digest that bit
        # is (first byte, a middle byte, last byte) - does not run the script
        import hashlib as _hl
        dg_ = _hl.shake_256(committed.bytes).digest(hs_)
        lkb = locks['scripthash'].bytes
        at_ = lkb.find(dg_)
        if at_ >= 0 and not isinstance(W['scripthash'], str):
            for pos in sorted({0, 1, hs_ // 2, max(0, hs_ - 9), hs_ - 1}):
                lk1 = lkb[:at_ + pos] + bytes([lkb[at_ + pos] ^ (1 << rng.randrange(8))]) + lkb[at_ + pos + 1:]
                res.note_case((tuple(seeds), 'commitment-bit', hs_, pos))
                if pos + 8 < hs_:
                    mk_ = 1 << rng.randrange(8)
                    lk2_ = bytearray(lkb); lk2_[at_ + pos] ^= mk_; lk2_[at_ + pos + 8] ^= mk_
                    ok, v = B.auth([W['scripthash'].bytes, bytes(lk2_)], sf)
                    if ok: B.viol(f'scripthash lock ({hs_}-byte commitment) with bit {mk_:02x} flipped in bytes {pos} and {pos + 8} of the commitment accepts the witness for the original script', {**inp, 'scripts': [W['scripthash'].bytes.hex(), bytes(lk2_).hex()], 'cache': vmrun.cache_str(sf, False)}, False, v)
                ok, v = B.auth([W['scripthash'].bytes, lk1], sf)
                if ok: B.viol(f'scripthash lock ({hs_}-byte commitment) with bit flipped in byte {pos} of the commitment accepts the witness for the original script', {**inp, 'scripts': [W['scripthash'].bytes.hex(), lk1.hex()], 'cache': vmrun.cache_str(sf, False)}, False, v)
        # a used authorization (signature, surrogate) is public: re-cutting the pair - bytes of the surrogate moved onto the end of the
        # signature item, so that the TAIL of the surrogate is what the lock would evaluate - is a surrogate the key never signed
        for sur_src in ('true', 'push x' + pks[1].hex() + ' check_sig_verify x00 true', 'push d1 push d1 equal'):
            S_ = T.Script.from_src(sur_src).bytes
            ssig_ = SigningKey(seeds[0]).sign(S_).signature
            ctl = G.push(ssig_) + G.push(S_) + b'\x01'
            for j in sorted({1, len(S_) - 1, len(S_) // 2} - {0, len(S_)}):
                wcut = G.push(ssig_ + S_[:j]) + G.push(S_[j:]) + b'\x01'
                res.note_case((tuple(seeds), 'recut', sur_src[:12], j))
                ok, v = B.auth([wcut, locks['graftroot'].bytes], sf)
                if ok: B.viol(f'graftroot lock: signature item = signature + first {j} byte(s) of the signed surrogate, script item = the rest of it', {**inp, 'scripts': [wcut.hex(), locks['graftroot'].bytes.hex()], 'cache': vmrun.cache_str(sf, False)}, False, v)
                if not isinstance(W['graftap_script'], str):
                    wb_ = W['graftap_script'].bytes
                    # the graftap script-spend witness begins with the pushes of (signature, surrogate): same re-cut there
                    hon = T.make_graftap_witness_scriptspend(seeds[0], T.Script.from_bytes(S_)).bytes
                    head = G.push(ssig_) + G.push(S_)
                    if hon.startswith(head):
                        wcut2 = G.push(ssig_ + S_[:j]) + G.push(S_[j:]) + hon[len(head):]
                        ok, v = B.auth([wcut2, locks['graftap'].bytes], sf)
                        if ok: B.viol(f'graftap lock: signature item = signature + first {j} byte(s) of the signed surrogate, script item = the rest of it', {**inp, 'scripts': [wcut2.hex(), locks['graftap'].bytes.hex()], 'cache': vmrun.cache_str(sf, False)}, False, v)
        # perturbations: another key, different covered fields, non-permitted flag, different scripts, foreign-signed surrogate
        W2 = wit(seeds[3], wf)
        for wk, lk in (('single', 'single'), ('single2', 'single2'), ('graftroot_key', 'graftroot'), ('graftap_key', 'graftap')):
            if isinstance(W2[wk], str): continue
            ok, v = B.auth([W2[wk].bytes, locks[lk].bytes], sf)
            if ok: B.viol(f'{wk} witness made with a different key unlocks', {**inp, 'scripts': [W2[wk].bytes.hex(), locks[lk].bytes.hex()], 'cache': vmrun.cache_str(sf, False)}, False, v)
        covered = [k for k in sf if not (int(wf, 16) >> (int(k[-1]) - 1)) & 1]
        if covered:
            sf2 = dict(sf); k0 = rng.choice(covered); sf2[k0] = sf2[k0] + b'\x01'
            for wk, lk in (('single', 'single'), ('single2', 'single2'), ('graftroot_key', 'graftroot'), ('graftap_key', 'graftap'), ('multisig', 'multisig')):
                ok, v = B.auth([W[wk].bytes, locks[lk].bytes], sf2)
                if ok: B.viol(f'{wk} witness accepted although covered {k0} changed', {**inp, 'scripts': [W[wk].bytes.hex(), locks[lk].bytes.hex()], 'cache': vmrun.cache_str(sf2, False)}, False, v)
        excluded = [k for k in sf if (int(wf, 16) >> (int(k[-1]) - 1)) & 1]
        if excluded:
            sf3 = dict(sf); sf3[rng.choice(excluded)] = b'changed'
            ok, v = B.auth([W['single'].bytes, locks['single'].bytes], sf3)
            if not ok: B.viol('single witness rejected although only an excluded sigfield changed', {**inp, 'scripts': [W['single'].bytes.hex(), locks['single'].bytes.hex()], 'cache': vmrun.cache_str(sf3, False)}, True, v)
        if bad:
            bf = rng.choice(bad)
            Wb = wit(seeds[0], bf)
            for wk, lk in (('single', 'single'), ('single2', 'single2'), ('graftroot_key', 'graftroot'), ('graftap_key', 'graftap')):
                if isinstance(Wb[wk], str): continue
                ok, v = B.auth([Wb[wk].bytes, locks[lk].bytes], sf)
                if ok: B.viol(f'{wk} witness with non-permitted flag {bf} (lock permits {lf}) unlocks', {**inp, 'scripts': [Wb[wk].bytes.hex(), locks[lk].bytes.hex()], 'cache': vmrun.cache_str(sf, False)}, False, v)
        # m-of-n: one listed holder supplying two *different* valid signatures of her own must not meet a quorum of 2
        F = B.F
        m0 = F.run_script(T.compile_script('msg x00'), dict(sf))[1].get()
        x0 = F.derive_key_from_seed(seeds[0])
        s_a = SigningKey(seeds[0]).sign(m0).signature
        s_b = F.sign_with_scalar(x0, m0, seed=V.rbytes(rng, 32))          # same key, another nonce
        solo = T.Script.from_src(f'push x{s_a.hex()} push x{s_b.hex()}')
        ok, v = B.auth([solo.bytes, locks['multisig'].bytes], sf)
        if ok: B.viol('multisig 2-of-3 met by two different signatures of ONE listed key', {**inp, 'scripts': [solo.bytes.hex(), locks['multisig'].bytes.hex()], 'cache': vmrun.cache_str(sf, False)}, False, v)
        if int(lf, 16) & 1:
            m1 = F.run_script(T.compile_script('msg x01'), dict(sf))[1].get()
            s_c = SigningKey(seeds[0]).sign(m1).signature + b'\x01'
            solo2 = T.Script.from_src(f'push x{s_a.hex()} push x{s_c.hex()}')
            ok, v = B.auth([solo2.bytes, locks['multisig'].bytes], sf)
            if ok: B.viol('multisig 2-of-3 met by flag variants of ONE listed key', {**inp, 'scripts': [solo2.bytes.hex(), locks['multisig'].bytes.hex()], 'cache': vmrun.cache_str(sf, False)}, False, v)
        # a key list that names one holder twice (the builder allows it while the quorum fits the unique keys): still only listed keys count
        dup_lock = try_build(T.make_multisig_lock, [pks[0], pks[1], pks[0]], 2, lf)
        B.build(f'BUILD2 multisig_lock 2 {int(lf, 16)} {pks[0].hex()} {pks[1].hex()} {pks[0].hex()}', hexof(dup_lock))
        if not isinstance(dup_lock, str):
            w01 = T.make_single_sig_witness(seeds[0], sf, wf) + T.make_single_sig_witness(seeds[1], sf, wf)
            ok, v = B.auth([w01.bytes, dup_lock.bytes], sf)
            if not ok: B.viol('multisig 2-of-[A,B,A]: signatures of A and B rejected', {**inp, 'scripts': [w01.bytes.hex(), dup_lock.bytes.hex()], 'cache': vmrun.cache_str(sf, False)}, True, v)
            for what, w in (('B plus an outsider who also pushes his own public key', T.make_single_sig_witness(seeds[1], sf, wf) + T.make_single_sig_witness(seeds[3], sf, wf) + T.Script.from_src('push x' + pks[3].hex())),
                            ('an outsider alone who pushes his own public key', T.make_single_sig_witness(seeds[3], sf, wf) + T.make_single_sig_witness(seeds[3], sf, wf) + T.Script.from_src('push x' + pks[3].hex())),
                            ('A alone, twice', T.make_single_sig_witness(seeds[0], sf, wf) + T.make_single_sig_witness(seeds[0], sf, wf))):
                ok, v = B.auth([w.bytes, dup_lock.bytes], sf)
                if ok: B.viol(f'multisig 2-of-[A,B,A] met by {what}', {**inp, 'scripts': [w.bytes.hex(), dup_lock.bytes.hex()], 'cache': vmrun.cache_str(sf, False)}, False, v)
        outsider = T.make_single_sig_witness(seeds[0], sf, wf) + T.make_single_sig_witness(seeds[3], sf, wf)
        ok, v = B.auth([outsider.bytes, locks['multisig'].bytes], sf)
        if ok: B.viol('multisig 2-of-3 met by one holder plus an outsider', {**inp, 'scripts': [outsider.bytes.hex(), locks['multisig'].bytes.hex()], 'cache': vmrun.cache_str(sf, False)}, False, v)
        # uncommitted scripts, including the one-byte items that would *be* a true verdict if the lock let them through unevaluated
        for other in [T.Script.from_src('true true pop0'), T.Script.from_src('true')] + [T.Script('', bytes([x])) for x in (0xff, 0x01, 0x00, 0xfe, rng.randrange(256))]:
            try: wb = T.make_scripthash_witness(other).bytes
            except BaseException: continue
            if other.bytes == committed.bytes: continue
            for pre in (b'', T.make_single_sig_witness(seeds[3], sf, wf).bytes):
                ok, v = B.auth([pre + wb, locks['scripthash'].bytes], sf)
                if ok: B.viol(f'scripthash lock accepts a witness for a different script ({other.bytes.hex()[:20]})', {**inp, 'scripts': [(pre + wb).hex(), locks['scripthash'].bytes.hex()], 'cache': vmrun.cache_str(sf, False)}, False, v)
        # everything a stranger B can put on the stack from public data and his own key - his signature, his key, the holder's key,
        # in every arrangement of up to three items - opens neither single-signature layout of the holder's locks
        import itertools as _it
        from nacl.signing import SigningKey as _SK
        sigB = _SK(seeds[3]).sign(G.ref_message(sf, int(wf, 16))).signature + (bytes.fromhex(wf) if wf != '00' else b'')
        pool = [('sigB', sigB), ('pubB', pks[3]), ('pubA', pks[0])]
        for ln in (1, 2, 3):
            for combo in _it.product(pool, repeat=ln):
                wbytes = b''.join(G.push(x) for _, x in combo)
                for lk in ('single', 'single2'):
                    res.note_case(('stranger-stack', lk, tuple(nm for nm, _ in combo), tuple(seeds)))
                    ok, v = B.auth([wbytes, locks[lk].bytes], sf, record=False)
                    if ok: B.viol(f'{lk} lock of key A opened by a stranger\'s stack [' + ', '.join(nm for nm, _ in combo) + '] (bottom to top)', {**inp, 'scripts': [wbytes.hex(), locks[lk].bytes.hex()], 'cache': vmrun.cache_str(sf, False)}, False, v)
        # committed / surrogate scripts whose length sits on a push-size boundary (255 / 256 / 257 bytes)
        if it % 5 == 0:
            for ln in (255, 256, 257):
                body_ = b'\x01' + (b'' if ln % 2 else b'\x02\xff\x06'); body_ += b'\x01\x06' * ((ln - len(body_)) // 2)
                big = T.Script('', body_)
                if len(big.bytes) != ln: continue
                res.note_case(('boundary-script', ln, tuple(seeds)))
                try:
                    lk_ = T.make_scripthash_lock(big); w_ = T.make_scripthash_witness(big)
                    ok, v = B.auth([w_.bytes, lk_.bytes], sf, record=False)
                    if not ok: B.viol(f'script-hash lock of a {ln}-byte script rejects its own witness', {**inp, 'scripts': [w_.bytes.hex(), lk_.bytes.hex()], 'cache': vmrun.cache_str(sf, False)}, True, v)
                    w2_ = T.make_graftroot_witness_surrogate(seeds[0], big)
                    ok, v = B.auth([w2_.bytes, locks['graftroot'].bytes], sf, record=False)
                    if not ok: B.viol(f'graftroot lock rejects the holder\'s {ln}-byte surrogate', {**inp, 'scripts': [w2_.bytes.hex(), locks['graftroot'].bytes.hex()], 'cache': vmrun.cache_str(sf, False)}, True, v)
                    w3_ = T.make_graftap_witness_scriptspend(seeds[0], big)
                    ok, v = B.auth([w3_.bytes, locks['graftap'].bytes], sf, record=False)
                    if not ok: B.viol(f'graftap lock rejects the holder\'s {ln}-byte surrogate', {**inp, 'scripts': [w3_.bytes.hex(), locks['graftap'].bytes.hex()], 'cache': vmrun.cache_str(sf, False)}, True, v)
                except BaseException as e:
                    B.viol(f'a builder raised for a committed / surrogate script of {ln} bytes', {**inp, 'script_length': ln}, 'lock and witness', type(e).__name__ + ': ' + str(e)[:100])
        foreign = T.make_graftroot_witness_surrogate(seeds[3], T.Script.from_src('true'))
        ok, v = B.auth([foreign.bytes, locks['graftroot'].bytes], sf)
        if ok: B.viol('graftroot lock runs a surrogate signed by another key', {**inp, 'scripts': [foreign.bytes.hex(), locks['graftroot'].bytes.hex()], 'cache': vmrun.cache_str(sf, False)}, False, v)
        foreign2 = T.make_graftap_witness_scriptspend(seeds[3], T.Script.from_src('true'))
        ok, v = B.auth([foreign2.bytes, locks['graftap'].bytes], sf)
        if ok: B.viol('graftap lock runs a surrogate signed by another key', {**inp, 'scripts': [foreign2.bytes.hex(), locks['graftap'].bytes.hex()], 'cache': vmrun.cache_str(sf, False)}, False, v)
        # history: the foreign surrogates are perfectly valid against their *own* key's locks; validating them there must not
        # make the first key's locks accept them afterwards (checked again right away and once more when all lists are re-run at the end)
        own_gr = T.make_graftroot_lock(pks[3], lf); own_gt = T.make_graftap_lock(pks[3], lf)
        for wfor, lown, lvic, what in ((foreign, own_gr, locks['graftroot'], 'graftroot'), (foreign2, own_gt, locks['graftap'], 'graftap')):
            ok, v = B.auth([wfor.bytes, lown.bytes], sf)
            if not ok: B.viol(f'{what}: surrogate `true` signed by a key is rejected by that key\'s own lock', {**inp, 'scripts': [wfor.bytes.hex(), lown.bytes.hex()], 'cache': vmrun.cache_str(sf, False)}, True, v)
            ok, v = B.auth([wfor.bytes, lvic.bytes], sf)
            if ok: B.viol(f'{what} lock runs a surrogate signed by another key after that key\'s own lock validated it (history)', {**inp, 'scripts': [wfor.bytes.hex(), lvic.bytes.hex()], 'cache': vmrun.cache_str(sf, False)}, False, v)
    B.finish()
    res.sample({'single_sig_lock': B.builds[0][1], 'line': B.builds[0][0][:120]})
    res.stats['search'] = 'each pairing judged on the implementation alone by the property sentence (compatibility table + perturbations)'
    return res


def replay(ctx: Ctx, payload) -> bool:
    return replay_scripts(payload)
