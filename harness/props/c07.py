"""C07 — stack, item-size, call-depth, loop and tape limits hold at every step.
Theorems: Props/C07.lean (generic over the op table). Tie: (a) instrumented runs of the real
VM (recording Stack/deque/Tape, wrapped dispatch) must obey the primitive contracts the
theorems rest on and the limits themselves, at every step; (b) differential run against the
model on resource-hungry programs."""
from __future__ import annotations
import subprocess, sys, tracemalloc
from ..core import Result, Ctx, known_ids, REPO
from .. import vmrun, instrument
from ..gen import programs as G, values as V
from . import c06

RULE = ("resource-hungry bytecode programs (pushes, COPY, CONCAT/DUP in loops, recursive CALL / EVAL, nested IF / TRY, RANDOM, SHAKE256, "
        "huge counts and sizes, truncated operands) x limit triples from 1 upward; each run twice on the implementation (run_script, and an "
        "instrumented composition recording every deque mutation, tape read, CALL/EVAL depth, LOOP iteration) and once on the model; "
        "non-trivial = at least one non-push instruction; distinct = distinct (limits, script)")

HUNGRY = ['PUSH1', 'PUSH2', 'COPY', 'COPY', 'CONCAT', 'CONCAT', 'DUP', 'DUP', 'LOOP', 'LOOP', 'CALL', 'CALL', 'DEF', 'EVAL', 'EVAL', 'IF', 'IF_ELSE',
          'TRY_EXCEPT', 'RANDOM', 'SHAKE256', 'REVERSE', 'SWAP', 'NOP', 'ADD_INTS', 'MULT_INTS', 'SIZE', 'DEPTH', 'READ_CACHE',
          'WRITE_CACHE', 'POP1', 'POP0', 'TRUE', 'SHA256', 'GET_VALUE', 'GET_MESSAGE', 'SPLIT', 'RAW', 'MERKLEVAL', 'TAPROOT', 'INVOKE',
          'CONCAT_STR', 'XOR', 'READ_CACHE_STACK', 'SUBTRACT_INTS']

K3_WITNESS = ('def 0 { true if { true if { true if { call d0 } } } } call d0')


def op(name): return bytes([G.names()[name]])


def handcrafted(rng, cfg):
    """resource patterns the random generator reaches only rarely"""
    N = G.names()
    u1, u2, push = G.u1, G.u2, G.push
    out = []
    def loop(body): return op('LOOP') + u2(len(body)) + body
    def deff(h, body): return op('DEF') + u1(h) + u2(len(body)) + body
    def iff(body): return op('IF') + u2(len(body)) + body
    def tri(b1, b2): return op('TRY_EXCEPT') + u2(len(b1)) + b1 + u2(len(b2)) + b2
    x = V.rbytes(rng, rng.choice([1, 2, cfg.max_item_size // 2 + 1, cfg.max_item_size]))
    out.append(push(x) + op('TRUE') + loop(op('POP0') + op('DUP') + op('CONCAT') + op('TRUE')))          # doubling
    out.append(push(x) + op('TRUE') + loop(op('POP0') + op('DUP') + op('TRUE')))                         # filling
    out.append(push(x) + op('COPY') + u1(rng.choice([cfg.max_items - 1, cfg.max_items, 255, 1, 0]) & 0xff))
    out.append(b''.join(push(b'a') for _ in range(rng.choice([cfg.max_items - 1, cfg.max_items, cfg.max_items + 1]) % 1100)))
    out.append(deff(0, op('CALL') + u1(0)) + op('CALL') + u1(0))                                         # infinite recursion
    out.append(deff(0, op('TRUE') + iff(op('CALL') + u1(0))) + op('CALL') + u1(0))                       # recursion through IF
    out.append(deff(0, tri(op('FALSE') + op('VERIFY'), op('CALL') + u1(0))) + op('CALL') + u1(0))        # recursion through EXCEPT
    out.append(deff(0, tri(op('CALL') + u1(0), op('CALL') + u1(0))) + op('CALL') + u1(0))
    out.append(deff(0, op('TRUE') + loop(op('POP0') + op('CALL') + u1(0) + op('FALSE'))) + op('CALL') + u1(0))
    s = op('DUP') + op('EVAL')
    out.append(push(s) + op('DUP') + op('EVAL'))                                                         # recursive EVAL
    out.append(op('TRUE') + loop(b''))                                                                   # endless loop
    out.append(op('TRUE') + loop(op('TRUE') + loop(op('POP0') + op('FALSE')) + op('POP0')))              # nested loops
    out.append(push(V.i2b(rng.choice([cfg.max_item_size, cfg.max_item_size + 1, 10 ** 8, -1, 2 ** 70]))) + op('RANDOM'))
    out.append(push(b'seed') + op('SHAKE256') + u1(rng.choice([255, cfg.max_item_size & 0xff, (cfg.max_item_size + 1) & 0xff])))
    out.append(op('PUSH2') + u2(rng.choice([0xffff, 0x8000, 0x7fff, 300])) + V.rbytes(rng, rng.choice([0, 10, 300])))  # truncated
    out.append(op('PUSH1') + u1(200) + b'short')
    big = V.i2b((1 << (8 * cfg.max_item_size - 1)) - 1) if cfg.max_item_size <= 1024 else b'\x7f'
    out.append(push(big) + push(b'\x02') + op('MULT_INTS') + u1(2))
    out.append(push(big) + push(b'\x00') + op('ADD_INTS') + u1(2))                                      # exact fit
    out.append(push(big) + push(b'\x01') + op('ADD_INTS') + u1(2))                                      # one over
    nest = b''
    for _ in range(rng.choice([3, 10, 40])):
        nest = op('TRUE') + iff(nest)
    out.append(nest)
    out.append(push(b'ab') * 3 + op('REVERSE') + u1(rng.choice([3, 4, 255])))
    out.append(b''.join(push(bytes([65 + i])) for i in range(3)) + op('SWAP') + u1(rng.choice([0, 1, 2, 3])) + u1(rng.choice([0, 1, 2, 3, 255])))
    out.append(push(b'x') * 2 + bytes([rng.randrange(len(N), 256)]) + u1(rng.choice([2, 3, 0x80, 0xff])))
    return out


def gen(ctx: Ctx, n):
    rng = ctx.sub_rng('c07')
    keys = V.Keys(ctx.sub_rng('keys'))
    cases = []
    limit_triples = [(a, b, c) for a in (1, 2, 3, 5, 1024) for b in (1, 2, 8, 33, 1024) for c in (0, 1, 2, 3, 128)]
    for i in range(n):
        cfg = vmrun.Cfg()
        if rng.random() < .8:
            cfg.max_items, cfg.max_item_size, cfg.call_limit = rng.choice(limit_triples)
        if rng.random() < .2:
            cfg.contracts = ((b'A', 'b'), (b'B', 'c'))
        cache = G.random_cache(rng, keys, clean=rng.random() < .7)
        if rng.random() < .12:
            for s in handcrafted(rng, cfg):
                cases.append((cfg, cache, s, {'HAND': 1}))
        else:
            g = G.ProgGen(rng, cfg, cache, keys, ops=HUNGRY, clean=rng.random() < .5, max_depth=rng.choice([2, 3, 4]))
            cases.append((cfg, cache, g.program(), g.used))
    return cases


def judge_trace(cfg, status, stack, tr):
    """property oracle on one instrumented run; returns list of (what, detail)"""
    bad = []
    if tr.max_depth > cfg.max_items:
        bad.append(('stack exceeded max_items', f'{tr.max_depth} > {cfg.max_items}'))
    if tr.max_item > cfg.max_item_size:
        bad.append(('item longer than max_item_size on the stack', f'{tr.max_item} > {cfg.max_item_size}'))
    if any(len(x) > cfg.max_item_size for x in stack.list()) or len(stack) > cfg.max_items:
        bad.append(('final stack violates limits', ''))
    if tr.max_call_depth > cfg.call_limit:
        bad.append(('CALL/EVAL nesting deeper than callstack_limit', f'{tr.max_call_depth} > {cfg.call_limit}'))
    if tr.max_loop_iter > cfg.call_limit:
        bad.append(('loop ran more iterations than the limit', f'{tr.max_loop_iter} > {cfg.call_limit}'))
    for kind, detail in tr.events:
        if kind in ('item-dropped', 'negative-read', 'pointer-moved-backwards-in-read', 'pointer-moved-backwards', 'pointer-past-end', 'negative-move',
                    'deque-extend-bypasses-put', 'deque-append-outside-put', 'deque-appendleft', 'deque-insert', 'deque-extendleft',
                    'deque-iadd-bypasses-put'):
            bad.append((kind, detail))
    if status in ('ERR:RecursionError', 'ERR:MemoryError', 'ERR:SystemError'):
        bad.append(('interpreter-level failure instead of a script-execution error', status))
    return bad


def is_k3(script: bytes, status: str) -> bool:
    """K3: IF/ELSE/TRY nesting is not charged to the call budget -> Python recursion depth
    grows ~5 frames per nested construct; only visible at Python's default recursion limit."""
    return status == 'ERR:RecursionError'


def alloc_cases(ctx):
    rng = ctx.sub_rng('alloc')
    out = []
    for n in (10 ** 6, 10 ** 7, 10 ** 8, 2 ** 31 - 1, 2 ** 40):
        out.append(('RANDOM', G.push(V.i2b(n)) + op('RANDOM')))
    out.append(('SHAKE', G.push(b'x') + op('SHAKE256') + b'\xff'))
    out.append(('COPY', G.push(b'x' * 1000) + op('COPY') + b'\xff'))
    out.append(('POP1', op('POP1') + b'\xff'))
    out.append(('NOP', bytes([200, 0x7f])))
    out.append(('CHECK_TRANSFER', G.push(b'') + G.push(b'\xff' * 8) + G.push(b'') + G.push(b'') + G.push(b'\x00') + G.push(b'A') + op('CHECK_TRANSFER')))
    out.append(('INVOKE', G.push(V.i2b(10 ** 9)) + G.push(b'A') + op('INVOKE')))
    out.append(('GET_VALUE', op('GET_VALUE') + b'\x09sigfield1'))
    out.append(('GET_MESSAGE', op('GET_MESSAGE') + b'\x00'))
    return out


def run(ctx: Ctx) -> Result:
    res = Result(rule=RULE)
    known = known_ids('C07')
    cases = gen(ctx, ctx.n(9000, 400000))
    # (b) differential against the model
    results = c06.run_cases(ctx, res, cases)
    status = {}
    suspicious = []
    for (cfg, cache, script, used), r, o, ok, why in results:
        if ok is False:
            suspicious.append((cfg, cache, script, used))
        nontrivial = any(k not in ('TRUE', 'PUSH1', 'PUSH2') for k in used)
        res.note_case((cfg.max_items, cfg.max_item_size, cfg.call_limit, script), nontrivial)
        st = o.split(' ')[0]; status[st] = status.get(st, 0) + 1
        if ok is False:
            res.disagreements.append({'cfg': cfg.line(), 'script': script.hex()[:300], 'why': why, 'model': (r or '')[:200], 'impl': o[:200]})
        elif r is not None and r.startswith('ERR:ScriptExecutionError') and not o.startswith('ERR:ScriptExecutionError'):
            # the model says "limit / script error", the implementation failed differently: hard for C07
            res.disagreements.append({'cfg': cfg.line(), 'script': script.hex()[:300], 'why': 'error class', 'model': r[:80], 'impl': o[:80]})
    # (a) instrumented runs: the property judged on the implementation alone, at every step
    traces = {'max_depth': 0, 'fetches': 0, 'max_call_depth': 0, 'max_loop_iter': 0}
    def work():
        # search first on the cases where model and implementation disagree (even past the wall-clock budget)
        for i, (cfg, cache, script, used) in enumerate(suspicious[:200] + cases):
            if len(res.violations) >= 3 or (i >= min(200, len(suspicious)) and i % 64 == 0 and ctx.expired()):
                break
            with vmrun.Env(cfg) as env:
                st, tape, stack, cch, tr = instrument.run_instrumented(cfg, cache, script, env)
            traces['fetches'] += tr.fetches
            traces['max_depth'] = max(traces['max_depth'], tr.max_depth)
            traces['max_call_depth'] = max(traces['max_call_depth'], tr.max_call_depth)
            traces['max_loop_iter'] = max(traces['max_loop_iter'], tr.max_loop_iter)
            for what, detail in judge_trace(cfg, st, stack, tr):
                if len(res.violations) < 20:
                    res.violations.append({'input': {'cfg': cfg.line(), 'cache': vmrun.cache_str(cache, False), 'script': script.hex()},
                                           'expected': 'limits hold at every step; limit overruns end in ScriptExecutionError',
                                           'observed': f'{what}: {detail}; run ended {st}', 'how_to_run': './check C07 --replay <this file>'})
    vmrun.in_big_thread(work)
    # allocation bound: no single instruction allocates memory proportional to an attacker-chosen number
    cfg = vmrun.Cfg(contracts=((b'A', 'b'),))
    big_cache = {'sigfield1': b's' * 2000, 'timestamp': vmrun.NOW}
    for name, script in alloc_cases(ctx):
        res.note_case(('alloc', name, script))
        tracemalloc.start()
        try:
            with vmrun.Env(cfg) as env:
                env.F.token_bytes = lambda n: bytes(n)        # the real allocation behaviour of token_bytes
                st = vmrun.run_impl(cfg, big_cache, script).split(' ')[0]
        except MemoryError:
            st = 'ERR:MemoryError'
        peak = tracemalloc.get_traced_memory()[1]
        tracemalloc.stop()
        bound = 4 * (cfg.max_items * cfg.max_item_size) + 2_000_000
        if peak > bound or st == 'ERR:MemoryError':
            res.violations.append({'input': {'cfg': cfg.line(), 'cache': vmrun.cache_str(big_cache, False), 'script': script.hex(), 'alloc': name},
                                   'expected': f'peak allocation of one instruction bounded by the limits (< {bound} bytes)',
                                   'observed': f'tracemalloc peak {peak} bytes, run ended {st}', 'how_to_run': './check C07 --replay <this file>'})
    # known finding K3 replayed at Python's default recursion limit, in a fresh interpreter
    code = ("import sys; sys.path.insert(0, %r)\nimport tapescript.functions as F, tapescript.parsing as P\n"
            "s = P.compile_script(%r)\n"
            "try:\n  F.run_script(s); print('OK')\nexcept BaseException as e: print(type(e).__name__)\n" % (REPO, K3_WITNESS))
    out = subprocess.run([sys.executable, '-c', code], stdout=subprocess.PIPE, stderr=subprocess.PIPE, text=True, timeout=300).stdout.strip()
    res.stats['K3_replay'] = out
    if out == 'RecursionError':
        if 'K3' in known:
            res.known.append(('K3', 'IF/TRY nesting inside recursion is not charged to the call budget: a 44-byte script ends in Python RecursionError at the default recursion limit'))
        else:
            res.violations.append({'finding': 'K3', 'input': {'source': K3_WITNESS}, 'expected': 'ScriptExecutionError', 'observed': out,
                                   'how_to_run': 'python -c "import tapescript as t; t.run_script(t.compile_script(<source>))"'})
    res.sample({'cfg': cases[0][0].line(), 'script': cases[0][2].hex()[:120], 'impl': results[0][2][:160]})
    res.sample({'cfg': cases[-1][0].line(), 'script': cases[-1][2].hex()[:120], 'impl': results[-1][2][:160]})
    res.stats['outcome_distribution'] = status
    res.stats['trace_maxima'] = traces
    res.stats['search'] = 'every case is judged on the implementation alone by the instrumented-trace oracle (limits at every step, drops, backward reads, CALL/EVAL depth, LOOP iterations, error class)'
    # the limits an embedder passes to run_auth_scripts are the limits of its one shared stack: item-count and item-size limits
    # are independent (asymmetric pairs, items whose size lies between the two)
    def auth_limits():
        F = vmrun.impl.functions(); N = G.names()
        with vmrun.Env(vmrun.Cfg()) as env:
            for mi, ms in ((1024, 8), (4, 1024), (40, 32), (64, 33), (3, 100), (100, 3), (255, 64), (16, 16)):
                for n in sorted({1, ms - 1, ms, ms + 1, mi - 1, mi, mi + 1, (mi + ms) // 2}):
                    if n < 1 or n > 60000: continue
                    for k_items in (1, mi, mi + 1):
                        if k_items > 300: continue
                        wit = G.push(bytes(n)) + bytes([N['POP0']]) + bytes([N['TRUE']]) * k_items
                        lock = bytes([N['POP0']]) * (k_items - 1)
                        want = n <= ms and k_items <= mi
                        res.note_case(('auth-limits', mi, ms, n, k_items))
                        try: got = F.run_auth_scripts([wit, lock], {}, {}, {}, mi, ms, 128)
                        except BaseException as e: got = 'RAISED:' + type(e).__name__
                        # the deprecated single-script entry point takes the same three limits
                        if hasattr(F, 'run_auth_script'):
                            import warnings as _w
                            with _w.catch_warnings():
                                _w.simplefilter('ignore')
                                try: got1 = F.run_auth_script(wit + lock, {}, {}, {}, mi, ms, 128)
                                except BaseException as e: got1 = 'RAISED:' + type(e).__name__
                            if got1 != want and len(res.violations) < 10:
                                res.violations.append({'input': {'source': 'run_auth_script (deprecated single-script form)', 'scripts': [(wit + lock).hex()[:300]], 'stack_max_items': mi, 'stack_max_item_size': ms,
                                                                 'what': f'push of a {n}-byte item, then {k_items} items on the stack'},
                                                       'expected': f'{want}: the same limits as run_auth_scripts', 'observed': str(got1), 'how_to_run': './check C07 --tier quick'})
                        if got != want and len(res.violations) < 10:
                            res.violations.append({'input': {'source': 'run_auth_scripts', 'scripts': [wit.hex()[:200], lock.hex()[:200]], 'stack_max_items': mi, 'stack_max_item_size': ms,
                                                             'what': f'push of a {n}-byte item, then {k_items} items on the stack'},
                                                   'expected': f'{want}: an item longer than stack_max_item_size or more than stack_max_items items end the authorization with False; anything within both limits is allowed',
                                                   'observed': str(got), 'how_to_run': './check C07 --tier quick'})
            # ... and the call-stack limit is the limit of every script of the list: a loop / a recursion in the LAST script (the lock)
            # that needs more than the limit ends the authorization with False
            body = G.push(b'\xff') + bytes([N['ADD_INTS'], 2])
            loop_lock = bytes([N['LOOP']]) + len(body).to_bytes(2, 'big') + body + bytes([N['POP0'], N['TRUE']])
            rec_body = bytes([N['DUP'], N['IF']]) + (len(body) + 2).to_bytes(2, 'big') + body + bytes([N['CALL'], 0])
            rec_lock = bytes([N['DEF'], 0]) + len(rec_body).to_bytes(2, 'big') + rec_body + bytes([N['CALL'], 0, N['POP0'], N['TRUE']])
            for cl in (1, 2, 4, 7, 40):
                for n in (cl - 1, cl, cl + 1, cl + 2):
                    if n < 1: continue
                    for what_, lock, want in (('a loop of n iterations', loop_lock, n <= cl), ('a recursion n + 1 calls deep', rec_lock, n + 1 <= cl)):
                        for scripts in ([G.push(bytes([n])), lock], [bytes([N['TRUE'], N['POP0']]), G.push(bytes([n])), lock], [G.push(bytes([n])) + lock]):
                            res.note_case(('auth-call-limit', cl, n, what_, len(scripts)))
                            try: got = F.run_auth_scripts(scripts, {}, {}, {}, 1024, 1024, cl)
                            except BaseException as e: got = 'RAISED:' + type(e).__name__
                            if got != want and len(res.violations) < 10:
                                res.violations.append({'input': {'source': 'run_auth_scripts', 'scripts': [x.hex() for x in scripts], 'callstack_limit': cl, 'what': f'{what_}, n = {n}, in the last of {len(scripts)} script(s)'},
                                                       'expected': f'{want}: the configured call-stack limit bounds loops and call chains in every script of the list', 'observed': str(got), 'how_to_run': './check C07 --tier quick'})
    vmrun.in_big_thread(auth_limits)
    # a block whose declared length runs past the end of the script is an error whichever way its condition goes: no instruction
    # steps the tape pointer past the end without the read check
    def truncated_blocks():
        N = G.names()
        for cond in (N['TRUE'], N['FALSE']):
            for name, tail in (('IF', b''), ('IF_ELSE', b''), ('LOOP', b''), ('TRY_EXCEPT', b''), ('DEF', None)):
                for declared, have in ((5, 1), (2, 1), (1, 0), (300, 3), (65535, 10)):
                    body = bytes([N['TRUE']]) * have
                    if name == 'DEF': script = bytes([N['DEF'], 0]) + declared.to_bytes(2, 'big') + body
                    elif name == 'TRY_EXCEPT': script = bytes([N[name]]) + declared.to_bytes(2, 'big') + body
                    else: script = bytes([cond, N[name]]) + declared.to_bytes(2, 'big') + body
                    o = vmrun.run_impl(vmrun.Cfg(), {}, script)
                    res.note_case(('truncated-block', name, cond, declared, have))
                    if not o.startswith('ERR') and len(res.violations) < 10:
                        res.violations.append({'input': {'source': 'run_script', 'script': script.hex(), 'what': f'{name} declaring a {declared}-byte body with {have} byte(s) left, condition {"true" if cond == N["TRUE"] else "false"}'},
                                               'expected': 'an error (the declared body cannot be read: the tape has fewer bytes left)', 'observed': o[:120], 'how_to_run': './check C07 --tier quick'})
    vmrun.in_big_thread(truncated_blocks)
    # no single instruction loops without end or grows an operand without bound: the zero-padding bitwise instructions on operands
    # of different lengths, in both orders, end with an item as long as the longer operand
    def bitops():
        N = G.names()
        for name in ('XOR', 'OR', 'AND'):
            for la, lb in ((1, 3), (3, 1), (1, 2), (2, 1), (0, 2), (2, 0), (5, 5), (1, 64), (64, 1), (31, 32), (32, 31)):
                a_ = bytes([0xf0]) * la; b_ = bytes([0xff]) * lb
                script = (G.push(a_) if la else bytes([N['PUSH1'], 0])) + (G.push(b_) if lb else bytes([N['PUSH1'], 0])) + bytes([N[name]])
                cfg_ = vmrun.Cfg(); cfg_.max_items = 4; cfg_.max_item_size = 64
                res.note_case(('bitop', name, la, lb))
                o = vmrun.run_impl(cfg_, {}, script)
                f = vmrun.fields(o); top = f.get('stack', '-').split(',')[-1]
                ln = 0 if top in ('e', '-') else len(top) // 2
                if (o.startswith('ABORT') or f['status'] != 'OK' or ln != max(la, lb)) and len(res.violations) < 10:
                    res.violations.append({'input': {'cfg': cfg_.line(), 'cache': '-', 'script': script.hex()},
                                           'expected': f'{name} of a {la}-byte and a {lb}-byte item ends with an item of {max(la, lb)} bytes',
                                           'observed': ('the instruction did not end within the wall-clock cap' if o.startswith('ABORT') else o[:120]), 'how_to_run': './check C07 --replay <this file>'})
    vmrun.in_big_thread(bitops)
    return res


def replay(ctx: Ctx, payload) -> bool:
    inp = payload['input']
    if 'source' in inp:
        return False
    cfg, cache = c06.parse_case(inp['cfg'], inp['cache'])
    script = bytes.fromhex(inp['script'])
    def work():
        with vmrun.Env(cfg) as env:
            return instrument.run_instrumented(cfg, cache, script, env)
    st, tape, stack, cch, tr = vmrun.in_big_thread(work)
    bad = judge_trace(cfg, st, stack, tr)
    print('status', st, 'trace', bad)
    return not bad
