"""C11 — the compiler emits exactly the instructions written, in the documented encoding.
Theorems: Props/C11.lean (encoding / decoding of instruction sequences are inverse, PUSH picks
the smallest instruction, table obligations: compiler operand classes = model layout).
Tie: abstract programs over the full instruction set are rendered into source text in every
spelling variant; compile_script must produce the documented encoding, which the Lean decoder
must read back as the same abstract program. Stated limit: the tokenizer / parser is not
modelled in Lean - this half is differential testing against a proved-consistent reference."""
from __future__ import annotations
from ..core import Result, Ctx, DriverCrash, known_ids
from .. import impl
from ..gen import asmgen, values as V

RULE = ("abstract programs (all opcodes + NOP codes, nesting <= 4, operand boundaries per operand kind: sizes 0/1/2/255/256/65535, counts 0/127/128/255) rendered "
        "with random choices of: OP_ prefix / bare / every registered alias, letter case, brace vs END_ terminators, hoisted IF conditions, d/x/s value "
        "prefixes, three comment delimiters, whitespace; plus variable sugar, macros (multi-invocation), comptime ~ / ~! blocks, and unencodable sources "
        "that must be rejected; non-trivial = non-empty program; distinct = distinct source text")


def canon(g, prog):
    """the abstract program in the notation of the driver's DEC reply (one level)"""
    out = []
    def hx(b): return b.hex() or '-'
    for n in prog:
        t = n[0]
        if t == 'push':
            v = n[1]
            c = g.code['PUSH0'] if len(v) == 1 else g.code['PUSH1'] if len(v) < 256 else g.code['PUSH2']
            out.append(f'{c}:{hx(v)}')
        elif t == 'nop': out.append(f'{n[1]}:{n[2]:02x}')
        elif t == 'def': out.append(f'{g.code["DEF"]}:{n[1]:02x},{hx(g.enc(n[2]))}')
        elif t == 'if':
            out.extend(canon(g, n[3]))
            if n[2] is None: out.append(f'{g.code["IF"]}:{hx(g.enc(n[1]))}')
            else: out.append(f'{g.code["IF_ELSE"]}:{hx(g.enc(n[1]))},{hx(g.enc(n[2]))}')
        elif t == 'try': out.append(f'{g.code["TRY_EXCEPT"]}:{hx(g.enc(n[1]))},{hx(g.enc(n[2]))}')
        elif t == 'loop': out.append(f'{g.code["LOOP"]}:{hx(g.enc(n[1]))}')
        else:
            name = n[1]; k = g.K[name]; c = g.code[name]
            if k == 'none': out.append(f'{c}:')
            elif k == 'u1': out.append(f'{c}:{n[2]:02x}')
            elif k in ('sized1', 'sized2', 'f4', 'bytes32'): out.append(f'{c}:{hx(n[2])}')
            elif k == 'writeCache': out.append(f'{c}:{hx(n[2])},{n[3]:02x}')
            elif k == 'swap': out.append(f'{c}:{n[2]:02x},{n[3]:02x}')
            elif k == 'multisig': out.append(f'{c}:{n[2]:02x},{n[3]:02x},{n[4]:02x}')
    return out


def run(ctx: Ctx) -> Result:
    res = Result(rule=RULE)
    F, P = impl.functions(), impl.parsing()
    rng = ctx.sub_rng('c11')
    g = asmgen.Gen(rng, F)
    def viol(src, exp, obs, what='compile'):
        if len(res.violations) < 10:
            res.violations.append({'input': {'what': what, 'source': src[:20000]}, 'expected': exp[:4000], 'observed': obs[:4000], 'how_to_run': './check C11 --replay <this file>'})
    def comp(src):
        try: return P.compile_script(src)
        except BaseException as e: return 'ERR:' + type(e).__name__
    dec_lines, dec_expect = [], []
    lex_srcs = []          # sources whose tokenization is compared with the model's (Model/Lex.lean; theorems Props/C11Lex.lean)
    rejected = 0
    lenient_rejections = 0
    # (1) random abstract programs in random spellings
    for i in range(ctx.n(6000, 120000)):
        prog = g.program()
        want = g.enc(prog)
        for v in range(2 if i % 3 == 0 else 1):
            src = g.source(prog)
            res.note_case(src, bool(prog))
            if i % 2 == 0 and len(src) < 20000: lex_srcs.append(src)
            got = comp(src)
            if got != want:
                if isinstance(got, str):
                    if g.lenient:
                        lenient_rejections += 1; continue       # e.g. an upper-case value prefix: rejecting it is fine, mis-assembling it is not
                    rejected += 1
                    viol(src, want.hex(), got + ' (a valid spelling of an encodable program was rejected)')
                else:
                    viol(src, want.hex(), got.hex())
        if i % 4 == 0 and len(want) < 3000:
            dec_lines.append('DEC ' + (want.hex() or '-')); dec_expect.append('OK ' + ';'.join(canon(g, prog)))
    res.sample({'source': g.source(g.program())[:300]})
    # (2) operand boundaries per kind, exhaustively for the small fields
    C = g.code
    for name, k in g.K.items():
        if k == 'u1':
            for n in range(256):
                for sym in ({'d' + str(n)} if n < 128 else {'d' + str(n - 256)}) | {'x%02x' % n}:
                    src = f'{name} {sym}'; res.note_case(src)
                    got = comp(src); want = bytes([C[name], n])
                    if got != want: viol(src, want.hex(), got.hex() if isinstance(got, bytes) else got)
    for ln in (1, 2, 3, 127, 128, 254, 255, 256, 257, 32767, 32768, 65534, 65535):
        v = bytes([0xab]) * ln
        src = f'push x{v.hex()}'; res.note_case(src)
        got = comp(src); want = g.push_enc(v)
        if got != want: viol(src, want.hex()[:80] + f'... ({len(want)} bytes, smallest push for a {ln}-byte value)', (got.hex()[:80] + f'... ({len(got)} bytes)') if isinstance(got, bytes) else got, 'push selection')
        dec_lines.append('PUSHB ' + v.hex()); dec_expect.append(want.hex())
    # (3) variables, macros, comptime
    sugar = [
        ('@= k [ d1 x0203 s"ab" ]', g.push_enc(b'\x01') + g.push_enc(b'\x02\x03') + g.push_enc(b'ab') + bytes([C['WRITE_CACHE'], 1]) + b'k' + b'\x03'),
        ('true true @= pair 2', bytes([C['TRUE'], C['TRUE'], C['WRITE_CACHE'], 4]) + b'pair' + b'\x02'),
        ('@k @#k', bytes([C['READ_CACHE'], 1]) + b'k' + bytes([C['READ_CACHE_SIZE'], 1]) + b'k'),
        ('@= R 1 @R @R', bytes([C['WRITE_CACHE'], 1]) + b'R\x01' + (bytes([C['READ_CACHE'], 1]) + b'R') * 2),
        ('!= pair [ a b ] { push a push b add d2 } !pair [ d1 d2 ] !pair [ d3 d4 ]',
         g.push_enc(b'\x01') + g.push_enc(b'\x02') + bytes([C['ADD_INTS'], 2]) + g.push_enc(b'\x03') + g.push_enc(b'\x04') + bytes([C['ADD_INTS'], 2])),
        ('!= two [ ] { dup dup } true !two [ ] false !two [ ]', bytes([C['TRUE'], C['DUP'], C['DUP'], C['FALSE'], C['DUP'], C['DUP']])),
        ('!= w [ v ] { if { push v } } !w [ x0102 ] !w [ x03 ]', bytes([C['IF'], 0, 4]) + g.push_enc(b'\x01\x02') + bytes([C['IF'], 0, 2]) + g.push_enc(b'\x03')),
        ('push ~ { true false }', g.push_enc(bytes([C['TRUE'], C['FALSE']]))),
        ('push ~! { push d5 push d6 add d2 }', g.push_enc(b'\x0b')),
        ('!= m [ ] { true } push ~ { !m [ ] !m [ ] }', g.push_enc(bytes([C['TRUE']]) * 2)),
        ('push ~! { push d1 push d2 }', g.push_enc(b'\x02')),                      # ~! substitutes the TOP item of what the block leaves
        ('push ~! { push x0a push x0b push x0c } true', g.push_enc(b'\x0c') + bytes([C['TRUE']])),
        ('push ~! { true false }', g.push_enc(b'\x00')),
        ('push ~! { push x0102 dup size }', g.push_enc(b'\x02')),
        ('true if true end_if false', bytes([C['TRUE'], C['IF'], 0, 1, C['TRUE'], C['FALSE']])),
        ('if ( true ) { false } else { true } dup', bytes([C['TRUE'], C['IF_ELSE'], 0, 1, C['FALSE'], 0, 1, C['TRUE'], C['DUP']])),
        ('try { true } except { false } dup', bytes([C['TRY_EXCEPT'], 0, 1, C['TRUE'], 0, 1, C['FALSE'], C['DUP']])),
        ('push1 x0102 true', bytes([C['PUSH1'], 2, 1, 2, C['TRUE']])),
        ('op_push1 d2 x0102', bytes([C['PUSH1'], 2, 1, 2])),
        ('div_int d-10 mod_int x0005', bytes([C['DIV_INT'], 1, 0xf6, C['MOD_INT'], 2, 0, 5])),
        ('write_cache d0 d1 read_cache d0', bytes([C['WRITE_CACHE'], 1, 0, 1, C['READ_CACHE'], 1, 0])),
        ('write_cache d255 d1', bytes([C['WRITE_CACHE'], 1, 255, 1])), ('write_cache d256 d2', bytes([C['WRITE_CACHE'], 2, 1, 0, 2])),
        ('if { write_cache d0 d1 } else { true }', bytes([C['IF_ELSE'], 0, 4, C['WRITE_CACHE'], 1, 0, 1, 0, 1, C['TRUE']])),
        # textually identical comptime blocks mean what the macro table of THEIR source says (two sources compiled in one process)
        ('!= body [ ] { OP_TRUE } OP_PUSH ~ { !body [ ] } OP_EVAL', g.push_enc(bytes([C['TRUE']])) + bytes([C['EVAL']])),
        ('!= body [ ] { OP_FALSE OP_NOT } OP_PUSH ~ { !body [ ] } OP_EVAL', g.push_enc(bytes([C['FALSE'], C['NOT']])) + bytes([C['EVAL']])),
        ('!= body [ v ] { push v } push ~ { !body [ x01 ] }', g.push_enc(g.push_enc(b'\x01'))),
        ('!= body [ v ] { push v dup } push ~ { !body [ x01 ] }', g.push_enc(g.push_enc(b'\x01') + bytes([C['DUP']]))),
        ('push ~! { !body2 [ ] } != body2 [ ] { true }', 'ERR:SyntaxError') if False else ('push ~ { true }', g.push_enc(bytes([C['TRUE']]))),
        # the empty and the one-character string literal are symbols like any other: what follows them is assembled too (fixed: F18)
        ('read_cache s"" dup push s"zz"', bytes([C['READ_CACHE'], 0, C['DUP']]) + g.push_enc(b'zz')),
        ("read_cache s'' dup push s'zz' verify", bytes([C['READ_CACHE'], 0, C['DUP']]) + g.push_enc(b'zz') + bytes([C['VERIFY']])),
        ('read_cache s"" dup', bytes([C['READ_CACHE'], 0, C['DUP']])),
        ('true write_cache s"" d1 dup push s"q"', bytes([C['TRUE'], C['WRITE_CACHE'], 0, 1, C['DUP']]) + g.push_enc(b'q')),
        ('if { rcz s"" } else { push s"no" }', bytes([C['IF_ELSE'], 0, 2, C['READ_CACHE_SIZE'], 0, 0, 4]) + g.push_enc(b'no')),
        ('push s"a" dup push s"zz" verify', g.push_enc(b'a') + bytes([C['DUP']]) + g.push_enc(b'zz') + bytes([C['VERIFY']])),
        ('if { push s"y" } else { push s"no" }', bytes([C['IF_ELSE'], 0, 2]) + g.push_enc(b'y') + bytes([0, 4]) + g.push_enc(b'no')),
        ('push s"" true', 'ERR:ValueError'),
    ]
    for rep in range(ctx.n(3, 10)):
        for src, want in sugar:
            res.note_case(('sugar', src, rep))
            got = comp(src)
            if got != want: viol(src, want.hex() if isinstance(want, bytes) else want, got.hex() if isinstance(got, bytes) else got, 'sugar / macro / comptime')
    # (3b) string values: `s"..."` pushes exactly the UTF-8 bytes written between the quotes
    k8 = []
    def strcase(src, value, k8_class):
        res.note_case(('str', src))
        got = comp(src); want = g.push_enc(value.encode('utf-8'))
        if got == want: return
        if k8_class: k8.append((src, want.hex(), got.hex() if isinstance(got, bytes) else got))
        else: viol(src, want.hex(), got.hex() if isinstance(got, bytes) else got, 'string value')
    words = ['a', 'hello', 'Hello', 'x1', 'd5', 'true', 'if', '{', '}', '#', 'é', '日本', 'sigfield1', '!m', '@k', "it's" if False else 'its']
    for rep in range(ctx.n(60, 600)):
        ws = [rng.choice(words) for _ in range(rng.randrange(1, 5))]
        q = rng.choice(['"', "'"])
        val = ' '.join(ws)
        if len(val) < 2: val += 'z'
        strcase(f'push s{q}{val}{q}', val, False)
        strcase(f'true push s{q}{val}{q} false', val, False) if False else None
    # the recorded tokenizer defect K8 (each probe is classified by what is written, not by the outcome)
    strcase('push s"a  b"', 'a  b', True)            # two spaces inside the quotes
    strcase('push s"a\tb"', 'a\tb', True)            # a tab inside the quotes
    strcase('push s"a\nb"', 'a\nb', True)            # a newline inside the quotes
    strcase('push S"hello"', 'hello', True)          # upper-case value prefix
    strcase('push shello', 'hello', True)            # unquoted string value
    from ..core import known_ids
    if k8:
        if 'K8' in known_ids('C11'):
            res.known.append(('K8', f'the tokenizer alters string values: {len(k8)} of 5 probes, e.g. `{k8[0][0]}` assembles to {k8[0][2]} instead of {k8[0][1]}'))
        else:
            res.violations.append({'finding': 'K8', 'input': {'source': k8[0][0], 'clause': 'string value'}, 'expected': k8[0][1], 'observed': k8[0][2], 'how_to_run': 'tapescript.parsing.compile_script(source)'})
    res.stats['K8_probes_failing'] = len(k8)
    # (4) unencodable sources must be rejected, never mis-assembled
    bad_sources = ['push x', 'push x' + 'ab' * 65536, 'add_ints d256', 'add_ints d-129', 'add_ints x0102', 'swap d256 d0', 'swap d1', 'merkleval x00',
                   'if { push x' + 'ab' * 65535 + ' }', 'def 256 { }', 'def 0 { ', 'if { true', 'op_nonexistent', 'nop300 d1', 'nop92 d200', 'write_cache xaa d256',
                   'push1 x' + 'ab' * 256, 'div_float x0102', 'check_multisig d1 d2', '!undefined [ ]', '# unterminated comment', 'try { true } except { false } except { true }',
                   'push d1 if', 's"unterminated', 'check_multisig x00 d-1 d2', 'check_multisig x00 d2.0 d2', 'check_multisig x00 dtwo d3', 'check_multisig_verify x00 d+3 d3', 'swap d-1 d2', 'swap dtwo d1', 'add_ints dtwo']
    # macros defined by EARLIER sources (the sugar list above ran in this process) are unknown to a source that does not define them
    bad_sources += ['!pair [ d1 d2 ]', '!two [ ]', 'true !m [ ]', 'push ~ { !body [ ] }', 'true !w [ x01 ]', '!body [ x01 ]']
    for src in bad_sources:
        res.note_case(('bad', src[:80]))
        got = comp(src)
        if isinstance(got, bytes):
            viol(src, 'an error (the source cannot be encoded)', 'assembled to ' + got.hex()[:200], 'rejection')
    # (4b) the tokenizer itself, word for word, against the model (for which "nothing dropped, duplicated or reordered" is a theorem)
    lex_srcs += [src for src, _ in sugar] + [b for b in bad_sources if len(b) < 20000]
    lex_srcs += ['s', 'push s', '@=', 'x @=', '!= a', "s' a b' c", 's"" a "', 's"a', 's"a b', 'd', 'x', 'dx', 'xg', 'x0g', 'd12 d1a d-1 d+1 d1.5', '@', '!', '@x !y', 'a\x1cb', 'a\x0bb \x0c c', '',
                 '   ', 's"" dup s"" dup', "s'' s\"\" s'a' s\"b\" x", 's"it\'s" dup', "s'say \"hi\"' dup", 'sx s1 S"a" s"A"', '@= k [ x01 ]', '!= m [ a ] { push a }', 'push s"a" @= v 1', 'd', 'dd', 'xx', 'x1', 'xabc', 'xAB', 'Xab']
    rng_l = ctx.sub_rng('c11-lex')
    alpha = ['s"', "s'", '"', "'", 's', 'd', 'x', '@=', '!=', '@', '!', 'a', 'dup', '1', 'f', ' ', ' ', ' ', '\n', '\t', '{', '}', '#']
    for _ in range(ctx.n(3000, 30000)):
        lex_srcs.append(''.join(rng_l.choice(alpha) for _ in range(rng_l.randrange(1, 14))))
    lex_srcs = [x for x in lex_srcs if x.isascii()]
    lex_lines, lex_expect = [], []
    for src in lex_srcs:
        try: e_ = 'OK ' + ','.join(sym.encode().hex() for sym in P.get_symbols(src))
        except BaseException as ex:
            if isinstance(ex, (KeyboardInterrupt, SystemExit)): raise
            e_ = 'ERR'
        lex_lines.append('SYMS ' + (src.encode().hex() or '-')); lex_expect.append(e_.strip())
        res.note_case(('lex', src[:200]))
    res.stats['sources_tokenized_on_model_and_implementation'] = len(lex_lines)
    # (5) the reference is the Lean model's: its decoder reads the documented encoding back as the abstract program
    if ctx.driver.available:
        try:
            replies = ctx.driver.run(dec_lines)
            for l, r, e in zip(dec_lines, replies, dec_expect):
                res.note_case(('dec', l[:200]))
                if r != e and len(res.disagreements) < 20:
                    res.disagreements.append({'line': l[:300], 'model': r[:300], 'reference_assembler': e[:300]})
            for l, r, e in zip(lex_lines, ctx.driver.run(lex_lines), lex_expect):
                if r.strip() != e and len(res.disagreements) < 20:
                    res.disagreements.append({'tokenizer': bytes.fromhex(l[5:] if l[5:] != '-' else '').decode()[:300], 'model': r[:300], 'get_symbols': e[:300]})
        except DriverCrash as e:
            res.disagreements.append({'driver': str(e)[:300]})
    else:
        res.disagreements.append({'driver': 'not built'})
    res.stats['rejected_valid_spellings'] = rejected
    res.stats['rejections_of_sources_with_upper_case_value_prefixes (allowed)'] = lenient_rejections
    res.stats['search'] = 'every source is judged on the implementation alone against the documented encoding of its abstract program'
    return res


def replay(ctx: Ctx, payload) -> bool:
    P = impl.parsing()
    src = payload['input']['source']
    try: got = P.compile_script(src).hex()
    except BaseException as e: got = 'ERR:' + type(e).__name__
    print(got[:200], 'expected', payload['expected'][:200])
    if payload['expected'].startswith('an error'): return got.startswith('ERR')
    return got == payload['expected']
