"""C09 — embedder configuration applies uniformly at every nesting level.
Theorems: Props/C09.lean. Tie: the behavioural table 'construct nesting x configuration kind ->
what a probe instruction observes' is measured on the implementation: every probe must observe
inside every nesting exactly what it observes at top level (judged on the implementation
alone), and the model must agree with the implementation on every probe script."""
from __future__ import annotations
import hashlib, itertools
import nacl.bindings as nb
from ..core import Result, Ctx, DriverCrash, known_ids
from .. import vmrun, impl
from ..gen import programs as G, values as V
from . import c06

RULE = ("all nestings of {IF, IF_ELSE if-arm, IF_ELSE else-arm, TRY, EXCEPT, LOOP, DEF/CALL, EVAL, MERKLEVAL, TAPROOT script path} up to depth 2 "
        "(quick) / 3 (thorough) around probe instructions for: flags 0-10 turned off one at a time (and all on), ts/epoch thresholds, "
        "disallow_OP_EVAL, eval_return, signature-extension plugins (exactly-once log), check_template plugins, contracts, item-size limit; "
        "the observable (flag-gated cache keys, plugin log, probe result) inside the nesting must equal the top-level observable; "
        "non-trivial = all; distinct = distinct (configuration, nesting, probe)")


def op(n): return bytes([G.names()[n]])
u1, u2, push = G.u1, G.u2, G.push


# ---- contexts: bytes -> bytes, guards always taken; they leave the stack as they found it
def c_if(b): return op('TRUE') + op('IF') + u2(len(b)) + b
def c_if_arm(b): return op('TRUE') + op('IF_ELSE') + u2(len(b)) + b + u2(1) + op('FALSE')
def c_else_arm(b): return op('FALSE') + op('IF_ELSE') + u2(1) + op('FALSE') + u2(len(b)) + b
def c_try(b): return op('TRY_EXCEPT') + u2(len(b)) + b + u2(0)
def c_except(b):
    t = op('FALSE') + op('VERIFY')
    return op('TRY_EXCEPT') + u2(len(t)) + t + u2(len(b)) + b
def c_loop(b):
    body = op('POP0') + b + op('FALSE')
    return op('TRUE') + op('LOOP') + u2(len(body)) + body + op('POP0')
def c_call(b, h=[0]):
    h[0] = (h[0] + 1) % 200
    return op('DEF') + u1(h[0]) + u2(len(b)) + b + op('CALL') + u1(h[0])
def c_eval(b): return push(b) + op('EVAL') if len(b) != 1 or True else b
def c_merkle(b):
    sib = b'sibling'
    h1 = hashlib.sha256(hashlib.sha256(b).digest()).digest(); h2 = hashlib.sha256(sib).digest()
    return push(sib) + push(b) + op('MERKLEVAL') + bytes(x ^ y for x, y in zip(h1, h2))
PK = nb.crypto_scalarmult_ed25519_base_noclamp((12345).to_bytes(32, 'little'))
def c_taproot(b):
    t = bytearray(hashlib.sha256(PK + hashlib.sha256(b).digest()).digest()); t[31] &= 0x7f
    root = nb.crypto_core_ed25519_add(nb.crypto_scalarmult_ed25519_base_noclamp(bytes(t)), PK)
    return push(b) + push(PK) + push(root) + op('TAPROOT') + b'\x00'

CONTEXTS = {'IF': c_if, 'IF_ELSE.if': c_if_arm, 'IF_ELSE.else': c_else_arm, 'TRY': c_try, 'EXCEPT': c_except, 'LOOP': c_loop,
            'DEF/CALL': c_call, 'EVAL': c_eval, 'MERKLEVAL': c_merkle, 'TAPROOT': c_taproot}

SEED = bytes(range(32))
SCALAR = (777).to_bytes(32, 'little')
POINT = nb.crypto_scalarmult_ed25519_base_noclamp(SCALAR)


def wr(key):    # record the top of stack as the probe's result
    return op('WRITE_CACHE') + u1(len(key)) + key + u1(1)


def probes():
    """name -> (cfg modifier, cache, probe bytes, observable cache keys)"""
    P = {}
    masu = push(SEED) + push(b'msg') + push(POINT) + op('MAKE_ADAPTER_SIG_PUBLIC') + op('POP0') + op('POP0')
    masv = push(b'msg') + push(SCALAR) + push(SEED) + op('MAKE_ADAPTER_SIG_PRIVATE') + op('POP0') * 3
    flag_probe = {
        0: (push(b'a') + push(b'\x01') + push(b'C') + op('INVOKE') + op('POP0'), [b'IR']),
        1: (push(SEED) + op('DERIVE_SCALAR') + op('POP0'), [b'x']),
        2: (push(SCALAR) + op('DERIVE_POINT') + op('POP0'), [b'X']),
        3: (masu, [b'r']), 4: (masu, [b'R']), 5: (masv, [b't']), 6: (masu, [b'T']),
        7: (push(SCALAR) + push(POINT) + push(SCALAR) + op('DECRYPT_ADAPTER_SIG') + op('POP0') * 2, [b'RT']),
        8: (masu, [b'sa']),
        9: (push(SEED) + op('SIGN') + b'\x00' + op('POP0'), [b's']),
        10: (push(b'f1') + op('CHECK_TEMPLATE') + b'\x01' + wr(b'Z'), [b'Z']),
    }
    for i, (pb, keys) in flag_probe.items():
        for on in (False, True):
            def mod(cfg, i=i, on=on):
                cfg.mask = 2047 if on else 2047 ^ (1 << i)
                cfg.contracts = ((b'C', 'e'),)
                cfg.sigexts = ('l7',)
            P[f'flag{i}={"on" if on else "off"}'] = (mod, {'sigfield1': b'f1'}, pb, keys)
    # the same probe executed twice in one run: reading a flag must not change it
    for i, (pb, keys) in flag_probe.items():
        def mod(cfg, i=i):
            cfg.mask = 2047 ^ (1 << i)
            cfg.contracts = ((b'C', 'e'),)
            cfg.sigexts = ('l7',)
        P[f'twice:flag{i}=off'] = (mod, {'sigfield1': b'f1'}, pb + pb, keys)
    def ts0(cfg): cfg.ts = 0
    P['ts_threshold=0'] = (ts0, {'timestamp': vmrun.NOW + 1000}, push(b'\x01') + op('CHECK_TIMESTAMP') + wr(b'Z'), [b'Z'])
    def ts1000(cfg): cfg.ts = 2000
    P['ts_threshold=2000'] = (ts1000, {'timestamp': vmrun.NOW + 1000}, push(b'\x01') + op('CHECK_TIMESTAMP') + wr(b'Z'), [b'Z'])
    def tsneg(cfg): cfg.ts = -5
    P['ts_threshold=-5'] = (tsneg, {'timestamp': vmrun.NOW + 1000}, push(b'\x01') + op('CHECK_TIMESTAMP') + wr(b'Z'), [b'Z'])
    P['ts_threshold=default'] = (lambda cfg: None, {'timestamp': vmrun.NOW + 1000}, push(b'\x01') + op('CHECK_TIMESTAMP') + wr(b'Z'), [b'Z'])
    def ep(cfg): cfg.epoch = 5000
    c = (vmrun.NOW + 1000).to_bytes(5, 'big')
    P['epoch_threshold=5000'] = (ep, {}, push(c) + op('CHECK_EPOCH') + wr(b'Z'), [b'Z'])
    P['epoch_threshold=default'] = (lambda cfg: None, {}, push(c) + op('CHECK_EPOCH') + wr(b'Z'), [b'Z'])
    def noeval(cfg): cfg.disallow_eval = True
    inner = op('TRUE') + wr(b'Z')
    P['disallow_OP_EVAL'] = (noeval, {}, op('TRY_EXCEPT') + u2(len(push(inner) + op('EVAL'))) + push(inner) + op('EVAL') + u2(len(op('FALSE') + wr(b'Z'))) + op('FALSE') + wr(b'Z'), [b'Z'])
    # ... also when the evaluation is asked for through MERKLEVAL or the TAPROOT script path
    for cname in ('MERKLEVAL', 'TAPROOT'):
        ev = CONTEXTS[cname](inner)
        P['disallow_OP_EVAL/' + cname] = (noeval, {}, op('TRY_EXCEPT') + u2(len(ev)) + ev + u2(len(op('FALSE') + wr(b'Z'))) + op('FALSE') + wr(b'Z'), [b'Z'])
    def evret(cfg): cfg.eval_return = True
    # eval_return: RETURN inside an evaluated script ends the enclosing function; probe inside its own function so the nesting survives
    fn = push(op('RETURN')) + op('EVAL') + op('TRUE') + wr(b'Z')
    body = op('DEF') + u1(250) + u2(len(fn)) + fn + op('CALL') + u1(250)
    P['eval_return=on'] = (evret, {}, body, [b'Z'])
    P['eval_return=off'] = (lambda cfg: None, {}, body, [b'Z'])
    # a setting the embedder passes with a false value is off, exactly as if it had not been passed
    def evfalse(cfg): cfg.falsy = ('eval_return',)
    P['eval_return=off/passed-as-False'] = (evfalse, {}, body, [b'Z'])
    # ... and with the EVAL itself inside block constructs / evaluated scripts within that function: the RETURN still
    # ends the whole function when eval_return is on, and only the evaluated script when it is off
    inner_ctx = ['IF', 'IF_ELSE.if', 'IF_ELSE.else', 'TRY', 'EXCEPT', 'LOOP', 'EVAL', 'MERKLEVAL', 'TAPROOT']
    combos = [(c,) for c in inner_ctx] + [('IF', 'LOOP'), ('TRY', 'IF_ELSE.else'), ('EXCEPT', 'TRY'), ('LOOP', 'IF'), ('EVAL', 'IF'), ('IF', 'EVAL')]
    for combo in combos:
        e = push(op('RETURN')) + op('EVAL')
        for cname in reversed(combo):
            e = CONTEXTS[cname](e)
        fn2 = e + op('TRUE') + wr(b'Z')
        body2 = op('DEF') + u1(251) + u2(len(fn2)) + fn2 + op('CALL') + u1(251)
        P['eval_return=on/' + '>'.join(combo)] = (evret, {}, body2, [b'Z'])
        P['eval_return=off/' + '>'.join(combo)] = (lambda cfg: None, {}, body2, [b'Z'])
    def plug(cfg): cfg.sigexts = ('l1', 'l2')
    sigops = {'GET_MESSAGE': op('GET_MESSAGE') + b'\x00' + op('POP0'),
              'SIGN': push(SEED) + op('SIGN') + b'\x00' + op('POP0'),
              'CHECK_SIG': push(bytes(64)) + push(PK) + op('CHECK_SIG') + b'\x00' + op('POP0'),
              'CHECK_SIG_VERIFY': op('TRY_EXCEPT') + u2(len(push(bytes(64)) + push(PK) + op('CHECK_SIG_VERIFY') + b'\x00')) + push(bytes(64)) + push(PK) + op('CHECK_SIG_VERIFY') + b'\x00' + u2(0),
              'CHECK_MULTISIG': push(bytes(64)) + push(bytes(64)[:63] + b'\x01') + push(PK) + push(POINT) + op('CHECK_MULTISIG') + b'\x00\x02\x02' + op('POP0'),
              'CHECK_TEMPLATE': push(b'f1') + op('CHECK_TEMPLATE') + b'\x01' + op('POP0'),
              'TAPROOT.key': push(bytes(64)) + push(PK) + op('TAPROOT') + b'\x00' + op('POP0')}
    for name, pb in sigops.items():
        P['sigext:' + name] = (plug, {'sigfield1': b'f1'}, pb, [])
    def ctp(cfg): cfg.ct = ('P',)
    P['check_template plugin'] = (ctp, {'sigfield1': b'f1-long'}, push(b'f1') + op('CHECK_TEMPLATE') + b'\x01' + wr(b'Z'), [b'Z'])
    def ctr(cfg): cfg.contracts = ((b'C', 'c'),)
    P['contract'] = (ctr, {}, push(b'a') + push(b'b') + push(b'\x02') + push(b'C') + op('INVOKE') + wr(b'Z'), [b'Z'])
    # "only the documented flag instructions change a flag, and exactly the integer flag they name": the embedder's named settings
    # are not integer flags - a script that spells one of them as the operand of UNSET_FLAG changes nothing
    def unset(key): return op('UNSET_FLAG') + u1(len(key)) + key
    for base, key in (('disallow_OP_EVAL', b'disallow_OP_EVAL'), ('eval_return=on', b'eval_return'), ('ts_threshold=2000', b'ts_threshold'),
                      ('ts_threshold=0', b'ts_threshold'), ('epoch_threshold=5000', b'epoch_threshold')):
        mod_, cache_, pb_, keys_ = P[base]
        P['unset:' + base] = (mod_, cache_, unset(key) + pb_, keys_)
    # the loop bound is the run's call-stack limit at every nesting level - not what is left of it where the loop happens to sit
    def cl(cfg): cfg.call_limit = 11
    def loopn(n):
        body = push(b'\xff') + op('ADD_INTS') + b'\x02'
        return push(bytes([n])) + op('LOOP') + u2(len(body)) + body + op('POP0')
    P['loop_limit=exact'] = (cl, {}, loopn(11) + op('TRUE') + wr(b'Z'), [b'Z'])
    over_ = loopn(12) + op('TRUE') + wr(b'Z')
    P['loop_limit=over'] = (cl, {}, op('TRY_EXCEPT') + u2(len(over_)) + over_ + u2(len(op('FALSE') + wr(b'Z'))) + op('FALSE') + wr(b'Z'), [b'Z'])
    def lim(cfg): cfg.max_item_size = 40
    big = op('TRY_EXCEPT') + u2(len(push(bytes(41)))) + push(bytes(41)) + u2(len(op('FALSE') + wr(b'Z'))) + op('FALSE') + wr(b'Z')
    P['max_item_size=40'] = (lim, {}, big, [b'Z'])
    return P


def want_top(pname):
    if pname.startswith('twice:'): pname = pname[6:]
    if pname.startswith('unset:'): pname = pname[6:]
    if pname.startswith('disallow_OP_EVAL/'): pname = 'disallow_OP_EVAL'
    if pname.startswith('flag') and pname != 'flag10=on' and pname != 'flag10=off':
        return (lambda ob: ob[1][0][1] is None) if pname.endswith('=off') else (lambda ob: ob[1][0][1] is not None)
    if pname == 'flag10=off': return lambda ob: ob[2] == '-'
    if pname == 'flag10=on': return lambda ob: ob[2] == '7'
    Z = {'ts_threshold=0': 'LBff', 'ts_threshold=-5': 'LBff', 'ts_threshold=2000': 'LBff', 'ts_threshold=default': 'LB00',
         'epoch_threshold=5000': 'LBff', 'epoch_threshold=default': 'LB00', 'disallow_OP_EVAL': 'LB00', 'max_item_size=40': 'LB00',
         'contract': 'LB6261', 'check_template plugin': 'LBff', 'loop_limit=exact': 'LBff', 'loop_limit=over': 'LB00'}
    if pname in Z: return lambda ob: ob[1][0][1] == Z[pname]
    if pname.startswith('eval_return=on'): return lambda ob: ob[1][0][1] is None
    if pname.startswith('eval_return=off'): return lambda ob: ob[1][0][1] == 'LBff'
    if pname.startswith('sigext:'): return lambda ob: ob[2] == '1,2'
    return None


def observable(out: str, keys):
    f = vmrun.fields(out)
    cache = dict(e.split('=', 1) for e in f.get('cache', '-').split(';') if '=' in e)
    return (f['status'], tuple((k.hex(), cache.get('b' + k.hex())) for k in keys), f.get('plog'))


def run(ctx: Ctx) -> Result:
    res = Result(rule=RULE)
    known = known_ids('C09')
    depth = ctx.n(2, 3)
    PR = probes()
    names = list(CONTEXTS)
    nestings = [()]
    for d in range(1, depth + 1):
        nestings += list(itertools.product(names, repeat=d))
    if ctx.tier == 'quick':
        rng = ctx.sub_rng('c09')
        d3 = [tuple(rng.choice(names) for _ in range(3)) for _ in range(40)]
        nestings += d3
    cases = []
    for pname, (mod, cache, pb, keys) in PR.items():
        cfg = vmrun.Cfg(); mod(cfg)
        for nest in nestings:
            b = pb
            for cname in reversed(nest):
                b = CONTEXTS[cname](b)
            if len(b) > 60000: continue
            if (pname in ('disallow_OP_EVAL', 'unset:disallow_OP_EVAL', 'max_item_size=40') or pname.startswith('disallow_OP_EVAL/')) and any(c in ('EVAL', 'MERKLEVAL', 'TAPROOT') for c in nest):
                continue        # the context itself needs the disallowed instruction / pushes its body as an item
            cases.append((pname, cfg, cache, nest, b, keys))
    outs = []
    def work():
        for pname, cfg, cache, nest, b, keys in cases:
            outs.append(vmrun.run_impl(cfg, cache, b))
    vmrun.in_big_thread(work)
    top = {}
    for (pname, cfg, cache, nest, b, keys), o in zip(cases, outs):
        if nest == (): top[pname] = observable(o, keys)
    # what the supplied configuration must mean, stated outright for the top-level placement (the nested placements are
    # then compared with it): a flag that is off leaves its cache key unwritten, thresholds decide as documented, ...
    for (pname, cfg, cache, nest, b, keys), o in zip(cases, outs):
        if nest != (): continue
        w = want_top(pname)
        if w is not None and not (top[pname][0] == 'OK' and w(top[pname])) and len(res.violations) < 10:
            res.violations.append({'input': {'probe': pname, 'nesting': [], 'cfg': cfg.line(), 'cache': vmrun.cache_str(cache, False), 'script': b.hex()},
                                   'expected': 'the supplied flag / threshold / plugin / contract governs the probe instruction as documented (probe: ' + pname + ')',
                                   'observed': str(top[pname]), 'how_to_run': './check C09 --replay <this file>'})
    table = {}
    for (pname, cfg, cache, nest, b, keys), o in zip(cases, outs):
        res.note_case((pname, nest))
        obs = observable(o, keys)
        if obs != top[pname]:
            table.setdefault(pname, []).append('>'.join(nest))
            if len(res.violations) < 10:
                res.violations.append({'input': {'probe': pname, 'nesting': list(nest), 'cfg': cfg.line(), 'cache': vmrun.cache_str(cache, False), 'script': b.hex()},
                                       'expected': f'same observable as at top level: {top[pname]}', 'observed': str(obs),
                                       'how_to_run': './check C09 --replay <this file>'})
    # the call budget is one budget at every nesting level: a probe that measures how many nested activations are still
    # possible at its position must find callstack_limit minus the calls the enclosing constructs themselves used
    LIM = 11
    inner = op('TRY_EXCEPT') + u2(len(push(b'a') + op('CALL') + b'\x09')) + push(b'a') + op('CALL') + b'\x09' + u2(0)
    budget_probe = op('DEPTH') + wr(b'Y') + op('DEF') + b'\x09' + u2(len(inner)) + inner + op('CALL') + b'\x09' + op('DEPTH') + wr(b'Z')
    bcases = []
    for nest in nestings:
        b = budget_probe
        for cname in reversed(nest):
            b = CONTEXTS[cname](b)
        if len(b) > 60000: continue
        bcases.append((nest, b))
    bouts = []
    def work_b():
        for nest, b in bcases:
            bouts.append(vmrun.run_impl(vmrun.Cfg(call_limit=LIM), {}, b))
    vmrun.in_big_thread(work_b)
    for (nest, b), o in zip(bcases, bouts):
        res.note_case(('budget', nest))
        f = vmrun.fields(o)
        cachef = dict(e.split('=', 1) for e in f.get('cache', '-').split(';') if '=' in e)
        used = sum(1 for c in nest if c in ('DEF/CALL', 'EVAL', 'MERKLEVAL', 'TAPROOT'))
        want = LIM - used
        try:
            y = int.from_bytes(bytes.fromhex(cachef['b59'][2:]), 'big', signed=True); z = int.from_bytes(bytes.fromhex(cachef['b5a'][2:]), 'big', signed=True)
            got = z - y
        except Exception:
            got = 'no-result:' + f['status']
        if got != want and len(res.violations) < 10:
            res.violations.append({'input': {'probe': 'remaining call budget', 'nesting': list(nest), 'cfg': vmrun.Cfg(call_limit=LIM).line(), 'cache': '-', 'script': b.hex()},
                                   'expected': f'{want} nested activations possible (callstack_limit {LIM} minus {used} used by the enclosing constructs)', 'observed': str(got),
                                   'how_to_run': './check C09 --replay <this file>'})
    # "a signature-extension plugin runs exactly once before every signature-related instruction"
    for (pname, cfg, cache, nest, b_, keys), o in zip(cases, outs):
        if pname.startswith('sigext:') and nest == ():
            plog = vmrun.fields(o).get('plog')
            if plog != '1,2' and len(res.violations) < 10:
                res.violations.append({'input': {'probe': pname, 'nesting': [], 'cfg': cfg.line(), 'cache': vmrun.cache_str(cache, False), 'script': b_.hex()},
                                       'expected': 'plugin log 1,2 (each installed signature extension exactly once)', 'observed': f'plugin log {plog}',
                                       'how_to_run': './check C09 --replay <this file>'})
    # probes must be sensitive: the on/off variants differ at top level (otherwise the table says nothing)
    for i in range(11):
        if top.get(f'flag{i}=on') == top.get(f'flag{i}=off'):
            res.notes.append(f'probe for flag {i} is insensitive')
            res.disagreements.append({'probe': f'flag{i}', 'problem': 'on/off observables equal at top level - probe lost its sensitivity'})
    # contracts registered VM-wide stay reachable in EVERY script of an authorization, at every nesting (not only in the first script)
    def vmwide():
        F = vmrun.impl.functions()
        calls = []
        class _C:
            def abi(self, args): calls.append(1); return [b'\xff']
        cid = b'C09-vmwide'
        inv = push(b'\x00') + push(cid) + op('INVOKE')
        with vmrun.Env(vmrun.Cfg()) as env:
            F.add_contract(cid, _C())
            try:
                for nest in [n_ for n_ in nestings if len(n_) <= 1] + [n_ for n_ in nestings if len(n_) == 2][::7]:
                    if any(c in ('MERKLEVAL', 'TAPROOT') for c in nest): continue
                    b = inv
                    for cname in reversed(nest): b = CONTEXTS[cname](b)
                    for scripts in ([op('TRUE') + op('POP0'), b], [op('TRUE') + op('POP0'), op('TRUE') + op('POP0'), b], [b]):
                        del calls[:]
                        res.note_case(('vmwide-contract', nest, len(scripts)))
                        try: got = F.run_auth_scripts(scripts)
                        except BaseException as e: got = 'RAISED:' + type(e).__name__
                        if (got is not True or len(calls) != 1) and len(res.violations) < 10:
                            res.violations.append({'input': {'probe': 'contract registered with add_contract, invoked in the last script', 'nesting': list(nest), 'cfg': vmrun.Cfg().line(), 'cache': '-', 'script': b.hex(), 'scripts': [x.hex() for x in scripts]},
                                                   'expected': 'True, the contract called exactly once', 'observed': f'{got}, called {len(calls)} time(s)', 'how_to_run': './check C09 --tier quick'})
            finally:
                F.remove_contract(cid)
    vmrun.in_big_thread(vmwide)
    # a function defined by an EARLIER run (its definitions handed on through Tape(definitions=...), as run_auth_scripts and the REPL do)
    # and called in this run obeys THIS run's flags: the probe inside the called body shows what it shows at top level
    def cross_run_defs():
        F = vmrun.impl.functions()
        for pname in ('disallow_OP_EVAL', 'ts_threshold=0', 'ts_threshold=2000', 'flag1=off', 'flag9=off', 'flag2=off', 'epoch_threshold=5000'):
            if pname not in PR: continue
            mod, cache, pb, keys = PR[pname]
            cfg = vmrun.Cfg(); mod(cfg)
            def go(script, defs):
                with vmrun.Env(cfg) as env:
                    t = F.Tape(script, definitions=defs) if defs is not None else F.Tape(script)
                    t.contracts = {**F._contracts, **env.contracts()}; t.plugins = {**F._plugins, **env.plugins()}
                    st = F.Stack(); c = {'timestamp': int(F.time()), **cache}
                    try: F.run_tape(t, st, c, additional_flags=cfg.additional_flags())
                    except BaseException as e:
                        if isinstance(e, (KeyboardInterrupt, SystemExit)): raise
                        return 'ERR:' + type(e).__name__
                    return tuple((k.hex(), repr(c.get(k))) for k in keys)
            with vmrun.Env(vmrun.Cfg()) as env0:
                try: t1, _, _ = F.run_script(op('DEF') + u1(9) + u2(len(pb)) + pb, dict(cache))          # defined under the DEFAULT flags
                except BaseException as e: continue
            top_ = go(pb, None)
            called = go(op('CALL') + u1(9), t1.definitions)
            res.note_case(('cross-run-definition', pname))
            if called != top_ and len(res.violations) < 10:
                res.violations.append({'input': {'probe': pname, 'nesting': ['DEF in an earlier run / CALL in this run'], 'cfg': cfg.line(), 'cache': vmrun.cache_str(cache, False), 'script': (op('CALL') + u1(9)).hex(), 'definition': pb.hex()},
                                       'expected': f'same observable as at top level of this run: {top_}', 'observed': str(called), 'how_to_run': './check C09 --tier quick'})
    vmrun.in_big_thread(cross_run_defs)
    # K2: the flag instructions do not affect integer flags
    cfg = vmrun.Cfg()
    k2a = vmrun.run_impl(cfg, {}, op('SET_FLAG') + b'\x01\x01')
    cfg2 = vmrun.Cfg()
    k2b = vmrun.run_impl(cfg2, {}, op('UNSET_FLAG') + b'\x01\x01' + push(SEED) + op('DERIVE_SCALAR') + op('POP0'))
    k2 = k2a.startswith('ERR') or 'b78=' in vmrun.fields(k2b).get('cache', '')
    res.stats['K2'] = {'set_flag d1': k2a[:40], 'unset_flag d1 then derive_scalar caches x': 'b78=' in vmrun.fields(k2b).get('cache', '')}
    if k2:
        if 'K2' in known:
            res.known.append(('K2', 'set_flag d1 always raises and unset_flag d1 never unsets: the bytes operand is compared with int / str flag keys'))
        else:
            res.violations.append({'finding': 'K2', 'input': {'script': (op('UNSET_FLAG') + b'\x01\x01').hex()}, 'expected': 'integer flag 1 unset', 'observed': 'flag unchanged',
                                   'how_to_run': 'run_script(compile_script("unset_flag d1 push x<seed> derive_scalar")) still writes cache[b"x"]'})
    # model vs implementation on every probe script
    if ctx.driver.available:
        try:
            replies = ctx.driver.run([vmrun.case_line('RUN', c[1], c[2], [c[4]]) for c in cases])
            for c, r, o in zip(cases, replies, outs):
                ok, soft, why = vmrun.compare_run(r, o)
                res.soft_mismatches += soft
                if not ok and len(res.disagreements) < 30:
                    res.disagreements.append({'probe': c[0], 'nesting': list(c[3]), 'why': why, 'model': r[:160], 'impl': o[:160]})
        except DriverCrash as e:
            res.disagreements.append({'driver': str(e)[:300]})
    else:
        res.disagreements.append({'driver': 'not built'})
    res.stats['behavioural_table_divergent_nestings'] = table
    res.stats['probes'] = len(PR); res.stats['nestings'] = len(nestings)
    res.stats['top_level_observables'] = {k: str(v)[:120] for k, v in list(top.items())[:12]}
    res.sample({'probe': cases[1][0], 'nesting': list(cases[1][3]), 'script': cases[1][4].hex()[:160], 'impl': outs[1][:160]})
    res.sample({'probe': cases[-1][0], 'nesting': list(cases[-1][3]), 'script': cases[-1][4].hex()[:160], 'impl': outs[-1][:160]})
    res.exhaustive = True
    res.stats['search'] = 'the behavioural table is measured on the implementation alone: nested observable vs top-level observable'
    # contracts supplied to the run stay reachable from plugin code too: a check_template plugin that looks its contract up in
    # tape.contracts (as the readme tells plugin authors to do) finds it at every nesting level
    def plugin_contract():
        F = vmrun.impl.functions()
        class Appr:
            def abi(self, args): return [b'\x01']
        seen = []
        def plug(tape, stack, cache):
            ok = b'C' in getattr(tape, 'contracts', {})
            seen.append(ok)
            return ok
        probe = push(b'f1') + op('CHECK_TEMPLATE') + b'\x01' + wr(b'Z')
        with vmrun.Env(vmrun.Cfg()) as env:
            for nest in nestings:
                if any(c in ('MERKLEVAL', 'TAPROOT') for c in nest) and len(nest) > 2: continue
                b = probe
                for cname in reversed(nest):
                    b = CONTEXTS[cname](b)
                if len(b) > 60000: continue
                res.note_case(('plugin-contract', nest))
                del seen[:]
                try:
                    _, _, cache_ = F.run_script(b, {'sigfield1': b'f1-long'}, {b'C': Appr()}, {}, {'check_template': [plug]})
                    got = cache_.get(b'Z')
                except BaseException as e:
                    got = 'RAISED:' + type(e).__name__
                if (got != [b'\xff'] or seen != [True]) and len(res.violations) < 10:
                    res.violations.append({'input': {'probe': 'check_template plugin that looks up contract C in tape.contracts', 'nesting': list(nest), 'script': b.hex()},
                                           'expected': 'the plugin runs once, finds the contract, CHECK_TEMPLATE yields ff', 'observed': f'Z = {got}, plugin saw contract: {seen}',
                                           'how_to_run': './check C09 --tier quick'})
    vmrun.in_big_thread(plugin_contract)
    # every installed signature extension runs exactly once before every signature instruction - whatever the others return
    def truthy_sigexts():
        F = vmrun.impl.functions()
        log_ = []
        def tagger(tape, stack, cache): log_.append('tagger'); return True
        def auditor(tape, stack, cache): log_.append('auditor'); return None
        def zero(tape, stack, cache): log_.append('zero'); return 0
        sigprobes = {'GET_MESSAGE': op('GET_MESSAGE') + b'\x00' + op('POP0'), 'SIGN': push(SEED) + op('SIGN') + b'\x00' + op('POP0'),
                     'CHECK_SIG': push(bytes(64)) + push(PK) + op('CHECK_SIG') + b'\x00' + op('POP0')}
        with vmrun.Env(vmrun.Cfg()) as env:
            for order in ([tagger, auditor], [auditor, tagger], [zero, tagger, auditor]):
                for pname, pb in sigprobes.items():
                    for nest in nestings:
                        if len(nest) > 2 or any(c in ('MERKLEVAL', 'TAPROOT') for c in nest): continue
                        b = pb
                        for cname in reversed(nest):
                            b = CONTEXTS[cname](b)
                        res.note_case(('truthy-sigext', tuple(f.__name__ for f in order), pname, nest))
                        del log_[:]
                        try: F.run_script(b, {'sigfield1': b'f1'}, {}, {}, {'signature_extensions': list(order)})
                        except BaseException as e: log_.append('RAISED:' + type(e).__name__)
                        want = [f.__name__ for f in order]
                        if log_ != want and len(res.violations) < 10:
                            res.violations.append({'input': {'probe': f'{pname} with signature extensions {want} (tagger returns True)', 'nesting': list(nest), 'script': b.hex()},
                                                   'expected': f'each extension exactly once, in order: {want}', 'observed': str(log_), 'how_to_run': './check C09 --tier quick'})
    vmrun.in_big_thread(truthy_sigexts)
    return res


def replay(ctx: Ctx, payload) -> bool:
    inp = payload['input']
    if 'probe' not in inp: return False
    PR = probes()
    if inp['probe'] not in PR: return False
    mod, cache, pb, keys = PR[inp['probe']]
    cfg = vmrun.Cfg(); mod(cfg)
    o = vmrun.in_big_thread(vmrun.run_impl, cfg, cache, bytes.fromhex(inp['script']))
    t = vmrun.in_big_thread(vmrun.run_impl, cfg, cache, pb)
    print('nested', observable(o, keys)); print('top   ', observable(t, keys))
    w = want_top(inp['probe'])
    if w is not None and not (observable(t, keys)[0] == 'OK' and w(observable(t, keys))):
        return False
    return observable(o, keys) == observable(t, keys)
