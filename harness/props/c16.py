"""C16 — time constraints accept exactly their documented window.
Theorems: Props/C16.lean. Tie: CHECK_TIMESTAMP(_VERIFY) / CHECK_EPOCH(_VERIFY) and the three
timestamp lock builders on an exhaustive +-2 grid around every boundary x constraint encodings
of 1..9 bytes x thresholds, with a pinned *fractional* clock; each case is judged on the
implementation alone by the documented formula, and compared with the model."""
from __future__ import annotations
from ..core import Result, Ctx, DriverCrash, known_ids
from .. import vmrun, impl
from ..gen import programs as G, values as V
from . import c06

RULE = ("grid: constraint value c in boundary set x encodings (minimal, zero-padded to 1..9 bytes, high-bit-leading) x t in c+-2 x now such that "
        "t-now straddles the threshold (+-2) x thresholds {-1,0,1,60,malformed}; plain and _VERIFY forms; epoch analogue; builder locks after / "
        "before / between with t around ts (and around begin/end); random 63-bit values; non-trivial = all (each executes the instruction); "
        "distinct = distinct (instruction/lock, c bytes, t, now, thr)")


def op(n): return bytes([G.names()[n]])


def enc_variants(c: int):
    m = c.to_bytes(max(1, (c.bit_length() + 7) // 8), 'big')
    out = {m}
    for ln in range(len(m), 10):
        out.add(bytes(ln - len(m)) + m)
    return sorted(out)


def expect_ts(t, now, thr, c):
    return t >= c and (thr <= 0 or t - now < thr)


def global_threshold_history(F, res=None):
    """the interpreter-wide thresholds (functions.flags['ts_threshold' / 'epoch_threshold'], the documented configuration knob)
    govern every later run that does not override them - also when other scripts ran before the operator changed them"""
    saved = dict(F.flags)
    hist_bad = []
    try:
        with vmrun.Env(vmrun.Cfg(now=vmrun.NOW)) as env:
            now = vmrun.NOW
            def one(t, c, kind):
                cache = {'timestamp': t} if kind == 'ts' else {}
                script = G.push(c.to_bytes(5, 'big')) + op('CHECK_TIMESTAMP' if kind == 'ts' else 'CHECK_EPOCH')
                try:
                    _, st, _ = F.run_script(script, cache)
                    return st.list()[-1] == b'\xff'
                except BaseException as e:
                    return 'RAISED:' + type(e).__name__
            one(now, now, 'ts'); one(now, now, 'ep')                      # ordinary runs first
            for thr in (0, 5, 60, 3600, 1):
                F.flags['ts_threshold'] = thr; F.flags['epoch_threshold'] = thr
                for dt in (0, 1, 4, 5, 6, 59, 60, 61, 3599, 3600, 3601):
                    if res is not None: res.note_case(('global-threshold', thr, dt))
                    got = one(now + dt, now, 'ts'); want = expect_ts(now + dt, now, thr, now)
                    if got != want: hist_bad.append(('CHECK_TIMESTAMP', thr, dt, want, got))
                    got = one(0, now + dt, 'ep'); want = dt < thr
                    if got != want: hist_bad.append(('CHECK_EPOCH', thr, dt, want, got))
    finally:
        F.flags.clear(); F.flags.update(saved)
    return hist_bad


def run(ctx: Ctx) -> Result:
    res = Result(rule=RULE)
    known = known_ids('C16')
    rng = ctx.sub_rng('c16')
    F = impl.functions(); T = impl.tools()
    cases = []     # (kind, cfg, cache, script, expected)   expected: 'T','F','ERR','OK' (verify passes)
    cvals = [0, 1, 127, 128, 255, 256, 32767, 32768, 65535, 2**31 - 1, 2**31, 2**32 - 1, 2**32, 2**63 - 1, 2**63, 2**64 - 1, vmrun.NOW]
    cvals += [rng.getrandbits(63) for _ in range(ctx.n(6, 60))]
    thrs = [-1, 0, 1, 60]
    for c in cvals:
        encs = enc_variants(c)
        if ctx.tier == 'quick':
            encs = [encs[0], encs[-1]] + ([rng.choice(encs)] if len(encs) > 2 else [])
        for e in encs:
            for dt in (-2, -1, 0, 1, 2):
                t = c + dt
                if t < 0: continue
                for thr in thrs:
                    for dn in (-2, -1, 0, 1, 2):
                        now = t - thr - dn          # t - now = thr + dn
                        if now < 0: continue
                        if now >= 2 ** 51: now = vmrun.NOW      # a float clock cannot represent larger values exactly
                        cfg = vmrun.Cfg(now=now, ts=thr)
                        cache = {'timestamp': t}
                        exp = expect_ts(t, now, thr, c)
                        cases.append(('CHECK_TIMESTAMP', cfg, cache, G.push(e) + op('CHECK_TIMESTAMP'), 'T' if exp else 'F', (c, t, now, thr)))
                        cases.append(('CHECK_TIMESTAMP_VERIFY', cfg, cache, G.push(e) + op('CHECK_TIMESTAMP_VERIFY'), 'OK' if exp else 'ERR', (c, t, now, thr)))
            # epoch: c - now < thr
            for thr in (0, 1, 60):
                for dn in (-2, -1, 0, 1, 2):
                    now = c - thr - dn
                    if now < 0: continue
                    if now >= 2 ** 51: now = vmrun.NOW
                    cfg = vmrun.Cfg(now=now, epoch=thr)
                    exp = c - now < thr
                    cases.append(('CHECK_EPOCH', cfg, {}, G.push(e) + op('CHECK_EPOCH'), 'T' if exp else 'F', (c, None, now, thr)))
                    cases.append(('CHECK_EPOCH_VERIFY', cfg, {}, G.push(e) + op('CHECK_EPOCH_VERIFY'), 'OK' if exp else 'ERR', (c, None, now, thr)))
                    # the epoch check reads the verifier's clock, never the execution timestamp the embedder supplied
                    if dn in (-1, 1):
                        for tstamp in (c, max(0, now - 1000), now + 1000, 0):
                            cases.append(('CHECK_EPOCH', cfg, {'timestamp': tstamp}, G.push(e) + op('CHECK_EPOCH'), 'T' if exp else 'F', (c, tstamp, now, thr)))
    # malformed inputs: never true
    for thr in ('x',):
        cfg = vmrun.Cfg(ts=thr, epoch=thr)
        cases.append(('CHECK_TIMESTAMP', cfg, {'timestamp': vmrun.NOW}, G.push(b'\x01') + op('CHECK_TIMESTAMP'), 'ERR', None))
        cases.append(('CHECK_EPOCH', cfg, {}, G.push(b'\x01') + op('CHECK_EPOCH'), 'ERR', None))
    cases.append(('CHECK_EPOCH', vmrun.Cfg(epoch=-1), {}, G.push(b'\x01') + op('CHECK_EPOCH'), 'ERR', None))
    cases.append(('CHECK_TIMESTAMP', vmrun.Cfg(), {'timestamp': vmrun.NOW}, op('PUSH1') + b'\x00' + op('CHECK_TIMESTAMP'), 'ERR', None))
    cases.append(('CHECK_TIMESTAMP', vmrun.Cfg(), {'timestamp': 'soon'}, G.push(b'\x01') + op('CHECK_TIMESTAMP'), 'ERR', None))
    # builder locks (default threshold 60, flags default -> usable with run_auth_scripts)
    build_lines, build_expect = [], []
    tss = [1, 127, 128, 255, 256, 65535, 65536, 2**31 - 1, vmrun.NOW, vmrun.NOW + 10] + [rng.getrandbits(40) + 3 for _ in range(ctx.n(4, 40))]
    # bounds a double cannot represent: R + 3 with R a multiple of 4096 above 2^53 (the pinned float clock can be set to R exactly)
    big_R = [2**53 + 4096, 2**62 + 4096, 2**63 - 8192] + [((rng.getrandbits(63) | (1 << 54)) >> 12) << 12 for _ in range(ctx.n(3, 20))]
    big_now = {R + 3: R for R in big_R}
    tss += list(big_now)
    for ts in tss:
        for verify in (False, True):
            for name, mk, args in (('ts_after', T.make_timestamp_after_lock, (ts,)), ('ts_before', T.make_timestamp_before_lock, (ts,)),
                                   ('ts_between', T.make_timestamp_between_lock, (ts, ts + 5)), ('ts_between', T.make_timestamp_between_lock, (ts + 5, ts)),
                                   ('ts_between', T.make_timestamp_between_lock, (ts, ts)), ('ts_between', T.make_timestamp_between_lock, (0, ts)),
                                   ('ts_between', T.make_timestamp_between_lock, (0, 0))):
                try:
                    b = mk(*args, verify).bytes.hex()
                except BaseException as e:
                    b = 'ERR:' + type(e).__name__
                build_lines.append('BUILD ' + name + ' ' + ' '.join(map(str, args)) + (' 1' if verify else ' 0'))
                build_expect.append(b)
        for dt in (-2, -1, 0, 1, 2, 4, 5, 6):
            t = ts + dt
            if t < 0: continue
            for now in ((t, t - 59, t - 60, t - 61, t + 100) if ts not in big_now else (big_now[ts],)):
                if now < 0: continue
                cfg = vmrun.Cfg(now=now)
                cache = {'timestamp': t}
                if (t + now + dt) % 4 == 0:
                    # the verifier's clock is the interpreter's: no entry of the embedder's context, whatever it is called, stands in for it
                    cache = {'timestamp': t, 'clock': now - 99999, 'now': 1, 'time': now + 99999, 'epoch': 0}
                slack_ok = t - now < 60
                cases.append(('after_lock', cfg, cache, T.make_timestamp_after_lock(ts).bytes, 'T' if (t >= ts and slack_ok) else 'F', (ts, t, now, 60)))
                cases.append(('before_lock', cfg, cache, T.make_timestamp_before_lock(ts).bytes, 'T' if t < ts else 'F', (ts, t, now, 60)))
                cases.append(('between_lock', cfg, cache, T.make_timestamp_between_lock(ts, ts + 5).bytes,
                              ('T' if t < ts + 5 else 'F') if (t >= ts and slack_ok) else 'ERR', (ts, t, now, 60)))
                cases.append(('before_lock_verify', cfg, cache, T.make_timestamp_before_lock(ts, True).bytes, 'OK' if t < ts else 'ERR', (ts, t, now, 60)))
                # windows of every orientation: begin <= t < end is empty when end <= begin
                for b_, e_ in ((ts + 5, ts), (ts, ts), (ts + 1, ts - 1 if ts > 0 else 0), (ts - 3 if ts >= 3 else 0, ts + 2), (0, ts), (0, ts + 2), (1, ts + 1)):
                    try: lk = T.make_timestamp_between_lock(b_, e_).bytes
                    except BaseException: continue
                    cases.append(('between_lock', cfg, cache, lk, ('T' if t < e_ else 'F') if (t >= b_ and slack_ok) else 'ERR', (b_, t, now, 60)))
    # the execution timestamp defaults to the clock of THAT run: an earlier run without a supplied timestamp (same context dict, or none
    # at all) does not fix it for later runs
    def clock_history():
        F = vmrun.impl.functions()
        T0 = vmrun.NOW
        la = T.make_timestamp_after_lock(T0 + 500).bytes; lb = T.make_timestamp_between_lock(T0 - 5, T0 + 500).bytes
        for how in ('no context at all', 'the same context dict', 'the same context dict holding a sigfield'):
            d = {'sigfield1': b'x'} if 'sigfield' in how else {}
            got = []
            for now_ in (T0, T0 + 1000, T0 + 2000):
                with vmrun.Env(vmrun.Cfg(now=now_)) as env:
                    for lk in (la, lb):
                        try: got.append(F.run_auth_scripts([lk]) if how == 'no context at all' else F.run_auth_scripts([lk], d))
                        except BaseException as e: got.append('RAISED:' + type(e).__name__)
            res.note_case(('clock-history', how))
            want = [False, True, True, False, True, False]
            if got != want and len(res.violations) < 10:
                res.violations.append({'input': {'what': f'after-lock(T0+500) and between-lock(T0-5, T0+500) validated with no timestamp supplied at clock T0, T0+1000, T0+2000, {how}', 'script': la.hex(), 'scripts': [la.hex(), lb.hex()], 'cfg': vmrun.Cfg(now=T0).line(), 'cache': '-'},
                                       'expected': str(want), 'observed': str(got) + f' (context afterwards: {sorted(map(str, d))})', 'how_to_run': './check C16 --tier quick'})
    vmrun.in_big_thread(clock_history)
    # the same checks inside a called function, after a call has returned, and inside an IF body: the verifier's clock and
    # thresholds are the run's, wherever the instruction sits (every 7th case, all kinds)
    def deff(h, b): return op('DEF') + bytes([h]) + len(b).to_bytes(2, 'big') + b
    nested = []
    tagmap = {}
    for j, (kind, cfg, cache, script, exp, meta) in enumerate(cases):
        if j % 7: continue
        nested.append((kind, cfg, cache, deff(0, script) + op('CALL') + b'\x00', exp, meta)); tagmap[nested[-1][3]] = ' [inside def/call]'
        nested.append((kind, cfg, cache, deff(0, op('TRUE') + op('POP0')) + op('CALL') + b'\x00' + script, exp, meta)); tagmap[nested[-1][3]] = ' [after a call returned]'
        nested.append((kind, cfg, cache, op('TRUE') + op('IF') + len(script).to_bytes(2, 'big') + script, exp, meta)); tagmap[nested[-1][3]] = ' [inside IF]'
        nested.append((kind, cfg, cache, op('TRUE') + op('LOOP') + b'\x00\x02' + op('POP0') + op('FALSE') + op('POP0') + script, exp, meta)); tagmap[nested[-1][3]] = ' [after a loop]'
    cases.extend(nested)
    # run on the implementation and judge by the documented formula
    outs = []
    def work():
        for kind, cfg, cache, script, exp, meta in cases:
            outs.append(vmrun.run_impl(cfg, cache, script))
    vmrun.in_big_thread(work)
    k1 = 0
    for (kind, cfg, cache, script, exp, meta), o in zip(cases, outs):
        res.note_case((kind, script, cfg.now, cfg.ts, cfg.epoch, cache.get('timestamp')))
        f = vmrun.fields(o)
        st = f['status']
        if st == 'OK':
            top = f['stack'].split(',')[-1] if f['stack'] != '-' else None
            got = 'OK' if exp in ('OK', 'ERR') and kind.endswith(('VERIFY', 'verify')) else ('T' if top == 'ff' else ('F' if top == '00' else 'other:' + str(top)))
        else:
            got = 'ERR'
        if got != exp:
            c_, t_, now_, thr_ = meta if meta else (None, None, None, None)
            is_k1 = kind.startswith(('before_lock', 'between_lock')) and t_ is not None and thr_ > 0 and t_ - now_ >= thr_
            if kind.startswith('between_lock') and is_k1:
                is_k1 = False        # between: the first clause already rejects a far-future t (expected ERR) - not K1
            if is_k1:
                k1 += 1
                continue
            if len(res.violations) < 10:
                res.violations.append({'input': {'what': kind + tagmap.get(script, ''), 'script': script.hex(), 'cfg': cfg.line(), 'cache': vmrun.cache_str(cache, False),
                                                 'c_or_ts': c_, 't': t_, 'now': now_, 'threshold': thr_},
                                       'expected': exp, 'observed': got + ' (' + o[:100] + ')', 'how_to_run': './check C16 --replay <this file>'})
    if k1:
        if 'K1' in known:
            res.known.append(('K1', f'make_timestamp_before_lock accepts t >= ts when t - now >= ts_threshold > 0 ({k1} grid points, e.g. t=now+61, ts=now+10)'))
        else:
            res.violations.append({'finding': 'K1', 'input': {'what': 'before_lock', 't': 'now+61', 'ts': 'now+10', 'threshold': 60}, 'expected': 'F', 'observed': 'T',
                                   'how_to_run': 'run make_timestamp_before_lock(now+10) with cache timestamp now+61'})
    # model vs implementation
    if ctx.driver.available:
        try:
            replies = ctx.driver.run([vmrun.case_line('RUN', cfg, cache, [script]) for kind, cfg, cache, script, exp, meta in cases] + build_lines)
            for (kind, cfg, cache, script, exp, meta), r, o in zip(cases, replies, outs):
                ok, soft, why = vmrun.compare_run(r, o)
                res.soft_mismatches += soft
                if not ok and len(res.disagreements) < 30:
                    res.disagreements.append({'what': kind, 'script': script.hex(), 'cfg': cfg.line(), 'why': why, 'model': r[:160], 'impl': o[:160]})
            for l, r, e in zip(build_lines, replies[len(cases):], build_expect):
                res.note_case(l)
                if r != e and len(res.disagreements) < 30:
                    res.disagreements.append({'builder': l, 'model': r, 'impl': e})
        except DriverCrash as e:
            res.disagreements.append({'driver': str(e)[:400]})
    else:
        res.disagreements.append({'driver': 'not built'})
    res.sample({'what': cases[0][0], 'script': cases[0][3].hex(), 'cfg': cases[0][1].line(), 'expected': cases[0][4], 'impl': outs[0][:80]})
    res.sample({'what': cases[-1][0], 'script': cases[-1][3].hex(), 'cfg': cases[-1][1].line(), 'expected': cases[-1][4], 'impl': outs[-1][:80]})
    kinds = {}
    for c in cases: kinds[c[0]] = kinds.get(c[0], 0) + 1
    res.stats['cases_per_kind'] = kinds
    res.stats['K1_grid_points'] = k1
    res.stats['search'] = 'every grid point is judged on the implementation alone by the documented formula'
    hist_bad = global_threshold_history(F, res)
    for kind, thr, dt, want, got in hist_bad[:5]:
        res.violations.append({'input': {'history': "two ordinary runs, then functions.flags['ts_threshold'] = functions.flags['epoch_threshold'] = %d, then %s with t (resp. constraint) = now + %d" % (thr, kind, dt)},
                               'expected': str(want), 'observed': str(got), 'how_to_run': './check C16 --replay <this file>'})
    return res


def replay(ctx: Ctx, payload) -> bool:
    inp = payload['input']
    if 'history' in inp:
        bad = global_threshold_history(impl.functions())
        print('global-threshold history:', bad[:3] if bad else 'as expected')
        return not bad
    if 'script' not in inp: return False
    cfg, cache = c06.parse_case(inp['cfg'], inp['cache'])
    o = vmrun.in_big_thread(vmrun.run_impl, cfg, cache, bytes.fromhex(inp['script']))
    print(o[:200], 'expected', payload['expected'])
    f = vmrun.fields(o)
    exp = payload['expected']
    if f['status'] != 'OK': return exp == 'ERR'
    top = f['stack'].split(',')[-1] if f['stack'] != '-' else None
    return exp == 'OK' or (exp == 'T' and top == 'ff') or (exp == 'F' and top == '00')
