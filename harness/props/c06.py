"""C06 — every instruction behaves as the language specification says.
The Lean model is the reference semantics; the tie is the differential run over the whole
opcode table. A disagreement is the failing input (the property is conformance)."""
from __future__ import annotations
from ..core import Result, Ctx, DriverCrash
from .. import vmrun, primval
from ..gen import programs as G, values as V

RULE = ("bytecode programs from the snippet generator over all 92 opcodes + NOP codes (nesting <= 4, well-typed 'clean' half and "
        "perturbed half: wrong counts, truncations, malformed values, tiny limits, all cache value types, plugins / contracts), "
        "preceded by a deterministic per-opcode tour; compared on (OK/ERR, stack, cache, returned, plugin log, random draws, call count); "
        "non-trivial = executed at least one instruction beyond pushes (has a non-push opcode); distinct = distinct (cfg, cache, script)")


def gen_cases(ctx: Ctx, n_random: int, ops=None, tag='c06', weights=None, auth=False):
    """yields (cfg, cache, script)"""
    rng = ctx.sub_rng(tag)
    keys = V.Keys(ctx.sub_rng('keys'))
    cases = []
    # tour: every snippet kind alone, clean, default config, several times
    names = ops if ops is not None else G.ALL_SNIPPETS
    for name in names:
        for rep in range(ctx.n(4, 25)):
            cfg = vmrun.Cfg()
            if name in ('INVOKE', 'CHECK_TRANSFER'):
                cfg.contracts = ((b'A', 'b'), (b'B', 'c'))
            cache = G.random_cache(rng, keys, rich=False, clean=rep % 2 == 0)
            g = G.ProgGen(rng, cfg, cache, keys, ops=[name], clean=rep % 2 == 0)
            cases.append((cfg, cache, g.program(1), g.used))
    for i in range(n_random):
        clean = rng.random() < .5
        cfg = G.random_cfg(rng, small_limits=.05 if clean else .3, contracts=.7 if clean else .4)
        cache = G.random_cache(rng, keys, clean=clean)
        g = G.ProgGen(rng, cfg, cache, keys, ops=ops, clean=clean, weights=weights)
        cases.append((cfg, cache, g.program(), g.used))
    return cases


CF_OPS = ['RECTRY', 'TRUE', 'FALSE', 'PUSH1', 'RETURN', 'RETURN', 'IF', 'IF_ELSE', 'TRY_EXCEPT', 'TRY_EXCEPT', 'LOOP', 'DEF', 'CALL', 'CALL', 'EVAL',
          'VERIFY', 'POP0', 'DEPTH', 'ADD_INTS', 'MERKLEVAL', 'TAPROOT', 'WRITE_CACHE', 'READ_CACHE', 'DUP', 'NOP']


def gen_cf_cases(ctx: Ctx, n: int, tag='cf'):
    """control-flow stream: RETURN at every nesting position of every construct"""
    rng = ctx.sub_rng(tag)
    keys = V.Keys(ctx.sub_rng('keys'))
    cases = []
    for i in range(n):
        cfg = G.random_cfg(rng, small_limits=.15, flags=.25, plugins=.05, contracts=.05)
        cache = G.random_cache(rng, keys, clean=True)
        g = G.ProgGen(rng, cfg, cache, keys, ops=CF_OPS, clean=rng.random() < .6, max_depth=rng.choice([2, 3, 4]))
        cases.append((cfg, cache, g.program(rng.choice([2, 3, 4, 6])), g.used))
    return cases


def run_cases(ctx: Ctx, res: Result, cases, kind='RUN', want=('stack', 'cache', 'ret', 'plog', 'rand', 'cnt')):
    """Runs the implementation and the model on the cases; returns list of (case, model, impl, agree, why)."""
    lines, outs = [], []
    def work():
        for cfg, cache, script, _ in cases:
            if len(lines) % 64 == 0 and ctx.expired():
                break
            lines.append(vmrun.case_line('RUN', cfg, cache, [script]))
            outs.append(vmrun.run_impl(cfg, cache, script))
            if outs[-1].startswith('ABORT'):
                aborts[0] += 1
                if aborts[0] >= (25 if vmrun.RUNAWAYS[0] < vmrun.RUNAWAY_LIMIT else 8):      # runaway implementation: enough evidence, stop burning the budget
                    ctx.stopped_early = True
                    break
    aborts = [0]
    vmrun.in_big_thread(work)
    cases = cases[:len(lines)]
    if not ctx.driver.available:
        res.disagreements.append({'driver': 'not built'})
        return [(c, None, o, None, 'no-driver') for c, o in zip(cases, outs)]
    try:
        replies = ctx.driver.run(lines)
    except DriverCrash as e:
        res.disagreements.append({'driver': str(e)[:600]})
        return [(c, None, o, None, 'driver-crash') for c, o in zip(cases, outs)]
    out = []
    for c, l, r, o in zip(cases, lines, replies, outs):
        ok, soft, why = vmrun.compare_run(r, o, want)
        res.soft_mismatches += soft
        out.append((c, r, o, ok, why))
    return out


def shrink(ctx: Ctx, cfg, cache, script, want):
    """Greedy byte-chunk deletion keeping the disagreement."""
    def disagrees(s):
        try:
            r = ctx.driver.run([vmrun.case_line('RUN', cfg, cache, [s])], procs=1)[0]
        except DriverCrash:
            return True
        o = vmrun.in_big_thread(vmrun.run_impl, cfg, cache, s)
        return not vmrun.compare_run(r, o, want)[0]
    cur = script
    for chunk in (64, 16, 8, 4, 2, 1):
        i = 0
        while i < len(cur) and len(cur) > 1:
            cand = cur[:i] + cur[i + chunk:]
            if cand and disagrees(cand):
                cur = cand
            else:
                i += chunk
    return cur


def run(ctx: Ctx) -> Result:
    res = Result(rule=RULE)
    primval.validate(ctx, res, scale=ctx.n(1, 3))
    cases = gen_cases(ctx, ctx.n(30000, 1000000)) + gen_cf_cases(ctx, ctx.n(15000, 500000))
    results = run_cases(ctx, res, cases)
    status = {}
    opuse = {}
    for (cfg, cache, script, used), r, o, ok, why in results:
        nontrivial = any(k not in ('FALSE', 'TRUE', 'PUSH0', 'PUSH1', 'PUSH2') for k in used)
        res.note_case((cfg.line(), vmrun.cache_str(cache, False), script), nontrivial)
        st = (o.split(' ')[0])
        status[st] = status.get(st, 0) + 1
        for k, v in used.items():
            opuse[k] = opuse.get(k, 0) + v
        if ok is False:
            if len(res.violations) < 3:
                small = shrink(ctx, cfg, cache, script, ('stack', 'cache', 'ret', 'plog', 'rand', 'cnt'))
                m = ctx.driver.run([vmrun.case_line('RUN', cfg, cache, [small])], procs=1)[0]
                i = vmrun.in_big_thread(vmrun.run_impl, cfg, cache, small)
                res.violations.append({
                    'input': {'cfg': cfg.line(), 'cache': vmrun.cache_str(cache, False), 'script': small.hex(), 'original_script': script.hex()},
                    'expected': 'reference semantics (Lean model): ' + m[:600],
                    'observed': 'implementation: ' + i[:600], 'differs_in': why,
                    'how_to_run': './check C06 --replay <this file>'})
            res.disagreements.append({'script': script.hex()[:200], 'why': why})
    res.sample({'script': cases[0][2].hex(), 'impl': results[0][2][:200]})
    res.sample({'script': cases[-1][2].hex(), 'cfg': cases[-1][0].line(), 'impl': results[-1][2][:200]})
    res.stats['outcome_distribution'] = status
    res.stats['snippets_generated_per_opcode'] = opuse
    res.stats['ok_ratio'] = round(status.get('OK', 0) / max(1, len(cases)), 3)
    return res


def replay(ctx: Ctx, payload) -> bool:
    inp = payload['input']
    line = f"RUN {inp['cfg']} {inp['cache']} {inp['script']}"
    cfg, cache = parse_case(inp['cfg'], inp['cache'])
    m = ctx.driver.run([line], procs=1)[0]
    i = vmrun.in_big_thread(vmrun.run_impl, cfg, cache, bytes.fromhex(inp['script']))
    print('model:', m[:400]); print('impl :', i[:400])
    return vmrun.compare_run(m, i)[0]


def parse_case(cfg_line: str, cache_line: str):
    import struct
    f = cfg_line.split(':')
    cfg = vmrun.Cfg(int(f[0]), int(f[1]), int(f[2]), int(f[3]), int(f[4]),
                    'x' if f[5] == 'x' else int(f[5]), 'x' if f[6] == 'x' else int(f[6]), f[7] == '1', f[8] == '1',
                    tuple() if f[9] == '-' else tuple(f[9].split(',')), tuple() if f[10] == '-' else tuple(f[10].split(',')),
                    tuple() if f[11] == '-' else tuple((bytes.fromhex(e.split('=')[0].replace('-', '')), e.split('=')[1]) for e in f[11].split(',')))
    def atom(s):
        t, b = s[0], s[1:]
        if t == 'B': return bytes.fromhex(b)
        if t == 'S': return bytes.fromhex(b).decode()
        if t == 'I': return int(b)
        if t == 'F': return struct.unpack('>d', bytes.fromhex(b))[0]
        if t == 'A': return bytearray(bytes.fromhex(b))
        return None
    cache = {}
    if cache_line != '-':
        for e in cache_line.split(';'):
            k, v = e.split('=', 1)
            key = bytes.fromhex(k[1:]) if k[0] == 'b' else bytes.fromhex(k[1:]).decode()
            cache[key] = [atom(a) for a in v[1:].split(',') if a] if v[0] == 'L' else atom(v)
    return cfg, cache
