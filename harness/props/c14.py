"""C14 — delegation locks honour the certificate key, time window and delegability.
Theorems: Props/C14.lean (certificate serialisation round trip). Tie: lock builder bytes and
Certificate.pack / unpack vs the model's; verdicts for chains of length 1..6 at window boundaries,
all may-delegate patterns, single-field corruptions and cross-chain splices, judged on the
implementation alone by the property's sentence; every list also run on the model."""
from __future__ import annotations
import itertools
from nacl.signing import SigningKey
from ..core import Result, Ctx
from .. import vmrun
from ..builders import Bench, try_build, hexof, replay_scripts
from ..gen import values as V, programs as G

RULE = ("root / delegate seeds x chains of length 1..6 (quick: 1..4) x (begin, end) windows with t in {begin-1, begin, end-1, end} and t - now in {59, 60, 61} x all may-delegate "
        "patterns x flags: accepted exactly when every cert is signed by the previous key (first by the root), t is in every window and within the clock slack, every non-final cert "
        "permits delegation, and the final delegate signs the sigfields; single-field corruptions (delegate key, begin, end, may, cert signature, final signature), cross-chain "
        "splices; Certificate pack / unpack round trip at field boundaries; non-trivial = all; distinct = distinct tuples")


def run(ctx: Ctx) -> Result:
    res = Result(rule=RULE)
    rng = ctx.sub_rng('c14')
    B = Bench(ctx, res); T = B.T
    now = B.now
    # certificate serialisation
    for it in range(ctx.n(200, 3000)):
        dk = V.rbytes(rng, 32); b = rng.choice([0, 1, 127, 128, 255, 256, 65535, 65536, 2**31 - 1, rng.randrange(2**31)]); e = rng.choice([0, 1, 255, 2**24, 2**31 - 1, rng.randrange(2**31)])
        may = rng.random() < .5; sig = V.rbytes(rng, 64)
        res.note_case(('cert', dk, b, e, may, sig))
        c = T.Certificate(dk, b, e, may, sig)
        try:
            packed = c.pack(); back = T.Certificate.unpack(packed)
        except BaseException as ex:
            B.viol('Certificate pack/unpack raised', {'delegate': dk.hex(), 'begin': b, 'end': e, 'may': may}, 'round trip', type(ex).__name__); continue
        if (back.delegate_pubkey, back.begin_ts, back.end_ts, back.can_further_delegate, back.signature) != (dk, b, e, may, sig) or len(packed) != 105:
            B.viol('Certificate round trip', {'delegate': dk.hex(), 'begin': b, 'end': e, 'may': may}, (b, e, may), (back.begin_ts, back.end_ts, back.can_further_delegate, len(packed)))
        B.build(f'BUILD2 cert_pack {dk.hex()} {b} {e} {1 if may else 0} {sig.hex()}', packed.hex())
        if it % 4 == 0:
            # history on one certificate object: after it was serialised (or signed) once, a field is assigned - what is packed next
            # is the certificate as it is NOW
            try:
                _ = c.preimage()
                field_ = ['end_ts', 'begin_ts', 'can_further_delegate', 'delegate_pubkey'][(it // 4) % 4]
                newv = {'end_ts': (e + 7) % 2**31, 'begin_ts': (b + 3) % 2**31, 'can_further_delegate': not may, 'delegate_pubkey': V.rbytes(rng, 32)}[field_]
                setattr(c, field_, newv)
                back2 = T.Certificate.unpack(c.pack())
                if getattr(back2, field_) != newv:
                    B.viol(f'Certificate: {field_} assigned after the certificate had been serialised once; packed again', {'delegate': dk.hex(), 'begin': b, 'end': e, 'may': may, 'assigned': str(newv) if not isinstance(newv, bytes) else newv.hex()}, str(newv) if not isinstance(newv, bytes) else newv.hex(), str(getattr(back2, field_)))
            except BaseException as ex:
                if isinstance(ex, (KeyboardInterrupt, SystemExit)): raise
                B.viol('Certificate re-pack after a field assignment raised', {'delegate': dk.hex(), 'begin': b, 'end': e, 'may': may}, 'round trip', type(ex).__name__)
        B.build(f'BUILD2 cert_unpack {packed.hex()}', f'{dk.hex()} {b} {e} {1 if may else 0} {sig.hex()}')
    maxlen = ctx.n(4, 6)
    for it in range(ctx.n(30, 300)):
        root = V.rbytes(rng, 32); rootk = bytes(SigningKey(root).verify_key)
        flags = rng.choice(['00', '00', '01', '80', '%02x' % (1 << rng.randrange(8))])
        sf = {'sigfield1': V.rbytes(rng, 5), 'sigfield2': V.rbytes(rng, 7)}
        if it % 3 == 1: sf = G.shuffled(rng, {**sf, f'sigfield{rng.randrange(3, 9)}': V.rbytes(rng, 4)})      # a dict's insertion order is not part of the embedder's contract
        if it % 3 == 2: sf = {'sigfield2': sf['sigfield2'], 'sigfield1': sf['sigfield1']}
        lock1 = try_build(T.make_delegate_key_lock, rootk, flags); lockc = try_build(T.make_delegate_key_chain_lock, rootk, flags)
        B.build(f'BUILD2 delegate_key_lock {rootk.hex()} {int(flags, 16)}', hexof(lock1))
        B.build(f'BUILD2 delegate_key_chain_lock {rootk.hex()} {int(flags, 16)}', hexof(lockc))
        if isinstance(lock1, str) or isinstance(lockc, str):
            B.viol('a delegation lock builder raised', {'root': root.hex()}, 'locks', (lock1, lockc)); continue
        n = rng.randrange(1, maxlen + 1)
        seeds = [V.rbytes(rng, 32) for _ in range(n)]; pks = [bytes(SigningKey(s).verify_key) for s in seeds]
        begin, end = now - rng.choice([0, 10, 1000]), now + rng.choice([1, 10, 1000])
        if it % 6 == 5: begin = 0                     # a window that begins at the epoch
        patterns = list(itertools.product([True, False], repeat=n)) if n <= 3 else [tuple(rng.random() < .8 for _ in range(n)) for _ in range(4)] + [tuple([True] * n)]
        for mays in patterns:
            signers = [root] + seeds[:-1]
            certs = [T.make_delegate_key_cert(signers[i], pks[i], begin, end, mays[i]) for i in range(n)]
            res.note_case((root, tuple(seeds), begin, end, mays, flags))
            wit = T.make_delegate_key_chain_witness(seeds[-1], list(reversed(certs)), sf, flags)
            inp = {'root_seed': root.hex(), 'chain_length': n, 'begin': begin, 'end': end, 'may_delegate': list(mays), 'flags': flags}
            for t, nw in ((begin - 1, now), (begin, now), (end - 1, now), (end, now), (now, now), (now + 59, now) if end > now + 59 else (now, now), (end - 1, end - 1 - 60), (end - 1, end - 1 - 61), (end - 1, end - 1 - 59)):
                if nw < 0: continue
                cache = {**dict(reversed(list(sf.items()))), 'timestamp': t}       # the verifier's dict need not have the signer's insertion order
                want = begin <= t < end and t - nw < 60 and all(mays[:-1])
                ok, v = B.auth([wit.bytes, lockc.bytes], cache, now=nw)
                if ok != want:
                    B.viol(f'chain lock, chain of {n} (t - begin = {t - begin}, t - end = {t - end}, t - now = {t - nw})', {**inp, 't': t, 'now': nw, 'scripts': [wit.bytes.hex(), lockc.bytes.hex()], 'cache': vmrun.cache_str(cache, False)}, want, v)
                if n == 1:
                    w1 = T.make_delegate_key_witness(seeds[0], certs[0], sf, flags)
                    want1 = begin <= t < end and t - nw < 60
                    ok, v = B.auth([w1.bytes, lock1.bytes], cache, now=nw)
                    if ok != want1:
                        B.viol(f'single delegate lock (t - begin = {t - begin}, t - end = {t - end}, t - now = {t - nw})', {**inp, 't': t, 'now': nw, 'scripts': [w1.bytes.hex(), lock1.bytes.hex()], 'cache': vmrun.cache_str(cache, False)}, want1, v)
        # corruptions of an otherwise valid chain
        mays = tuple([True] * n)
        signers = [root] + seeds[:-1]
        certs = [T.make_delegate_key_cert(signers[i], pks[i], begin, end, True) for i in range(n)]
        cache = {**sf, 'timestamp': now}
        def chain_ok(cs, final_seed, what, fields=sf, want=False):
            w = T.make_delegate_key_chain_witness(final_seed, list(reversed(cs)), fields, flags)
            ok, v = B.auth([w.bytes, lockc.bytes], cache)
            if ok != want: B.viol(what, {'root_seed': root.hex(), 'chain_length': n, 'scripts': [w.bytes.hex(), lockc.bytes.hex()], 'cache': vmrun.cache_str(cache, False)}, want, v)
        chain_ok(certs, seeds[-1], 'valid chain', want=True)
        i = rng.randrange(n)
        def mutated(i, **kw):
            c = certs[i]; d = dict(delegate_pubkey=c.delegate_pubkey, begin_ts=c.begin_ts, end_ts=c.end_ts, can_further_delegate=c.can_further_delegate, signature=c.signature); d.update(kw)
            cs = list(certs); cs[i] = T.Certificate(**d); return cs
        chain_ok(mutated(i, delegate_pubkey=bytes(SigningKey(V.rbytes(rng, 32)).verify_key)), seeds[-1], f'cert {i}: delegate key replaced (signature not re-made)')
        chain_ok(mutated(i, begin_ts=certs[i].begin_ts - 1 if certs[i].begin_ts > 0 else 1), seeds[-1], f'cert {i}: begin changed (signature not re-made)')
        chain_ok(mutated(i, end_ts=certs[i].end_ts + 1), seeds[-1], f'cert {i}: end changed (signature not re-made)')
        if n > 1: chain_ok(mutated(0, can_further_delegate=False), seeds[-1], 'cert 0: may-delegate cleared (signature not re-made)')
        sg = bytearray(certs[i].signature); sg[rng.randrange(64)] ^= 1 << rng.randrange(8)
        chain_ok(mutated(i, signature=bytes(sg)), seeds[-1], f'cert {i}: signature bit flipped')
        chain_ok(certs, V.rbytes(rng, 32), 'final signature by a key that is not the last delegate')
        chain_ok(certs, seeds[-1], 'final signature over different sigfields', fields={**sf, 'sigfield1': b'other'}) if False else None
        other_root = V.rbytes(rng, 32)
        foreign = [T.make_delegate_key_cert(([other_root] + seeds[:-1])[j], pks[j], begin, end, True) for j in range(n)]
        chain_ok(foreign, seeds[-1], 'chain rooted in a different root key')
        if n >= 2:
            chain_ok(certs[:1] + [T.make_delegate_key_cert(other_root, pks[1], begin, end, True)] + certs[2:], seeds[-1], 'splice: cert 1 issued by an unrelated key')
            chain_ok(certs[1:], seeds[-1], 'chain with its first cert removed')
        # every certificate has its own window: one link outside its window (the others current) must sink the chain,
        # wherever in the chain it is
        if n >= 2:
            for j in range(n):
                for wb, we, what in ((now - 1000, now, 'expired exactly now (end == t)'), (now + 1, now + 1000, 'not yet valid'), (now - 1000, now - 1, 'expired')):
                    cs = [T.make_delegate_key_cert(signers[q], pks[q], (wb if q == j else begin), (we if q == j else end), True) for q in range(n)]
                    w = T.make_delegate_key_chain_witness(seeds[-1], list(reversed(cs)), sf, flags)
                    ok, v = B.auth([w.bytes, lockc.bytes], cache)
                    res.note_case((root, tuple(seeds), 'window-of-link', j, what))
                    if ok: B.viol(f'chain of {n}: certificate {j} is {what}, all others are current', {'root_seed': root.hex(), 'chain_length': n, 'link': j, 'scripts': [w.bytes.hex(), lockc.bytes.hex()], 'cache': vmrun.cache_str(cache, False)}, False, v)
        # "exactly a (certificate, signature) pair": a certificate blob with bytes appended (the locks split it at fixed offsets and
        # never look at its length) is not the certificate the root signed
        wg_ = T.make_delegate_key_chain_witness(seeds[-1], list(reversed(certs)), sf, flags).bytes
        for j, c_ in enumerate(certs):
            pk_ = c_.pack()
            for extra in (b'\x00', b'\x01', b'\xff\xff', bytes(8)):
                if G.push(pk_) not in wg_: continue
                wl = wg_.replace(G.push(pk_), G.push(pk_ + extra))
                res.note_case((root, tuple(seeds), 'cert-lengthened', j, extra))
                ok, v = B.auth([wl, lockc.bytes], cache)
                if ok: B.viol(f'chain lock accepts a chain whose certificate {j} has {len(extra)} byte(s) appended', {'root_seed': root.hex(), 'chain_length': n, 'scripts': [wl.hex(), lockc.bytes.hex()], 'cache': vmrun.cache_str(cache, False)}, False, v)
                if n == 1:
                    w1b = T.make_delegate_key_witness(seeds[0], certs[0], sf, flags).bytes
                    if G.push(pk_) in w1b:
                        w1l = w1b.replace(G.push(pk_), G.push(pk_ + extra))
                        ok, v = B.auth([w1l, lock1.bytes], cache)
                        if ok: B.viol(f'delegate-key lock accepts a certificate with {len(extra)} byte(s) appended', {'root_seed': root.hex(), 'scripts': [w1l.hex(), lock1.bytes.hex()], 'cache': vmrun.cache_str(cache, False)}, False, v)
        # the verifier's slack threshold passed for this run governs the checks inside the chain lock's recursive function like
        # it governs the single lock's (accept iff in window and (threshold <= 0 or t - now < threshold))
        wgood_ = T.make_delegate_key_chain_witness(seeds[-1], list(reversed(certs)), sf, flags)
        w1_ = T.make_delegate_key_witness(seeds[0], certs[0], sf, flags) if n == 1 else None
        for thr_, lead in ((10, 30), (10, 5), (600, 300), (600, 700), (0, 100000), (60, 30), (60, 100), (3600, 59)):
            t_ = min(now, end - 1); now_ = t_ - lead
            if now_ < 0 or not begin <= t_ < end: continue
            cfg2 = vmrun.Cfg(now=now_, ts=thr_); cache2 = {**sf, 'timestamp': t_}
            want2 = thr_ <= 0 or lead < thr_
            for what_, w_, l_ in (('chain lock', wgood_, lockc), ('single delegate lock', w1_, lock1)):
                if w_ is None: continue
                o2 = vmrun.run_impl(cfg2, cache2, w_.bytes + l_.bytes)
                f2 = vmrun.fields(o2); got2 = f2['status'] == 'OK' and f2.get('stack') == 'ff'
                res.note_case(('per-run-slack', what_, thr_, lead, root, n))
                if got2 != want2:
                    B.viol(f'{what_} (chain of {n}) as one script, ts_threshold = {thr_} passed for this run, t - now = {lead}',
                           {'root_seed': root.hex(), 'cfg': cfg2.line(), 'cache': vmrun.cache_str(cache2, False), 'scripts': [w_.bytes.hex(), l_.bytes.hex()]}, want2, o2[:80])
        # signature extensions run before the final signature check wherever the lock makes it (the chain lock checks inside a
        # function, inside an else branch): a logging extension is compared with the model's log, a raising one must sink the run
        for sx in (('l7',), ('r',)):
            cfgx = vmrun.Cfg(now=now); cfgx.sigexts = sx
            for what_, w_, l_ in (('chain lock', wgood_, lockc), ('single delegate lock', w1_, lock1)):
                if w_ is None: continue
                ox = vmrun.auth_impl(cfgx, cache, [w_.bytes, l_.bytes])
                if len(B.records) < 6000: B.records.append((cfgx, dict(cache), [w_.bytes, l_.bytes], ox))
                res.note_case(('sigext', what_, sx, root, n))
                wantx = sx == ('l7',)
                if (ox.split(' ')[0] == 'T') != wantx:
                    B.viol(f'{what_} (chain of {n}) with a signature extension installed that ' + ('only logs' if wantx else 'raises'),
                           {'root_seed': root.hex(), 'cfg': cfgx.line(), 'cache': vmrun.cache_str(cache, False), 'scripts': [w_.bytes.hex(), l_.bytes.hex()]}, wantx, ox[:80])
        # a verifier that supplies no timestamp gets the clock of THAT validation - also when it reuses its context dict: a certificate
        # accepted inside its window is refused once the clock has passed the window's end
        if it % 3 == 0:
            try:
                with B.pinned():
                    cwin = T.make_delegate_key_cert(root, pks[0], now - 100, now + 2, True)
                    wwin = T.make_delegate_key_witness(seeds[0], cwin, dict(sf), flags)
                ctxd = dict(sf); hist = []
                for now_ in (now, now + 1, now + 2, now + 10):
                    with vmrun.Env(vmrun.Cfg(now=now_)) as env:
                        try: hist.append(env.F.run_auth_scripts([wwin.bytes, lock1.bytes], ctxd))
                        except BaseException as e: hist.append('RAISED:' + type(e).__name__)
                res.note_case(('clock-history', root, flags))
                if hist != [True, True, False, False]:
                    B.viol('single delegate lock, window [now-100, now+2), validated with no timestamp supplied at clock now, now+1, now+2, now+10 with one context dict', {'root_seed': root.hex(), 'scripts': [wwin.bytes.hex(), lock1.bytes.hex()], 'cache': vmrun.cache_str(sf, False), 'context_after': sorted(map(str, ctxd))}, [True, True, False, False], hist)
            except BaseException as e:
                if isinstance(e, (KeyboardInterrupt, SystemExit)): raise
                res.notes.append('clock-history probe could not run: ' + type(e).__name__ + ' ' + str(e)[:100])
        # a witness that defines function 0 itself: the lock's own `def 0` must be the one that runs
        squat = T.Script.from_src(rng.choice(['def 0 { pop0 true }', 'def 0 { true }', 'def 0 { pop0 pop0 true }'])).bytes
        ok, v = B.auth([squat, lockc.bytes], cache)
        if ok: B.viol('chain lock opened by a witness that only defines function 0 (no certificate, no signature)', {'root_seed': root.hex(), 'scripts': [squat.hex(), lockc.bytes.hex()], 'cache': vmrun.cache_str(cache, False)}, False, v)
        wgood = T.make_delegate_key_chain_witness(seeds[-1], list(reversed(certs)), sf, flags)
        ok, v = B.auth([squat + wgood.bytes, lockc.bytes], cache)
        if not ok: B.viol('honest chain rejected because the witness also defines function 0 (the lock redefines it)', {'root_seed': root.hex(), 'chain_length': n, 'scripts': [(squat + wgood.bytes).hex(), lockc.bytes.hex()], 'cache': vmrun.cache_str(cache, False)}, True, v)
        wforeign = T.make_delegate_key_chain_witness(seeds[-1], list(reversed(foreign)), sf, flags)
        ok, v = B.auth([squat + wforeign.bytes, lockc.bytes], cache)
        if ok: B.viol('chain rooted in a different root key accepted behind a witness-defined function 0', {'root_seed': root.hex(), 'chain_length': n, 'scripts': [(squat + wforeign.bytes).hex(), lockc.bytes.hex()], 'cache': vmrun.cache_str(cache, False)}, False, v)
        # the final signature may exclude exactly the sigfields the lock's flags allow: a signature made with any other flag bit
        # (which would leave a sigfield unsigned) is refused by both locks
        lf = int(flags, 16)
        for bit in range(8):
            wf = '%02x' % (lf | (1 << bit))
            if int(wf, 16) == lf: continue
            try:
                wbad = T.make_delegate_key_chain_witness(seeds[-1], list(reversed(certs)), sf, wf)
                w1bad = T.make_delegate_key_witness(seeds[0], certs[0], sf, wf) if n == 1 else None
            except BaseException: continue
            res.note_case((root, tuple(seeds), 'unpermitted-flag', wf))
            ok, v = B.auth([wbad.bytes, lockc.bytes], cache)
            if ok: B.viol(f'chain lock with flags {flags} accepts a final signature flagged {wf}', {'root_seed': root.hex(), 'chain_length': n, 'scripts': [wbad.bytes.hex(), lockc.bytes.hex()], 'cache': vmrun.cache_str(cache, False)}, False, v)
            if w1bad is not None:
                ok, v = B.auth([w1bad.bytes, lock1.bytes], cache)
                if ok: B.viol(f'delegate-key lock with flags {flags} accepts a final signature flagged {wf}', {'root_seed': root.hex(), 'scripts': [w1bad.bytes.hex(), lock1.bytes.hex()], 'cache': vmrun.cache_str(cache, False)}, False, v)
        # a terminal certificate in the middle, with hand-made continuation markers of several bytes: AND zero-pads, so a marker
        # cannot make a cleared may-delegate byte true
        if n >= 2:
            term_ = [T.make_delegate_key_cert(([root] + seeds[:-1])[j], pks[j], begin, end, j != 0) for j in range(n)]
            fsig = T.make_single_sig_witness(seeds[-1], sf, flags).bytes
            for marker in (b'\x00\xff', b'\xff\xff', b'\x01\x01', b'\x00\x01', b'\xff', b'\x00\x00\x01'):
                wb = fsig + bytes([0])                                   # push sig, false
                packed = [c.pack() for c in reversed(term_)]
                for j, pc in enumerate(packed):
                    wb += G.push(pc)
                    if j < len(packed) - 1: wb += G.push(marker)
                res.note_case((root, tuple(seeds), 'multi-byte-marker', marker))
                ok, v = B.auth([wb, lockc.bytes], cache)
                if ok: B.viol(f'chain with a non-delegable first certificate accepted with continuation marker {marker.hex()}', {'root_seed': root.hex(), 'chain_length': n, 'scripts': [wb.hex(), lockc.bytes.hex()], 'cache': vmrun.cache_str(cache, False)}, False, v)
        # terminal cert holder tries to delegate further
        if n >= 2:
            term = [T.make_delegate_key_cert(([root] + seeds[:-1])[j], pks[j], begin, end, j != 0) for j in range(n)]
            chain_ok(term, seeds[-1], 'holder of a non-delegable first cert delegates further')
    B.finish()
    res.sample({'delegate_key_lock': B.builds[-2][1][:160]})
    res.stats['search'] = 'each (chain, time) judged on the implementation alone by the property sentence'
    return res


def replay(ctx: Ctx, payload) -> bool:
    return replay_scripts(payload)
