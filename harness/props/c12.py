"""C12 — decompiling always terminates and round-trips compiler output.
Theorems: Props/C12.lean (the model's decoder is total and strictly progresses; decode / encode
inverse on every byte string that decodes; table obligations: decompiler operand classes =
model layout). Tie: decompile_script under a watchdog and a recording Tape (no negative reads)
on all short byte strings and random / mutated strings up to 70 KiB, its listing vs the model's
`listing`; compile(decompile(b)) == b for compiler outputs, builder outputs, repository vectors."""
from __future__ import annotations
import hashlib, multiprocessing as mp, os, signal, sys
from ..core import Result, Ctx, DriverCrash, REPO
from .. import impl
from ..gen import asmgen, values as V, programs as G

RULE = ("(a) every byte string of length <= 2 and a sample (quick) / all (thorough) of length 3, plus random, opcode-biased and mutated strings up to 70 KiB: "
        "decompile_script must return or raise within the watchdog and never read backwards; listing compared with the model's; (b) compile(decompile(b)) == b "
        "for compiled C11 programs (operand sizes on both sides of 2^7, 2^8, 2^15, 2^16), all lock / witness builder outputs, repository vectors; "
        "non-trivial = all; distinct = distinct byte string")

WATCHDOG_S = 4


def _init():
    sys.path.insert(0, REPO)
    import resource
    try:
        resource.setrlimit(resource.RLIMIT_AS, (3 << 30, 3 << 30))      # a runaway listing must not take the machine down
    except Exception:
        pass
    import tapescript.parsing as P, tapescript.classes as C
    back = [0]
    class RecTape(C.Tape):
        def read(self, size, move_pointer=True):
            if size < 0: back[0] += 1
            before = self.pointer
            r = super().read(size, move_pointer)
            if self.pointer < before: back[0] += 1
            return r
    P.Tape = RecTape
    globals()['_P'] = P; globals()['_back'] = back


def _dec(b: bytes):
    """returns (status, payload): ('OK', listing) | ('ERR', class) | ('HANG', None) | ('BACK', n)"""
    P, back = _P, _back
    back[0] = 0
    def onalarm(sig, frm): raise TimeoutError()
    signal.signal(signal.SIGALRM, onalarm); signal.alarm(WATCHDOG_S)
    try:
        lst = P.decompile_script(b)
        st = ('OK', lst)
    except (TimeoutError, MemoryError):
        st = ('HANG', None)
    except BaseException as e:
        st = ('ERR', type(e).__name__)
    finally:
        signal.alarm(0)
    if back[0]: return ('BACK', back[0])
    return st


def _block(args):
    """digest over a block of the exhaustive enumeration: strings of length ln with index in [start, start+count)"""
    ln, start, count = args
    h = hashlib.sha256(); bad = []
    for i in range(start, start + count):
        b = i.to_bytes(ln, 'big')
        st, pl = _dec(b)
        if st in ('HANG', 'BACK'): bad.append((b.hex(), st))
        h.update((('OK ' + '|'.join(pl)) if st == 'OK' else 'ERR').encode() + b'\n')
    return ln, start, count, h.hexdigest(), bad


def _many(bs):
    return [_dec(b) for b in bs]


def _rt(bs):
    """round trip under the watchdog: ('OK', None) | (problem, detail)"""
    out = []
    for b in bs:
        st, pl = _dec(b)
        if st != 'OK':
            out.append(('decompile ' + ('did not return' if st == 'HANG' else 'read backwards' if st == 'BACK' else 'raised ' + str(pl)), None)); continue
        try: back = _P.compile_script('\n'.join(pl))
        except BaseException as e: back = 'ERR:' + type(e).__name__ + ':' + str(e)[:100]
        if back != b: out.append(('compile(decompile(b)) != b', back.hex()[:300] if isinstance(back, bytes) else back))
        else: out.append(('OK', None))
    return out


def G_names():
    from ..gen import programs as G
    return G.names()


def builder_outputs(rng):
    T = impl.tools()
    from nacl.signing import SigningKey
    sk = SigningKey(V.rbytes(rng, 32)); pk = bytes(sk.verify_key); sk2 = SigningKey(V.rbytes(rng, 32)); pk2 = bytes(sk2.verify_key)
    sf = {'sigfield1': b'hello', 'sigfield2': b'world'}
    out = []
    def add(name, fn):
        try:
            r = fn()
            for s in (r if isinstance(r, (tuple, list)) else [r]):
                if hasattr(s, 'bytes'): out.append((name, s.bytes))
                elif isinstance(s, (tuple, list)):
                    for s2 in s:
                        if hasattr(s2, 'bytes'): out.append((name, s2.bytes))
        except BaseException as e:
            out.append((name + ':builder raised ' + type(e).__name__, None))
    committed = T.Script.from_src('push d1 push d2 add d2 push d3 equal')
    add('single_sig_lock', lambda: T.make_single_sig_lock(pk, '01'))
    add('single_sig_lock2', lambda: T.make_single_sig_lock2(pk))
    add('single_sig_witness', lambda: T.make_single_sig_witness(bytes(sk), sf, '01'))
    add('single_sig_witness2', lambda: T.make_single_sig_witness2(bytes(sk), sf))
    add('multisig_lock', lambda: T.make_multisig_lock([pk, pk2], 2, '03'))
    add('scripthash', lambda: [T.make_scripthash_lock(committed), T.make_scripthash_witness(committed)])
    add('ts_locks', lambda: [T.make_timestamp_after_lock(1700000000), T.make_timestamp_before_lock(200, True), T.make_timestamp_between_lock(5, 70000)])
    add('adapter_locks_pub', lambda: T.make_adapter_locks_pub(pk, pk2, '01'))
    add('adapter_lock_pub', lambda: T.make_adapter_lock_pub(pk, pk2))
    add('adapter_decrypt', lambda: T.make_adapter_decrypt(V.rbytes(rng, 32)))
    add('adapter_witness', lambda: T.make_adapter_witness(bytes(sk), pk2, sf))
    add('delegate_lock', lambda: T.make_delegate_key_lock(pk))
    add('delegate_chain_lock', lambda: T.make_delegate_key_chain_lock(pk))
    add('graftroot', lambda: [T.make_graftroot_lock(pk), T.make_graftroot_witness_keyspend(bytes(sk), sf), T.make_graftroot_witness_surrogate(bytes(sk), committed)])
    add('htlc', lambda: [T.make_htlc_sha256_lock(pk, pk2, b'preimage'), T.make_htlc_shake256_lock(pk, pk2, b'preimage'), T.make_htlc_witness(bytes(sk), b'preimage', sf)])
    add('htlc2', lambda: [T.make_htlc2_sha256_lock(pk, pk2, b'preimage'), T.make_htlc2_shake256_lock(pk, pk2, b'preimage'), T.make_htlc2_witness(bytes(sk), b'preimage', sf)])
    add('ptlc', lambda: [T.make_ptlc_lock(pk, pk2), T.make_ptlc_witness(bytes(sk), sf), T.make_ptlc_refund_witness(bytes(sk2), sf)])
    add('taproot', lambda: [T.make_taproot_lock(pk, committed), T.make_taproot_witness_keyspend(bytes(sk), sf, committed), T.make_taproot_witness_scriptspend(pk, committed), T.make_nonnative_taproot_lock(pk, committed)])
    add('graftap', lambda: [T.make_graftap_lock(pk), T.make_graftap_witness_keyspend(bytes(sk), sf), T.make_graftap_witness_scriptspend(bytes(sk), committed)])
    add('merklized', lambda: [T.make_merklized_script_prioritized(['true', 'false', 'push d1'])[0]] + T.make_merklized_script_prioritized(['true', 'false', 'push d1'])[1])
    add('merklized_bal', lambda: [T.make_merklized_script_balanced(['true', 'false', 'push d1'])[0]] + T.make_merklized_script_balanced(['true', 'false', 'push d1'])[1])
    add('scripthash_big', lambda: T.make_scripthash_witness(T.Script('', b'\x00' * 65535)))
    return out


def repo_vectors():
    d = os.path.join(REPO, 'tests', 'vectors')
    out = []
    if os.path.isdir(d):
        for f in sorted(os.listdir(d)):
            if f.endswith('.hex'):
                try: out.append((f, bytes.fromhex(open(os.path.join(d, f)).read().strip())))
                except Exception: pass
    return out


def run(ctx: Ctx) -> Result:
    res = Result(rule=RULE)
    F, P = impl.functions(), impl.parsing()
    rng = ctx.sub_rng('c12')
    def viol(what, b, exp, obs):
        if len(res.violations) < 10:
            res.violations.append({'input': {'what': what, 'bytes': b.hex() if len(b) <= 4000 else b[:64].hex() + f'...({len(b)} bytes; regenerate with how_to_run)', 'length': len(b)},
                                   'expected': exp[:2000], 'observed': obs[:2000], 'how_to_run': './check C12 --replay <this file>'})
    pool = mp.Pool(min(16, os.cpu_count() or 1), initializer=_init)
    try:
        # (a1) exhaustive short strings, compared with the model by per-block digests
        blocks = [(1, 0, 256), (2, 0, 65536)]
        n3 = 256 ** 3
        if ctx.tier == 'thorough':
            blocks += [(3, s, 65536) for s in range(0, n3, 65536)]
        else:
            starts = sorted(set([0, n3 - 65536] + [rng.randrange(0, 256) * 65536 for _ in range(6)] + [c * 65536 for c in (3, 4, 17, 41, 43, 44, 61, 69, 200)]))
            blocks += [(3, s, 65536) for s in starts]
        results = pool.map_async(_block, blocks).get(timeout=3000)
        digests = {}
        for ln, start, count, dg, bad in results:
            res.evaluations += count
            for i in range(0, count, max(1, count // 64)): res.distinct.add((ln, start + i).__hash__().to_bytes(8, 'big', signed=True))
            digests[(ln, start, count)] = dg
            for h, st in bad:
                viol('termination / direction', bytes.fromhex(h), 'returns a listing or raises, reading forwards only', 'never returned within the watchdog' if st == 'HANG' else 'read backwards')
        if ctx.driver.available:
            try:
                lines = [f'LISTBLOCK {ln} {start} {count}' for (ln, start, count) in digests]
                replies = ctx.driver.run(lines, procs=min(16, len(lines)))
                differing = [key for (key, dg), r in zip(digests.items(), replies) if r != dg]
                for key in differing[:3]:
                    # locate the first differing string of the block with one batched driver call
                    ln, start, count = key
                    bs = [i.to_bytes(ln, 'big') for i in range(start, start + count)]
                    theirs = ctx.driver.run(['LIST ' + b.hex() for b in bs])
                    found = None
                    for b, t in zip(bs, theirs):
                        try: mine = 'OK ' + '|'.join(P.decompile_script(b))
                        except BaseException: mine = 'ERR'
                        if mine != t:
                            found = (b, mine, t); break
                    res.disagreements.append({'block': key, 'first_difference': found and {'bytes': found[0].hex(), 'impl': found[1][:200], 'model': found[2][:200]}})
                    if found:
                        # search: is the property itself violated on that string? (round trip of a listing that compiles)
                        try:
                            lst = P.decompile_script(found[0])
                            back = P.compile_script('\n'.join(lst))
                            if back != found[0]:
                                viol('listing does not recompile to the same bytes', found[0], found[0].hex(), back.hex())
                        except BaseException as e:
                            if found[1] != 'ERR':
                                viol('listing does not recompile', found[0], found[0].hex(), 'compile raised ' + type(e).__name__)
                for key in differing[3:]:
                    res.disagreements.append({'block': key})
            except DriverCrash as e:
                res.disagreements.append({'driver': str(e)[:300]})
        else:
            res.disagreements.append({'driver': 'not built'})
        # (a2) random / opcode-biased / mutated strings up to 70 KiB
        g = asmgen.Gen(rng, F)
        strings = []
        ops = list(F.opcodes.keys())
        for _ in range(ctx.n(1500, 30000)):
            r = rng.random()
            if r < .3: b = V.rbytes(rng, rng.choice([4, 8, 33, 200, 1000]))
            elif r < .5: b = bytes(rng.choice(ops) if rng.random() < .7 else rng.getrandbits(8) for _ in range(rng.choice([5, 40, 300])))
            else:
                b = bytearray(g.enc(g.program()))
                for _ in range(rng.choice([0, 1, 1, 2, 5])):
                    if b: b[rng.randrange(len(b))] = rng.choice([0, 0xff, 0x80, 0x7f, rng.getrandbits(8)])
                if rng.random() < .2 and b: b = b[:rng.randrange(len(b))]
                b = bytes(b)
            strings.append(b)
        for size in (0x7fff, 0x8000, 0x8001, 0xfffd, 0xffff):      # PUSH2 sizes around 2^15 / 2^16
            strings.append(bytes([4]) + size.to_bytes(2, 'big') + bytes(size))
            strings.append(bytes([4]) + size.to_bytes(2, 'big') + bytes(10))
            strings.append(bytes([43]) + size.to_bytes(2, 'big') + bytes(size))
            strings.append(bytes(size - 3) + bytes([4]) + size.to_bytes(2, 'big'))
        strings.append(V.rbytes(rng, 70 * 1024)); strings.append(bytes(70 * 1024)); strings.append(bytes([43, 0xff, 0xfc]) * 10 + bytes(70000))
        chunks = [strings[i::32] for i in range(32)]
        outs = pool.map_async(_many, chunks).get(timeout=3000)
        flat = {}
        for ch, oc in zip(chunks, outs):
            for b, o in zip(ch, oc): flat[b] = o
        list_lines, list_expect = [], []
        for b in strings:
            res.note_case(b)
            st, pl = flat[b]
            if st == 'HANG': viol('termination', b, 'returns or raises', f'no result within {WATCHDOG_S}s')
            elif st == 'BACK': viol('direction', b, 'reads forwards only', f'{pl} backward read(s)')
            if len(b) <= 5000:
                list_lines.append('LIST ' + (b.hex() or '-')); list_expect.append(('OK ' + '|'.join(pl)) if st == 'OK' else 'ERR')
        if ctx.driver.available:
            try:
                for l, r, e in zip(list_lines, ctx.driver.run(list_lines), list_expect):
                    if r != e and len(res.disagreements) < 20:
                        res.disagreements.append({'line': l[:200], 'model': r[:300], 'impl': e[:300]})
            except DriverCrash as e:
                res.disagreements.append({'driver': str(e)[:300]})
        # (b) round trip of compiler / builder / vector outputs
        rt = []
        k9 = []
        for i in range(ctx.n(2500, 40000)):
            prog = g.program()
            src = g.source(prog)
            try: b = P.compile_script(src)
            except BaseException: continue
            rt.append(('compiled C11 program', b))
        for ln in (126, 127, 128, 129, 254, 255, 256, 257, 32766, 32767, 32768, 32769, 65534, 65535):
            rt.append((f'push of {ln} bytes', P.compile_script('push x' + 'ab' * ln)))
            if ln < 65000: rt.append((f'if-body of ~{ln} bytes', P.compile_script('true if { push x' + 'cd' * max(1, ln - 4) + ' }')))
        # operands the compiler accepts in a non-minimal spelling: the listing must give the same bytes back
        for src in ('div_int xfff6', 'mod_int xff80', 'div_int xff8000', 'mod_int xffff', 'div_int x0005', 'mod_int x000080', 'div_int x00', 'div_int xff', 'mod_int x80',
                    'def 0 { if { div_int xfff6 } else { mod_int xffff80 } } try { div_int xff7f } except { }'):
            try: rt.append((f'non-minimal operand: {src}', P.compile_script(src)))
            except BaseException: pass
        # empty values: whichever of these spellings the compiler accepts, its output is a well-formed instruction stream
        for src in ('push x', 'push x true false', 'true if { push x } true', 'push ~ { }', 'push ~ { } true', 'push s""', "push s'' dup", 'push1 d0 x', 'push0 x', 'push2 d0 x',
                    'read_cache x', 'write_cache x d0', 'def 0 { push x }', 'rcz x', 'val x', 'set_flag x', 'unset_flag x', 'div_int x', 'mod_int x', 'push1 d0 x true',
                    'if { push x } else { true }', 'try { push x } except { false }', 'loop { push x }', 'read_cache s"" dup', "write_cache s'' d1 true"):
            try: rt.append((f'empty value: {src}', P.compile_script(src)))
            except BaseException: pass
        for name, b in builder_outputs(rng):
            if b is None: res.notes.append(name)
            else: rt.append(('builder ' + name, b))
        for name, b in repo_vectors(): rt.append(('vector ' + name, b))
        # deterministic probe of known finding K9: a DEF inside the hoisted condition of an IF inside a DEF body
        try: rt.append(('K9 probe', P.compile_script('def 0 { if ( def 1 { true } true ) { false } }')))
        except BaseException: pass
        try: rt.append(('K9 probe (macro route)', P.compile_script('!= m [ ] { DEF 1 { OP_TRUE } } DEF 0 { !m [ ] } CALL d0')))
        except BaseException: pass
        # block nesting far deeper than any VM limit: the compiler has no nesting limit, so neither may the decompiler
        N = G_names()
        def nest(depth, kinds):
            b = bytes([N['TRUE']])
            for d in range(depth):
                k = kinds[d % len(kinds)]
                if k == 'IF': b = bytes([N['TRUE'], N['IF']]) + len(b).to_bytes(2, 'big') + b
                elif k == 'ELSE': b = bytes([N['FALSE'], N['IF_ELSE']]) + (1).to_bytes(2, 'big') + bytes([N['FALSE']]) + len(b).to_bytes(2, 'big') + b
                elif k == 'TRY': b = bytes([N['TRY_EXCEPT']]) + len(b).to_bytes(2, 'big') + b + (0).to_bytes(2, 'big')
                elif k == 'EXCEPT': b = bytes([N['TRY_EXCEPT']]) + (1).to_bytes(2, 'big') + bytes([N['FALSE']]) + len(b).to_bytes(2, 'big') + b
                else: b = bytes([N['TRUE'], N['LOOP']]) + len(b).to_bytes(2, 'big') + b
            return b
        for depth in (64, 127, 128, 129, 130, 200):
            for kinds in (['IF'], ['TRY'], ['IF', 'ELSE', 'TRY', 'EXCEPT', 'LOOP']):
                b = nest(depth, kinds)
                if len(b) < 60000: rt.append((f'{depth} nested blocks ({"/".join(kinds)})', b))
        # history: the listing is the caller's own list - whatever the caller does with it, decompiling the same bytes again gives
        # the same listing (in this process, which has decompiled nothing yet)
        for what, b_ in [x for x in rt if len(x[1]) < 400][:ctx.n(60, 400)]:
            try:
                l1 = P.decompile_script(b_); snap_ = list(l1)
                l1.extend(['OP_TRUE', 'OP_FALSE']); l1[:1] = ['# edited']
                l2 = P.decompile_script(b_)
                res.note_case(('decompile-history', b_))
                if list(l2) != snap_:
                    viol(what + ' (listing returned by an earlier call was edited by its caller)', b_, str(snap_)[:200], str(list(l2))[:200])
            except BaseException:
                pass
        chunks = [rt[i::32] for i in range(32)]
        outs = pool.map_async(_rt, [[b for _, b in ch] for ch in chunks]).get(timeout=3000)
        for ch, oc in zip(chunks, outs):
            for (what, b), (st, detail) in zip(ch, oc):
                res.note_case(('rt', b))
                if st != 'OK':
                    if st.startswith('compile(decompile') and 'cannot use OP_DEF within OP_DEF body' in str(detail):
                        k9.append((what, b)); continue
                    viol(what + ' (' + st + ')', b, 'compile(decompile(b)) == b', str(detail))
        from ..core import known_ids
        if k9:
            if 'K9' in known_ids('C12'):
                res.known.append(('K9', f'the compiler emits a DEF directly inside a DEF body (inner DEF written in a hoisted IF condition or brought in by a macro), '
                                        f'whose listing it then rejects ({len(k9)} compiler outputs this run, e.g. {k9[0][1].hex()[:60]})'))
            else:
                viol(k9[0][0] + ' (compile(decompile(b)) != b)', k9[0][1], 'compile(decompile(b)) == b', 'ERR:SyntaxError:cannot use OP_DEF within OP_DEF body')
                res.violations[-1]['finding'] = 'K9'
        res.stats['K9_cases'] = len(k9)
        res.stats['round_trip_cases'] = len(rt); res.stats['random_strings'] = len(strings); res.stats['exhaustive_blocks'] = len(blocks)
    finally:
        pool.terminate()
    res.sample({'bytes': '2b00010130', 'listing': P.decompile_script(bytes.fromhex('2b00010130'))})
    res.stats['search'] = 'each byte string judged on the implementation alone (watchdog, recording Tape, compile(decompile(b)) == b)'
    return res


def replay(ctx: Ctx, payload) -> bool:
    inp = payload['input']
    if '...' in inp['bytes']: return False
    b = bytes.fromhex(inp['bytes'])
    _init()
    st, pl = _dec(b)
    print(st, str(pl)[:300])
    if st in ('HANG', 'BACK'): return False
    if 'compile(decompile' in inp['what'] or inp['what'].startswith(('builder', 'vector', 'compiled', 'push', 'if-body')):
        if st != 'OK': return False
        try: return _P.compile_script('\n'.join(pl)) == b
        except BaseException: return False
    return True
