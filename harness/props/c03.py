"""C03 — multisig passes only with m valid signatures from m different listed keys.
Theorems: Props/C03.lean (greedy matching = injective matching under unique signer). Tie:
OP_CHECK_MULTISIG(_VERIFY) via run_script, make_multisig_lock + run_auth_scripts; each case judged
on the implementation alone by brute-force bipartite matching with PyNaCl verify; model compared."""
from __future__ import annotations
import itertools
from nacl.signing import VerifyKey
from ..core import Result, Ctx, DriverCrash
from .. import vmrun, impl
from ..gen import programs as G, values as V
from . import c06
from .c02 import ref_msg, ref_verify, P, op

RULE = ("n <= 5 distinct keys, m <= n, multisets of m signatures drawn from listed signers / outsiders / exact duplicates / flag-byte variants by the "
        "same key / malformed, in sampled (quick) or all (thorough, n <= 4) orders of keys and signatures; expected verdict = exists an injective "
        "signature->key assignment with every pair valid (brute force, PyNaCl); errors allowed only for malformed items / non-permitted flags; "
        "make_multisig_lock quorum guard over bytes / VerifyKey key lists; non-trivial = all; distinct = distinct (cache, script)")


def matching_exists(valid):   # valid[i][j]: sig i valid under key j
    m = len(valid)
    n = len(valid[0]) if m else 0
    for perm in itertools.permutations(range(n), m):
        if all(valid[i][perm[i]] for i in range(m)):
            return True
    return m == 0


def G_names():
    from ..gen import programs as G
    return G.names()


def run(ctx: Ctx) -> Result:
    res = Result(rule=RULE)
    rng = ctx.sub_rng('c03')
    keys = V.Keys(ctx.sub_rng('keys'), n=7)
    T = impl.tools()
    cfg = vmrun.Cfg()
    cases = []   # (what, cache, script, expect_true: bool|None(error allowed), wellformed)
    pure = []    # inputs of the pure specification SigPure.multisig the theorems are about
    def build(sigs, pks, allowed, m=None, n=None, verify=False):
        name = 'CHECK_MULTISIG_VERIFY' if verify else 'CHECK_MULTISIG'
        return b''.join(P(s) for s in sigs) + b''.join(P(k) for k in pks) + op(name) + bytes([allowed, len(sigs) if m is None else m, len(pks) if n is None else n]) + (op('TRUE') if verify else b'')
    N = ctx.n(1200, 12000)
    for it in range(N):
        cache = {f'sigfield{i}': V.rbytes(rng, rng.choice([1, 4, 20])) for i in range(1, 9) if rng.random() < .5}
        if 'sigfield1' not in cache: cache['sigfield1'] = b'f1'
        n = rng.choice([0, 1, 2, 3, 3, 4, 5]); m = rng.randrange(0, n + 1)
        idx = rng.sample(range(len(keys.pks)), n)
        outsiders = [i for i in range(len(keys.pks)) if i not in idx]
        allowed = rng.choice([0, 1, 1, 0xff, 1 << rng.randrange(8), 0xff ^ (1 << rng.randrange(8)), rng.getrandbits(8), 0x40, 0x80])
        abits = [1 << k for k in range(8) if allowed >> k & 1]
        nbits = [1 << k for k in range(8) if not allowed >> k & 1]
        def sub(): return rng.choice(abits + [allowed & rng.getrandbits(8)]) if abits else 0
        sigs, well = [], True
        for j in range(m):
            c = rng.random()
            fl = rng.choice([0, 0, allowed & 1, sub(), sub()])
            signer = idx[j % n] if n else 0
            if c < .15 and sigs: s = sigs[-1]                                        # exact duplicate
            elif c < .3 and n: signer = idx[rng.randrange(n)]; s = None              # maybe same signer again (flag variant)
            elif c < .4 and outsiders: signer = rng.choice(outsiders); s = None     # outsider
            elif c < .45: s = rng.choice([V.rbytes(rng, rng.choice([10, 63, 66])), b'', b'\x00', b'\x01', b'\xff', V.rbytes(rng, 2)]); well = False   # malformed, incl. empty / OP_FALSE-style placeholders
            elif c < .53:          # a valid signature (and flag byte) followed by extra bytes is not a signature item
                s = keys.sks[signer].sign(ref_msg(cache, fl)).signature + (bytes([fl]) if fl or rng.random() < .5 else b'\x00') + V.rbytes(rng, rng.choice([1, 1, 2, 5])); well = False
            elif c < .58: s = None; fl = (rng.choice(nbits) | (sub() if rng.random() < .3 else 0)) if nbits else 0      # non-permitted flag (any bit outside the allowance)
            else: s = None
            if s is None:
                s = keys.sks[signer].sign(ref_msg(cache, fl)).signature + (bytes([fl]) if fl else b'')
            sigs.append(s)
        pks = [keys.pks[i] for i in idx]
        orders = [(sigs, pks)]
        if ctx.tier == 'thorough' and n <= 4:
            orders = [(list(a), list(b)) for a in set(itertools.permutations(sigs)) for b in itertools.permutations(pks)][:48]
        else:
            for _ in range(2):
                a, b = sigs[:], pks[:]; rng.shuffle(a); rng.shuffle(b); orders.append((a, b))
        def sig_ok(s, k):
            if len(s) not in (64, 65): return None
            fl = s[64] if len(s) == 65 else 0
            if fl & ~allowed & 0xff: return None
            return ref_verify(k, ref_msg(cache, fl), s[:64])
        valid = [[sig_ok(s, k) for k in pks] for s in sigs]
        flagbad = any(v is None for row in valid for v in row) or any(len(s) not in (64, 65) for s in sigs)
        expect = matching_exists([[bool(v) for v in row] for row in valid]) if not flagbad else False
        for a, b in orders:
            cases.append(('CHECK_MULTISIG', cache, build(a, b, allowed), expect, not flagbad))
            pure.append((cache, allowed, list(a), list(b), len(cases) - 1))
        if it % 5 == 0:
            cases.append(('CHECK_MULTISIG_VERIFY', cache, build(sigs, pks, allowed, verify=True), expect, not flagbad))
        if m >= 1 and it % 4 == 0:
            # fewer items on the stack than the quorum operand asks for (m stays in the instruction): never true, whatever the
            # supplied signatures are - also when they are all valid and distinct
            k = rng.randrange(0, m)
            good = [keys.sks[idx[j % n]].sign(ref_msg(cache, 0)).signature for j in range(k)] if n else []
            cases.append(('CHECK_MULTISIG (stack holds fewer than m signature items)', cache, build(good, pks, allowed, m=m), False, False))
            junk = [b'j'] * rng.randrange(0, 2)      # something else below: it must not be counted as a signature slot either
            cases.append(('CHECK_MULTISIG (fewer than m signatures above an unrelated item)', cache, b''.join(P(x) for x in junk) + build(good, pks, allowed, m=m), False, False))
    outs = []
    def work():
        for what, cache, script, expect, well in cases:
            outs.append(vmrun.run_impl(cfg, cache, script))
    vmrun.in_big_thread(work)
    stats = {'true': 0, 'false': 0, 'error': 0}
    def viol(what, cache, script, exp, obs):
        if len(res.violations) < 10:
            res.violations.append({'input': {'what': what, 'cfg': cfg.line(), 'cache': vmrun.cache_str(cache, False), 'script': script.hex()},
                                   'expected': exp, 'observed': obs, 'how_to_run': './check C03 --replay <this file>'})
    for (what, cache, script, expect, well), o in zip(cases, outs):
        res.note_case((vmrun.cache_str(cache, False), script))
        f = vmrun.fields(o); st = f['status']
        top = f['stack'].split(',')[-1] if f.get('stack', '-') != '-' else None
        verify = what.endswith('VERIFY')
        got_true = st == 'OK' and (top == 'ff')
        got_false = (st == 'OK' and top == '00') if not verify else st == 'ERR:ScriptExecutionError'
        stats['true' if got_true else ('false' if got_false else 'error')] += 1
        if expect and well and not got_true:
            viol(what, cache, script, 'true (an injective valid assignment exists, all items well formed)', o[:160])
        if not expect and got_true:
            viol(what, cache, script, 'false or an error - never true (no injective valid assignment / malformed item / non-permitted flag)', o[:160])
        if not expect and well and not (got_false or got_true):
            viol(what, cache, script, 'false (all items well formed, flags permitted)', o[:160])
    # "valid in the sense of C02" includes the run's item limit: the message every inner check builds is subject to the configured
    # limit (not to a default one) - a quorum over a message that fits is accepted, over one that does not fit it is an error
    lim_lines, lim_outs = [], []
    for _ in range(ctx.n(40, 300)):
        lim = rng.choice([65, 100, 1500, 4096])
        c2 = vmrun.Cfg(); c2.max_item_size = lim
        total = rng.choice([lim - 1, lim, lim + 1, lim // 2, min(lim + 400, 5000), 1025 if lim > 1025 else lim - 3, 1024 if lim > 1024 else lim])
        cut = rng.randrange(0, total + 1)
        cache = {'sigfield2': V.rbytes(rng, cut), 'sigfield5': V.rbytes(rng, total - cut)}
        msg = ref_msg(cache, 0); fits = len(msg) <= lim
        ks = rng.sample(range(len(keys.sks)), 3)
        sg = [keys.sks[k].sign(msg).signature for k in ks[:2]]
        script = build(sg, [keys.pks[k] for k in ks], 0)
        o = vmrun.run_impl(c2, cache, script)
        lim_lines.append(vmrun.case_line('RUN', c2, cache, [script])); lim_outs.append(o)
        res.note_case(('limits', lim, total, tuple(ks)))
        f = vmrun.fields(o); st = f['status']; top = f['stack'].split(',')[-1] if f.get('stack', '-') != '-' else None
        good = (st == 'OK' and top == 'ff') if fits else st.startswith('ERR')
        if not good and len(res.violations) < 10:
            res.violations.append({'input': {'what': f'2-of-3 by two listed signers, message of {len(msg)} bytes, stack_max_item_size = {lim}', 'cfg': c2.line(), 'cache': vmrun.cache_str(cache, False)[:3000], 'script': script.hex()},
                                   'expected': 'true (the message fits the configured item limit)' if fits else 'an error (the message every check must build exceeds the configured item limit)', 'observed': o[:160], 'how_to_run': './check C03 --replay <this file>'})
    # every signature of the quorum carries the SAME non-permitted flag bit (each is valid over what that flag leaves covered): an
    # error, never true - the permission is a property of each signature, not of the set
    for _ in range(ctx.n(40, 300)):
        allowed = rng.choice([0, 0, 2, 0x80, 0x7e, 0x0f])
        outside = [b_ for b_ in range(8) if not (allowed >> b_) & 1]
        f_ = (1 << rng.choice(outside)) | (allowed & rng.getrandbits(8))
        n_ = rng.choice([2, 3, 4, 5]); m_ = rng.choice([2, 2, 3, 4]); m_ = min(m_, n_)
        ks = rng.sample(range(len(keys.sks)), n_)
        cache = {f'sigfield{i}': V.rbytes(rng, rng.choice([1, 4])) for i in range(1, 9) if rng.random() < .5}
        cache.setdefault('sigfield1', b'f1')
        sg = [keys.sks[k].sign(ref_msg(cache, f_)).signature + bytes([f_]) for k in ks[:m_]]
        if rng.random() < .5: sg.reverse()
        script = build(sg, [keys.pks[k] for k in ks], allowed)
        o = vmrun.run_impl(cfg, cache, script)
        lim_lines.append(vmrun.case_line('RUN', cfg, cache, [script])); lim_outs.append(o)
        res.note_case(('same-bad-flag', allowed, f_, m_, n_, tuple(ks)))
        f = vmrun.fields(o); st = f['status']
        if not st.startswith('ERR') and len(res.violations) < 10:
            res.violations.append({'input': {'what': f'{m_}-of-{n_}, allowance {allowed:02x}, every signature flagged {f_:02x}', 'cfg': cfg.line(), 'cache': vmrun.cache_str(cache, False), 'script': script.hex()},
                                   'expected': 'an error (a flag bit outside the allowance) - never true', 'observed': o[:160], 'how_to_run': './check C03 --replay <this file>'})
    # make_multisig_lock: quorum <= number of unique keys, whatever the key objects' types
    for _ in range(ctx.n(150, 1500)):
        k = rng.randrange(1, 4)
        base = [keys.pks[i] for i in rng.sample(range(len(keys.pks)), k)]
        lst = [rng.choice(base) for _ in range(rng.randrange(1, 5))]
        objs = [(VerifyKey(b) if rng.random() < .4 else b) for b in lst]
        q = rng.randrange(0, len(lst) + 2)
        uniq = len(set(lst))
        res.note_case(('lock', tuple(lst), tuple(type(o).__name__ for o in objs), q))
        try:
            lock = T.make_multisig_lock(list(objs), q, '01'); raised = None
        except BaseException as e:
            lock = None; raised = type(e).__name__
        if q > uniq and lock is not None:
            viol('make_multisig_lock', {}, lock.bytes, f'ValueError: quorum {q} > {uniq} unique keys', f'lock built from keys {[type(o).__name__ + ":" + bytes(o).hex()[:8] for o in objs]}')
        if q <= uniq and lock is None:
            viol('make_multisig_lock', {}, b'', f'a lock (quorum {q} <= {uniq} unique keys)', f'raised {raised}')
        if lock is not None:
            want = b''.join(P(b) for b in lst) + op('CHECK_MULTISIG') + bytes([1, q, len(lst)])
            if lock.bytes != want:
                viol('make_multisig_lock bytes', {}, lock.bytes, want.hex(), lock.bytes.hex())
    if ctx.driver.available:
        try:
            replies = ctx.driver.run([vmrun.case_line('RUN', cfg, c[1], [c[2]]) for c in cases])
            for c, r, o in zip(cases, replies, outs):
                ok, soft, why = vmrun.compare_run(r, o)
                if not ok and len(res.disagreements) < 30:
                    res.disagreements.append({'what': c[0], 'script': c[2].hex()[:200], 'why': why, 'model': r[:160], 'impl': o[:160]})
            for l_, r, o in zip(lim_lines, ctx.driver.run(lim_lines), lim_outs):
                ok, soft, why = vmrun.compare_run(r, o)
                if not ok and len(res.disagreements) < 30:
                    res.disagreements.append({'what': 'limits', 'line': l_[:200], 'why': why, 'model': r[:160], 'impl': o[:160]})
            # the pure specification (Props/C03 is about it) vs the implementation, directly
            def lst(xs): return ','.join((x.hex() or 'e') for x in xs) or '-'
            plines = [f'MSPURE {cfg.max_item_size} {vmrun.cache_str({"timestamp": vmrun.NOW, **c}, False)} {al} {lst(list(reversed(a)))} {lst(list(reversed(b)))}' for c, al, a, b, i in pure]
            prep = ctx.driver.run(plines)
            for (c, al, a, b, i), r in zip(pure, prep):
                res.note_case(('pure', i))
                f = vmrun.fields(outs[i]); st = f['status']; top = f['stack'].split(',')[-1] if f.get('stack', '-') != '-' else None
                got = 'T' if st == 'OK' and top == 'ff' else ('F' if st == 'OK' and top == '00' else st)
                if r != got and not (r.startswith('ERR') and got.startswith('ERR')) and len(res.disagreements) < 30:
                    res.disagreements.append({'pure_spec': plines[0][:0] + f'allowed={al} sigs={len(a)} keys={len(b)}', 'spec': r, 'impl': got, 'script': cases[i][2].hex()[:200]})
        except DriverCrash as e:
            res.disagreements.append({'driver': str(e)[:300]})
    else:
        res.disagreements.append({'driver': 'not built'})
    res.stats['verdicts'] = stats
    res.sample({'script': cases[0][2].hex()[:300], 'expected_true': cases[0][3], 'impl': outs[0][:80]})
    res.stats['search'] = 'each case judged on the implementation alone by brute-force injective matching with PyNaCl verify'
    # whatever the interpreter leaves in the bytes-keyed part of the cache after a multisig check (nothing, on this tree) is writable
    # by a witness: entries forged there must not stand in for signatures
    def forged_memo():
        cfg_ = vmrun.Cfg()
        cache_ = {'sigfield1': b'memo-probe'}
        ks_ = [0, 1, 2]
        pks_ = [keys.pks[i] for i in ks_]
        good = [keys.sks[i].sign(ref_msg(cache_, 0)).signature for i in ks_[:2]]
        honest = build(good, pks_, 0)
        o = vmrun.run_impl(cfg_, cache_, honest)
        left = set()
        for e in vmrun.fields(o).get('cache', '-').split(';'):
            if e.startswith('b') and '=' in e: left.add(bytes.fromhex(e.split('=')[0][1:]))
        left |= {b'cms', b'sigs', b'ok'}
        junk = [V.rbytes(rng, 64), V.rbytes(rng, 64)]
        for key_ in sorted(left):
            for fmt in (lambda j, k: j + k, lambda j, k: k + j, lambda j, k: j, lambda j, k: k):
                items = [fmt(junk[0], pks_[0]), fmt(junk[1], pks_[1])]
                wit = b''.join(P(x) for x in items) + bytes([G_names()['WRITE_CACHE'], len(key_)]) + key_ + b'\x02'
                script = wit + build(junk, pks_, 0)
                res.note_case(('forged-memo', key_, script))
                o2 = vmrun.run_impl(cfg_, cache_, script)
                f2 = vmrun.fields(o2)
                if f2['status'] == 'OK' and f2.get('stack', '').split(',')[-1] == 'ff':
                    viol('CHECK_MULTISIG after a witness wrote cache[' + repr(key_) + ']: two random 64-byte strings counted as signatures', cache_, script, 'false or an error', o2[:120])
    vmrun.in_big_thread(forged_memo)
    return res


def replay(ctx: Ctx, payload) -> bool:
    inp = payload['input']
    if not inp.get('cache') or inp['what'].startswith('make_'): return False
    cfg, cache = c06.parse_case(inp['cfg'], inp['cache'])
    o = vmrun.in_big_thread(vmrun.run_impl, cfg, cache, bytes.fromhex(inp['script']))
    print(o[:200], 'expected', payload['expected'])
    f = vmrun.fields(o); top = f['stack'].split(',')[-1] if f.get('stack', '-') != '-' else None
    got_true = f['status'] == 'OK' and top == 'ff'
    return got_true == payload['expected'].startswith('true')
