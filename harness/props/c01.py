"""C01 — the authorization verdict is exact; a witness cannot truncate or skip the lock.
Theorems: Props/C01.lean. Tie: run_auth_scripts vs the model's runAuth on adversarial
witness x lock lists; property oracles on the implementation alone: (i) the same list composed
by hand from run_script + run_tape through the public API, (ii) the fetch-hygiene ghost
assertion (no instruction is fetched while a RETURN is pending), (iii) never raises,
(iv) a few cases re-run under `python -O`."""
from __future__ import annotations
import hashlib, json, subprocess, sys
from ..core import Result, Ctx, DriverCrash, REPO
from .. import vmrun, instrument
from ..gen import programs as G, values as V
from . import c06

RULE = ("lists of 1-4 scripts: adversarial witnesses (RETURN at depth 0-3 inside IF / ELSE / TRY / EXCEPT / LOOP / DEF+CALL / EVAL, function "
        "definitions shadowing handles the lock uses, writes to cache keys the lock reads and to b'returned'/b'E'/b'P', stack junk, call-budget "
        "burning) x locks (control construct followed by VERIFY-style checks, signature / hash locks), plus opcode-biased random byte strings "
        "of length 0-48; initial caches incl. the string key 'returned'; limit triples from 1 upward; non-trivial = the list executes at least "
        "one non-push instruction; distinct = distinct (limits, cache, scripts)")

W_OPS = ['RECTRY', 'TRUE', 'FALSE', 'PUSH1', 'RETURN', 'RETURN', 'RETURN', 'IF', 'IF_ELSE', 'TRY_EXCEPT', 'LOOP', 'DEF', 'CALL', 'EVAL', 'WRITE_CACHE',
         'POP0', 'DUP', 'DEPTH', 'VERIFY', 'NOP']


def op(n): return bytes([G.names()[n]])


def locks(rng, keys, cache, gen):
    u1, u2, push = G.u1, G.u2, G.push
    def iff(b): return op('IF') + u2(len(b)) + b
    def ifelse(a, b): return op('IF_ELSE') + u2(len(a)) + a + u2(len(b)) + b
    def tri(a, b): return op('TRY_EXCEPT') + u2(len(a)) + a + u2(len(b)) + b
    def loop(b): return op('LOOP') + u2(len(b)) + b
    def deff(h, b): return op('DEF') + u1(h) + u2(len(b)) + b
    pk = rng.choice(keys.pks)
    pre = b'secret%d' % rng.randrange(3)
    digest = hashlib.sha256(pre).digest()
    checksig = push(pk) + op('CHECK_SIG') + b'\x00'
    hashlock = op('SHA256') + push(digest) + op('EQUAL_VERIFY') + op('TRUE')
    L = [
        iff(op('TRUE') + op('POP0')) + checksig,
        tri(op('TRUE') + op('POP0'), b'') + checksig,
        op('TRUE') + loop(op('POP0') + op('FALSE')) + op('POP0') + checksig,
        deff(0, checksig) + op('CALL') + b'\x00',
        deff(0, op('VERIFY')) + op('CALL') + b'\x00' + op('TRUE'),
        checksig, hashlock,
        tri(op('SHA256') + push(digest) + op('EQUAL_VERIFY'), op('RETURN')) + op('TRUE'),
        iff(hashlock) + op('FALSE') + op('VERIFY'),
        ifelse(push(pk), push(rng.choice(keys.pks))) + op('CHECK_SIG') + b'\x00',
        op('READ_CACHE') + b'\x01k' + op('CHECK_SIG') + b'\x00',
        op('DEPTH') + push(b'\x01') + op('EQUAL_VERIFY') + op('TRUE'),
        push(hashlock) + op('EVAL'),
        deff(0, op('CALL') + b'\x01') + deff(1, checksig) + op('CALL') + b'\x00',          # forward reference: the lock's own helper, defined after its caller
        deff(0, op('CALL') + b'\x01') + deff(1, hashlock) + op('CALL') + b'\x00',
        deff(2, op('CALL') + b'\xff') + deff(255, op('FALSE')) + op('CALL') + b'\x02',
        op('DUP') + push(digest) + op('SWAP2') + op('SHA256') + op('EQUAL_VERIFY') + op('SHA256') + push(digest) + op('EQUAL_VERIFY') + op('TRUE'),
        op('DUP') + op('EQUAL_VERIFY') + op('TRUE'),
        deff(0, tri(iff(op('FALSE') + op('CALL') + b'\x00'), b'') + hashlock) + op('CALL') + b'\x00',
        deff(0, tri(iff(op('FALSE') + op('CALL') + b'\x00'), op('POP0')) + checksig) + op('CALL') + b'\x00',
        deff(1, tri(op('DEPTH') + push(b'\x01') + op('EQUAL') + iff(push(b'\x00') + op('CALL') + b'\x01') + op('FALSE') + op('VERIFY'), b'') + op('POP0') + hashlock) + op('CALL') + b'\x01',
        op('TRUE'), op('VERIFY') + op('TRUE'), b'',
        # the final item must be exactly the one byte ff: integers / paddings that merely *equal* 255 or are truthy do not count
        op('POP0') + push(rng.choice([b'\x00\xff', b'\xff\xff', b'\xff\x00', b'\x00\x00\xff', b'\x01', b'\xfe', b'\x7f'])),
        push(bytes([rng.choice([200, 100, 254, 255])])) + push(bytes([55])) + op('ADD_INTS') + b'\x02' + op('SWAP2') + op('POP0'),
    ]
    return rng.choice(L), pre, pk


def witnesses(rng, keys, cache, cfg, pre, pk):
    push = G.push
    g = G.ProgGen(rng, cfg, cache, keys, ops=W_OPS, clean=rng.random() < .6, max_depth=3)
    r = rng.random()
    ki = keys.pks.index(pk) if pk in keys.pks else 0
    sig = keys.sks[ki].sign(G.ref_message(cache, 0)).signature
    honest = rng.choice([push(sig), push(pre), push(sig) + op('TRUE'), push(pre) + op('TRUE'), op('TRUE'), op('TRUE') + op('TRUE'), push(b'junk') + op('TRUE'), push(b'junk')])
    if r < .25: return honest
    if r < .5: return honest + g.program(rng.choice([1, 2, 3]))
    if r < .75: return g.program(rng.choice([1, 2, 3])) + honest
    if r < .9: return g.program(rng.choice([1, 2, 4]))
    return bytes(rng.choice([rng.randrange(256), rng.choice(list(G.names().values()))]) for _ in range(rng.randrange(0, 49)))


def gen(ctx: Ctx, n):
    rng = ctx.sub_rng('c01')
    keys = V.Keys(ctx.sub_rng('keys'))
    cases = []
    for i in range(n):
        cfg = vmrun.Cfg()
        if rng.random() < .3:
            cfg.max_items = rng.choice([1, 2, 3, 4, 1024]); cfg.max_item_size = rng.choice([1, 32, 64, 1024]); cfg.call_limit = rng.choice([0, 1, 2, 3, 128])
        cache = G.random_cache(rng, keys, clean=rng.random() < .6)
        if rng.random() < .15: cache['returned'] = rng.choice([True, False, b'x', 0])
        if rng.random() < .2: cache[b'k'] = [rng.choice(keys.pks)]
        lock, pre, pk = locks(rng, keys, cache, None)
        nw = rng.choice([0, 1, 1, 1, 2, 3])
        scripts = [witnesses(rng, keys, cache, cfg, pre, pk) for _ in range(nw)] + [lock]
        if rng.random() < .1:
            scripts = [bytes(rng.choice([rng.randrange(256), rng.choice(list(G.names().values()))]) for _ in range(rng.randrange(0, 49)))
                       for _ in range(rng.randrange(1, 5))]
        if rng.random() < .1:
            # every kind of instruction failure (all opcodes, chaos operands: float / integer overflow, bad encodings, bad points,
            # truncated operands ...) as witness: whatever exception the instruction raises, the verdict is False - never a raise
            gz = G.ProgGen(rng, cfg, cache, keys, clean=False, max_depth=2)
            scripts = [gz.program(rng.choice([1, 2, 3]))] + ([lock] if rng.random() < .7 else [])
        if rng.random() < .03:
            import struct
            f32 = lambda x: struct.pack('!f', x)
            zoo = [G.push(f32(float('inf'))) + op('FLOAT_TO_INT'), G.push(f32(float('-inf'))) + op('FLOAT_TO_INT'), G.push(f32(float('nan'))) + op('FLOAT_TO_INT'),
                   G.push(f32(3.4e38)) * 2 + op('ADD_FLOATS') + b'\x02', G.push(f32(3.4e38)) + G.push(f32(-3.4e38)) + op('SUBTRACT_FLOATS') + b'\x02',
                   G.push(b'\x7f' + b'\xff' * 200) + op('INT_TO_FLOAT'), G.push(f32(1e-30)) + op('DIV_FLOAT') + f32(0.0), G.push(f32(3e38)) + op('DIV_FLOAT') + f32(1e-30),
                   G.push(f32(1.0)) + op('MOD_FLOAT') + f32(0.0), G.push(b'\x01') + op('DIV_INT') + b'\x01\x00', G.push(b'\xff\xfe') + op('SPLIT_STR') if 'SPLIT_STR' in G.names() else b'']
            scripts = [rng.choice(zoo) + rng.choice([b'', op('TRUE')])] + ([lock] if rng.random() < .5 else [])
        if rng.random() < .03:
            # a loop whose body makes calls: the calls of all iterations together count against the one budget
            c_per = rng.choice([1, 2, 3]); k_it = rng.choice([2, 3, 4, 5])
            call = op('CALL') + b'\x00'
            body = call * c_per + G.push(b'\xff') + op('ADD_INTS') + b'\x02'            # n := n - 1
            lk = op('DEF') + b'\x00' + (0).to_bytes(2, 'big') + op('LOOP') + len(body).to_bytes(2, 'big') + body + op('POP0') + op('TRUE')
            scripts = [G.push(bytes([k_it])), lk]
            cfg = vmrun.Cfg()
            cfg.call_limit = max(1, c_per * k_it + rng.choice([-3, -2, -1, 0, 0, 1, 2]))
        if rng.random() < .04:
            # call budget spread over the scripts of the list: a function defined by the first script, a few calls in each
            # script, and a call limit at / just below / just above the total ("spending call budget" must carry forward)
            h = rng.randrange(0, 4)
            body = rng.choice([b'', op('TRUE') + op('POP0'), op('NOP255') + b'\x00' if 'NOP255' in G.names() else b''])
            ks = [rng.randrange(0, 4) for _ in range(rng.choice([2, 3, 3, 4]))]
            call = op('CALL') + bytes([h])
            scripts = [op('DEF') + bytes([h]) + len(body).to_bytes(2, 'big') + body + call * ks[0]] + [call * k for k in ks[1:]]
            scripts[-1] += op('TRUE')
            cfg = vmrun.Cfg()
            cfg.call_limit = max(0, sum(ks) + rng.choice([-2, -1, 0, 0, 1]))
        if rng.random() < .02:
            # an unassigned opcode with a negative count (operand byte 80..ff) raises - also when the witness left that many items
            x = rng.choice([0x80, 0x81, 0xc8, 0xff, rng.randrange(0x80, 0x100)])
            k = rng.choice([x, x, x, x + 1, x - 1, 127, 300])
            scripts = [op('FALSE') * k, bytes([rng.randrange(92, 256), x]) + op('TRUE')]
            if rng.random() < .3: scripts = [op('FALSE') * (k // 2), op('FALSE') * (k - k // 2)] + scripts[1:]
            cfg = vmrun.Cfg()
        if rng.random() < .03:
            # definitions made inside an evaluated script end with it: a witness-supplied blob the lock evaluates cannot replace the
            # lock's own function, and a function defined inside an evaluation is unknown to the evaluating script and to later scripts
            def deff_(h, b): return op('DEF') + bytes([h]) + len(b).to_bytes(2, 'big') + b
            pre_ = b'secret%d' % rng.randrange(3); dg_ = hashlib.sha256(pre_).digest()
            chk = op('SHA256') + G.push(dg_) + op('EQUAL_VERIFY')
            h = rng.choice([0, 1, 200])
            blob = rng.choice([deff_(h, op('POP0')), deff_(h, op('POP0')), op('TRUE') + op('POP0'), deff_((h + 1) % 256, op('POP0')),
                               op('TRUE') + op('IF') + (len(deff_(h, op('POP0')))).to_bytes(2, 'big') + deff_(h, op('POP0'))])
            kind = rng.randrange(4)
            given = rng.choice([pre_, pre_, b'wrong', b''])
            if kind == 0: scripts = [G.push(given) + G.push(blob), deff_(h, chk) + op('EVAL') + op('CALL') + bytes([h]) + op('TRUE')]
            elif kind == 1: scripts = [G.push(given), G.push(blob) + op('EVAL'), deff_(h, chk) + op('CALL') + bytes([h]) + op('TRUE')][(0 if rng.random() < .5 else 0):]
            elif kind == 2: scripts = [G.push(deff_(h, op('TRUE'))) + op('EVAL'), op('CALL') + bytes([h])]
            else: scripts = [deff_(h, chk) + G.push(given) + G.push(blob) + op('EVAL') + op('CALL') + bytes([h]) + op('TRUE')]
            cfg = vmrun.Cfg()
        if rng.random() < .02:
            # a lock that reaches for a stack slot that is not there (SWAP with an index equal to / beyond the depth) raises: False
            d_ = rng.randrange(1, 6); k_ = rng.randrange(0, d_); far = rng.choice([d_, d_, d_ + 1, 255])
            scripts = [op('TRUE') * d_, op('SWAP') + bytes(rng.choice([[k_, far], [far, k_]])) + op('POP0') * (d_ - 1)]
            if rng.random() < .3: scripts = [scripts[0] + scripts[1]]
            cfg = vmrun.Cfg()
        cases.append((cfg, cache, scripts))
    return cases


def ref_auth(cfg, cache_in, scripts, env):
    """the same list composed by hand through the public API (the property's channel oracle)"""
    F = env.F
    import copy
    try:
        tape, stack, cache = F.run_script(scripts[0], copy.deepcopy(cache_in), env.contracts(), plugins=env.plugins(),
                                          stack_max_items=cfg.max_items, stack_max_item_size=cfg.max_item_size, callstack_limit=cfg.call_limit)
        if not tape.has_terminated(): return False
        for s in scripts[1:]:
            cache.pop('returned', None)
            t = F.Tape(s, callstack_limit=tape.callstack_limit, callstack_count=tape.callstack_count, definitions=tape.definitions)
            t.contracts, t.plugins = tape.contracts, tape.plugins
            F.run_tape(t, stack, cache)
            if not t.has_terminated(): return False
            tape = t
        return len(stack) == 1 and stack.list()[0] == b'\xff'
    except BaseException as e:
        if isinstance(e, (KeyboardInterrupt, SystemExit)): raise
        return False


def judge(cfg, cache, scripts):
    """property oracle on the implementation alone; returns (impl verdict string, list of problems)"""
    import copy
    problems = []
    tr = instrument.Trace()
    with vmrun.Env(cfg) as env:
        F = env.F
        with instrument.Instrumented(tr, auto_main=True):
            try:
                v = F.run_auth_scripts(list(scripts), copy.deepcopy(cache), env.contracts(), env.plugins(), cfg.max_items, cfg.max_item_size, cfg.call_limit)
            except BaseException as e:
                if isinstance(e, (KeyboardInterrupt, SystemExit)): raise
                v = 'RAISED:' + type(e).__name__
                problems.append(f'run_auth_scripts raised {type(e).__name__}')
        if v is not True and v is not False and not isinstance(v, str):
            problems.append(f'non-bool verdict {v!r}')
        bad_events = [e for e in tr.events if e[0] in ('item-dropped', 'deque-append-outside-put', 'deque-extend-bypasses-put', 'deque-appendleft', 'deque-insert',
                                                       'deque-extendleft', 'deque-iadd-bypasses-put', 'pointer-past-end', 'pointer-moved-backwards')]
        if bad_events:
            problems.append(f'the stack / tape was changed behind the interpreter\'s own checks: {bad_events[0]} (an item can vanish or an instruction be skipped without an error)')
        if tr.fetch_with_return:
            problems.append(f'{tr.fetch_with_return} instruction(s) fetched while a RETURN was pending (first: {tr.events[0][1] if tr.events else "?"}): '
                            'a RETURN leaked past the construct it ended')
    with vmrun.Env(cfg) as env:
        r = ref_auth(cfg, cache, scripts, env)
    if v in (True, False) and r != v:
        problems.append(f'verdict {v} but the same scripts composed by hand through run_script/run_tape give {r}')
    return v, problems


def run(ctx: Ctx) -> Result:
    res = Result(rule=RULE)
    cases = gen(ctx, ctx.n(15000, 700000))
    lines, outs = [], []
    verdicts = {'T': 0, 'F': 0}
    def work():
        for i, (cfg, cache, scripts) in enumerate(cases):
            if i % 64 == 0 and ctx.expired(): break
            lines.append(vmrun.case_line('AUTH', cfg, cache, scripts))
            outs.append(vmrun.auth_impl(cfg, cache, scripts))
    vmrun.in_big_thread(work)
    cases = cases[:len(lines)]
    suspicious = []
    if ctx.driver.available:
        try:
            replies = ctx.driver.run(lines)
        except DriverCrash as e:
            replies = None
            res.disagreements.append({'driver': str(e)[:500]})
        if replies is not None:
            for c, r, o in zip(cases, replies, outs):
                ok, why = vmrun.compare_auth(r, o)
                v = o.split(' ')[0]
                verdicts[v] = verdicts.get(v, 0) + 1
                if not ok:
                    suspicious.append(c)
                    if why == 'verdict' and len([x for x in res.violations if x.get('kind_') == 'verdict']) < 3:
                        res.violations.append({'kind_': 'verdict', 'input': {'cfg': c[0].line(), 'cache': vmrun.cache_str(c[1], False), 'scripts': [s.hex() for s in c[2]]},
                                               'expected': 'verdict of the reference semantics (Lean model, proved to satisfy C01): ' + r[:120],
                                               'observed': 'implementation: ' + o[:120], 'how_to_run': './check C01 --replay <this file>'})
                    res.disagreements.append({'cfg': c[0].line(), 'cache': vmrun.cache_str(c[1], False)[:200], 'scripts': [s.hex() for s in c[2]],
                                              'why': why, 'model': r[:200], 'impl': o[:200]})
    else:
        res.disagreements.append({'driver': 'not built'})
    for cfg, cache, scripts in cases:
        res.note_case((cfg.line(), vmrun.cache_str(cache, False), tuple(scripts)), any(len(s) > 0 for s in scripts))
    def work2():
        for i, (cfg, cache, scripts) in enumerate(suspicious[:200] + cases):
            if len(res.violations) >= 3 or (i >= min(200, len(suspicious)) and i % 64 == 0 and ctx.expired()):
                break
            v, problems = judge(cfg, cache, scripts)
            for pr in problems:
                res.violations.append({'input': {'cfg': cfg.line(), 'cache': vmrun.cache_str(cache, False), 'scripts': [s.hex() for s in scripts]},
                                       'expected': 'True exactly when every script ran to its own end / own RETURN without raising and the stack is [ff]; never raises',
                                       'observed': pr, 'how_to_run': './check C01 --replay <this file>'})
    vmrun.in_big_thread(work2)
    # "for all initial cache values": what an earlier authorization wrote to ITS cache is not an initial value of a later one, also when
    # the embedder hands the same context dict to both (with or without a timestamp of its own)
    def shared_context():
        import copy
        F = vmrun.impl.functions(); N = G.names()
        l1 = [G.push(b'\x2a') + bytes([N['WRITE_CACHE'], 1]) + b'k\x01', bytes([N['TRUE']])]
        l2 = [bytes([N['FALSE'], N['POP0']]), bytes([N['READ_CACHE'], 1]) + b'k' + G.push(b'\x2a') + bytes([N['EQUAL_VERIFY'], N['TRUE']])]
        l3 = [bytes([N['TRY_EXCEPT'], 0, 2, N['FALSE'], N['VERIFY'], 0, 0, N['TRUE']])]          # leaves b'E' in its own cache
        l4 = [bytes([N['READ_CACHE'], 1]) + b'E' + bytes([N['POP0'], N['TRUE']])]
        with vmrun.Env(vmrun.Cfg()) as env:
            for ctx_ in ({'timestamp': vmrun.NOW}, {'timestamp': vmrun.NOW, 'sigfield1': b'x'}, {'sigfield1': b'x'}, {}):
                d = dict(ctx_); snap = copy.deepcopy(d)
                got = []
                for lst in (l1, l2, l3, l4):
                    try: got.append(F.run_auth_scripts(list(lst), d))
                    except BaseException as e: got.append('RAISED:' + type(e).__name__)
                res.note_case(('shared-context', tuple(sorted(ctx_))))
                if got != [True, False, True, False] or d != snap:
                    res.violations.append({'input': {'cfg': vmrun.Cfg().line(), 'cache': vmrun.cache_str(snap, False), 'scripts': [x.hex() for x in l1 + l2], 'history': 'four authorizations handed the same context dict: write k / read k / TRY that fails / read E'},
                                           'expected': 'verdicts [True, False, True, False], the context dict unchanged', 'observed': f'verdicts {got}, context afterwards has keys {sorted(map(repr, d))}', 'how_to_run': './check C01 --tier quick'})
    vmrun.in_big_thread(shared_context)
    # python -O : the verdict must not be carried by assert statements
    sel = [c for c in cases if c[0].is_default_flags() and not c[0].contracts][:ctx.n(40, 400)]
    payload = [{'scripts': [s.hex() for s in sc], 'mi': cfg.max_items, 'ms': cfg.max_item_size, 'cl': cfg.call_limit} for cfg, cache, sc in sel]
    code = ("import sys, json; sys.path.insert(0, %r)\nimport tapescript.functions as F\nF.time = lambda: %d + 0.73\nout = []\n"
            "for c in json.load(sys.stdin):\n"
            "    try: out.append(F.run_auth_scripts([bytes.fromhex(s) for s in c['scripts']], {'timestamp': %d}, {}, {}, c['mi'], c['ms'], c['cl']))\n"
            "    except BaseException as e: out.append('RAISED')\nprint(json.dumps(out))\n" % (REPO, vmrun.NOW, vmrun.NOW))
    try:
        normal = subprocess.run([sys.executable, '-c', code], input=json.dumps(payload), stdout=subprocess.PIPE, stderr=subprocess.PIPE, text=True, timeout=600)
        opt = subprocess.run([sys.executable, '-O', '-c', code], input=json.dumps(payload), stdout=subprocess.PIPE, stderr=subprocess.PIPE, text=True, timeout=600)
        a, b = json.loads(normal.stdout), json.loads(opt.stdout)
        for p, x, y in zip(payload, a, b):
            res.note_case(('opt', tuple(p['scripts'])))
            if x != y:
                res.violations.append({'input': {'scripts': p['scripts'], 'python_flags': '-O'}, 'expected': f'verdict {x} (as without -O)', 'observed': f'verdict {y} under python -O',
                                       'how_to_run': 'python -O -c "import tapescript.functions as F; print(F.run_auth_scripts([bytes.fromhex(s) for s in <scripts>]))"'})
                break
        res.stats['python_O_cases'] = len(payload)
    except Exception as e:
        res.notes.append(f'python -O comparison could not run: {e}')
    res.sample({'scripts': [s.hex() for s in cases[0][2]], 'impl': outs[0][:120]})
    res.sample({'scripts': [s.hex() for s in cases[-1][2]], 'impl': outs[-1][:120]})
    res.stats['verdicts'] = verdicts
    res.stats['search'] = 'each case judged on the implementation alone: hand-composed channel oracle, fetch-hygiene ghost assertion, never-raises, python -O'
    return res


def replay(ctx: Ctx, payload) -> bool:
    inp = payload['input']
    if 'cfg' not in inp:
        return False
    cfg, cache = c06.parse_case(inp['cfg'], inp['cache'])
    scripts = [bytes.fromhex(s) for s in inp['scripts']]
    v, problems = vmrun.in_big_thread(judge, cfg, cache, scripts)
    print('verdict', v, 'problems', problems)
    if ctx.driver.available:
        m = ctx.driver.run([vmrun.case_line('AUTH', cfg, cache, scripts)], procs=1)[0]
        o = vmrun.in_big_thread(vmrun.auth_impl, cfg, cache, scripts)
        print('model:', m[:200]); print('impl :', o[:200])
        if m.split(' ')[0] != o.split(' ')[0]: return False
    return not problems
