"""C17 — adapter signatures are verifiable encryptions of a valid signature.
Theorems: Props/C17.lean (group-level equations). Tie: the four adapter instructions and the
adapter builders on random and edge scalars, judged on the implementation alone by independent
arithmetic (Python integers mod L, PyNaCl point ops and Ed25519 verify) and compared with the model."""
from __future__ import annotations
import hashlib
import nacl.bindings as nb
from nacl.signing import SigningKey, VerifyKey
from nacl.exceptions import BadSignatureError
from ..core import Result, Ctx, DriverCrash, known_ids
from .. import vmrun, impl
from ..gen import programs as G, values as V
from . import c06
from .c02 import P, op, ref_verify

L = 2**252 + 27742317777372353535851937790883648493
RULE = ("seeds x messages (0-512 bytes) x tweak scalars (random 32-byte strings clamped / unclamped, edge scalars 1, L-1, 2^255-1, high-bit set): MAKE_ADAPTER_SIG_PUBLIC -> "
        "CHECK_ADAPTER_SIG true; every single-bit corruption of each of the five check inputs -> not true; DECRYPT -> (R+T, sa+t) verifies as an Ed25519 signature under X; "
        "t recovered as s - sa; the adapter itself and decryptions with other scalars are not signatures; builders (locks pub/prv, witness, decrypt) end to end over sigfield "
        "sets and flags; non-trivial = all; distinct = distinct (seed, message, tweak, variant)")


def clamp(t: bytes) -> bytes:
    b = bytearray(t[:32]); b[31] &= 0x7f; return bytes(b)


def run(ctx: Ctx) -> Result:
    res = Result(rule=RULE)
    known = known_ids('C17')
    rng = ctx.sub_rng('c17')
    F, T = impl.functions(), impl.tools()
    cfg = vmrun.Cfg()
    def viol(what, inp, exp, obs):
        if len(res.violations) < 10:
            res.violations.append({'input': {'what': what, **inp}, 'expected': exp, 'observed': obs[:300], 'how_to_run': './check C17 --replay <this file>'})
    def run_s(script, cache=None):
        o = vmrun.run_impl(cfg, cache or {}, script); f = vmrun.fields(o)
        st = f['status']; items = [] if f.get('stack', '-') in ('-', '?') else [bytes.fromhex(x) if x != 'e' else b'' for x in f['stack'].split(',')]
        return st, items, o
    lines = []
    builds = []          # (BUILD2 line for the model's builder, the implementation's bytes)
    def rec(script, cache=None):
        lines.append((cache or {}, script))
    edge_t = [(1).to_bytes(32, 'little'), (L - 1).to_bytes(32, 'little'), (2**255 - 1).to_bytes(32, 'little'), b'\xff' * 32, (8).to_bytes(32, 'little'), (L + 5).to_bytes(32, 'little')]
    for it in range(ctx.n(120, 1500)):
        seed = V.rbytes(rng, 32); sk = SigningKey(seed); X = bytes(sk.verify_key)
        m = V.rbytes(rng, rng.choice([0, 1, 32, 100, 512]))
        t_raw = rng.choice(edge_t) if rng.random() < .25 else V.rbytes(rng, 32)
        t = clamp(t_raw)
        try: Tp = nb.crypto_scalarmult_ed25519_base_noclamp(t)
        except BaseException: continue
        res.note_case((seed, m, t_raw))
        mk = P(seed) + P(m) + P(Tp) + op('MAKE_ADAPTER_SIG_PUBLIC'); rec(mk)
        st, items, o = run_s(mk)
        if st != 'OK' or len(items) != 2:
            viol('MAKE_ADAPTER_SIG_PUBLIC', {'script': mk.hex()}, 'R and sa', o); continue
        R, sa = items
        chk = lambda sa_, R_, m_, T_, X_: P(sa_) + P(R_) + P(m_) + P(T_) + P(X_) + op('CHECK_ADAPTER_SIG')
        sc = chk(sa, R, m, Tp, X); rec(sc)
        st, items, o = run_s(sc)
        if not (st == 'OK' and items[-1] == b'\xff'):
            viol('CHECK_ADAPTER_SIG on an honest adapter', {'script': sc.hex()}, 'true', o)
        # the adapter scalar is accepted only in its canonical form (F17): bit 255 set, or L added, denote the same point
        if it % 4 == 0:
            for what_, sa2 in (('bit 255 of sa set', sa[:31] + bytes([sa[31] | 0x80])), ('sa + L', ((int.from_bytes(sa, 'little') + L) % 2**256).to_bytes(32, 'little'))):
                sc = chk(sa2, R, m, Tp, X); rec(sc)
                st, items, o = run_s(sc)
                if st == 'OK' and items and items[-1] == b'\xff':
                    viol('CHECK_ADAPTER_SIG with a non-canonical adapter scalar (' + what_ + ')', {'script': sc.hex()}, 'false or an error', o)
        # every single bit of every 32-byte check input, for the first adapters of the run (not left to the luck of the draw)
        if it < ctx.n(1, 4):
            for which_ in (0, 1, 3, 4):
                base_ = [sa, R, m, Tp, X]
                for j_ in range(256):
                    v_ = bytearray(base_[which_]); v_[j_ // 8] ^= 1 << (j_ % 8); alt = list(base_); alt[which_] = bytes(v_)
                    sc = chk(*alt)
                    st, items, o = run_s(sc)
                    if st == 'OK' and items and items[-1] == b'\xff':
                        viol('CHECK_ADAPTER_SIG with bit %d of %s flipped' % (j_, ['sa', 'R', 'm', 'T', 'X'][which_]), {'script': sc.hex()}, 'false or an error', o)
        # single-bit corruption of one of the five inputs
        which = rng.randrange(5); vals = [sa, R, m if m else b'\x00', Tp, X]
        v = bytearray(vals[which]); j = rng.randrange(len(v) * 8); v[j // 8] ^= 1 << (j % 8); vals2 = list(vals); vals2[which] = bytes(v)
        if not (which == 2 and not m):
            sc = chk(*vals2); rec(sc)
            st, items, o = run_s(sc)
            if st == 'OK' and items and items[-1] == b'\xff':
                viol('CHECK_ADAPTER_SIG with one input bit flipped (' + ['sa', 'R', 'm', 'T', 'X'][which] + ')', {'script': sc.hex()}, 'false or an error', o)
        # decrypt
        dc = P(sa) + P(R) + P(t_raw) + op('DECRYPT_ADAPTER_SIG'); rec(dc)
        st, items, o = run_s(dc)
        if st != 'OK' or len(items) != 2:
            viol('DECRYPT_ADAPTER_SIG', {'script': dc.hex()}, 'RT and s', o); continue
        RT, s = items
        if RT != nb.crypto_core_ed25519_add(R, Tp): viol('DECRYPT_ADAPTER_SIG nonce point', {'script': dc.hex()}, 'R + T', RT.hex())
        if int.from_bytes(s, 'little') != (int.from_bytes(sa, 'little') + int.from_bytes(t, 'little')) % L:
            viol('DECRYPT_ADAPTER_SIG scalar', {'script': dc.hex()}, 'sa + t mod L', s.hex())
        if not ref_verify(X, m, RT + s):
            viol('decrypted adapter is not a valid Ed25519 signature', {'script': dc.hex(), 'message': m.hex(), 'key': X.hex()}, 'verifies under the signer key', (RT + s).hex())
        rec_t = (int.from_bytes(s, 'little') - int.from_bytes(sa, 'little')) % L
        if rec_t != int.from_bytes(t, 'little') % L:
            viol('tweak recovery t = s - sa', {'script': dc.hex()}, hex(int.from_bytes(t, 'little') % L), hex(rec_t))
        if ref_verify(X, m, R + sa): viol('the adapter itself verifies as a signature', {'script': mk.hex()}, 'not a signature', (R + sa).hex())
        t2 = V.rbytes(rng, 32)
        if nb.crypto_scalarmult_ed25519_base_noclamp(clamp(t2)) != Tp:
            st2, it2, o2 = run_s(P(sa) + P(R) + P(t2) + op('DECRYPT_ADAPTER_SIG'))
            if st2 == 'OK' and len(it2) == 2 and ref_verify(X, m, it2[0] + it2[1]):
                viol('decryption with another scalar verifies', {'script': dc.hex()}, 'not a signature', o2)
    # the cache-copy flags (3..9) only decide what is *also* copied into the cache: with any of them off the instructions return the
    # same stack items
    for it in range(ctx.n(24, 200)):
        seed = V.rbytes(rng, 32); sk = SigningKey(seed); X = bytes(sk.verify_key); m = V.rbytes(rng, rng.choice([1, 20, 64]))
        t_raw = V.rbytes(rng, 32); t = clamp(t_raw); Tp = nb.crypto_scalarmult_ed25519_base_noclamp(t)
        cfg2 = vmrun.Cfg(); cfg2.mask = 2047 ^ rng.choice([1 << 7, 1 << 9, (1 << 7) | (1 << 9), 0b1111111000, 1 << 3, 1 << 8, (1 << 4) | (1 << 6)])
        res.note_case(('flags-off', cfg2.mask, seed, m, t_raw))
        mk = P(seed) + P(m) + P(Tp) + op('MAKE_ADAPTER_SIG_PUBLIC')
        o = vmrun.run_impl(cfg2, {}, mk); f = vmrun.fields(o)
        items = [] if f.get('stack', '-') in ('-', '?') else [bytes.fromhex(x) if x != 'e' else b'' for x in f['stack'].split(',')]
        lines.append(({}, mk))
        if f['status'] != 'OK' or len(items) != 2:
            viol(f'MAKE_ADAPTER_SIG_PUBLIC with integer flags {cfg2.mask:011b}', {'script': mk.hex(), 'cfg': cfg2.line()}, 'R and sa on the stack (as with all flags on)', o); continue
        R, sa = items
        dc = P(sa) + P(R) + P(t_raw) + op('DECRYPT_ADAPTER_SIG')
        o = vmrun.run_impl(cfg2, {}, dc); f = vmrun.fields(o)
        items = [] if f.get('stack', '-') in ('-', '?') else [bytes.fromhex(x) if x != 'e' else b'' for x in f['stack'].split(',')]
        if f['status'] != 'OK' or len(items) != 2 or not ref_verify(X, m, items[0] + items[1]):
            viol(f'DECRYPT_ADAPTER_SIG with integer flags {cfg2.mask:011b}', {'script': dc.hex(), 'cfg': cfg2.line(), 'message': m.hex(), 'key': X.hex()}, '(R+T, sa+t) on the stack, a valid signature', o)
    # a tweak point that EQUALS the adapter's own nonce point (R depends on seed and message only, so anyone who has seen one adapter
    # can ask for it): R + T is 2R, and the adapter is still not a signature
    for it in range(ctx.n(8, 60)):
        seed = V.rbytes(rng, 32); sk = SigningKey(seed); X = bytes(sk.verify_key); m = V.rbytes(rng, rng.choice([1, 20, 64]))
        t = clamp(V.rbytes(rng, 32)); Tp = nb.crypto_scalarmult_ed25519_base_noclamp(t)
        st, it1, o = run_s(P(seed) + P(m) + P(Tp) + op('MAKE_ADAPTER_SIG_PUBLIC'))
        if st != 'OK' or len(it1) != 2: continue
        R1 = it1[0]
        mk2 = P(seed) + P(m) + P(R1) + op('MAKE_ADAPTER_SIG_PUBLIC')
        st2, it2, o2 = run_s(mk2)
        res.note_case(('T-equals-R', seed, m))
        if st2 != 'OK' or len(it2) != 2:
            viol('MAKE_ADAPTER_SIG_PUBLIC with the tweak point equal to the nonce point', {'script': mk2.hex()}, 'an adapter (R, sa)', o2); continue
        Ra, sa2 = it2
        if Ra != R1:
            viol('the nonce point of the second adapter differs (R is a function of seed and message)', {'script': mk2.hex()}, R1.hex(), Ra.hex()); continue
        if ref_verify(X, m, Ra + sa2):
            viol('the adapter made for T = R verifies as a plain signature', {'script': mk2.hex(), 'message': m.hex(), 'key': X.hex()}, 'not a signature (the challenge is over R + T = 2R)', (Ra + sa2).hex())
        twoR = nb.crypto_core_ed25519_add(R1, R1)
        c_ = int.from_bytes(hashlib.sha512(twoR + X + m).digest(), 'little') % L
        lhs = nb.crypto_scalarmult_ed25519_base_noclamp(sa2) if any(sa2) else None
        rhs = nb.crypto_core_ed25519_add(R1, nb.crypto_scalarmult_ed25519_noclamp(c_.to_bytes(32, 'little'), X)) if c_ else R1
        if lhs != rhs:
            viol('the adapter made for T = R does not satisfy sa*G = R + H(2R || X || m)*X', {'script': mk2.hex(), 'message': m.hex(), 'key': X.hex()}, rhs.hex(), str(lhs and lhs.hex()))
    # degenerate tweak points (the neutral element, points of order 2 / 4 / 8): an adapter made or accepted for such a T would be
    # a plain signature (T = 0) or differ from one by a torsion point - neither instruction may produce / accept one
    small = ['0100000000000000000000000000000000000000000000000000000000000000', 'ecffffffffffffffffffffffffffffffffffffffffffffffffffffffffffffff7f',
             '0000000000000000000000000000000000000000000000000000000000000000', '0000000000000000000000000000000000000000000000000000000000000080',
             'c7176a703d4dd84fba3c0b760d10670f2a2053fa2c39ccc64ec7fd7792ac037a', '26e8958fc2b227b045c3f489f2ef98f0d5dfac05d3c63339b13802886d53fc05']
    for hx in small:
        Ts = bytes.fromhex(hx)
        for it in range(ctx.n(2, 6)):
            seed = V.rbytes(rng, 32); sk = SigningKey(seed); X = bytes(sk.verify_key); m = V.rbytes(rng, rng.choice([1, 20, 64]))
            res.note_case(('degenerate-T', hx, seed, m))
            mk = P(seed) + P(m) + P(Ts) + op('MAKE_ADAPTER_SIG_PUBLIC'); rec(mk)
            st, items, o = run_s(mk)
            if st == 'OK' and len(items) == 2 and ref_verify(X, m, items[0] + items[1]):
                viol('MAKE_ADAPTER_SIG_PUBLIC with a degenerate tweak point returns a plain signature as "adapter"', {'script': mk.hex(), 'message': m.hex(), 'key': X.hex(), 'T': hx}, 'an error (invalid point), or an adapter that is not a signature', o)
            sig = sk.sign(m).signature
            sc = P(sig[32:]) + P(sig[:32]) + P(m) + P(Ts) + P(X) + op('CHECK_ADAPTER_SIG'); rec(sc)
            st, items, o = run_s(sc)
            if st == 'OK' and items and items[-1] == b'\xff':
                viol('CHECK_ADAPTER_SIG accepts a plain signature as an adapter for a degenerate tweak point', {'script': sc.hex(), 'T': hx}, 'false or an error', o)
    # what the instruction leaves in the cache (flags on by default): the cached R / sa / T are the adapter and its tweak point,
    # so reading them back must pass the adapter check exactly like the stack outputs
    rd = lambda k: op('READ_CACHE') + bytes([len(k)]) + k
    for it in range(ctx.n(20, 200)):
        seed = V.rbytes(rng, 32); X = bytes(SigningKey(seed).verify_key); m = V.rbytes(rng, rng.choice([0, 1, 20, 100]) ) or b'm'
        t_raw = V.rbytes(rng, 32); Tp = nb.crypto_scalarmult_ed25519_base_noclamp(clamp(t_raw))
        sc = P(seed) + P(m) + P(Tp) + op('MAKE_ADAPTER_SIG_PUBLIC') + op('POP0') + op('POP0') + rd(b'sa') + rd(b'R') + P(m) + rd(b'T') + P(X) + op('CHECK_ADAPTER_SIG')
        rec(sc); res.note_case(('cached-triple', seed, m, t_raw))
        st, items, o = run_s(sc)
        if not (st == 'OK' and items and items[-1] == b'\xff'):
            viol('the cached (sa, R, T) of MAKE_ADAPTER_SIG_PUBLIC do not pass CHECK_ADAPTER_SIG', {'script': sc.hex(), 'message': m.hex(), 'key': X.hex()}, 'true', o)
    # the PRIVATE construction (known finding K4) is at least *executed* on the model and the implementation for every kind of
    # tweak scalar - clamped, unclamped with bit 255 set, edge scalars - so that a change to it shows in the correspondence
    for it in range(ctx.n(24, 200)):
        seed = V.rbytes(rng, 32); m = V.rbytes(rng, rng.choice([1, 20, 64]))
        tw = rng.choice([V.rbytes(rng, 32), bytes(V.rbytes(rng, 31)) + bytes([0x80 | rng.getrandbits(7)]), clamp(V.rbytes(rng, 32)), (1).to_bytes(32, 'little'), (L - 1).to_bytes(32, 'little'),
                         (2**255 + 5).to_bytes(32, 'little'), b'\xff' * 32])
        sc = P(m) + P(tw) + P(seed) + op('MAKE_ADAPTER_SIG_PRIVATE')
        rec(sc); res.note_case(('private', seed, m, tw))
        sc2 = sc + op('POP0') + op('POP0') + op('POP0') + rd(b't') + rd(b'T') + rd(b'sa')
        rec(sc2)
    # histories in one cache: an earlier adapter for another tweak point must not influence a later decryption
    for it in range(ctx.n(30, 300)):
        seed = V.rbytes(rng, 32); X = bytes(SigningKey(seed).verify_key); m = V.rbytes(rng, 20)
        t1, t2 = clamp(V.rbytes(rng, 32)), V.rbytes(rng, 32)
        T1 = nb.crypto_scalarmult_ed25519_base_noclamp(t1); T2 = nb.crypto_scalarmult_ed25519_base_noclamp(clamp(t2))
        res.note_case(('history', seed, m, t1, t2))
        st, items, o = run_s(P(seed) + P(m) + P(T2) + op('MAKE_ADAPTER_SIG_PUBLIC'))
        if st != 'OK': continue
        R2, sa2 = items
        hist = P(seed) + P(b'other') + P(T1) + op('MAKE_ADAPTER_SIG_PUBLIC') + op('POP0') + op('POP0') + P(sa2) + P(R2) + P(t2) + op('DECRYPT_ADAPTER_SIG')
        rec(hist)
        st, items, o = run_s(hist)
        if st != 'OK' or len(items) != 2 or not ref_verify(X, m, items[0] + items[1]):
            viol('decrypt after an earlier adapter for a different tweak point (same cache)', {'script': hist.hex(), 'message': m.hex(), 'key': X.hex()}, 'a valid signature (R+T, sa+t)', o)
    # the library's own tweak recovery (t = s - sa, release_left_amhl_lock with y = 0): exact for the 64-byte signature; given the
    # 65-byte form (signature || flag byte) it refuses or recovers the same scalar
    for it in range(ctx.n(60, 600)):
        sa_ = (rng.getrandbits(252)).to_bytes(32, 'little'); s_ = (rng.getrandbits(252)).to_bytes(32, 'little'); R_ = V.rbytes(rng, 32)
        wit = b'\x03\x20' + sa_ + b'\x03\x20' + R_
        want = ((int.from_bytes(s_, 'little') - int.from_bytes(sa_, 'little')) % L).to_bytes(32, 'little')
        res.note_case(('recover', sa_, s_))
        for sigform in (R_ + s_, R_ + s_ + bytes([rng.choice([1, 2, 0x80])])):
            try: got = T.release_left_amhl_lock(wit, sigform, bytes(32))
            except BaseException: got = want if len(sigform) == 65 else b'ERR'
            if got != want:
                viol(f'tweak recovery from the {len(sigform)}-byte signature form', {'adapter_witness': wit.hex(), 'signature': sigform.hex()}, want.hex(), got.hex() if got != b'ERR' else 'raised')
    # builders end to end
    for it in range(ctx.n(40, 400)):
        seed = V.rbytes(rng, 32); sk = SigningKey(seed); X = bytes(sk.verify_key)
        t_raw = V.rbytes(rng, 32); t = clamp(t_raw); Tp = nb.crypto_scalarmult_ed25519_base_noclamp(t)
        flags = rng.choice(['00', '00', '01', '02', '03', '80'])
        sf = {f'sigfield{i}': V.rbytes(rng, rng.choice([1, 8, 30])) for i in range(1, 9) if rng.random() < .5}
        if not sf: sf['sigfield1'] = b'x'
        if it % 8 == 5: sf = {f'sigfield{rng.randrange(1, 9)}': b''}            # the 0-byte message: a present but empty sigfield
        if it % 8 == 6: sf = {f'sigfield{rng.randrange(1, 9)}': b'', f'sigfield{rng.randrange(1, 9)}': b''}
        res.note_case(('builders', seed, t_raw, flags, tuple(sorted(sf))))
        try:
            w = T.make_adapter_witness(seed, Tp, sf, flags)
            l1, l3 = T.make_adapter_locks_pub(X, Tp, flags)
            p1, p2, p3 = T.make_adapter_locks_prv(X, t_raw, flags)
            builds.append((f'BUILD2 adapter_lock1 {X.hex()} {Tp.hex()} {int(flags, 16)}', l1.bytes.hex()))
            builds.append((f'BUILD2 single_sig_lock {X.hex()} {int(flags, 16)}', l3.bytes.hex()))
            builds.append((f'BUILD2 adapter_decrypt {t_raw.hex()}', p2.bytes.hex()))
            if (p1.bytes, p3.bytes) != (l1.bytes, l3.bytes):
                viol('make_adapter_locks_prv vs make_adapter_locks_pub(X, t*G)', {'seed': seed.hex(), 'tweak': t_raw.hex(), 'flags': flags}, l1.bytes.hex() + ' / ' + l3.bytes.hex(), p1.bytes.hex() + ' / ' + p3.bytes.hex())
            with vmrun.Env(cfg) as env:
                ok1 = env.F.run_auth_scripts([w.bytes, l1.bytes], dict(sf))
                sig = T.decrypt_adapter(w, t_raw)
                # the decrypt builder works on the (sa, R) pair the adapter witness leaves on TOP: whatever else a witness pushed first stays below
                for pre_ in (bytes([3, 9]) + b'unrelated', bytes([3, 32]) + t):
                    sig_b = T.decrypt_adapter(pre_ + w.bytes, t_raw)
                    if sig_b != sig:
                        viol('decrypt_adapter on an adapter witness that pushed another item first (e.g. the tweak scalar of the single-script lock)', {'seed': seed.hex(), 'tweak': t_raw.hex(), 'witness': (pre_ + w.bytes).hex()}, sig.hex(), sig_b.hex())
                wsig = T.Script.from_src('push x' + sig.hex() + (flags if flags != '00' else ''))
                ok3 = env.F.run_auth_scripts([wsig.bytes, l3.bytes], dict(sf))
                okp = env.F.run_auth_scripts([w.bytes, p2.bytes], dict(sf)) if False else True
                bad = T.decrypt_adapter(w, V.rbytes(rng, 32))
                okbad = env.F.run_auth_scripts([T.Script.from_src('push x' + bad.hex() + (flags if flags != '00' else '')).bytes, l3.bytes], dict(sf))
                sf2 = dict(sf); k0 = sorted(sf)[0]; sf2[k0] = sf2[k0] + b'!'
                covered = not (int(flags, 16) >> (int(k0[-1]) - 1)) & 1
                okm = env.F.run_auth_scripts([w.bytes, l1.bytes], sf2)
            inp = {'seed': seed.hex(), 'tweak': t_raw.hex(), 'flags': flags, 'sigfields': {k: v.hex() for k, v in sf.items()}}
            if not ok1: viol('builder: honest adapter witness vs adapter-check lock', inp, 'True', str(ok1))
            if not ok3: viol('builder: decrypted signature vs signature lock', inp, 'True', str(ok3))
            if okbad: viol('builder: decryption with a random scalar unlocks the signature lock', inp, 'False', str(okbad))
            if okm and covered: viol('builder: adapter witness accepted for a different covered sigfield', inp, 'False', str(okm))
            lines.append((dict(sf), w.bytes + l1.bytes)); lines.append((dict(sf), wsig.bytes + l3.bytes))
            # the single-script lock (tweak scalar, then the adapter): bound to the tweak point it was built for
            s_pub = T.make_adapter_lock_pub(X, Tp, flags); s_prv = T.make_adapter_lock_prv(X, t_raw, flags)
            builds.append((f'BUILD2 adapter_lock_pub {X.hex()} {Tp.hex()} {int(flags, 16)}', s_pub.bytes.hex()))
            if s_pub.bytes != s_prv.bytes:
                viol('make_adapter_lock_prv vs make_adapter_lock_pub(X, t*G)', inp, s_pub.bytes.hex(), s_prv.bytes.hex())
            t2_raw = V.rbytes(rng, 32); T2p = nb.crypto_scalarmult_ed25519_base_noclamp(clamp(t2_raw))
            w2 = T.make_adapter_witness(seed, T2p, sf, flags)            # a perfectly good adapter - for another tweak point
            def un(tw, wit): return T.compile_script(f'push x{tw.hex()} {wit.src}')
            with vmrun.Env(cfg) as env:
                h_ok = env.F.run_auth_scripts([un(t_raw, w), s_pub.bytes], dict(sf))
                forged = env.F.run_auth_scripts([un(t2_raw, w2), s_pub.bytes], dict(sf))
                mixed = env.F.run_auth_scripts([un(t2_raw, w), s_pub.bytes], dict(sf))
                mixed2 = env.F.run_auth_scripts([un(t_raw, w2), s_pub.bytes], dict(sf))
            inp2 = {**inp, 'other_tweak': t2_raw.hex(), 'lock': s_pub.bytes.hex()}
            if not h_ok: viol('single-script adapter lock: adapter for T opened with t', {**inp2, 'scripts': [un(t_raw, w).hex(), s_pub.bytes.hex()]}, 'True', str(h_ok))
            if forged: viol('single-script adapter lock built for T accepts an adapter made for another tweak point T2 opened with t2', {**inp2, 'scripts': [un(t2_raw, w2).hex(), s_pub.bytes.hex()]}, 'False', str(forged))
            if mixed: viol('single-script adapter lock: adapter for T opened with a different scalar', {**inp2, 'scripts': [un(t2_raw, w).hex(), s_pub.bytes.hex()]}, 'False', str(mixed))
            if mixed2: viol('single-script adapter lock: adapter for T2 opened with t', {**inp2, 'scripts': [un(t_raw, w2).hex(), s_pub.bytes.hex()]}, 'False', str(mixed2))
            lines.append((dict(sf), un(t_raw, w) + s_pub.bytes)); lines.append((dict(sf), un(t2_raw, w2) + s_pub.bytes))
        except BaseException as e:
            viol('adapter builders raised', {'seed': seed.hex(), 'tweak': t_raw.hex(), 'flags': flags}, 'no exception', type(e).__name__ + ': ' + str(e))
    # K4: the PRIVATE construction does not satisfy the adapter check
    seed = bytes(range(32)); t_raw = bytes(range(1, 33)); m = b'msg'
    st, items, o = run_s(P(m) + P(t_raw) + P(seed) + op('MAKE_ADAPTER_SIG_PRIVATE'))
    if st == 'OK' and len(items) == 3:
        Tp, R, sa = items; X = bytes(SigningKey(seed).verify_key)
        st2, it2, o2 = run_s(P(sa) + P(R) + P(m) + P(Tp) + P(X) + op('CHECK_ADAPTER_SIG'))
        if not (st2 == 'OK' and it2[-1] == b'\xff'):
            if 'K4' in known: res.known.append(('K4', 'OP_MAKE_ADAPTER_SIG_PRIVATE output (T, R, sa = t + r + c*x) never satisfies OP_CHECK_ADAPTER_SIG (upstream issue #18)'))
            else: viol('MAKE_ADAPTER_SIG_PRIVATE vs CHECK_ADAPTER_SIG', {'finding': 'K4'}, 'true', o2)
    # the four adapter instructions under every documented spelling (full name, OP_-less name, short alias, OP_ + short alias, any case)
    # assemble to the instruction the documentation names - a script written with an alias makes the adapter the others check
    P_ = impl.parsing()
    for full, short in (('MAKE_ADAPTER_SIG_PUBLIC', 'MASU'), ('MAKE_ADAPTER_SIG_PRIVATE', 'MASV'), ('CHECK_ADAPTER_SIG', 'CAS'), ('DECRYPT_ADAPTER_SIG', 'DAS')):
        for sp in ('OP_' + full, full, short, 'OP_' + short, ('OP_' + short).lower(), short.lower(), full.lower()):
            res.note_case(('spelling', sp))
            try: got = P_.compile_script('true ' + sp + ' false').hex()
            except BaseException as e: got = 'ERR:' + type(e).__name__
            want = (b'\x01' + op(full) + b'\x00').hex()
            if got != want: viol(f'the spelling `{sp}` of OP_{full}', {'source': 'true ' + sp + ' false'}, want, got)
    # a sign_script_prefix runs before the message is built - in the witness builder as in a lock that carries the same prefix: with
    # a signature extension that the prefix switches on, the adapter is over the extended message (passes the prefixed lock, decrypts
    # to a signature the prefixed signature lock accepts) and is not an adapter for the plain lock
    import hashlib as _hl
    def _ext(tape, stack, cache):
        if b'sigext' not in cache: return
        if 'sigfield2_orig' not in cache: cache['sigfield2_orig'] = cache.get('sigfield2', b'')
        cache['sigfield2'] = _hl.sha256(cache['sigfield2_orig']).digest()
    F.add_signature_extension(_ext)
    try:
        for it in range(ctx.n(6, 40)):
            seed = V.rbytes(rng, 32); X = bytes(SigningKey(seed).verify_key)
            t_raw = V.rbytes(rng, 32); t = clamp(t_raw); Tp = nb.crypto_scalarmult_ed25519_base_noclamp(t)
            sf = {'sigfield1': V.rbytes(rng, 8), 'sigfield2': V.rbytes(rng, rng.choice([1, 24, 60]))}
            prefix = '@= sigext [ x02 ]'
            res.note_case(('prefix-extension', seed, t_raw))
            try:
                l1, l3 = T.make_adapter_locks_pub(X, Tp)
                e1 = T.Script.from_src(prefix + ' ' + l1.src); e3 = T.Script.from_src(prefix + ' ' + l3.src)
                w1 = T.make_adapter_witness(seed, Tp, sf, sign_script_prefix=prefix)
                with vmrun.Env(cfg) as env:
                    a_ = env.F.run_auth_scripts([w1.bytes, e1.bytes], dict(sf))
                    b_ = env.F.run_auth_scripts([w1.bytes, l1.bytes], dict(sf))
                    sg = T.decrypt_adapter(w1, t_raw)
                    c_ = env.F.run_auth_scripts([T.Script.from_src('push x' + sg.hex()).bytes, e3.bytes], dict(sf))
                inp = {'seed': seed.hex(), 'tweak': t_raw.hex(), 'sigfields': {k: v.hex() for k, v in sf.items()}, 'sign_script_prefix': prefix, 'extension': 'sigfield2 := sha256(sigfield2) when cache[b"sigext"] is set'}
                if not a_: viol('adapter witness built with a sign_script_prefix vs the adapter lock carrying the same prefix', inp, 'True', a_)
                if b_: viol('adapter witness built with a sign_script_prefix passes the plain adapter lock (another message)', inp, 'False', b_)
                if not c_: viol('decrypted signature of a prefixed adapter witness vs the prefixed signature lock', inp, 'True', c_)
            except BaseException as e:
                if isinstance(e, (KeyboardInterrupt, SystemExit)): raise
                viol('adapter builders with a sign_script_prefix raised', {'seed': seed.hex()}, 'no exception', type(e).__name__ + ': ' + str(e)[:100])
    finally:
        F.remove_signature_extension(_ext)
    # model vs implementation
    if ctx.driver.available:
        try:
            outs = []
            def work():
                for cache, script in lines: outs.append(vmrun.run_impl(cfg, cache, script))
            vmrun.in_big_thread(work)
            replies = ctx.driver.run([vmrun.case_line('RUN', cfg, c, [s]) for c, s in lines])
            for (c, s), r, o in zip(lines, replies, outs):
                ok, soft, why = vmrun.compare_run(r, o)
                if not ok and len(res.disagreements) < 20:
                    res.disagreements.append({'script': s.hex()[:200], 'why': why, 'model': r[:160], 'impl': o[:160]})
            for (line, got), r in zip(builds, ctx.driver.run([b[0] for b in builds])):
                if r != got and len(res.disagreements) < 20:
                    res.disagreements.append({'builder': line, 'model': r[:300], 'impl': got[:300]})
        except DriverCrash as e:
            res.disagreements.append({'driver': str(e)[:300]})
    else:
        res.disagreements.append({'driver': 'not built'})
    res.sample({'make_adapter_sig_public': lines[0][1].hex()[:200]})
    res.stats['scripts_compared_with_model'] = len(lines)
    res.stats['builder_outputs_compared_with_model'] = len(builds)
    res.stats['search'] = 'each case judged on the implementation alone by independent integer / PyNaCl arithmetic'
    for v in res.violations:
        if v['input'].get('finding') == 'K4': v['finding'] = 'K4'
    return res


def replay(ctx: Ctx, payload) -> bool:
    inp = payload['input']
    if 'script' not in inp: return False
    o = vmrun.in_big_thread(vmrun.run_impl, vmrun.Cfg(), {}, bytes.fromhex(inp['script']))
    print(o[:300]); f = vmrun.fields(o)
    top = f['stack'].split(',')[-1] if f.get('stack', '-') not in ('-', '?') else None
    if payload['expected'] == 'true': return f['status'] == 'OK' and top == 'ff'
    if payload['expected'].startswith('false'): return not (f['status'] == 'OK' and top == 'ff')
    return False
