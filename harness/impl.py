"""In-process access to the real tapescript from /repo's working tree."""
from __future__ import annotations
import importlib, sys


def functions():
    import tapescript.functions as F
    return F

def parsing():
    import tapescript.parsing as P
    return P

def tools():
    import tapescript.tools as T
    return T

def classes():
    import tapescript.classes as C
    return C
