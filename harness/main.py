"""CLI: ./check <Cxx> --tier quick|thorough [--replay file]"""
from __future__ import annotations
import argparse, importlib, json, os, sys, time, traceback
from . import core
from .core import log


def main():
    ap = argparse.ArgumentParser()
    ap.add_argument('pid')
    ap.add_argument('--tier', default=os.environ.get('VERIF_TIER', 'quick'), choices=['quick', 'thorough'])
    ap.add_argument('--replay')
    a = ap.parse_args()
    seed = int(os.environ.get('VERIF_SEED', '0') or 0)
    pid = a.pid.upper()
    mod = importlib.import_module(f'harness.props.{pid.lower()}')
    ctx = core.Ctx(pid, a.tier, seed)

    if a.replay:
        payload = json.load(open(a.replay))
        ok = mod.replay(ctx, payload)
        print(('REPLAY-HOLDS' if ok else f'VIOLATION property={pid} replay={a.replay}'))
        sys.exit(0 if ok else 1)

    try:
        ctx.build = core.build_and_audit(pid, a.tier)
        rep = ctx.build
        if not rep.driver_ok:
            ctx.driver.available = False
        log(f'[{pid}] build: tables={rep.tables_ok} props={rep.props_ok} driver={rep.driver_ok} '
            f'obligations={rep.obligations} discharged={rep.discharged}')
        res = mod.run(ctx)
    except Exception:
        traceback.print_exc()
        log(f'[{pid}] internal error')
        sys.exit(2)

    known = core.known_ids(pid)
    new_viol = [v for v in res.violations if v.get('finding') not in known]
    exit_code = 0
    for fid, text in res.known:
        print(f'KNOWN-FINDING: property={pid} {fid} {text}')
    if new_viol:
        v = new_viol[0]
        rel = core.write_replay(pid, {'property': pid, 'kind': 'failing-input', **v,
                                      'others': len(new_viol) - 1})
        print(f'VIOLATION property={pid} replay={rel}')
        exit_code = 1
    elif not rep.ok or res.disagreements:
        broken = []
        if not rep.tables_ok: broken.append({'translator': rep.tables_log})
        if not rep.props_ok: broken.append({'lean_build': rep.log[-3000:]})
        if not rep.driver_ok: broken.append({'driver_build': rep.log[-3000:]})
        if rep.forbidden: broken.append({'forbidden_constructs': rep.forbidden})
        if rep.bad_axioms: broken.append({'axioms': rep.bad_axioms})
        if rep.failed_theorems: broken.append({'theorems_not_checked': rep.failed_theorems})
        if not rep.leanchecker_ok: broken.append({'leanchecker': rep.leanchecker})
        if res.disagreements:
            broken.append({'correspondence': res.disagreements[:5], 'count': len(res.disagreements)})
        rel = core.write_replay(pid, {'property': pid, 'kind': 'no-failing-input-found',
                                      'no_longer_checks': broken,
                                      'search': res.stats.get('search', 'property oracle run on the disagreeing cases and their mutants found no input on which the property fails')})
        print(f'VIOLATION property={pid} replay={rel} no-failing-input-found')
        exit_code = 1
    core.write_evidence(ctx, res, len(new_viol))
    log(f'[{pid}] {a.tier} seed={seed} evaluations={res.evaluations} distinct={len(res.distinct)} '
        f'disagreements={len(res.disagreements)} violations={len(new_viol)} wall={time.time()-ctx.t0:.1f}s')
    sys.exit(exit_code)


if __name__ == '__main__':
    main()
