"""Shared helpers for the lock / witness builder properties (C04, C05, C13, C14, C15)."""
from __future__ import annotations
from . import vmrun, impl
from .core import DriverCrash


class Bench:
    """runs run_auth_scripts with a pinned clock, records every list for the model comparison"""
    def __init__(self, ctx, res, now=vmrun.NOW):
        self.ctx, self.res, self.now = ctx, res, now
        self.F, self.T = impl.functions(), impl.tools()
        self.records = []      # (cfg, cache, scripts, impl verdict)
        self.builds = []       # (BUILD2 line, implementation bytes hex or ERR)
    def cfg(self, now=None):
        return vmrun.Cfg(now=self.now if now is None else now)
    def auth(self, scripts, cache, now=None, record=True):
        cfg = self.cfg(now)
        scripts = [bytes(s) for s in scripts]
        o = vmrun.auth_impl(cfg, cache, scripts)
        v = o.split(' ')[0]
        if record and len(self.records) < 6000:
            self.records.append((cfg, dict(cache), scripts, o))
        return v == 'T', v
    def pinned(self):
        """context manager: builders that call time() see the pinned clock"""
        b = self
        class _P:
            def __enter__(s_):
                s_.saved = (b.F.time, b.T.time)
                b.F.time = lambda: b.now + vmrun.FRAC
                b.T.time = b.F.time
            def __exit__(s_, *a):
                b.F.time, b.T.time = s_.saved
        return _P()
    def build(self, line, got):
        self.builds.append((line, got))
    def viol(self, what, inp, exp, obs):
        if len(self.res.violations) < 10:
            self.res.violations.append({'input': {'what': what, **inp}, 'expected': str(exp)[:400], 'observed': str(obs)[:400], 'how_to_run': 'see input; ./check <id> --replay <this file> re-runs the recorded scripts'})
    def rerun(self, limit=1500):
        """history independence: the same list, run again after everything else ran in this process, gives the same verdict"""
        step = max(1, len(self.records) // limit)
        n = 0
        for c, ca, sc, o in self.records[::step]:
            o2 = vmrun.auth_impl(c, ca, sc); n += 1
            if o2.split(' ')[0] != o.split(' ')[0]:
                self.viol('the verdict of the same script list changed after other lists ran in the same process (state kept between runs)',
                          {'scripts': [s.hex() for s in sc], 'cache': vmrun.cache_str(ca, False), 'limits': c.line()}, o.split(' ')[0] + ' (first run)', o2.split(' ')[0] + ' (run again later)')
        self.res.stats['lists_run_again_for_history_independence'] = n

    def finish(self):
        """model vs implementation: verdicts (and final state) of every recorded list, and builder bytes"""
        ctx, res = self.ctx, self.res
        self.rerun()
        if not ctx.driver.available:
            res.disagreements.append({'driver': 'not built'}); return
        try:
            lines = [vmrun.case_line('AUTH', c, ca, sc) for c, ca, sc, o in self.records]
            replies = ctx.driver.run(lines + [b[0] for b in self.builds])
            for (c, ca, sc, o), r in zip(self.records, replies):
                ok, why = vmrun.compare_auth(r, o)
                if not ok and len(res.disagreements) < 20:
                    res.disagreements.append({'cfg': c.line(), 'cache': vmrun.cache_str(ca, False)[:2000], 'scripts': [s.hex()[:6000] for s in sc], 'why': why, 'model': r[:1500], 'impl': o[:1500]})
            for (line, got), r in zip(self.builds, replies[len(lines):]):
                if r != got and not (r.startswith('ERR') and got.startswith('ERR')) and len(res.disagreements) < 20:
                    res.disagreements.append({'builder': line[:200], 'model': r[:300], 'impl': got[:300]})
            res.stats['lists_compared_with_model'] = len(lines); res.stats['builder_outputs_compared_with_model'] = len(self.builds)
        except DriverCrash as e:
            res.disagreements.append({'driver': str(e)[:300]})


def try_build(fn, *a, **kw):
    try:
        return fn(*a, **kw)
    except BaseException as e:
        return 'ERR:' + type(e).__name__


def hexof(x):
    return x if isinstance(x, str) else (x.bytes.hex() or '-')


def replay_scripts(payload):
    """generic replay: re-run the recorded scripts and compare the verdict with the expectation"""
    inp = payload['input']
    if 'scripts' not in inp: return False
    cfg = vmrun.Cfg(now=inp.get('now', vmrun.NOW))
    from .props.c06 import parse_case
    _, cache = parse_case(cfg.line(), inp.get('cache', '-'))
    o = vmrun.in_big_thread(vmrun.auth_impl, cfg, cache, [bytes.fromhex(s) for s in inp['scripts']])
    print(o[:200], 'expected', payload['expected'])
    return (o.split(' ')[0] == 'T') == (str(payload['expected']).startswith('True'))
