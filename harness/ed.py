"""Pure-Python edwards25519 arithmetic (RFC 8032 reference formulas): an oracle that shares no
code with PyNaCl / libsodium or with the Lean model."""
import hashlib

P = 2**255 - 19
L = 2**252 + 27742317777372353535851937790883648493
D = -121665 * pow(121666, P - 2, P) % P
I = pow(2, (P - 1) // 4, P)


def _inv(x): return pow(x, P - 2, P)


def _xrecover(y):
    xx = (y * y - 1) * _inv(D * y * y + 1) % P
    x = pow(xx, (P + 3) // 8, P)
    if (x * x - xx) % P != 0: x = x * I % P
    if (x * x - xx) % P != 0: return None
    if x % 2 != 0: x = P - x
    return x


BY = 4 * _inv(5) % P
B = (_xrecover(BY), BY)
ZERO = (0, 1)


def _ext(p):
    x, y = p
    return (x, y, 1, x * y % P)


def _aff(e):
    X, Y, Z, _ = e
    zi = _inv(Z)
    return (X * zi % P, Y * zi % P)


def _eadd(p, q):
    """extended-coordinate addition (RFC 8032 section 5.1.4), complete for every pair of curve points"""
    X1, Y1, Z1, T1 = p; X2, Y2, Z2, T2 = q
    A = (Y1 - X1) * (Y2 - X2) % P
    Bv = (Y1 + X1) * (Y2 + X2) % P
    C = T1 * 2 * D * T2 % P
    Dv = Z1 * 2 * Z2 % P
    E, F, G_, H = Bv - A, Dv - C, Dv + C, Bv + A
    return (E * F % P, G_ * H % P, F * G_ % P, E * H % P)


def add(p, q):
    return _aff(_eadd(_ext(p), _ext(q)))


def mul(n, p):
    q = _ext(ZERO); e = _ext(p)
    while n > 0:
        if n & 1: q = _eadd(q, e)
        e = _eadd(e, e); n >>= 1
    return _aff(q)


def neg(p):
    x, y = p
    return ((P - x) % P, y)


def enc(p):
    x, y = p
    return (y | ((x & 1) << 255)).to_bytes(32, 'little')


def dec(b):
    v = int.from_bytes(b, 'little')
    y = v & (2**255 - 1); sign = v >> 255
    if y >= P: return None
    x = _xrecover(y)
    if x is None: return None
    if x == 0 and sign: return None
    if (x & 1) != sign: x = P - x
    return (x, y)


def taproot_root(pubkey: bytes, script: bytes) -> bytes:
    """P + clamp(sha256(P || sha256(S))) * G, clamp = clear bit 255 (as functions.clamp_scalar does for a non-key scalar)"""
    h = hashlib.sha256(pubkey + hashlib.sha256(script).digest()).digest()
    t = int.from_bytes(h, 'little') & (2**255 - 1)
    return enc(add(dec(pubkey), mul(t, B)))


def verify(pk: bytes, msg: bytes, sig: bytes) -> bool:
    """cofactorless Ed25519 verification equation s*B == R + H(R||A||m)*A (no canonicity checks)"""
    if len(sig) != 64 or len(pk) != 32: return False
    A = dec(pk); R = dec(sig[:32])
    if A is None or R is None: return False
    s = int.from_bytes(sig[32:], 'little')
    h = int.from_bytes(hashlib.sha512(sig[:32] + pk + msg).digest(), 'little') % L
    return mul(s, B) == add(R, mul(h, A))
