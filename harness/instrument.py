"""Trace-level instrumentation of the real VM through its public objects: recording Stack /
deque / Tape / dict subclasses and wrapped dispatch-table entries. Nothing in /repo is edited;
everything is installed and removed in-process around a single run."""
from __future__ import annotations
import copy
from collections import deque
from . import impl


class Trace:
    def __init__(self):
        self.events = []          # property-relevant anomalies: (kind, detail)
        self.max_depth = 0        # stack high-water mark
        self.max_item = 0
        self.fetches = 0
        self.fetch_with_return = 0
        self.call_depth = 0
        self.max_call_depth = 0
        self.max_loop_iter = 0
        self.str_writes = []      # (op, key) writes / deletes of str keys
        self.backward_reads = 0
        self.run_tapes = 0
    def flag(self, kind, detail=''):
        if len(self.events) < 20:
            self.events.append((kind, str(detail)[:200]))


def make_classes(F, tr: Trace):
    C = impl.classes()

    class RecDeque(deque):
        in_put = False
        main = False          # only the VM's own stack is judged (CHECK_TEMPLATE builds a private Stack())
        def append(self, x):
            if not self.main:
                return super().append(x)
            if not RecDeque.in_put:
                tr.flag('deque-append-outside-put')
            if self.maxlen is not None and len(self) >= self.maxlen:
                tr.flag('item-dropped', 'append on a full deque silently discards the bottom item')
            super().append(x)
            tr.max_depth = max(tr.max_depth, len(self))
            if isinstance(x, (bytes, bytearray)):
                tr.max_item = max(tr.max_item, len(x))
        def extend(self, xs):
            xs = list(xs)
            if not self.main:
                return super().extend(xs)
            tr.flag('deque-extend-bypasses-put')
            if self.maxlen is not None and len(self) + len(xs) > self.maxlen:
                tr.flag('item-dropped', 'extend past maxlen silently discards bottom items')
            super().extend(xs)
            tr.max_depth = max(tr.max_depth, len(self))
            for x in xs:
                if isinstance(x, (bytes, bytearray)):
                    tr.max_item = max(tr.max_item, len(x))
        def appendleft(self, x):
            tr.flag('deque-appendleft'); super().appendleft(x)
        def extendleft(self, xs):
            tr.flag('deque-extendleft'); super().extendleft(xs)
        def insert(self, i, x):
            tr.flag('deque-insert'); super().insert(i, x)
        def __setitem__(self, i, x):
            if self.main and isinstance(x, (bytes, bytearray)):
                tr.max_item = max(tr.max_item, len(x))
            super().__setitem__(i, x)
        def __iadd__(self, xs):
            tr.flag('deque-iadd-bypasses-put'); return super().__iadd__(xs)

    class RecStack(C.Stack):
        first_is_main = False
        seen = False
        def __init__(self, max_items=1024, max_item_size=1024):
            super().__init__(max_items, max_item_size)
            # same contents and the same bound as the deque the real constructor made (not the bound it *should* have)
            self.deque = RecDeque(self.deque, maxlen=self.deque.maxlen)
            if RecStack.first_is_main and not RecStack.seen:
                # run_script / run_auth_scripts build the VM's stack themselves: the first Stack made in this context is that one
                RecStack.seen = True; self.deque.main = True
        def put(self, item):
            RecDeque.in_put = True
            try:
                return super().put(item)
            finally:
                RecDeque.in_put = False

    class RecTape(C.Tape):
        def read(self, size, move_pointer=True):
            if size < 0:
                tr.backward_reads += 1
                tr.flag('negative-read', size)
            before = self.pointer
            r = super().read(size, move_pointer)
            if self.pointer < before:
                tr.flag('pointer-moved-backwards-in-read', (before, self.pointer))
            if self.pointer > len(self.data):
                tr.flag('pointer-past-end', (self.pointer, len(self.data)))
            return r
        def move_pointer(self, n):
            if n < 0:
                tr.flag('negative-move', n)
            return super().move_pointer(n)

    class RecDict(dict):
        def _w(self, op, k):
            if not isinstance(k, bytes):
                tr.str_writes.append((op, k))
        def __setitem__(self, k, v): self._w('set', k); super().__setitem__(k, v)
        def __delitem__(self, k): self._w('del', k); super().__delitem__(k)
        def pop(self, k, *a):
            if k in self: self._w('pop', k)
            return super().pop(k, *a)
        def popitem(self):
            k, v = super().popitem(); self._w('popitem', k); return k, v
        def setdefault(self, k, d=None):
            if k not in self: self._w('setdefault', k)
            return super().setdefault(k, d)
        def update(self, *a, **kw):
            for k in dict(*a, **kw): self._w('update', k)
            super().update(*a, **kw)
        def clear(self):
            for k in list(self): self._w('clear', k)
            super().clear()
        def __ior__(self, o):
            for k in o: self._w('ior', k)
            return super().__ior__(o)

    return RecStack, RecTape, RecDict


class Instrumented:
    """Context manager: installs recording classes in tapescript.functions and wraps every
    dispatch-table entry (fetch hygiene, CALL/EVAL depth, LOOP iterations)."""
    def __init__(self, tr: Trace, limit=None, factor=1, auto_main=False):
        self.auto_main = auto_main
        self.F = impl.functions()
        self.tr = tr
        self.limit = limit
        self.factor = factor
    def __enter__(self):
        F, tr = self.F, self.tr
        self.RecStack, self.RecTape, self.RecDict = make_classes(F, tr)
        self.RecStack.first_is_main = self.auto_main
        self.saved = dict(Tape=F.Tape, Stack=F.Stack, opcodes=dict(F.opcodes), nopcodes=dict(F.nopcodes),
                          run_tape=F.run_tape, OP_EVAL=F.OP_EVAL, OP_CALL=F.OP_CALL)
        F.Tape, F.Stack = self.RecTape, self.RecStack
        loop_stack = []
        level = [0]
        orig_run_tape = F.run_tape
        pend = [False]
        import time as _time
        from . import vmrun as _vm
        case_deadline = _time.time() + _vm.case_seconds(self.factor)
        budget = 30_000 * self.factor
        def _mark():
            tr.run_tapes = budget + 1
            if self.factor > 1: _vm.RUNAWAYS[0] = _vm.RUNAWAY_LIMIT
        _vm.watch_begin(_vm.case_seconds(self.factor) + (4 if _vm.RUNAWAYS[0] < _vm.RUNAWAY_LIMIT else 1.5), _mark)
        def run_tape(tape, stack, cache, additional_flags={}):
            level[0] += 1
            tr.run_tapes += 1
            if tr.run_tapes > budget or (tr.run_tapes & 255 == 0 and _time.time() > case_deadline):
                tr.run_tapes = budget + 1
                level[0] -= 1
                from .vmrun import HarnessAbort
                raise HarnessAbort('run_tape budget')
            is_act = pend[0]; pend[0] = False
            if is_act:
                tr.call_depth += 1
                tr.max_call_depth = max(tr.max_call_depth, tr.call_depth)
            if loop_stack and loop_stack[-1][0] == level[0] - 1:
                loop_stack[-1][1] += 1
                tr.max_loop_iter = max(tr.max_loop_iter, loop_stack[-1][1])
            try:
                return orig_run_tape(tape, stack, cache, additional_flags=additional_flags)
            finally:
                level[0] -= 1
                if is_act:
                    tr.call_depth -= 1
        F.run_tape = run_tape

        def wrap(name, fn):
            is_call = name in ('OP_CALL', 'OP_EVAL')
            is_loop = name == 'OP_LOOP'
            def op(tape, stack, cache):
                tr.fetches += 1
                if 'returned' in cache:
                    tr.fetch_with_return += 1
                    tr.flag('fetch-with-return-pending', name)
                before = tape.pointer
                try:
                    return op_(tape, stack, cache)
                finally:
                    # however an instruction moves over its operands (read, move_pointer or arithmetic on the pointer),
                    # it must stay inside the script and never go backwards
                    if tape.pointer > len(tape.data):
                        tr.flag('pointer-past-end', (name, tape.pointer, len(tape.data)))
                    if tape.pointer < before:
                        tr.flag('pointer-moved-backwards', (name, before, tape.pointer))
            def op_(tape, stack, cache):
                if is_call:
                    pend[0] = True
                    try:
                        return fn(tape, stack, cache)
                    finally:
                        pend[0] = False
                if is_loop:
                    loop_stack.append([level[0], 0])
                    try:
                        return fn(tape, stack, cache)
                    finally:
                        loop_stack.pop()
                return fn(tape, stack, cache)
            return op
        for k, (name, fn) in list(F.opcodes.items()):
            F.opcodes[k] = (name, wrap(name, fn))
        for k, (name, fn) in list(F.nopcodes.items()):
            F.nopcodes[k] = (name, wrap(name, fn))
        # MERKLEVAL / TAPROOT reach EVAL through the module global: count those too
        ev = self.saved['OP_EVAL']
        def OP_EVAL(tape, stack, cache):
            pend[0] = True
            try:
                return ev(tape, stack, cache)
            finally:
                pend[0] = False
        F.OP_EVAL = OP_EVAL
        return self
    def __exit__(self, *a):
        from . import vmrun as _vm
        try: _vm.watch_end()
        except BaseException: pass
        F = self.F
        F.Tape, F.Stack = self.saved['Tape'], self.saved['Stack']
        F.opcodes.clear(); F.opcodes.update(self.saved['opcodes'])
        F.nopcodes.clear(); F.nopcodes.update(self.saved['nopcodes'])
        F.run_tape = self.saved['run_tape']
        F.OP_EVAL = self.saved['OP_EVAL']


def run_instrumented(cfg, cache_in: dict, script: bytes, env):
    """run_script's composition through the public API with recording objects.
    Returns (status, tape, stack, cache, trace). A case that exhausts the run_tape budget is run once more with 15x the budget."""
    from . import vmrun
    def guarded(factor):
        try: return _run_instrumented(cfg, cache_in, script, env, factor)
        except vmrun.HarnessAbort:
            try: vmrun.watch_end()
            except vmrun.HarnessAbort: pass
            return ('ERR:HarnessAbort', None, None, {}, Trace())
    out = guarded(1)
    if out[0] == 'ERR:HarnessAbort' and vmrun.RUNAWAYS[0] < vmrun.RUNAWAY_LIMIT:
        out = guarded(15)
        if out[0] == 'ERR:HarnessAbort': vmrun.RUNAWAYS[0] += 1
    return out


def _run_instrumented(cfg, cache_in: dict, script: bytes, env, factor):
    tr = Trace()
    F = env.F
    with Instrumented(tr, factor=factor) as ins:
        tape = ins.RecTape(script, callstack_limit=cfg.call_limit)
        stack = ins.RecStack(max_items=cfg.max_items, max_item_size=cfg.max_item_size)
        stack.deque.main = True
        cache = ins.RecDict({'timestamp': int(F.time()), **cache_in})
        dict.pop(cache, 'returned', None)
        tape.contracts = {**env.contracts()}
        tape.plugins = {**env.plugins()}
        try:
            F.run_tape(tape, stack, cache, additional_flags=cfg.additional_flags())
            status = 'OK'
        except BaseException as e:
            if isinstance(e, (KeyboardInterrupt, SystemExit)):
                raise
            status = 'ERR:' + type(e).__name__
        if tr.run_tapes > 30_000 * factor:
            status = 'ERR:HarnessAbort'         # the abort may have been swallowed by a TRY of the script: not an outcome of the script
    return status, tape, stack, cache, tr
