"""Shared machinery of the checks: paths, Lean build + audit, driver I/O, evidence,
violation reporting. See DESIGN.md §2.4 / §7."""
from __future__ import annotations
import fcntl, hashlib, json, os, random, re, shutil, subprocess, sys, time
try:
    sys.set_int_max_str_digits(0)
except AttributeError:
    pass
from dataclasses import dataclass, field

VERIF = os.path.dirname(os.path.dirname(os.path.abspath(__file__)))
REPO = os.environ.get('REPO', '/repo')
LEAN = os.path.join(VERIF, 'lean')
WORK = os.path.join(VERIF, '.work')
DRIVER = os.path.join(LEAN, '.lake', 'build', 'bin', 'tvdriver')
NPROC = min(16, os.cpu_count() or 1)
ALLOWED_AXIOMS = {'propext', 'Classical.choice', 'Quot.sound'}
FORBIDDEN = re.compile(r'\b(sorry|admit|native_decide|bv_decide|implemented_by|unsafe)\b|^\s*axiom\s|maxHeartbeats\s+0\b', re.M)

TRUSTED_BASE = [
    "Lean 4.33.0 kernel (thorough tier: leanchecker re-check of the compiled Props modules)",
    "axioms allowed per theorem: propext, Classical.choice, Quot.sound (audited with #print axioms on every run); no native_decide / bv_decide / sorry / added axioms",
    "hand-written Lean model of the code, tied to /repo's working tree by (a) tables regenerated from the source each run and (b) the differential correspondence check run by this command",
    "the Python runtime, hashlib and libsodium/PyNaCl are modelled, not verified; concrete Lean versions used by the driver are validated against them on each run",
    "the harness generators: what they never generate the correspondence check never sees",
]


def log(*a):
    print(*a, file=sys.stderr, flush=True)


class Lock:
    def __init__(self, name):
        os.makedirs(WORK, exist_ok=True)
        self.path = os.path.join(WORK, name + '.lock')
    def __enter__(self):
        self.f = open(self.path, 'w')
        fcntl.flock(self.f, fcntl.LOCK_EX)
        return self
    def __exit__(self, *a):
        fcntl.flock(self.f, fcntl.LOCK_UN)
        self.f.close()


def strip_comments(src: str) -> str:
    # remove /- ... -/ (nested not handled beyond one level) and -- comments
    out = []
    i, n, depth = 0, len(src), 0
    while i < n:
        if src.startswith('/-', i):
            depth += 1; i += 2; continue
        if depth and src.startswith('-/', i):
            depth -= 1; i += 2; continue
        if depth:
            if src[i] == '\n': out.append('\n')
            i += 1; continue
        if src.startswith('--', i):
            j = src.find('\n', i)
            i = n if j < 0 else j
            continue
        out.append(src[i]); i += 1
    return ''.join(out)


def lean_sources():
    res = []
    for root, _, files in os.walk(os.path.join(LEAN, 'Tapeverif')):
        for f in files:
            if f.endswith('.lean'):
                res.append(os.path.join(root, f))
    res.append(os.path.join(LEAN, 'Driver.lean'))
    return sorted(res)


def grep_forbidden():
    hits = []
    for p in lean_sources():
        src = strip_comments(open(p).read())
        for m in FORBIDDEN.finditer(src):
            line = src.count('\n', 0, m.start()) + 1
            hits.append(f'{os.path.relpath(p, LEAN)}:{line}: {m.group(0).strip()}')
    return hits


def run_cmd(cmd, cwd=None, timeout=3600, env=None):
    p = subprocess.run(cmd, cwd=cwd, stdout=subprocess.PIPE, stderr=subprocess.STDOUT,
                       text=True, timeout=timeout, env=env)
    return p.returncode, p.stdout


def modules_of(pid: str):
    """Props/<pid>.lean plus every Props/<pid><Suffix>.lean (e.g. C14Locks: lock-level theorems that need lemma files which
    themselves import Props/<pid>.lean; C07Term: termination); all use namespace TV.<pid>."""
    import glob, re
    out = []
    d = os.path.join(LEAN, 'Tapeverif', 'Props')
    if os.path.exists(os.path.join(d, pid + '.lean')): out.append(pid)
    for f in sorted(glob.glob(os.path.join(d, pid + '*.lean'))):
        name = os.path.basename(f)[:-5]
        if name != pid and re.fullmatch(pid + r'[A-Z][A-Za-z]*', name): out.append(name)
    return out


def theorems_of(pid: str):
    """Property theorems = every `theorem` in the property's Props modules (namespace TV.<pid>)."""
    out = []
    for name in modules_of(pid):
        src = strip_comments(open(os.path.join(LEAN, 'Tapeverif', 'Props', name + '.lean')).read())
        out += [f'TV.{pid}.{m.group(1)}' for m in re.finditer(r'^\s*(?:private\s+)?theorem\s+([A-Za-z0-9_\.\']+)', src, re.M)]
    return out


def open_statements(pid: str):
    p = os.path.join(LEAN, 'Tapeverif', 'Props', pid + '.lean')
    if not os.path.exists(p):
        return []
    return re.findall(r'--\s*OPEN:\s*(.*)', open(p).read())


@dataclass
class BuildReport:
    tables_ok: bool = True
    tables_log: str = ''
    props_ok: bool = True
    driver_ok: bool = True
    log: str = ''
    forbidden: list = field(default_factory=list)
    axioms: dict = field(default_factory=dict)      # theorem -> list of axioms or None (missing)
    bad_axioms: dict = field(default_factory=dict)
    failed_theorems: list = field(default_factory=list)
    leanchecker: str = ''
    leanchecker_ok: bool = True

    @property
    def obligations(self):
        return len(self.axioms) + 1  # +1: forbidden-construct grep
    @property
    def discharged(self):
        ok = sum(1 for t, a in self.axioms.items() if a is not None and t not in self.bad_axioms)
        return ok + (0 if self.forbidden else 1)
    @property
    def ok(self):
        return self.tables_ok and self.props_ok and self.driver_ok and not self.forbidden \
            and not self.bad_axioms and not self.failed_theorems and self.leanchecker_ok


def build_and_audit(pid: str, tier: str) -> BuildReport:
    from . import extract_tables
    rep = BuildReport()
    with Lock('lake'):
        try:
            extract_tables.write_tables()
        except Exception as e:  # translator could not read the source
            rep.tables_ok = False
            rep.tables_log = f'{type(e).__name__}: {e}'
        rc, out = run_cmd(['lake', 'build', 'tvdriver'], cwd=LEAN)
        rep.driver_ok = rc == 0
        rep.log += out[-4000:] if rc else ''
        rc, out = run_cmd(['lake', 'build'] + [f'Tapeverif.Props.{m}' for m in modules_of(pid)], cwd=LEAN)
        rep.props_ok = rc == 0
        rep.log += out[-6000:] if rc else ''
        rep.forbidden = grep_forbidden()
        thms = theorems_of(pid)
        if rep.props_ok and thms:
            os.makedirs(WORK, exist_ok=True)
            af = os.path.join(WORK, f'audit_{pid}_{os.getpid()}.lean')
            with open(af, 'w') as f:
                for m in modules_of(pid):
                    f.write(f'import Tapeverif.Props.{m}\n')
                for t in thms:
                    f.write(f'#print axioms {t}\n')
            rc, out = run_cmd(['lake', 'env', 'lean', af], cwd=LEAN)
            os.unlink(af)
            cur = None
            text = out.replace('\n  ', ' ').replace('\n ', ' ')
            for t in thms:
                m = re.search(r"'" + re.escape(t) + r"' (does not depend on any axioms|depends on axioms: \[([^\]]*)\])", text)
                if not m:
                    rep.axioms[t] = None
                    rep.failed_theorems.append(t)
                    continue
                ax = [] if m.group(2) is None else [a.strip() for a in m.group(2).split(',') if a.strip()]
                rep.axioms[t] = ax
                bad = [a for a in ax if a not in ALLOWED_AXIOMS]
                if bad:
                    rep.bad_axioms[t] = bad
        else:
            for t in thms:
                rep.axioms[t] = None
            rep.failed_theorems = list(thms)
        if tier == 'thorough' and rep.props_ok:
            rc, out = run_cmd(['lake', 'env', 'leanchecker'] + [f'Tapeverif.Props.{m}' for m in modules_of(pid)], cwd=LEAN, timeout=3600)
            rep.leanchecker = out[-500:]
            rep.leanchecker_ok = rc == 0
    return rep


class Driver:
    """Batch interface to the compiled Lean model (`tvdriver`)."""
    def __init__(self):
        self.available = os.path.exists(DRIVER)
        self.calls = 0
        self.lines = 0
    def _run_one(self, lines, timeout):
        data = ('\n'.join(lines) + '\n').encode()
        # big stack: deep model recursion mirrors the implementation's
        p = subprocess.run(['bash', '-c', 'ulimit -s unlimited 2>/dev/null || ulimit -s 1000000 2>/dev/null; exec "$0"', DRIVER],
                           input=data, stdout=subprocess.PIPE, stderr=subprocess.PIPE, timeout=timeout)
        out = p.stdout.decode().split('\n')
        if out and out[-1] == '':
            out.pop()
        if p.returncode != 0 or len(out) != len(lines):
            raise DriverCrash(f'driver rc={p.returncode} got {len(out)} of {len(lines)} replies; stderr={p.stderr.decode()[-400:]}; next line={lines[len(out)][:300] if len(out) < len(lines) else ""}', out)
        return out

    def run(self, lines: list[str], timeout=3600, procs=None) -> list[str]:
        if not self.available:
            raise RuntimeError('driver not built')
        if not lines:
            return []
        self.calls += 1
        self.lines += len(lines)
        procs = procs or min(NPROC, max(1, len(lines) // 200))
        if procs <= 1:
            return self._run_one(lines, timeout)
        from concurrent.futures import ThreadPoolExecutor
        # interleaved chunks balance expensive and cheap lines
        chunks = [lines[i::procs] for i in range(procs)]
        with ThreadPoolExecutor(procs) as ex:
            outs = list(ex.map(lambda c: self._run_one(c, timeout), chunks))
        res = [None] * len(lines)
        for i, o in enumerate(outs):
            res[i::procs] = o
        return res


class DriverCrash(Exception):
    def __init__(self, msg, partial):
        super().__init__(msg)
        self.partial = partial


@dataclass
class Result:
    """What a property module reports back."""
    evaluations: int = 0
    distinct: set = field(default_factory=set)      # hashes of distinct non-trivial cases
    rule: str = ''
    samples: list = field(default_factory=list)
    disagreements: list = field(default_factory=list)   # model vs impl (correspondence broken)
    violations: list = field(default_factory=list)      # property fails on impl: dicts with 'input', 'expected', 'observed', 'how_to_run'
    known: list = field(default_factory=list)           # (finding id, text) confirmed still failing
    stats: dict = field(default_factory=dict)
    notes: list = field(default_factory=list)
    exhaustive: bool = False
    soft_mismatches: int = 0

    def note_case(self, key, nontrivial=True):
        self.evaluations += 1
        if nontrivial:
            self.distinct.add(hashlib.blake2b(repr(key).encode(), digest_size=8).digest())

    def sample(self, s, cap=6):
        if len(self.samples) < cap:
            self.samples.append(s)


class Ctx:
    def __init__(self, pid, tier, seed):
        self.pid, self.tier, self.seed = pid, tier, seed
        self.rng = random.Random(f'{pid}:{seed}')
        self.driver = Driver()
        self.build: BuildReport | None = None
        self.t0 = time.time()
        self.budget_s = float(os.environ.get('VERIF_BUDGET_S', 0) or (900 if tier == 'quick' else 5400))
        self.stopped_early = False
    def expired(self):
        if time.time() - self.t0 > self.budget_s:
            self.stopped_early = True
            return True
        return False
    def n(self, quick, thorough):
        return thorough if self.tier == 'thorough' else quick
    def sub_rng(self, tag):
        return random.Random(f'{self.pid}:{self.seed}:{tag}')


def load_known():
    p = os.path.join(VERIF, 'known_findings.json')
    if not os.path.exists(p):
        return []
    return json.load(open(p))['findings']


def known_ids(pid):
    return {f['id'] for f in load_known() if f.get('status') == 'known' and pid in f.get('properties', [f.get('property')])}


def write_replay(pid, payload) -> str:
    os.makedirs(os.path.join(VERIF, 'replays'), exist_ok=True)
    blob = json.dumps(payload, sort_keys=True, default=str)
    h = hashlib.sha256(blob.encode()).hexdigest()[:12]
    rel = f'replays/{pid}-{h}.json'
    with open(os.path.join(VERIF, rel), 'w') as f:
        json.dump(payload, f, indent=1, sort_keys=True, default=str)
    return rel


def write_evidence(ctx: Ctx, res: Result, n_viol: int, extra_assumptions=()):
    rep = ctx.build
    cov = {
        'obligations': rep.obligations,
        'discharged': rep.discharged,
        'checker_cmd': 'cd lean && lake build ' + ' '.join('Tapeverif.Props.' + m for m in modules_of(ctx.pid)) + ' tvdriver && lake env lean <#print axioms of each theorem>' + (' && lake env leanchecker ' + ' '.join('Tapeverif.Props.' + m for m in modules_of(ctx.pid)) if ctx.tier == 'thorough' else ''),
        'trusted_base': TRUSTED_BASE,
        'theorems': {t: a for t, a in rep.axioms.items()},
        'open_statements': open_statements(ctx.pid),
        'evaluations': res.evaluations,
        'distinct_nontrivial': len(res.distinct),
        'rule': res.rule,
        'samples': res.samples,
        'disagreements_checked': res.evaluations,
        'model_impl_disagreements': len(res.disagreements),
        'soft_class_mismatches': res.soft_mismatches,
        'exhaustive': res.exhaustive,
        'stats': res.stats,
        'notes': res.notes,
        'known_findings_replayed': [k[0] for k in res.known],
        'tables_regenerated': rep.tables_ok,
        'driver_lines': ctx.driver.lines,
        'stopped_early_on_wall_clock_budget': ctx.stopped_early,
    }
    ev = {
        'property_id': ctx.pid, 'tier': ctx.tier, 'seed': ctx.seed, 'level': 'proof',
        'coverage': cov,
        'assumptions': list(TRUSTED_BASE) + list(extra_assumptions),
        'wall_s': round(time.time() - ctx.t0, 2),
        'violations': n_viol,
    }
    os.makedirs(os.path.join(VERIF, 'evidence'), exist_ok=True)
    with open(os.path.join(VERIF, 'evidence', ctx.pid + '.json'), 'w') as f:
        json.dump(ev, f, indent=1, default=str)
