"""Primitive validation: the driver's concrete Lean hashes / edwards25519 / libsodium-rule
functions vs hashlib / PyNaCl / tapescript's own helpers on random and edge-biased inputs."""
from __future__ import annotations
import hashlib, random
import nacl.bindings as nb
from nacl.signing import SigningKey, VerifyKey
from nacl.exceptions import BadSignatureError
from . import impl

P = 2**255 - 19
L = 2**252 + 27742317777372353535851937790883648493


def hx(b: bytes) -> str:
    return b.hex() or '-'


def tryf(f, *a):
    try:
        r = f(*a)
    except BaseException as e:
        return 'ERR:' + type(e).__name__
    if r is True: return 'T'
    if r is False: return 'F'
    return hx(r)


def nverify(pk, m, sig):
    try:
        VerifyKey(pk).verify(m, sig); return 'T'
    except BadSignatureError:
        return 'F'


def edge_points(rng):
    small = []
    # the 8 small-order points: multiply decoded random points by L using libsodium itself is not
    # possible (noclamp rejects), so use the known encodings
    small_hex = [
        '0100000000000000000000000000000000000000000000000000000000000000',
        'ecffffffffffffffffffffffffffffffffffffffffffffffffffffffffffff7f',
        '0000000000000000000000000000000000000000000000000000000000000000',
        '0000000000000000000000000000000000000000000000000000000000000080',
        '26e8958fc2b227b045c3f489f2ef98f0d5dfac05d3c63339b13802886d53fc05',
        '26e8958fc2b227b045c3f489f2ef98f0d5dfac05d3c63339b13802886d53fc85',
        'c7176a703d4dd84fba3c0b760d10670f2a2053fa2c39ccc64ec7fd7792ac037a',
        'c7176a703d4dd84fba3c0b760d10670f2a2053fa2c39ccc64ec7fd7792ac03fa',
    ]
    small = [bytes.fromhex(h) for h in small_hex]
    noncanon = [(P + k).to_bytes(32, 'little') for k in range(0, 19)] + \
               [((P + k) | (1 << 255)).to_bytes(32, 'little') for k in range(0, 19)]
    x0sign = [(1 | (1 << 255)).to_bytes(32, 'little'), ((P - 1) | (1 << 255)).to_bytes(32, 'little')]
    valid = [nb.crypto_scalarmult_ed25519_base_noclamp((rng.getrandbits(250) + 1).to_bytes(32, 'little')) for _ in range(6)]
    mixed = []
    for s in small:
        try:
            mixed.append(nb.crypto_core_ed25519_add(valid[0], s))
        except BaseException:
            pass
    randb = [bytes(rng.getrandbits(8) for _ in range(32)) for _ in range(24)]
    return small, noncanon, x0sign, valid, mixed, randb


def edge_scalars(rng):
    return [bytes(32), (1).to_bytes(32, 'little'), (L - 1).to_bytes(32, 'little'), L.to_bytes(32, 'little'),
            (L + 1).to_bytes(32, 'little'), (8 * L).to_bytes(32, 'little'), (2**255 - 1).to_bytes(32, 'little'),
            b'\xff' * 32, (2**255).to_bytes(32, 'little'), (2**255 + 5).to_bytes(32, 'little'),
            (2**252).to_bytes(32, 'little')] + [bytes(rng.getrandbits(8) for _ in range(32)) for _ in range(8)]


def cases(rng, scale=1):
    F = impl.functions()
    out = []   # (line, expected)
    def add(fn, args, exp):
        out.append(('PRIM ' + fn + ' ' + ' '.join(hx(a) for a in args), exp))
    small, noncanon, x0sign, valid, mixed, randb = edge_points(rng)
    pts = small + noncanon + x0sign + valid + mixed + randb + [b'\xff' * 32, b'\x01' + bytes(31), b'12', b'']
    for b in pts:
        add('is_valid_point', [b], tryf(nb.crypto_core_ed25519_is_valid_point, b))
    sel = pts[::3] + valid
    for a in sel:
        for b in rng.sample(sel, min(len(sel), 6 * scale)):
            add('core_add', [a, b], tryf(nb.crypto_core_ed25519_add, a, b))
            add('core_sub', [a, b], tryf(nb.crypto_core_ed25519_sub, a, b))
    scs = edge_scalars(rng) + [b'12', bytes(31), bytes(33)]
    for s in scs:
        add('base_noclamp', [s], tryf(nb.crypto_scalarmult_ed25519_base_noclamp, s))
        for pt in rng.sample(pts, 5 * scale):
            add('mult_noclamp', [s, pt], tryf(nb.crypto_scalarmult_ed25519_noclamp, s, pt))
        for t in rng.sample(scs, 5 * scale):
            add('scalar_add', [s, t], tryf(nb.crypto_core_ed25519_scalar_add, s, t))
            add('scalar_sub', [s, t], tryf(nb.crypto_core_ed25519_scalar_sub, s, t))
            add('scalar_mul', [s, t], tryf(nb.crypto_core_ed25519_scalar_mul, s, t))
        add('clamp0', [s], tryf(F.clamp_scalar, s, False))
        add('clamp1', [s], tryf(F.clamp_scalar, s, True))
        add('derive_key', [s], tryf(F.derive_key_from_seed, s))
    for _ in range(6 * scale):
        x = bytes(rng.getrandbits(8) for _ in range(64))
        add('scalar_reduce', [x], tryf(nb.crypto_core_ed25519_scalar_reduce, x))
        m = bytes(rng.getrandbits(8) for _ in range(rng.choice([0, 1, 31, 64, 200])))
        add('h_small', [m], tryf(F.H_small, m))
    add('scalar_reduce', [b'12'], tryf(nb.crypto_core_ed25519_scalar_reduce, b'12'))
    # hashes
    for n in [0, 1, 55, 56, 63, 64, 111, 112, 127, 128, 135, 136, 137, 300] + [rng.randrange(0, 600) for _ in range(6 * scale)]:
        b = bytes(rng.getrandbits(8) for _ in range(n))
        out.append((f'SHA256 {hx(b)}', hashlib.sha256(b).hexdigest()))
        out.append((f'SHA512 {hx(b)}', hashlib.sha512(b).hexdigest()))
        for k in (0, 1, 20, 32, 136, 255):
            out.append((f'SHAKE256 {k} {hx(b)}', hashlib.shake_256(b).hexdigest(k) or '-'))
    # signatures
    for i in range(3 * scale):
        seed = bytes(rng.getrandbits(8) for _ in range(32))
        sk = SigningKey(seed); pk = bytes(sk.verify_key)
        m = bytes(rng.getrandbits(8) for _ in range(rng.choice([0, 3, 64, 150])))
        sig = sk.sign(m).signature
        add('sign', [seed, m], hx(sig))
        add('pubkey', [seed], hx(pk))
        vc = [(pk, m, sig)]
        s_int = int.from_bytes(sig[32:], 'little')
        vc.append((pk, m, sig[:32] + ((s_int + L) % 2**256).to_bytes(32, 'little')))
        for sp in small:
            vc += [(sp, m, sig), (pk, m, sp + sig[32:]), (sp, m, sp + bytes(32))]
        for nc in noncanon[:4]:
            vc += [(nc, m, sig), (pk, m, nc + sig[32:])]
        for j in rng.sample(range(512), 10):
            bs = bytearray(sig); bs[j // 8] ^= 1 << (j % 8); vc.append((pk, m, bytes(bs)))
        for j in rng.sample(range(256), 8):
            bp = bytearray(pk); bp[j // 8] ^= 1 << (j % 8); vc.append((bytes(bp), m, sig))
        vc.append((pk, m + b'x', sig))
        for c in vc:
            add('verify', list(c), nverify(*c))
        x = F.derive_key_from_seed(seed)
        add('sign_with_scalar', [x, m], tryf(F.sign_with_scalar, x, m))
        sws = F.sign_with_scalar(x, m)
        add('verify', [pk, m, sws], nverify(pk, m, sws))
    add('sign_with_scalar', [b'12', b'm'], tryf(F.sign_with_scalar, b'12', b'm'))
    add('sign_with_scalar', [bytes(32), b'm'], tryf(F.sign_with_scalar, bytes(32), b'm'))
    for lst in ([valid[0]], valid[:3], [valid[0], small[1]], [valid[0], mixed[0]] if mixed else [valid[0]], []):
        add('aggregate_points', lst, tryf(F.aggregate_points, list(lst)))
    return out


def validate(ctx, res, scale=1):
    """Appends disagreements to res.disagreements; returns number of primitive cases."""
    rng = ctx.sub_rng('prims')
    cs = cases(rng, scale)
    if not ctx.driver.available:
        return 0
    replies = ctx.driver.run([c[0] for c in cs])
    bad = 0
    for (line, exp), got in zip(cs, replies):
        if got != exp:
            bad += 1
            if bad <= 10:
                res.disagreements.append({'primitive': line[:200], 'model': got[:140], 'library': exp[:140]})
    res.stats['primitive_cases'] = len(cs)
    res.stats['primitive_mismatches'] = bad
    return len(cs)


if __name__ == '__main__':
    from .core import Ctx, Result
    import time
    ctx = Ctx('PRIM', 'quick', 0); res = Result()
    t = time.time(); n = validate(ctx, res, 2)
    print(n, 'cases', len(res.disagreements), 'disagreements', time.time() - t, 's')
    for d in res.disagreements[:10]: print(d)
