import Tapeverif.Model.Basic
import Tapeverif.Model.Codec
import Tapeverif.Model.Float
/-! Line-protocol driver: one request per line on stdin, one reply per line on stdout. -/
open TV

def parseInt? (s : String) : Option Int := s.toInt?

def handle (line : String) : String :=
  match (line.splitOn " ").filter (· ≠ "") with
  | ["I2B", n] => match parseInt? n with
      | some z => toHex (intToBytes z)
      | none => "bad-op"
  | ["B2I", h] => match ofHex h with
      | some b => match bytesToInt b with
          | some z => toString z
          | none => "ERR:ValueError"
      | none => "bad-op"
  | ["I2BX", sg, h] =>
      -- integer given as sign and hexadecimal magnitude (fast for 16k-bit values)
      match ofHex (if h.length % 2 = 1 then "0" ++ h else h) with
      | some b => let a : Int := natOfBytesBE b
                  toHex (intToBytes (if sg = "-" then -a else a))
      | none => "bad-op"
  | ["U2BX", h] =>
      match ofHex (if h.length % 2 = 1 then "0" ++ h else h) with
      | some b => toHex (uintToBytes (natOfBytesBE b))
      | none => "bad-op"
  | ["U2B", n] => match n.toNat? with
      | some k => toHex (uintToBytes k)
      | none => "bad-op"
  | ["B2BOOL", h] => match ofHex h with
      | some b => if truthy b then "T" else "F"
      | none => "bad-op"
  | ["F32RT", h] => match ofHex h with
      | some b => if b.length = 4 then
          match packF32 (unpackF32 b) with
          | some r => toHex r
          | none => "ERR:OverflowError"
        else "ERR:ValueError"
      | none => "bad-op"
  | ["UTF8", h] => match ofHex h with
      | some b => match utf8Decode b with
          | some cps => toString cps.length ++ " " ++ (let e := toHex (utf8Encode cps); if e = "" then "-" else e)
          | none => "ERR:UnicodeDecodeError"
      | none => "bad-op"
  | _ => "bad-op"

partial def loop (hin hout : IO.FS.Stream) : IO Unit := do
  let line ← hin.getLine
  if line.isEmpty then return ()
  hout.putStrLn (handle (line.trimAscii.toString))
  loop hin hout

def main : IO Unit := do
  let hin ← IO.getStdin
  let hout ← IO.getStdout
  loop hin hout
  hout.flush
