import Tapeverif.Model.Basic
import Tapeverif.Model.Codec
import Tapeverif.Model.Float
import Tapeverif.Model.Hash
import Tapeverif.Model.Ed25519
import Tapeverif.Model.Auth
import Tapeverif.Model.Tools
import Tapeverif.Model.SigPure
import Tapeverif.Model.Asm
import Tapeverif.Model.Lex
/-! Line-protocol driver: one request per line on stdin, one reply per line on stdout. -/
open TV

def parseInt? (s : String) : Option Int := s.toInt?

def hx (b : Bytes) : String := if b = [] then "-" else toHex b

def showR (r : R Bytes) : String :=
  match r with
  | .ok b => hx b
  | .error e => "ERR:" ++ e.name

def showRB (r : R Bool) : String :=
  match r with
  | .ok b => if b then "T" else "F"
  | .error e => "ERR:" ++ e.name

def prim (f : String) (args : List Bytes) : String :=
  let C := Ed.curve
  let H := Ed.hashes
  match f, args with
  | "is_valid_point", [a] => showRB (Sodium.isValidPoint C a)
  | "core_add", [a, b] => showR (Sodium.coreAdd C a b)
  | "core_sub", [a, b] => showR (Sodium.coreSub C a b)
  | "base_noclamp", [a] => showR (Sodium.baseNoclamp C a)
  | "mult_noclamp", [a, b] => showR (Sodium.multNoclamp C a b)
  | "scalar_add", [a, b] => showR (Sodium.scalarAdd a b)
  | "scalar_sub", [a, b] => showR (Sodium.scalarSub a b)
  | "scalar_mul", [a, b] => showR (Sodium.scalarMul a b)
  | "scalar_reduce", [a] => showR (Sodium.scalarReduce a)
  | "clamp0", [a] => showR (Sodium.clampScalar a false)
  | "clamp1", [a] => showR (Sodium.clampScalar a true)
  | "h_small", [a] => showR (Sodium.hSmall H a)
  | "derive_key", [a] => showR (Sodium.deriveKeyFromSeed H a)
  | "sign", [seed, m] => hx (Sodium.sign H C seed m)
  | "pubkey", [seed] => hx (Sodium.publicKey H C seed)
  | "verify", [pk, m, sg] => if Sodium.verify H C pk m sg then "T" else "F"
  | "sign_with_scalar", [x, m] => showR (Sodium.signWithScalar H C x m)
  | "aggregate_points", pts => showR (Sodium.aggregatePoints C pts)
  | _, _ => "bad-op"

/-! ### RUN / AUTH protocol -/
def parseAtom (s : String) : Option Atom :=
  let body := (s.drop 1).toString
  match s.front with
  | 'B' => (ofHex body).map Atom.bytes
  | 'S' => (ofHex body).map Atom.str
  | 'A' => (ofHex body).map Atom.bytearray
  | 'I' => body.toInt?.map Atom.int
  | 'F' => (ofHex body).map fun b => Atom.float (natOfBytesBE b)
  | 'O' => some Atom.other
  | _ => none

def parseVal (s : String) : Option CVal :=
  if s.front = 'L' then
    let body := (s.drop 1).toString
    if body = "" then some (.list [])
    else ((body.splitOn ",").mapM parseAtom).map CVal.list
  else (parseAtom s).map CVal.atom

def parseKey (s : String) : Option CKey :=
  let body := (s.drop 1).toString
  match s.front with
  | 's' => (ofHex body).map CKey.str
  | 'b' => (ofHex body).map CKey.byt
  | _ => none

def parseCache (s : String) : Option (List (CKey × CVal)) :=
  if s = "-" then some []
  else (s.splitOn ";").mapM fun e =>
    match e.splitOn "=" with
    | [k, v] => do pure (← parseKey k, ← parseVal v)
    | _ => none

def parseOptInt (s : String) : Option (Option Int) :=
  if s = "x" then some none else s.toInt?.map some

def parseSigExts (s : String) : Option (List SigExt) :=
  if s = "-" then some []
  else (s.splitOn ",").mapM fun e =>
    if e = "r" then some SigExt.raise
    else if e.front = 'l' then (e.drop 1).toString.toNat?.map SigExt.log else none

def parseCT (s : String) : Option (List CTPlugin) :=
  if s = "-" then some []
  else (s.splitOn ",").mapM fun e =>
    match e with
    | "T" => some .constTrue | "F" => some .constFalse | "P" => some .isPrefix | "E" => some .equal
    | _ => none

def parseContracts (s : String) : Option (List (Bytes × Contract)) :=
  if s = "-" then some []
  else (s.splitOn ",").mapM fun e =>
    match e.splitOn "=" with
    | [id, kd] => do
      let i ← ofHex id
      let c ← (match kd with
        | "e" => some Contract.echo | "n" => some .none_ | "c" => some .concat | "i" => some .badItem
        | "t" => some .badType | "x" => some .transfer | "b" => some .both | "z" => some .neither
        | _ => none)
      pure (i, c)
    | _ => none

def parseCfg (s : String) : Option Cfg :=
  match s.splitOn ":" with
  | [mi, ms, cl, now, mask, ts, ep, de, er, se, ct, cs] => do
    let mask ← mask.toNat?
    pure { lim := { maxItems := ← mi.toNat?, maxItemSize := ← ms.toNat?, callLimit := ← cl.toNat? },
           now := ← now.toInt?,
           flags := (List.range 11).map fun i => (i, mask / 2^i % 2 = 1),
           flag10 := mask / 2^10 % 2 = 1,
           tsThreshold := ← parseOptInt ts, epochThreshold := ← parseOptInt ep,
           disallowEval := de = "1", evalReturn := er = "1",
           sigExts := ← parseSigExts se, ctPlugins := ← parseCT ct, contracts := ← parseContracts cs }
  | _ => none

def showAtom : Atom → String
  | .bytes b => "B" ++ toHex b
  | .str b => "S" ++ toHex b
  | .bytearray b => "A" ++ toHex b
  | .int i => "I" ++ toString i
  | .float d => "F" ++ toHex (natToBytesBE 8 d)
  | .other => "O"

def showVal : CVal → String
  | .atom a => showAtom a
  | .list l => "L" ++ ",".intercalate (l.map showAtom)

def showKey : CKey → String
  | .str b => "s" ++ toHex b
  | .byt b => "b" ++ toHex b

def dedupCache : List (CKey × CVal) → List CKey → List (CKey × CVal)
  | [], _ => []
  | (k, v) :: r, seen => if seen.contains k then dedupCache r seen else (k, v) :: dedupCache r (k :: seen)

def showCache (c : List (CKey × CVal)) : String :=
  let es := (dedupCache c []).map fun (k, v) => showKey k ++ "=" ++ showVal v
  let sorted := es.toArray.qsort (· < ·) |>.toList
  if sorted = [] then "-" else ";".intercalate sorted

def showStack (st : List Bytes) : String :=
  if st = [] then "-" else ",".intercalate (st.reverse.map fun b => if b = [] then "e" else toHex b)

def showShared (sh : Shared) (cnt : Nat) : String :=
  " stack=" ++ showStack sh.stack ++ " cache=" ++ showCache sh.cache ++
  " ret=" ++ (if sh.returned then "1" else "0") ++
  " plog=" ++ (if sh.plog = [] then "-" else ",".intercalate (sh.plog.reverse.map toString)) ++
  " taint=" ++ (if sh.tainted then "1" else "0") ++ " cnt=" ++ toString cnt ++
  " rand=" ++ toString sh.randCtr

def showRes : Res → String
  | .ok fr sh => "OK" ++ showShared sh fr.count
  | .err (.user e) sh => "ERR:" ++ e.name ++ showShared sh 0
  | .err .fuel _ => "FUEL"
  | .err .ghost _ => "GHOST"
  | .err .guard _ => "GUARD"
  | .err .abort _ => "ABORTED"

def bigFuel : Nat := 1000000000000

def runCmd (cfgS cacheS scriptsS : String) (auth : Bool) : String :=
  match parseCfg cfgS, parseCache cacheS, (scriptsS.splitOn ",").mapM ofHex with
  | some cfg, some cache, some scripts =>
    let T := instrTable Ed.hashes Ed.curve cfg
    if auth then
      (if runAuth T cfg.lim bigFuel scripts cache then "T " else "F ") ++
        showRes (runAuthRes T cfg.lim bigFuel scripts cache)
    else match scripts with
      | [s] => showRes (runScript T cfg.lim bigFuel s cache)
      | _ => "bad-op"
  | _, _, _ => "bad-op"

/-- preorder tree tokens: `N` = node, `L<hex>` = leaf -/
partial def parseTree : List String → Option (Tools.Tree × List String)
  | [] => none
  | tok :: rest =>
    if tok = "N" then
      match parseTree rest with
      | some (l, r1) => match parseTree r1 with
        | some (r, r2) => some (.node l r, r2)
        | none => none
      | none => none
    else if tok.front = 'L' then (ofHex (tok.drop 1).toString).map fun b => (.leaf b, rest)
    else none

def leafPaths : Tools.Tree → List (List Bool)
  | .leaf _ => [[]]
  | .node l r => (leafPaths l).map (false :: ·) ++ (leafPaths r).map (true :: ·)

def buildCmd (name : String) (args : List String) : String :=
  let H := Ed.hashes
  let C := Ed.curve
  let hb (s : String) : Bytes := (ofHex s).getD []
  let n (s : String) : Nat := s.toNat?.getD 0
  let z (s : String) : Int := s.toInt?.getD 0
  match name, args with
  | "single_sig_lock", [pk, f] => hx (Tools.singleSigLock (hb pk) (n f))
  | "single_sig_lock2", [pk, f] => hx (Tools.singleSigLock2 H (hb pk) (n f))
  | "multisig_lock", m :: f :: pks => match Tools.multisigLock (pks.map hb) (n m) (n f) with
      | some b => hx b
      | none => "ERR:ValueError"
  | "scripthash_lock", [sc, hs] => hx (Tools.scripthashLock H (hb sc) (n hs))
  | "graftroot_lock", [pk, f] => hx (Tools.graftrootLock (hb pk) (n f))
  | "taproot_lock", [pk, cm, f] => showR (Tools.taprootLock H C (hb pk) (hb cm) (n f))
  | "graftap_lock", [pk, f] => showR (Tools.graftapLock H C (hb pk) (n f))
  | "nonnative_taproot_lock", [pk, cm, f] => showR (Tools.nonnativeTaprootLock H C (hb pk) (hb cm) (n f))
  | "htlc_sha256_lock", [dg, rc, rf, dl, f] => hx (Tools.htlcLock Tools.SHA256 (hb dg) (hb rc) (hb rf) (z dl) (n f))
  | "htlc_shake256_lock", [dg, rc, rf, hs, dl, f] => hx (Tools.htlcLock (Tools.SHAKE256 (n hs)) (hb dg) (hb rc) (hb rf) (z dl) (n f))
  | "htlc2_sha256_lock", [dg, rc, rf, dl, f] => hx (Tools.htlc2Lock H Tools.SHA256 (hb dg) (hb rc) (hb rf) 20 (z dl) (n f))
  | "htlc2_shake256_lock", [dg, rc, rf, hs, dl, f] => hx (Tools.htlc2Lock H (Tools.SHAKE256 (n hs)) (hb dg) (hb rc) (hb rf) (n hs) (z dl) (n f))
  | "ptlc_lock", [rc, rf, tw, dl, f] => showR (Tools.ptlcLock C (hb rc) (hb rf) (if tw = "none" then none else some (hb tw)) (z dl) (n f))
  | "adapter_lock1", [pk, tp, f] => hx (Tools.adapterLock1 (hb pk) (hb tp) (n f))
  | "adapter_lock_pub", [pk, tp, f] => hx (Tools.adapterLockPub (hb pk) (hb tp) (n f))
  | "adapter_decrypt", [tw] => showR (Tools.adapterDecrypt (hb tw))
  | "delegate_key_lock", [rt, f] => hx (Tools.delegateKeyLock (hb rt) (n f))
  | "delegate_key_chain_lock", [rt, f] => hx (Tools.delegateKeyChainLock (hb rt) (n f))
  | "cert_pack", [dk, b, e, m, sg] => hx (Tools.Certificate.pack ⟨hb dk, n b, n e, m = "1", hb sg⟩)
  | "cert_unpack", [b] => match Tools.Certificate.unpack (hb b) with
      | some c => hx c.delegate ++ " " ++ toString c.beginTs ++ " " ++ toString c.endTs ++ " " ++ (if c.may then "1" else "0") ++ " " ++ hx c.signature
      | none => "ERR:ValueError"
  | _, _ => "bad-op"

def treeCmd (toks : List String) : String :=
  match parseTree toks with
  | some (t, []) =>
    let H := Ed.hashes
    let unl := (leafPaths t).map fun p => match Tools.Tree.unlock H t p with
      | some b => hx b
      | none => "none"
    let back := match Tools.Tree.unpack 64 (Tools.Tree.pack t) with
      | some t' => if t' = t then "same" else "different"
      | none => "none"
    "root=" ++ hx (Tools.Tree.root H t) ++ " lock=" ++ hx (Tools.Tree.lockScript H t) ++ " pack=" ++ hx (Tools.Tree.pack t) ++
      " unpack=" ++ back ++ " unlock=" ++ "|".intercalate unl
  | _ => "bad-op"

def handle (line : String) : String :=
  match (line.splitOn " ").filter (· ≠ "") with
  | ["I2B", n] => match parseInt? n with
      | some z => toHex (intToBytes z)
      | none => "bad-op"
  | ["B2I", h] => match ofHex h with
      | some b => match bytesToInt b with
          | some z => toString z
          | none => "ERR:ValueError"
      | none => "bad-op"
  | ["I2BX", sg, h] =>
      -- integer given as sign and hexadecimal magnitude (fast for 16k-bit values)
      match ofHex (if h.length % 2 = 1 then "0" ++ h else h) with
      | some b => let a : Int := natOfBytesBE b
                  toHex (intToBytes (if sg = "-" then -a else a))
      | none => "bad-op"
  | ["U2BX", h] =>
      match ofHex (if h.length % 2 = 1 then "0" ++ h else h) with
      | some b => toHex (uintToBytes (natOfBytesBE b))
      | none => "bad-op"
  | ["U2B", n] => match n.toNat? with
      | some k => toHex (uintToBytes k)
      | none => "bad-op"
  | ["B2BOOL", h] => match ofHex h with
      | some b => if truthy b then "T" else "F"
      | none => "bad-op"
  | ["F32RT", h] => match ofHex h with
      | some b => if b.length = 4 then
          match packF32 (unpackF32 b) with
          | some r => toHex r
          | none => "ERR:OverflowError"
        else "ERR:ValueError"
      | none => "bad-op"
  | ["UTF8", h] => match ofHex h with
      | some b => match utf8Decode b with
          | some cps => toString cps.length ++ " " ++ (let e := toHex (utf8Encode cps); if e = "" then "-" else e)
          | none => "ERR:UnicodeDecodeError"
      | none => "bad-op"
  | ["SHA256", h] => match ofHex h with
      | some b => toHex (Hash.sha256 b)
      | none => "bad-op"
  | ["SHA512", h] => match ofHex h with
      | some b => toHex (Hash.sha512 b)
      | none => "bad-op"
  | ["SHAKE256", n, h] => match ofHex h, n.toNat? with
      | some b, some k => let r := toHex (Hash.shake256 b k); if r = "" then "-" else r
      | _, _ => "bad-op"
  | "TREE" :: toks => treeCmd toks
  | "BUILD2" :: name :: args => buildCmd name args
  | ["BUILD", "ts_after", ts, v] => match ts.toInt? with
      | some z => hx (Tools.timestampAfterLock z (v = "1"))
      | none => "bad-op"
  | ["BUILD", "ts_before", ts, v] => match ts.toInt? with
      | some z => hx (Tools.timestampBeforeLock z (v = "1"))
      | none => "bad-op"
  | ["BUILD", "ts_between", b, e, v] => match b.toInt?, e.toInt? with
      | some x, some y => hx (Tools.timestampBetweenLock x y (v = "1"))
      | _, _ => "bad-op"
  | ["CSPURE", mis, ca, al, sg, vk] =>
      match mis.toNat?, parseCache ca, al.toNat?, ofHex sg, ofHex vk with
      | some m, some cache, some a, some s, some k => showRB (SigPure.checkSig Ed.hashes Ed.curve m cache a s k)
      | _, _, _, _, _ => "bad-op"
  | ["MSPURE", mis, ca, al, sgs, vks] =>
      let parseList (x : String) : Option (List Bytes) := if x = "-" then some [] else (x.splitOn ",").mapM (fun h => if h = "e" then some [] else ofHex h)
      match mis.toNat?, parseCache ca, al.toNat?, parseList sgs, parseList vks with
      | some m, some cache, some a, some ss, some ks => showRB (SigPure.multisig Ed.hashes Ed.curve m cache a ss ks)
      | _, _, _, _, _ => "bad-op"
  | ["DEC", h] => match ofHex h with
      | some b => match Asm.decodeAll b with
          | some is => "OK " ++ ";".intercalate (is.map fun i => toString i.code.toNat ++ ":" ++ ",".intercalate (i.fields.map hx))
          | none => "ERR"
      | none => "bad-op"
  | ["REENC", h] => match ofHex h with
      | some b => match Asm.decodeAll b with
          | some is => hx (Asm.encodeSeq is)
          | none => "ERR"
      | none => "bad-op"
  | ["SYMS", h] => match ofHex h with
      -- the tokenizer on an ASCII source given in hex: symbols in hex, words of a symbol joined by one space
      | some b => match TV.Lex.symbols (b.map fun x => Char.ofNat x.toNat) with
          | some syms => "OK " ++ ",".intercalate (syms.map fun ws =>
              toHex ((" ".intercalate (ws.map String.ofList)).toList.map fun c => UInt8.ofNat c.toNat))
          | none => "ERR"
      | none => "bad-op"
  | ["LIST", h] => match ofHex h with
      | some b => match Asm.listAll b with
          | some ls => "OK " ++ "|".intercalate ls
          | none => "ERR"
      | none => "bad-op"
  | ["LISTBLOCK", ln, st, cnt] =>
      match ln.toNat?, st.toNat?, cnt.toNat? with
      | some l, some s0, some c =>
        let chunk : Bytes := ((List.range c).map fun i =>
          let b := natToBytesBE l (s0 + i)
          let line := match Asm.listAll b with
            | some ls => "OK " ++ "|".intercalate ls
            | none => "ERR"
          asciiBytes line ++ [10]).flatten
        toHex (Hash.sha256 chunk)
      | _, _, _ => "bad-op"
  | ["PUSHB", h] => match ofHex h with
      | some b => match Tools.pushBytes b with
          | some e => hx e
          | none => "ERR"
      | none => "bad-op"
  | ["RUN", c, ca, sc] => runCmd c ca sc false
  | ["AUTH", c, ca, sc] => runCmd c ca sc true
  | "PRIM" :: f :: args =>
      match args.mapM ofHex with
      | some bs => prim f bs
      | none => "bad-op"
  | _ => "bad-op"

partial def loop (hin hout : IO.FS.Stream) : IO Unit := do
  let line ← hin.getLine
  if line.isEmpty then return ()
  hout.putStrLn (handle (line.trimAscii.toString))
  loop hin hout

def main : IO Unit := do
  let hin ← IO.getStdin
  let hout ← IO.getStdout
  loop hin hout
  hout.flush
