import Tapeverif.Model.Basic
import Tapeverif.Model.Codec
import Tapeverif.Model.Float
import Tapeverif.Lemmas.Codec
import Tapeverif.Props.C10
