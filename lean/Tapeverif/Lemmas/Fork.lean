import Tapeverif.Model.VM
/-! # Soft-fork simulation

`OpSim op' op`: `op'` is `op` except that at some leaves it may `abort` (fail uncatchably)
where `op` would go on. If every entry of table `T'` is related this way to the entry of `T`,
then every run under `T'` either aborts or is *identical* (same outcome, same frame, same
shared state, catchable errors included) to the run under `T`. -/
namespace TV

inductive OpSim : Op → Op → Prop
  | abort (op : Op) : OpSim .abort op
  | done : OpSim .done .done
  | fail (e : ErrKind) : OpSim (.fail e) (.fail e)
  | ret : OpSim .ret .ret
  | read (n : Nat) (k' k : Bytes → Op) : (∀ b, OpSim (k' b) (k b)) → OpSim (.read n k') (.read n k)
  | pop (k' k : Bytes → Op) : (∀ b, OpSim (k' b) (k b)) → OpSim (.pop k') (.pop k)
  | peekTop (k' k : Bytes → Op) : (∀ b, OpSim (k' b) (k b)) → OpSim (.peekTop k') (.peekTop k)
  | depth (k' k : Nat → Op) : (∀ n, OpSim (k' n) (k n)) → OpSim (.depth k') (.depth k)
  | push (b : Bytes) (k' k : Op) : OpSim k' k → OpSim (.push b k') (.push b k)
  | cacheGet (key : CKey) (k' k : Option CVal → Op) : (∀ v, OpSim (k' v) (k v)) →
      OpSim (.cacheGet key k') (.cacheGet key k)
  | cachePut (key : Bytes) (v : CVal) (k' k : Op) : OpSim k' k → OpSim (.cachePut key v k') (.cachePut key v k)
  | rand (n : Nat) (k' k : Bytes → Op) : (∀ b, OpSim (k' b) (k b)) → OpSim (.rand n k') (.rand n k)
  | log (t : Nat) (k' k : Op) : OpSim k' k → OpSim (.log t k') (.log t k)
  | guardCount (k' k : Op) : OpSim k' k → OpSim (.guardCount k') (.guardCount k)
  | define (h : UInt8) (body : Bytes) (k' k : Op) : OpSim k' k → OpSim (.define h body k') (.define h body k)
  | call (h : UInt8) (k' k : Op) : OpSim k' k → OpSim (.call h k') (.call h k)
  | sub (kind : SubKind) (body : Bytes) (k' k : Op) : OpSim k' k → OpSim (.sub kind body k') (.sub kind body k)
  | tryCatch (b1 b2 : Bytes) (k' k : Op) : OpSim k' k → OpSim (.tryCatch b1 b2 k') (.tryCatch b1 b2 k)
  | loop (body : Bytes) (k' k : Op) : OpSim k' k → OpSim (.loop body k') (.loop body k)

theorem OpSim.refl : ∀ op : Op, OpSim op op := by
  intro op
  induction op with
  | done => exact .done
  | fail e => exact .fail e
  | read n k ih => exact .read n k k ih
  | pop k ih => exact .pop k k ih
  | peekTop k ih => exact .peekTop k k ih
  | depth k ih => exact .depth k k ih
  | push b k ih => exact .push b k k ih
  | cacheGet key k ih => exact .cacheGet key k k ih
  | cachePut key v k ih => exact .cachePut key v k k ih
  | rand n k ih => exact .rand n k k ih
  | log t k ih => exact .log t k k ih
  | guardCount k ih => exact .guardCount k k ih
  | define h body k ih => exact .define h body k k ih
  | call h k ih => exact .call h k k ih
  | sub kind body k ih => exact .sub kind body k k ih
  | tryCatch b1 b2 k ih => exact .tryCatch b1 b2 k k ih
  | loop body k ih => exact .loop body k k ih
  | ret => exact .ret
  | abort => exact .abort _

/-- the run under the forked table aborted, or is identical to the run under the old table -/
def Sim (r' r : Res) : Prop := r' = r ∨ ∃ sh, r' = .err .abort sh

theorem Sim.rfl' (r : Res) : Sim r r := Or.inl rfl

variable (T' T : UInt8 → Op) (L : Limits)

theorem sim (hT : ∀ c, OpSim (T' c) (T c)) (fuel : Nat) :
    (∀ op' op fr sh, OpSim op' op → Sim (runOp T' L fuel op' fr sh) (runOp T L fuel op fr sh)) ∧
    (∀ budget lc body k' k fr sh, OpSim k' k →
        Sim (runLoop T' L fuel budget lc body k' fr sh) (runLoop T L fuel budget lc body k fr sh)) ∧
    (∀ fr sh, Sim (runTape T' L fuel fr sh) (runTape T L fuel fr sh)) := by
  induction fuel with
  | zero => refine ⟨?_, ?_, ?_⟩ <;> intros <;> simp [runOp, runLoop, runTape, Sim]
  | succ n ih =>
    obtain ⟨ihO, ihL, ihT⟩ := ih
    -- after a body: "if returned then end the frame else continue"
    have cont : ∀ (fr : Frame) (sh' : Shared) (k' k : Op), OpSim k' k →
        Sim (if sh'.returned then Res.ok (endFrame fr) sh' else runOp T' L n k' fr sh')
            (if sh'.returned then Res.ok (endFrame fr) sh' else runOp T L n k fr sh') := by
      intro fr sh' k' k hk
      split
      · exact Or.inl rfl
      · exact ihO _ _ _ _ hk
    refine ⟨?_, ?_, ?_⟩
    · intro op' op fr sh h
      cases h with
      | abort op => exact Or.inr ⟨sh, by simp [runOp]⟩
      | done => exact Or.inl (by simp [runOp])
      | fail e => exact Or.inl (by simp [runOp])
      | ret => exact Or.inl (by simp [runOp])
      | read m k' k hk =>
        simp only [runOp]; split
        · exact ihO _ _ _ _ (hk _)
        · exact Or.inl rfl
      | pop k' k hk =>
        simp only [runOp]; split
        · exact Or.inl rfl
        · exact ihO _ _ _ _ (hk _)
      | peekTop k' k hk =>
        simp only [runOp]; split
        · exact Or.inl rfl
        · exact ihO _ _ _ _ (hk _)
      | depth k' k hk => simp only [runOp]; exact ihO _ _ _ _ (hk _)
      | push b k' k hk =>
        simp only [runOp]; split
        · split
          · exact ihO _ _ _ _ hk
          · exact Or.inl rfl
        · exact Or.inl rfl
      | cacheGet key k' k hk => simp only [runOp]; exact ihO _ _ _ _ (hk _)
      | cachePut key v k' k hk => simp only [runOp]; exact ihO _ _ _ _ hk
      | rand m k' k hk => simp only [runOp]; exact ihO _ _ _ _ (hk _)
      | log t k' k hk => simp only [runOp]; exact ihO _ _ _ _ hk
      | guardCount k' k hk =>
        simp only [runOp]; split
        · exact ihO _ _ _ _ hk
        · exact Or.inl rfl
      | define h body k' k hk => simp only [runOp]; exact ihO _ _ _ _ hk
      | call h k' k hk =>
        simp only [runOp]
        split
        · generalize setCount fr sh (getCount fr sh + 1) = p
          obtain ⟨fr1, sh1⟩ := p
          simp only
          split
          · exact Or.inl rfl
          · next id hid =>
            generalize hfr : ({ rest := (sh1.fns.getD id default).body, count := getCount fr sh + 1, fn := some id, dict := (sh1.fns.getD id default).dict, len0 := (sh1.fns.getD id default).body.length, cap := (sh1.fns.getD id default).body.length + 1 } : Frame) = cfr
            rcases ihT cfr (setFnCount sh1 id (getCount fr sh + 1)) with heq | ⟨sh2, hab⟩
            · rw [heq]
              split
              · exact Or.inl rfl
              · exact ihO _ _ _ _ hk
            · rw [hab]
              exact Or.inr ⟨sh2, rfl⟩
        · exact Or.inl rfl
      | sub kind body k' k hk =>
        cases kind with
        | inline =>
          simp only [runOp]
          generalize hfr : ({ rest := body, count := getCount fr sh, fn := none, dict := (copyDict sh fr.dict).1, len0 := body.length, cap := fr.len0 } : Frame) = bfr
          rcases ihT bfr (copyDict sh fr.dict).2 with heq | ⟨sh2, hab⟩
          · rw [heq]
            split
            · exact Or.inl rfl
            · exact cont _ _ _ _ hk
          · rw [hab]
            exact Or.inr ⟨sh2, rfl⟩
        | eval propagate =>
          simp only [runOp]
          split
          · generalize hfr : ({ rest := body, count := getCount fr sh + 1, fn := none, dict := (copyDict sh fr.dict).1, len0 := body.length, cap := body.length + 1 } : Frame) = bfr
            rcases ihT bfr (copyDict sh fr.dict).2 with heq | ⟨sh2, hab⟩
            · rw [heq]
              split
              · exact Or.inl rfl
              · split
                · exact Or.inl rfl
                · exact ihO _ _ _ _ hk
            · rw [hab]
              exact Or.inr ⟨sh2, rfl⟩
          · exact Or.inl rfl
      | tryCatch b1 b2 k' k hk =>
        simp only [runOp]
        generalize hfr : ({ rest := b1, count := getCount fr sh, fn := none, dict := (copyDict sh fr.dict).1, len0 := b1.length, cap := fr.len0 } : Frame) = bfr
        rcases ihT bfr (copyDict sh fr.dict).2 with heq | ⟨sh2, hab⟩
        · rw [heq]
          split
          · exact cont _ _ _ _ hk
          · next e sh' _ =>
            cases e with
            | user ek =>
              simp only
              generalize hsh2 : ({ sh' with cache := (.byt eKey, errValue ek) :: sh'.cache, eTaint := true } : Shared) = shE
              generalize hfr2 : ({ rest := b2, count := getCount fr (copyDict shE fr.dict).2, fn := none, dict := (copyDict shE fr.dict).1, len0 := b2.length, cap := fr.len0 } : Frame) = efr
              rcases ihT efr (copyDict shE fr.dict).2 with heq2 | ⟨sh3, hab2⟩
              · rw [heq2]
                split
                · exact Or.inl rfl
                · exact cont _ _ _ _ hk
              · rw [hab2]
                exact Or.inr ⟨sh3, rfl⟩
            | fuel => exact Or.inl rfl
            | ghost => exact Or.inl rfl
            | guard => exact Or.inl rfl
            | abort => exact Or.inl rfl
        · rw [hab]
          exact Or.inr ⟨sh2, rfl⟩
      | loop body k' k hk =>
        simp only [runOp]
        split
        · exact Or.inl rfl
        · exact ihL _ _ _ _ _ _ _ hk
    · intro budget lc body k' k fr sh hk
      simp only [runLoop]
      split
      · exact Or.inl rfl
      · split
        · cases budget with
          | zero => exact Or.inl rfl
          | succ b =>
            simp only
            generalize hfr : ({ rest := body, count := lc, fn := none, dict := fr.dict, len0 := body.length, cap := fr.len0 } : Frame) = bfr
            rcases ihT bfr sh with heq | ⟨sh2, hab⟩
            · rw [heq]
              split
              · exact Or.inl rfl
              · split
                · exact Or.inl rfl
                · exact ihL _ _ _ _ _ _ _ hk
            · rw [hab]
              exact Or.inr ⟨sh2, rfl⟩
        · exact ihO _ _ _ _ hk
    · intro fr sh
      simp only [runTape]
      split
      · exact Or.inl rfl
      · next c rest _ =>
        split
        · exact Or.inl rfl
        · split
          · exact Or.inl rfl
          · rcases ihO (T' c) (T c) { fr with rest := rest } sh (hT c) with heq | ⟨sh2, hab⟩
            · rw [heq]
              split
              · exact Or.inl rfl
              · exact ihT _ _
            · rw [hab]
              exact Or.inr ⟨sh2, rfl⟩

end TV
