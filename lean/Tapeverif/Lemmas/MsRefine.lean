import Tapeverif.Lemmas.RunInstr
/-! The op terms of `OP_CHECK_MULTISIG` refine the pure specification `SigPure.multisig` (big-step). -/
namespace TV
open Instr Tools

variable (H : Hashes) (C : Curve)

/-- big-step form of `checkSigCore_refines` -/
theorem checkSigCore_steps {T : UInt8 → Op} {L : Limits} (allowed : Nat) (k : Op) (fr : Frame) (sh : Shared)
    (vkey sig : Bytes) (st : List Bytes) (r : Res) (hs : sh.stack = vkey :: sig :: st)
    (h1 : 1 ≤ L.maxItemSize) (h2 : st.length < L.maxItems)
    (h : match SigPure.checkSig H C L.maxItemSize sh.cache allowed sig vkey with
         | .ok b => Steps T L k fr { sh with stack := boolBytes b :: st } r
         | .error e => r = .err (.user e) { sh with stack := st }) :
    Steps T L (checkSigCore H C allowed k) fr sh r := by
  cases hc : SigPure.checkSig H C L.maxItemSize sh.cache allowed sig vkey with
  | ok b =>
    rw [hc] at h
    obtain ⟨n, hn, hf⟩ := h
    refine ⟨n + 13, ?_, hf⟩
    rw [checkSigCore_refines T L H C allowed k n fr sh vkey sig st hs h1 h2, hc]
    exact hn
  | error e =>
    rw [hc] at h
    subst h
    refine ⟨0 + 13, ?_, rfl⟩
    rw [checkSigCore_refines T L H C allowed k 0 fr sh vkey sig st hs h1 h2, hc]

/-- the inner loop of `OP_CHECK_MULTISIG` computes `SigPure.findKey` and leaves the stack as it was -/
theorem msTryKeys_steps {T : UInt8 → Op} {L : Limits} (allowed : Nat) (sig : Bytes) (fr : Frame) :
    ∀ (keys : List Bytes) (k : Option Bytes → Op) (sh : Shared) (r : Res),
    sig.length ≤ L.maxItemSize → (∀ vk ∈ keys, vk.length ≤ L.maxItemSize) → 1 ≤ L.maxItemSize →
    sh.stack.length + 2 ≤ L.maxItems →
    (match SigPure.findKey H C L.maxItemSize sh.cache allowed sig keys with
     | .ok hit => Steps T L (k hit) fr sh r
     | .error e => r = .err (.user e) sh) →
    Steps T L (msTryKeys H C allowed sig keys k) fr sh r := by
  intro keys
  induction keys with
  | nil =>
    intro k sh r _ _ _ _ h
    simpa [msTryKeys, SigPure.findKey, pure, Except.pure] using h
  | cons vk rest ih =>
    intro k sh r hsig hkeys h1 hroom h
    unfold msTryKeys
    nstep Steps.push hsig (by omega) ?_
    nstep Steps.push (hkeys vk (by simp)) (by simp; omega) ?_
    refine checkSigCore_steps H C allowed _ fr _ vk sig sh.stack r rfl h1 (by omega) ?_
    dsimp only
    simp only [SigPure.findKey, bind, Except.bind] at h
    cases hc : SigPure.checkSig H C L.maxItemSize sh.cache allowed sig vk with
    | error e =>
      rw [hc] at h
      simp only at h ⊢
      rw [h]
    | ok b =>
      rw [hc] at h
      simp only at h ⊢
      nstep Steps.pop (boolBytes b) sh.stack rfl ?_
      have hsh : ({ sh with stack := sh.stack } : Shared) = sh := by cases sh; rfl
      cases b with
      | true =>
        simp only [show truthy (boolBytes true) = true by decide, ↓reduceIte]
        simp only [↓reduceIte, pure, Except.pure] at h
        rw [hsh]; exact h
      | false =>
        simp only [show truthy (boolBytes false) = false by decide, Bool.false_eq_true, ↓reduceIte]
        simp only [Bool.false_eq_true, ↓reduceIte] at h
        rw [hsh]
        exact ih k sh r hsig (fun v hv => hkeys v (by simp [hv])) h1 hroom h

theorem eraseFirst_eq_erase (x : Bytes) : ∀ (l : List Bytes), eraseFirst x l = @List.erase Bytes instBEqOfDecidableEq l x := by
  intro l
  induction l with
  | nil => rfl
  | cons y r ih =>
    simp only [eraseFirst, List.erase_cons]
    by_cases h : x = y
    · subst h; simp
    · have hyx : ¬ y = x := fun h' => h h'.symm
      simp [h, hyx, ih]

/-- the outer loop of `OP_CHECK_MULTISIG` computes `SigPure.multisigLoop` -/
theorem msLoop_steps {T : UInt8 → Op} {L : Limits} (allowed : Nat) (fr : Frame) :
    ∀ (sigs keys confirmed : List Bytes) (k : List Bytes → Op) (sh : Shared) (r : Res),
    (∀ s ∈ sigs, s.length ≤ L.maxItemSize) → (∀ vk ∈ keys, vk.length ≤ L.maxItemSize) → 1 ≤ L.maxItemSize →
    sh.stack.length + 2 ≤ L.maxItems →
    (match SigPure.multisigLoop H C L.maxItemSize sh.cache allowed sigs keys confirmed with
     | .ok c => Steps T L (k c) fr sh r
     | .error e => r = .err (.user e) sh) →
    Steps T L (msLoop H C allowed sigs keys confirmed k) fr sh r := by
  intro sigs
  induction sigs with
  | nil =>
    intro keys confirmed k sh r _ _ _ _ h
    simpa [msLoop, SigPure.multisigLoop, pure, Except.pure] using h
  | cons sig rest ih =>
    intro keys confirmed k sh r hsigs hkeys h1 hroom h
    unfold msLoop
    refine msTryKeys_steps H C allowed sig fr keys _ sh r (hsigs sig (by simp)) hkeys h1 hroom ?_
    simp only [SigPure.multisigLoop, bind, Except.bind] at h
    cases hf : SigPure.findKey H C L.maxItemSize sh.cache allowed sig keys with
    | error e => rw [hf] at h; exact h
    | ok hit =>
      rw [hf] at h
      simp only at h ⊢
      cases hit with
      | none =>
        simp only at h ⊢
        exact ih keys confirmed k sh r (fun s hs => hsigs s (by simp [hs])) hkeys h1 hroom h
      | some vk =>
        simp only at h ⊢
        rw [eraseFirst_eq_erase]
        have hc : (if confirmed.contains sig = true then confirmed else sig :: confirmed) =
            (if sig ∈ confirmed then confirmed else sig :: confirmed) := by
          simp
        rw [hc]
        refine ih _ _ k sh r (fun s hs => hsigs s (by simp [hs])) ?_ h1 hroom h
        intro v hv
        exact hkeys v (@List.mem_of_mem_erase Bytes instBEqOfDecidableEq _ _ _ hv)

/-- popping `n` items -/
theorem popN_steps {T : UInt8 → Op} {L : Limits} (fr : Frame) : ∀ (n : Nat) (k : List Bytes → Op) (sh : Shared) (items st : List Bytes) (r : Res),
    items.length = n → sh.stack = items ++ st → Steps T L (k items) fr { sh with stack := st } r →
    Steps T L (popN n k) fr sh r := by
  intro n
  induction n with
  | zero =>
    intro k sh items st r hl hs h
    have : items = [] := by cases items <;> simp_all
    subst this
    simp only [List.nil_append] at hs
    have hsh : ({ sh with stack := st } : Shared) = sh := by cases sh; simp_all
    rw [hsh] at h
    exact h
  | succ n ih =>
    intro k sh items st r hl hs h
    cases items with
    | nil => simp at hl
    | cons x rest =>
      unfold popN
      nstep Steps.pop x (rest ++ st) (by simpa using hs) ?_
      exact ih _ _ rest st r (by simpa using hl) rfl h

end TV
