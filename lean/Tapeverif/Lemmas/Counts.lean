import Tapeverif.Lemmas.Mono
/-!
# Bookkeeping invariants of the call counters (for an arbitrary op table)

Partial-correctness facts, by induction on fuel, used by the termination proof
(`Lemmas/Term.lean`):

* `WF`: every function id stored in a definition dictionary denotes an existing function object;
* `HP c0 sh sh'`: every function object's call counter in `sh'` is what it was in `sh`, or is
  greater than `c0` — a run that starts with call counter `≥ c0` never lowers a counter to `c0`
  or below;
* `FrameLe fr fr'`: the frame a run returns is the frame it was started in, with a suffix of its
  tape left and a call counter that did not decrease.
-/
namespace TV

variable (T : UInt8 → Op) (L : Limits)

def WF (sh : Shared) : Prop := ∀ d ∈ sh.dicts, ∀ p ∈ d, p.2 < sh.fns.length

def HP (c0 : Nat) (sh sh' : Shared) : Prop :=
  ∀ id, (sh'.fns.getD id default).count = (sh.fns.getD id default).count ∨ c0 + 1 ≤ (sh'.fns.getD id default).count

def FrameLe (fr fr' : Frame) : Prop :=
  fr'.rest.length ≤ fr.rest.length ∧ fr'.len0 = fr.len0 ∧ fr'.cap = fr.cap ∧ fr'.fn = fr.fn ∧ fr'.dict = fr.dict ∧
    fr.count ≤ fr'.count

def APost (c0 : Nat) (fr : Frame) (sh : Shared) : Res → Prop
  | .ok fr' sh' => WF sh' ∧ HP c0 sh sh' ∧ FrameLe fr fr'
  | .err _ sh' => WF sh' ∧ HP c0 sh sh'

theorem HP.refl (c0 : Nat) (sh : Shared) : HP c0 sh sh := fun _ => Or.inl rfl

theorem HP.trans {c0 : Nat} {a b c : Shared} (h1 : HP c0 a b) (h2 : HP c0 b c) : HP c0 a c := by
  intro id
  rcases h2 id with h | h
  · rcases h1 id with h' | h'
    · exact Or.inl (h.trans h')
    · exact Or.inr (h ▸ h')
  · exact Or.inr h

theorem HP.mono {a b : Nat} (h : a ≤ b) {sh sh' : Shared} (hp : HP b sh sh') : HP a sh sh' := by
  intro id
  rcases hp id with h' | h'
  · exact Or.inl h'
  · exact Or.inr (by omega)

theorem HP.of_fns_eq {c0 : Nat} {sh sh' : Shared} (h : sh'.fns = sh.fns) : HP c0 sh sh' := by
  intro id; rw [h]; exact Or.inl rfl

theorem FrameLe.refl (fr : Frame) : FrameLe fr fr := ⟨Nat.le_refl _, rfl, rfl, rfl, rfl, Nat.le_refl _⟩

theorem FrameLe.trans {a b c : Frame} (h1 : FrameLe a b) (h2 : FrameLe b c) : FrameLe a c :=
  ⟨Nat.le_trans h2.1 h1.1, h2.2.1.trans h1.2.1, h2.2.2.1.trans h1.2.2.1, h2.2.2.2.1.trans h1.2.2.2.1,
   h2.2.2.2.2.1.trans h1.2.2.2.2.1, Nat.le_trans h1.2.2.2.2.2 h2.2.2.2.2.2⟩

theorem FrameLe.endFrame (fr : Frame) : FrameLe fr (endFrame fr) :=
  ⟨Nat.zero_le _, rfl, rfl, rfl, rfl, Nat.le_refl _⟩

/-- the counter a frame sees stays at or above `c0` across a run with the two invariants -/
theorem count_keep {c0 : Nat} {fr fr' : Frame} {sh sh' : Shared}
    (hc : c0 ≤ getCount fr sh) (hp : HP c0 sh sh') (hf : FrameLe fr fr') : c0 ≤ getCount fr' sh' := by
  unfold getCount at *
  rw [hf.2.2.2.1]
  cases hfn : fr.fn with
  | none => rw [hfn] at hc; exact Nat.le_trans hc hf.2.2.2.2.2
  | some id =>
    rw [hfn] at hc
    show c0 ≤ (sh'.fns.getD id default).count
    have hc : c0 ≤ (sh.fns.getD id default).count := hc
    rcases hp id with h | h
    · rw [h]; exact hc
    · omega

theorem apost_trans {c0 : Nat} {fr fr1 : Frame} {sh sh1 : Shared} {r : Res}
    (hp : HP c0 sh sh1) (hf : FrameLe fr fr1) (h : APost c0 fr1 sh1 r) : APost c0 fr sh r := by
  cases r with
  | ok f s => exact ⟨h.1, hp.trans h.2.1, hf.trans h.2.2⟩
  | err e s => exact ⟨h.1, hp.trans h.2⟩

theorem apost_err {c0 : Nat} {fr : Frame} {sh sh' : Shared} (e : Err) (hw : WF sh') (hp : HP c0 sh sh') :
    APost c0 fr sh (.err e sh') := ⟨hw, hp⟩

/-! ### the state changes of the kernel -/

theorem WF.of_eq {sh sh' : Shared} (hd : sh'.dicts = sh.dicts) (hf : sh'.fns = sh.fns) (h : WF sh) : WF sh' := by
  unfold WF at *; rw [hd, hf]; exact h

theorem setFnCount_length (sh : Shared) (id c : Nat) : (setFnCount sh id c).fns.length = sh.fns.length := by
  simp [setFnCount]

theorem WF.setFnCount {sh : Shared} (id c : Nat) (h : WF sh) : WF (setFnCount sh id c) := by
  intro d hd p hp
  rw [setFnCount_length]
  exact h d hd p hp

theorem setFnCount_count (sh : Shared) (id c j : Nat) :
    ((setFnCount sh id c).fns.getD j default).count =
      if j = id ∧ id < sh.fns.length then c else (sh.fns.getD j default).count := by
  unfold setFnCount
  simp only [List.getD_eq_getElem?_getD, List.getElem?_set]
  by_cases hj : id = j
  · subst hj
    by_cases hl : id < sh.fns.length
    · simp [hl]
    · simp [hl]
  · have : ¬ j = id := fun h => hj h.symm
    simp [hj, this]

theorem HP.setFnCount {c0 : Nat} (sh : Shared) (id c : Nat) (hc : c0 + 1 ≤ c) : HP c0 sh (setFnCount sh id c) := by
  intro j
  rw [setFnCount_count]
  split
  · exact Or.inr hc
  · exact Or.inl rfl

theorem WF.copyDict {sh : Shared} (d : Nat) (h : WF sh) : WF (copyDict sh d).2 := by
  intro x hx p hp
  replace hx : x ∈ sh.dicts ++ [sh.dicts.getD d []] := hx
  rw [List.mem_append, List.mem_singleton] at hx
  rcases hx with hx | hx
  · exact h x hx p hp
  · subst hx
    simp only [List.getD_eq_getElem?_getD] at hp
    cases hg : sh.dicts[d]? with
    | none => simp [hg] at hp
    | some y =>
      simp only [hg, Option.getD_some] at hp
      exact h y (List.mem_of_getElem? hg) p hp

theorem WF.define {sh : Shared} (d : Nat) (h : UInt8) (body : Bytes) (hw : WF sh) :
    WF { sh with fns := sh.fns ++ [{ body := body, dict := d, count := 0 }],
                 dicts := sh.dicts.set d ((h, sh.fns.length) :: sh.dicts.getD d []) } := by
  intro x hx p hp
  show p.2 < (sh.fns ++ [_]).length
  rw [List.length_append, List.length_singleton]
  replace hx : x ∈ sh.dicts.set d ((h, sh.fns.length) :: sh.dicts.getD d []) := hx
  rcases List.mem_or_eq_of_mem_set hx with hx | hx
  · have := hw x hx p hp; omega
  · subst hx
    simp only [List.mem_cons] at hp
    rcases hp with rfl | hp
    · simp
    · simp only [List.getD_eq_getElem?_getD] at hp
      cases hg : sh.dicts[d]? with
      | none => simp [hg] at hp
      | some y =>
        simp only [hg, Option.getD_some] at hp
        have := hw y (List.mem_of_getElem? hg) p hp; omega

theorem HP.define {c0 : Nat} (sh : Shared) (d : Nat) (body : Bytes) (ds : List (List (UInt8 × Nat))) :
    HP c0 sh { sh with fns := sh.fns ++ [{ body := body, dict := d, count := 0 }], dicts := ds } := by
  intro j
  left
  simp only [List.getD_eq_getElem?_getD]
  by_cases hj : j < sh.fns.length
  · simp [List.getElem?_append_left hj]
  · by_cases hj2 : j = sh.fns.length
    · subst hj2
      simp
      rfl
    · have h1 : (sh.fns ++ [({ body := body, dict := d, count := 0 } : Fn)])[j]? = none := by
        apply List.getElem?_eq_none; simp; omega
      have h2 : sh.fns[j]? = none := by apply List.getElem?_eq_none; omega
      simp [h1, h2]

theorem getCount_of_fns {fr : Frame} {sh sh' : Shared} (h : sh'.fns = sh.fns) : getCount fr sh' = getCount fr sh := by
  unfold getCount; rw [h]

theorem lookupDef_mem {h : UInt8} {d : List (UInt8 × Nat)} {id : Nat} (hl : lookupDef h d = some id) : (h, id) ∈ d := by
  induction d with
  | nil => simp [lookupDef] at hl
  | cons p r ih =>
    obtain ⟨h', id'⟩ := p
    simp only [lookupDef] at hl
    split at hl
    · next heq => cases hl; subst heq; simp
    · exact List.mem_cons_of_mem _ (ih hl)

theorem WF.lookup {sh : Shared} (hw : WF sh) {h : UInt8} {d id : Nat} (hl : lookupDef h (sh.dicts.getD d []) = some id) :
    id < sh.fns.length := by
  have hm := lookupDef_mem hl
  simp only [List.getD_eq_getElem?_getD] at hm
  cases hg : sh.dicts[d]? with
  | none => simp [hg] at hm
  | some y =>
    simp only [hg, Option.getD_some] at hm
    exact hw y (List.mem_of_getElem? hg) _ hm

/-- a frame-local state change (stack, cache, logs …) that leaves the function heap and the
    dictionaries alone -/
theorem apost_same {c0 : Nat} {fr fr1 : Frame} {sh sh1 : Shared} {r : Res}
    (hf : sh1.fns = sh.fns) (hfr : FrameLe fr fr1) (h : APost c0 fr1 sh1 r) : APost c0 fr sh r :=
  apost_trans (HP.of_fns_eq hf) hfr h

theorem frameLe_rest (fr : Frame) (n : Nat) : FrameLe fr { fr with rest := fr.rest.drop n } :=
  ⟨by simp, rfl, rfl, rfl, rfl, Nat.le_refl _⟩

theorem counts_main (fuel : Nat) :
    (∀ op fr sh c0, WF sh → c0 ≤ getCount fr sh → APost c0 fr sh (runOp T L fuel op fr sh)) ∧
    (∀ budget lc body k fr sh c0, WF sh → c0 ≤ getCount fr sh → c0 ≤ lc →
        APost c0 fr sh (runLoop T L fuel budget lc body k fr sh)) ∧
    (∀ fr sh c0, WF sh → c0 ≤ getCount fr sh → APost c0 fr sh (runTape T L fuel fr sh)) := by
  induction fuel with
  | zero =>
    refine ⟨?_, ?_, ?_⟩ <;> intros <;> simp only [runOp, runLoop, runTape] <;> exact ⟨by assumption, HP.refl _ _⟩
  | succ n ih =>
    obtain ⟨ihO, ihL, ihT⟩ := ih
    -- after a body run in an inline frame: "if returned then end the frame else continue with k"
    have cont : ∀ (fr : Frame) (sh sh' : Shared) (k : Op) (c0 : Nat),
        WF sh' → HP c0 sh sh' → c0 ≤ getCount fr sh →
        APost c0 fr sh (if sh'.returned then Res.ok (endFrame fr) sh' else runOp T L n k fr sh') := by
      intro fr sh sh' k c0 hw hp hc
      split
      · exact ⟨hw, hp, FrameLe.endFrame fr⟩
      · exact apost_trans hp (FrameLe.refl fr) (ihO k fr sh' c0 hw (count_keep hc hp (FrameLe.refl fr)))
    refine ⟨?_, ?_, ?_⟩
    · intro op fr sh c0 hw hc
      cases op with
      | done => exact ⟨hw, HP.refl _ _, FrameLe.refl _⟩
      | fail e => exact ⟨hw, HP.refl _ _⟩
      | read m k =>
        simp only [runOp]; split
        · exact apost_same rfl (frameLe_rest fr m) (ihO _ _ _ c0 hw hc)
        · exact ⟨hw, HP.refl _ _⟩
      | pop k =>
        simp only [runOp]; split
        · exact ⟨hw, HP.refl _ _⟩
        · next x r heq => exact apost_same (sh1 := { sh with stack := r }) rfl (FrameLe.refl fr) (ihO _ _ _ c0 hw hc)
      | peekTop k =>
        simp only [runOp]; split
        · exact ⟨hw, HP.refl _ _⟩
        · exact ihO _ _ _ c0 hw hc
      | depth k => simp only [runOp]; exact ihO _ _ _ c0 hw hc
      | push b k =>
        simp only [runOp]; split
        · split
          · exact apost_same (sh1 := { sh with stack := b :: sh.stack }) rfl (FrameLe.refl fr) (ihO _ _ _ c0 hw hc)
          · exact ⟨hw, HP.refl _ _⟩
        · exact ⟨hw, HP.refl _ _⟩
      | cacheGet key k =>
        simp only [runOp]
        split
        · exact apost_same (sh1 := { sh with tainted := true }) rfl (FrameLe.refl fr) (ihO _ _ _ c0 hw hc)
        · exact ihO _ _ _ c0 hw hc
      | cachePut key v k =>
        simp only [runOp]
        exact apost_same (sh1 := { sh with cache := (.byt key, v) :: sh.cache, eTaint := if key = eKey then false else sh.eTaint })
          rfl (FrameLe.refl fr) (ihO _ _ _ c0 hw hc)
      | rand m k =>
        simp only [runOp]
        exact apost_same (sh1 := { sh with randCtr := sh.randCtr + 1 }) rfl (FrameLe.refl fr) (ihO _ _ _ c0 hw hc)
      | log t k =>
        simp only [runOp]
        exact apost_same (sh1 := { sh with plog := t :: sh.plog }) rfl (FrameLe.refl fr) (ihO _ _ _ c0 hw hc)
      | guardCount k =>
        simp only [runOp]; split
        · exact ihO _ _ _ c0 hw hc
        · exact ⟨hw, HP.refl _ _⟩
      | define h body k =>
        simp only [runOp]
        have hp := HP.define (c0 := c0) sh fr.dict body (sh.dicts.set fr.dict ((h, sh.fns.length) :: sh.dicts.getD fr.dict []))
        exact apost_trans hp (FrameLe.refl fr)
          (ihO _ _ _ c0 (WF.define fr.dict h body hw) (count_keep hc hp (FrameLe.refl fr)))
      | call h k =>
        simp only [runOp]
        split
        · -- the caller's counter goes up by one
          have hset : ∃ fr1 sh1, setCount fr sh (getCount fr sh + 1) = (fr1, sh1) ∧ WF sh1 ∧ HP c0 sh sh1 ∧ FrameLe fr fr1 ∧
              sh1.fns.length = sh.fns.length ∧ sh1.dicts = sh.dicts := by
            unfold setCount
            cases hfn : fr.fn with
            | none => exact ⟨_, _, rfl, hw, HP.refl _ _, ⟨Nat.le_refl _, rfl, rfl, hfn.symm, rfl, by
                show fr.count ≤ getCount fr sh + 1
                simp only [getCount, hfn]; omega⟩, rfl, rfl⟩
            | some id0 => exact ⟨_, _, rfl, hw.setFnCount _ _, HP.setFnCount sh id0 _ (by omega), FrameLe.refl fr,
                setFnCount_length _ _ _, rfl⟩
          obtain ⟨fr1, sh1, hsc, hw1, hp1, hf1, _, hd1⟩ := hset
          rw [hsc]
          simp only
          split
          · exact ⟨hw1, hp1⟩
          · next id hid =>
            have hp2 : HP c0 sh1 (setFnCount sh1 id (getCount fr sh + 1)) := HP.setFnCount sh1 id _ (by omega)
            have hidlt : id < sh1.fns.length := hw1.lookup hid
            have hcB : ∀ frB : Frame, frB.fn = some id → c0 + 1 ≤ getCount frB (setFnCount sh1 id (getCount fr sh + 1)) := by
              intro frB hfn
              unfold getCount
              rw [hfn]
              show c0 + 1 ≤ ((setFnCount sh1 id (getCount fr sh + 1)).fns.getD id default).count
              rw [setFnCount_count]
              simp only [hidlt, and_self, ↓reduceIte]
              omega
            have h1 := ihT
                { rest := (sh1.fns.getD id default).body, count := getCount fr sh + 1,
                  fn := some id, dict := (sh1.fns.getD id default).dict,
                  len0 := (sh1.fns.getD id default).body.length,
                  cap := (sh1.fns.getD id default).body.length + 1 }
                (setFnCount sh1 id (getCount fr sh + 1)) (c0 + 1) (hw1.setFnCount id (getCount fr sh + 1)) (hcB _ rfl)
            split
            · next e sh' heq =>
              rw [heq] at h1
              exact ⟨h1.1, hp1.trans (hp2.trans (HP.mono (Nat.le_succ _) h1.2))⟩
            · next fr2 sh' heq =>
              rw [heq] at h1
              have hp3 : HP c0 sh sh' := hp1.trans (hp2.trans (HP.mono (Nat.le_succ _) h1.2.1))
              have hp4 : HP c0 sh { sh' with returned := false } := hp3
              exact apost_trans hp4 hf1
                (ihO k fr1 { sh' with returned := false } c0 h1.1 (count_keep hc hp4 hf1))
        · exact ⟨hw, HP.refl _ _⟩
      | ret => exact ⟨hw, HP.refl _ _, FrameLe.endFrame fr⟩
      | abort => exact ⟨hw, HP.refl _ _⟩
      | sub kind body k =>
        cases kind with
        | inline =>
          simp only [runOp]
          have hpc : HP c0 sh (copyDict sh fr.dict).2 := HP.of_fns_eq rfl
          have h1 := ihT { rest := body, count := getCount fr sh, fn := none, dict := (copyDict sh fr.dict).1,
                           len0 := body.length, cap := fr.len0 } (copyDict sh fr.dict).2 c0 (hw.copyDict fr.dict) hc
          split
          · next e sh' heq => rw [heq] at h1; exact ⟨h1.1, hpc.trans h1.2⟩
          · next fr2 sh' heq =>
            rw [heq] at h1
            exact cont fr sh sh' k c0 h1.1 (hpc.trans h1.2.1) hc
        | eval propagate =>
          simp only [runOp]; split
          · have hpc : HP c0 sh (copyDict sh fr.dict).2 := HP.of_fns_eq rfl
            have h1 := ihT { rest := body, count := getCount fr sh + 1, fn := none,
                             dict := (copyDict sh fr.dict).1, len0 := body.length, cap := body.length + 1 }
                        (copyDict sh fr.dict).2 (c0 + 1) (hw.copyDict fr.dict) (by show c0 + 1 ≤ getCount fr sh + 1; omega)
            split
            · next e sh' heq => rw [heq] at h1; exact ⟨h1.1, hpc.trans (HP.mono (Nat.le_succ _) h1.2)⟩
            · next fr2 sh' heq =>
              rw [heq] at h1
              have hp3 : HP c0 sh sh' := hpc.trans (HP.mono (Nat.le_succ _) h1.2.1)
              split
              · exact ⟨h1.1, hp3, FrameLe.endFrame fr⟩
              · have hp4 : HP c0 sh { sh' with returned := false } := hp3
                exact apost_trans hp4 (FrameLe.refl fr)
                  (ihO k fr { sh' with returned := false } c0 h1.1 (count_keep hc hp4 (FrameLe.refl fr)))
          · exact ⟨hw, HP.refl _ _⟩
      | tryCatch body exc k =>
        simp only [runOp]
        have hpc : HP c0 sh (copyDict sh fr.dict).2 := HP.of_fns_eq rfl
        have h1 := ihT { rest := body, count := getCount fr sh, fn := none, dict := (copyDict sh fr.dict).1,
                         len0 := body.length, cap := fr.len0 } (copyDict sh fr.dict).2 c0 (hw.copyDict fr.dict) hc
        split
        · next fr2 sh' heq =>
          rw [heq] at h1
          exact cont fr sh sh' k c0 h1.1 (hpc.trans h1.2.1) hc
        · next e sh' heq =>
          rw [heq] at h1
          split
          · next ek =>
            let sh2 : Shared := { sh' with cache := (.byt eKey, errValue ek) :: sh'.cache, eTaint := true }
            have hw2 : WF sh2 := h1.1
            have hp2 : HP c0 sh (copyDict sh2 fr.dict).2 := hpc.trans h1.2
            have hc2 : c0 ≤ getCount fr (copyDict sh2 fr.dict).2 := count_keep hc hp2 (FrameLe.refl fr)
            have h2 := ihT { rest := exc, count := getCount fr (copyDict sh2 fr.dict).2, fn := none,
                             dict := (copyDict sh2 fr.dict).1, len0 := exc.length, cap := fr.len0 }
                        (copyDict sh2 fr.dict).2 c0 (hw2.copyDict fr.dict) hc2
            split
            · next e2 sh4 heq2 => rw [heq2] at h2; exact ⟨h2.1, hp2.trans h2.2⟩
            · next fr3 sh4 heq2 =>
              rw [heq2] at h2
              exact cont fr sh sh4 k c0 h2.1 (hp2.trans h2.2.1) hc
          · exact ⟨h1.1, hpc.trans h1.2⟩
      | loop body k =>
        simp only [runOp]
        split
        · exact ⟨hw, HP.refl _ _⟩
        · exact ihL _ _ _ _ _ _ c0 hw hc hc
    · intro budget lc body k fr sh c0 hw hc hlc
      simp only [runLoop]
      split
      · exact ⟨hw, HP.refl _ _⟩
      · split
        · cases budget with
          | zero => exact ⟨hw, HP.refl _ _⟩
          | succ b =>
            simp only []
            have h1 := ihT { rest := body, count := lc, fn := none, dict := fr.dict,
                             len0 := body.length, cap := fr.len0 } sh c0 hw hlc
            split
            · next e sh' heq => rw [heq] at h1; exact ⟨h1.1, h1.2⟩
            · next fr2 sh' heq =>
              rw [heq] at h1
              split
              · exact ⟨h1.1, h1.2.1, FrameLe.endFrame fr⟩
              · exact apost_trans h1.2.1 (FrameLe.refl fr)
                  (ihL b fr2.count body k fr sh' c0 h1.1 (count_keep hc h1.2.1 (FrameLe.refl fr))
                    (Nat.le_trans hlc h1.2.2.2.2.2.2.2))
        · exact ihO _ _ _ c0 hw hc
    · intro fr sh c0 hw hc
      simp only [runTape]
      split
      · exact ⟨hw, HP.refl _ _, FrameLe.refl fr⟩
      · next c rest heq =>
        split
        · exact ⟨hw, HP.refl _ _⟩
        · split
          · exact ⟨hw, HP.refl _ _⟩
          · have hfr : FrameLe fr { fr with rest := rest } := ⟨by simp [heq], rfl, rfl, rfl, rfl, Nat.le_refl _⟩
            have h1 := ihO (T c) { fr with rest := rest } sh c0 hw hc
            split
            · next e sh' heq2 => rw [heq2] at h1; exact ⟨h1.1, h1.2⟩
            · next fr' sh' heq2 =>
              rw [heq2] at h1
              exact apost_trans h1.2.1 (hfr.trans h1.2.2)
                (ihT fr' sh' c0 h1.1 (count_keep hc h1.2.1 (hfr.trans h1.2.2)))

/-- what `setCount … (c + 1)` does to the caller's side -/
theorem setCount_spec {c0 : Nat} (fr : Frame) (sh : Shared) (hw : WF sh) (hc : c0 ≤ getCount fr sh) :
    ∃ fr1 sh1, setCount fr sh (getCount fr sh + 1) = (fr1, sh1) ∧ WF sh1 ∧ HP c0 sh sh1 ∧ FrameLe fr fr1 := by
  unfold setCount
  cases hfn : fr.fn with
  | none => exact ⟨_, _, rfl, hw, HP.refl _ _, ⟨Nat.le_refl _, rfl, rfl, hfn.symm, rfl, by
      show fr.count ≤ getCount fr sh + 1
      simp only [getCount, hfn]; omega⟩⟩
  | some id0 => exact ⟨_, _, rfl, hw.setFnCount _ _, HP.setFnCount sh id0 _ (by omega), FrameLe.refl fr⟩

/-- the counter the called function's activation sees -/
theorem getCount_callee (frB : Frame) (sh1 : Shared) (id c : Nat) (hfn : frB.fn = some id) (hid : id < sh1.fns.length) :
    getCount frB (setFnCount sh1 id c) = c := by
  unfold getCount
  rw [hfn]
  show ((setFnCount sh1 id c).fns.getD id default).count = c
  rw [setFnCount_count]
  simp [hid]

end TV
