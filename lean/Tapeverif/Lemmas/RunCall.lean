import Tapeverif.Lemmas.RunInstr
/-!
Head-of-tape rules for `OP_DEF` and `OP_CALL` (big-step), used to compose the levels of the
recursive delegation-chain lock.
-/
namespace TV
open Instr Tools

/-- the frame a called function body runs in: an activation of function object `id` -/
def callFrame (f : Fn) (id c : Nat) : Frame :=
  { rest := f.body, count := c + 1, fn := some id, dict := f.dict, len0 := f.body.length, cap := f.body.length + 1 }

/-- how the caller sees the outcome of the called body -/
def wrapCall (fr : Frame) : Res → Res
  | .err e s => .err e s
  | .ok _ s => .ok fr { s with returned := false }

theorem wrapCall_isFuel (fr : Frame) (r : Res) (h : r.isFuel = false) : (wrapCall fr r).isFuel = false := by
  cases r with
  | err e s => exact h
  | ok f s => rfl

theorem summary_wrapCall (fr : Frame) (r : Res) : Res.summary (wrapCall fr r) = Res.summary r := by
  cases r <;> rfl

theorem summary_wrapInline (fr : Frame) (r : Res) : Res.summary (wrapInline fr r) = Res.summary r := by
  cases r with
  | err e s => rfl
  | ok f s => simp only [wrapInline]; split <;> rfl

/-- `.call h .done` from a frame that is not itself a function activation (`fn = none`: the
    top-level tape, or an IF / ELSE / TRY body): the call counter of the frame goes up by one, the
    function object's counter is set to the same value, and the outcome is the body's outcome as
    the caller sees it. -/
theorem Steps.call_done {T : UInt8 → Op} {L : Limits} {h : UInt8} {fr : Frame} {sh : Shared} {id : Nat} {rB : Res}
    (hfn : fr.fn = none) (hc : fr.count < L.callLimit)
    (hl : lookupDef h (sh.dicts.getD fr.dict []) = some id)
    (hb : TSteps T L (callFrame (sh.fns.getD id default) id fr.count) (setFnCount sh id (fr.count + 1)) rB) :
    Steps T L (.call h .done) fr sh (wrapCall { fr with count := fr.count + 1 } rB) := by
  obtain ⟨m, hm, hf⟩ := hb
  have hm' := runTape_mono T L (Nat.le_succ m) hm hf
  refine ⟨m + 2, ?_, wrapCall_isFuel _ rB hf⟩
  have hg : getCount fr sh = fr.count := by simp [getCount, hfn]
  have hsc : setCount fr sh (fr.count + 1) = ({ fr with count := fr.count + 1 }, sh) := by simp [setCount, hfn]
  unfold callFrame at hm'
  simp only [runOp, hg, hc, ↓reduceIte, hsc, hl]
  -- the body is read from the state *before* the counter write; `setFnCount` does not change it
  cases rB with
  | err e s => simp only [hm', wrapCall]
  | ok f s => simp only [hm', wrapCall]

variable (H : Hashes) (C : Curve) (cfg : Cfg)

/-- `OP_CALL h` as the last instruction of a tape whose frame is not a function activation -/
theorem run_call_last (fr : Frame) (sh : Shared) (h : Nat) (id : Nat) (rB : Res)
    (hrest : fr.rest = CALL h) (hcap : fr.len0 < fr.cap) (hr : sh.returned = false)
    (hfn : fr.fn = none) (hc : fr.count < cfg.lim.callLimit)
    (hl : lookupDef (UInt8.ofNat h) (sh.dicts.getD fr.dict []) = some id)
    (hb : TSteps (instrTable H C cfg) cfg.lim (callFrame (sh.fns.getD id default) id fr.count)
            (setFnCount sh id (fr.count + 1)) rB) :
    TSteps (instrTable H C cfg) cfg.lim fr sh (wrapCall { fr with rest := [], count := fr.count + 1 } rB) := by
  have hstep : Steps (instrTable H C cfg) cfg.lim (instrTable H C cfg 42) { fr with rest := [UInt8.ofNat h] } sh
      (wrapCall { fr with rest := [], count := fr.count + 1 } rB) := by
    show Steps _ _ (opCall .done) _ _ _
    unfold opCall
    refine Steps.guardCount (by simpa [getCount, hfn] using hc) ?_
    nstep Steps.read (by simp) ?_
    simp only [List.take_succ_cons, List.take_zero, List.drop_succ_cons, List.drop_zero, List.headD_cons]
    exact Steps.call_done (fr := { fr with rest := [] }) hfn hc hl hb
  have hrest' : fr.rest = 42 :: [UInt8.ofNat h] := by simpa [CALL, opc] using hrest
  cases hrB : rB with
  | err e s =>
    rw [hrB] at hstep
    exact TSteps.cons_err 42 _ hrest' hcap hr hstep
  | ok f s =>
    rw [hrB] at hstep
    exact TSteps.cons_ok 42 _ hrest' hcap hr hstep (TSteps.nil rfl)

/-- the state after `OP_DEF h` of `body` in frame `fr` -/
def defState (sh : Shared) (d : Nat) (h : UInt8) (body : Bytes) : Shared :=
  { sh with fns := sh.fns ++ [{ body := body, dict := d, count := 0 }],
            dicts := sh.dicts.set d ((h, sh.fns.length) :: sh.dicts.getD d []) }

/-- `OP_DEF h { body }` at the head of a tape -/
theorem run_def (fr : Frame) (sh : Shared) (h : Nat) (body rest' : Bytes) (r : Res)
    (hrest : fr.rest = defOp h body ++ rest') (hbl : body.length < 65536)
    (hcap : fr.len0 < fr.cap) (hr : sh.returned = false)
    (hk : TSteps (instrTable H C cfg) cfg.lim { fr with rest := rest' } (defState sh fr.dict (UInt8.ofNat h) body) r) :
    TSteps (instrTable H C cfg) cfg.lim fr sh r := by
  have hrest' : fr.rest = 41 :: (UInt8.ofNat h :: (u2 body.length ++ (body ++ rest'))) := by
    simpa [defOp, opc, List.append_assoc] using hrest
  refine run_instr fr _ sh _ 41 _ r hrest' hcap hr ?_ hk
  show Steps _ _ (opDef .done) _ _ _
  unfold opDef readU2
  have hu : (u2 body.length).length = 2 := natToBytesBE_length 2 _
  nstep Steps.read (by simp) ?_
  simp only [List.take_succ_cons, List.take_zero, List.drop_succ_cons, List.drop_zero, List.headD_cons]
  nstep Steps.read (by simp [hu]) ?_
  rw [take_append_len _ _ _ hu, drop_append_len _ _ _ hu, u2_of_nat _ hbl]
  nstep Steps.read (by simp) ?_
  simp only [List.take_left', List.drop_left']
  exact ⟨2, by simp [runOp, defState], rfl⟩

end TV
