import Tapeverif.Lemmas.Exec
import Tapeverif.Model.SigPure
/-! The `Op` terms of GET_MESSAGE / CHECK_SIG compute the pure specifications of
    `Model/SigPure.lean` (symbolic execution, for an arbitrary op table and crypto). -/
namespace TV

open Instr

variable (T : UInt8 → Op) (L : Limits) (H : Hashes) (C : Curve)

theorem getMessageFrom_refines (flag : Nat) : ∀ (fuel i : Nat) (acc : Bytes) (k : Bytes → Op)
    (n : Nat) (fr : Frame) (sh : Shared),
    runOp T L (n + 1 + fuel) (getMessageFrom flag fuel i acc k) fr sh =
      (match SigPure.msgFrom flag sh.cache fuel i with
       | .ok m => runOp T L (n + 1) (k (acc ++ m)) fr sh
       | .error e => .err (.user e) sh) := by
  intro fuel
  induction fuel with
  | zero =>
    intro i acc k n fr sh
    simp [getMessageFrom, SigPure.msgFrom, pure, Except.pure]
  | succ f ih =>
    intro i acc k n fr sh
    simp only [getMessageFrom, SigPure.msgFrom]
    rw [show n + 1 + (f + 1) = (n + 1 + f) + 1 by omega]
    have hkey : sigfieldKey i = CKey.str (asciiBytes ("sigfield" ++ toString i)) := rfl
    rw [hkey, runOp_cacheGet_str, ← hkey]
    cases hl : lookupC (sigfieldKey i) sh.cache with
    | none => simp only; exact ih _ _ _ _ _ _
    | some v =>
      simp only
      split
      · exact ih _ _ _ _ _ _
      · cases v with
        | list l =>
          simp only
          cases f with
          | zero => simp [runOp, throw, throwThe, MonadExceptOf.throw]
          | succ f' => simp [runOp, throw, throwThe, MonadExceptOf.throw]
        | atom a =>
          cases a with
          | bytes b =>
            simp only [ih]
            cases SigPure.msgFrom flag sh.cache f (i + 1) with
            | ok m => simp [Functor.map, Except.map, List.append_assoc]
            | error e => simp [Functor.map, Except.map]
          | bytearray b =>
            simp only [ih]
            cases SigPure.msgFrom flag sh.cache f (i + 1) with
            | ok m => simp [Functor.map, Except.map, List.append_assoc]
            | error e => simp [Functor.map, Except.map]
          | str s => cases f <;> simp [runOp, throw, throwThe, MonadExceptOf.throw]
          | int z => cases f <;> simp [runOp, throw, throwThe, MonadExceptOf.throw]
          | float d => cases f <;> simp [runOp, throw, throwThe, MonadExceptOf.throw]
          | other => cases f <;> simp [runOp, throw, throwThe, MonadExceptOf.throw]

/-- `OP_CHECK_SIG allowed` (after its plugins and operand read): pops key and signature, and
    either fails with exactly the error of the specification — leaving both popped — or pushes
    exactly the Boolean of the specification and continues. -/
theorem checkSigCore_refines (allowed : Nat) (k : Op) (n : Nat) (fr : Frame) (sh : Shared)
    (vkey sig : Bytes) (st : List Bytes) (hs : sh.stack = vkey :: sig :: st)
    (h1 : 1 ≤ L.maxItemSize) (h2 : st.length < L.maxItems) :
    runOp T L (n + 13) (checkSigCore H C allowed k) fr sh =
      (match SigPure.checkSig H C L.maxItemSize sh.cache allowed sig vkey with
       | .ok b => runOp T L n k fr { sh with stack := boolBytes b :: st }
       | .error e => .err (.user e) { sh with stack := st }) := by
  unfold checkSigCore SigPure.checkSig
  rw [runOp_pop T L _ _ fr sh vkey (sig :: st) hs]
  rw [runOp_pop T L _ _ fr _ sig st rfl]
  have hthrow : ∀ (e : ErrKind), (throw e : R Bool) = Except.error e := fun _ => rfl
  by_cases hv : vkey.length ≠ 32
  · simp only [if_pos hv, hthrow]
    rw [show n + 11 = (n + 10) + 1 by omega, runOp_fail]
  · simp only [if_neg hv]
    by_cases hsl : sig.length ≠ 64 ∧ sig.length ≠ 65
    · simp only [if_pos hsl, hthrow]
      rw [show n + 11 = (n + 10) + 1 by omega, runOp_fail]
    · simp only [if_neg hsl]
      generalize hflag : (if sig.length = 64 then 0 else (sig.getLast?.getD 0).toNat) = flag
      by_cases hfl : (!flagsAllowed flag allowed) = true
      · simp only [if_pos hfl, hthrow]
        rw [show n + 11 = (n + 10) + 1 by omega, runOp_fail]
      · simp only [if_neg hfl]
        unfold getMessageCore SigPure.message
        rw [show n + 11 = (n + 2) + 1 + 8 by omega]
        rw [getMessageFrom_refines]
        simp only [List.nil_append]
        cases SigPure.msgFrom flag sh.cache 8 1 with
        | error e => simp [bind, Except.bind]
        | ok m =>
          simp only [bind, Except.bind]
          by_cases hm : m.length ≤ L.maxItemSize
          · simp only [if_pos hm]
            rw [runOp_push T L _ m _ fr _ hm (by simpa using h2)]
            rw [runOp_pop T L _ _ fr _ m st rfl]
            unfold pushBool
            rw [runOp_push T L _ _ _ fr _ (by cases Sodium.verify H C vkey m (List.take 64 sig) <;> simp [boolBytes] <;> omega) (by simpa using h2)]
            rfl
          · simp only [if_neg hm, hthrow]
            simp only [runOp, hm, ↓reduceIte]

end TV
