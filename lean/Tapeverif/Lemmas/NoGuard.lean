import Tapeverif.Model.Instr
import Tapeverif.Lemmas.Counts
/-!
# The substring guard is dead code for the real instruction table

`runTape` refuses to run a frame whose tape is not shorter than its `cap` (`Err.guard`). The
guard keeps the kernel terminating for an *arbitrary* op table (`Lemmas/Term.lean`); the Python
interpreter has no such check. Here: for the 92 real instructions (and the NOP codes) the guard is
never reached, because the only instructions that start a block body (IF, IF_ELSE, TRY_EXCEPT, LOOP)
take the body from the bytes they have just read from their own tape.

`Bounded B0 op`: every block body `op` can start has length `≤ B0`, given that every successful
`.read n` has `n ≤ B0` (`B0` = the length of the tape that remains after the opcode byte).
-/
namespace TV
open Instr

def Bounded (B0 : Nat) : Op → Prop
  | .done => True
  | .fail _ => True
  | .read n k => n ≤ B0 → ∀ b : Bytes, b.length = n → Bounded B0 (k b)
  | .pop k => ∀ x, Bounded B0 (k x)
  | .peekTop k => ∀ x, Bounded B0 (k x)
  | .depth k => ∀ n, Bounded B0 (k n)
  | .push _ k => Bounded B0 k
  | .cacheGet _ k => ∀ v, Bounded B0 (k v)
  | .cachePut _ _ k => Bounded B0 k
  | .rand _ k => ∀ b, Bounded B0 (k b)
  | .log _ k => Bounded B0 k
  | .guardCount k => Bounded B0 k
  | .define _ _ k => Bounded B0 k
  | .call _ k => Bounded B0 k
  | .sub .inline body k => body.length ≤ B0 ∧ Bounded B0 k
  | .sub (.eval _) _ k => Bounded B0 k
  | .tryCatch b e k => b.length ≤ B0 ∧ e.length ≤ B0 ∧ Bounded B0 k
  | .loop body k => body.length ≤ B0 ∧ Bounded B0 k
  | .ret => True
  | .abort => False       -- no real instruction contains the uncatchable failure either

variable {B0 : Nat}

/-! ### the recursive combinators pass `Bounded` through to their continuation -/

theorem bounded_popN : ∀ (n : Nat) (k : List Bytes → Op), (∀ l, Bounded B0 (k l)) → Bounded B0 (popN n k)
  | 0, k, h => h []
  | n+1, k, h => by
    simp only [popN, Bounded]
    intro x
    exact bounded_popN n _ (fun r => h (x :: r))

theorem bounded_pushAll : ∀ (l : List Bytes) (k : Op), Bounded B0 k → Bounded B0 (pushAll l k)
  | [], _, h => h
  | x :: r, k, h => by simp only [pushAll, Bounded]; exact bounded_pushAll r k h

theorem bounded_runSigExts : ∀ (l : List SigExt) (k : Op), Bounded B0 k → Bounded B0 (runSigExts l k)
  | [], _, h => h
  | .log t :: r, k, h => by simp only [runSigExts, Bounded]; exact bounded_runSigExts r k h
  | .raise :: _, _, _ => by simp only [runSigExts, Bounded]

theorem bounded_getMessageFrom (flag : Nat) : ∀ (fuel i : Nat) (acc : Bytes) (k : Bytes → Op),
    (∀ m, Bounded B0 (k m)) → Bounded B0 (getMessageFrom flag fuel i acc k)
  | 0, _, acc, k, h => h acc
  | fuel+1, i, acc, k, h => by
    simp only [getMessageFrom, Bounded]
    intro v
    split
    · exact bounded_getMessageFrom flag fuel (i+1) acc k h
    · split
      · exact bounded_getMessageFrom flag fuel (i+1) acc k h
      · split
        · exact bounded_getMessageFrom flag fuel (i+1) _ k h
        · exact bounded_getMessageFrom flag fuel (i+1) _ k h
        · trivial

theorem bounded_pushAtoms : ∀ (l : List Atom) (k : Op), Bounded B0 k → Bounded B0 (pushAtoms l k)
  | [], _, h => h
  | .bytes b :: r, k, h => by simp only [pushAtoms, Bounded]; exact bounded_pushAtoms r k h
  | .bytearray _ :: _, _, _ => by simp only [pushAtoms, Bounded]
  | .str _ :: _, _, _ => by simp only [pushAtoms, Bounded]
  | .int _ :: _, _, _ => by simp only [pushAtoms, Bounded]
  | .float _ :: _, _, _ => by simp only [pushAtoms, Bounded]
  | .other :: _, _, _ => by simp only [pushAtoms, Bounded]

theorem bounded_popInt (k : Int → Op) (h : ∀ z, Bounded B0 (k z)) : Bounded B0 (popInt k) := by
  simp only [popInt, Bounded]
  intro b
  split
  · exact h _
  · trivial

theorem bounded_foldInts (f : Int → Int → Int) : ∀ (n : Nat) (acc : Int) (k : Int → Op),
    (∀ z, Bounded B0 (k z)) → Bounded B0 (foldInts f n acc k)
  | 0, acc, k, h => h acc
  | n+1, acc, k, h => by
    simp only [foldInts]
    exact bounded_popInt _ (fun z => bounded_foldInts f n _ k h)

theorem bounded_popF32T (k : Float → Op) (h : ∀ z, Bounded B0 (k z)) : Bounded B0 (popF32T k) := by
  simp only [popF32T, Bounded]
  intro b
  split
  · exact h _
  · trivial

theorem bounded_foldFloats (f : Float → Float → Float) : ∀ (n : Nat) (acc : Float) (k : Float → Op),
    (∀ z, Bounded B0 (k z)) → Bounded B0 (foldFloats f n acc k)
  | 0, acc, k, h => h acc
  | n+1, acc, k, h => by
    simp only [foldFloats]
    exact bounded_popF32T _ (fun z => bounded_foldFloats f n _ k h)

theorem bounded_liftR {α : Type} (r : R α) (k : α → Op) (h : ∀ a, Bounded B0 (k a)) : Bounded B0 (liftR r k) := by
  unfold liftR
  split
  · exact h _
  · trivial

theorem bounded_foldR (f : Bytes → Bytes → R Bytes) : ∀ (n : Nat) (acc : Bytes) (k : Bytes → Op),
    (∀ z, Bounded B0 (k z)) → Bounded B0 (foldR f n acc k)
  | 0, acc, k, h => h acc
  | n+1, acc, k, h => by
    simp only [foldR, Bounded]
    intro x
    exact bounded_liftR _ _ (fun a => bounded_foldR f n a k h)

theorem bounded_pushValues : ∀ (l : List Atom) (k : Op), Bounded B0 k → Bounded B0 (pushValues l k)
  | [], _, h => h
  | .bytes b :: r, k, h => by simp only [pushValues, Bounded]; exact bounded_pushValues r k h
  | .bytearray _ :: _, _, _ => by simp only [pushValues, Bounded]
  | .str s :: r, k, h => by simp only [pushValues, Bounded]; exact bounded_pushValues r k h
  | .int z :: r, k, h => by simp only [pushValues, pushInt, Bounded]; exact bounded_pushValues r k h
  | .float d :: r, k, h => by
    simp only [pushValues, pushPacked]
    split
    · simp only [Bounded]; exact bounded_pushValues r k h
    · trivial
  | .other :: r, k, h => by simp only [pushValues]; exact bounded_pushValues r k h

/-- one step of the generic argument: peel a constructor / a combinator, keep the continuation -/
syntax "bnd0_step" : tactic
macro_rules
  | `(tactic| bnd0_step) => `(tactic| first
      | assumption
      | (apply bounded_popN)
      | (apply bounded_pushAll)
      | (apply bounded_runSigExts)
      | (apply bounded_getMessageFrom)
      | (apply bounded_pushAtoms)
      | (apply bounded_popInt)
      | (apply bounded_foldInts)
      | (apply bounded_popF32T)
      | (apply bounded_foldFloats)
      | (apply bounded_liftR)
      | (apply bounded_foldR)
      | (apply bounded_pushValues)
      | (simp only [Bounded, readU1, readU2, pushInt, pushBool, cachePutIf, sigExt, readCacheCore, readCacheSizeCore, getMessageCore,
          divOrFail, popF32V, pushPacked, finishFloat, divFloat, modFloat, swapCore, opVerify, opEqual, opEqualVerify, opDup, opSha256,
          opSwap2, bitop, opEval, id])
      | trivial
      | (intro _)
      | (refine ⟨?_, ?_⟩)
      | split
      | omega)

syntax "bnd0" : tactic
macro_rules
  | `(tactic| bnd0) => `(tactic| repeat bnd0_step)


section withParams
variable (H : Hashes) (C : Curve) (cfg : Cfg)

theorem bounded_checkSigCore (allowed : Nat) (k : Op) (h : Bounded B0 k) : Bounded B0 (checkSigCore H C allowed k) := by
  unfold checkSigCore
  bnd0

theorem bounded_msTryKeys (allowed : Nat) (sig : Bytes) : ∀ (keys : List Bytes) (k : Option Bytes → Op),
    (∀ o, Bounded B0 (k o)) → Bounded B0 (msTryKeys H C allowed sig keys k)
  | [], k, h => h none
  | vk :: r, k, h => by
    simp only [msTryKeys, Bounded]
    refine bounded_checkSigCore H C allowed _ ?_
    simp only [Bounded]
    intro res
    split
    · exact h _
    · exact bounded_msTryKeys allowed sig r k h

theorem bounded_msLoop (allowed : Nat) : ∀ (sigs keys confirmed : List Bytes) (k : List Bytes → Op),
    (∀ l, Bounded B0 (k l)) → Bounded B0 (msLoop H C allowed sigs keys confirmed k)
  | [], _, confirmed, k, h => h confirmed
  | sig :: sigs, keys, confirmed, k, h => by
    simp only [msLoop]
    refine bounded_msTryKeys H C allowed sig keys _ ?_
    intro hit
    split
    · exact bounded_msLoop allowed sigs _ _ k h
    · exact bounded_msLoop allowed sigs _ _ k h

theorem bounded_ctLoop (flag : Nat) : ∀ (fuel i : Nat) (ok : Bool) (k : Bool → Op),
    (∀ b, Bounded B0 (k b)) → Bounded B0 (ctLoop cfg flag fuel i ok k)
  | 0, _, ok, k, h => h ok
  | fuel+1, i, ok, k, h => by
    simp only [ctLoop]
    split
    · exact bounded_ctLoop flag fuel (i+1) ok k h
    · simp only [Bounded]
      intro tmpl v
      split
      · trivial
      · split
        · trivial
        · split
          · trivial
          · split
            · exact bounded_ctLoop flag fuel (i+1) _ k h
            · simp only [Bounded]; exact bounded_ctLoop flag fuel (i+1) _ k h
      · trivial

syntax "bnd_step" : tactic
macro_rules
  | `(tactic| bnd_step) => `(tactic| first
      | (apply bounded_checkSigCore)
      | (apply bounded_msLoop)
      | (apply bounded_ctLoop)
      | bnd0_step)

syntax "bnd" : tactic
macro_rules
  | `(tactic| bnd) => `(tactic| repeat bnd_step)

theorem bounded_opFalse (k : Op) (hk : Bounded B0 k) : Bounded B0 (opFalse k) := by
  unfold opFalse
  bnd

theorem bounded_opTrue (k : Op) (hk : Bounded B0 k) : Bounded B0 (opTrue k) := by
  unfold opTrue
  bnd

theorem bounded_opPush0 (k : Op) (hk : Bounded B0 k) : Bounded B0 (opPush0 k) := by
  unfold opPush0
  bnd

theorem bounded_opPush1 (k : Op) (hk : Bounded B0 k) : Bounded B0 (opPush1 k) := by
  unfold opPush1
  bnd

theorem bounded_opPush2 (k : Op) (hk : Bounded B0 k) : Bounded B0 (opPush2 k) := by
  unfold opPush2
  bnd

theorem bounded_opGetMessage_cfg (k : Op) (hk : Bounded B0 k) : Bounded B0 (opGetMessage cfg k) := by
  unfold opGetMessage
  bnd

theorem bounded_opPop0 (k : Op) (hk : Bounded B0 k) : Bounded B0 (opPop0 k) := by
  unfold opPop0
  bnd

theorem bounded_opPop1 (k : Op) (hk : Bounded B0 k) : Bounded B0 (opPop1 k) := by
  unfold opPop1
  bnd

theorem bounded_opSize (k : Op) (hk : Bounded B0 k) : Bounded B0 (opSize k) := by
  unfold opSize
  bnd

theorem bounded_opWriteCache (k : Op) (hk : Bounded B0 k) : Bounded B0 (opWriteCache k) := by
  unfold opWriteCache
  bnd

theorem bounded_opReadCache (k : Op) (hk : Bounded B0 k) : Bounded B0 (opReadCache k) := by
  unfold opReadCache
  bnd

theorem bounded_opReadCacheSize (k : Op) (hk : Bounded B0 k) : Bounded B0 (opReadCacheSize k) := by
  unfold opReadCacheSize
  bnd

theorem bounded_opReadCacheStack (k : Op) (hk : Bounded B0 k) : Bounded B0 (opReadCacheStack k) := by
  unfold opReadCacheStack
  bnd

theorem bounded_opReadCacheStackSize (k : Op) (hk : Bounded B0 k) : Bounded B0 (opReadCacheStackSize k) := by
  unfold opReadCacheStackSize
  bnd

theorem bounded_opAddInts (k : Op) (hk : Bounded B0 k) : Bounded B0 (opAddInts k) := by
  unfold opAddInts
  bnd

theorem bounded_opSubInts (k : Op) (hk : Bounded B0 k) : Bounded B0 (opSubInts k) := by
  unfold opSubInts
  bnd

theorem bounded_opMultInts (k : Op) (hk : Bounded B0 k) : Bounded B0 (opMultInts k) := by
  unfold opMultInts
  bnd

theorem bounded_opDivInt (k : Op) (hk : Bounded B0 k) : Bounded B0 (opDivInt k) := by
  unfold opDivInt
  bnd

theorem bounded_opDivInts (k : Op) (hk : Bounded B0 k) : Bounded B0 (opDivInts k) := by
  unfold opDivInts
  bnd

theorem bounded_opModInt (k : Op) (hk : Bounded B0 k) : Bounded B0 (opModInt k) := by
  unfold opModInt
  bnd

theorem bounded_opModInts (k : Op) (hk : Bounded B0 k) : Bounded B0 (opModInts k) := by
  unfold opModInts
  bnd

theorem bounded_opAddFloats (k : Op) (hk : Bounded B0 k) : Bounded B0 (opAddFloats k) := by
  unfold opAddFloats
  bnd

theorem bounded_opSubFloats (k : Op) (hk : Bounded B0 k) : Bounded B0 (opSubFloats k) := by
  unfold opSubFloats
  bnd

theorem bounded_opDivFloat (k : Op) (hk : Bounded B0 k) : Bounded B0 (opDivFloat k) := by
  unfold opDivFloat
  bnd

theorem bounded_opDivFloats (k : Op) (hk : Bounded B0 k) : Bounded B0 (opDivFloats k) := by
  unfold opDivFloats
  bnd

theorem bounded_opModFloat (k : Op) (hk : Bounded B0 k) : Bounded B0 (opModFloat k) := by
  unfold opModFloat
  bnd

theorem bounded_opModFloats (k : Op) (hk : Bounded B0 k) : Bounded B0 (opModFloats k) := by
  unfold opModFloats
  bnd

theorem bounded_opAddPoints_C (k : Op) (hk : Bounded B0 k) : Bounded B0 (opAddPoints C k) := by
  unfold opAddPoints
  bnd

theorem bounded_opCopy (k : Op) (hk : Bounded B0 k) : Bounded B0 (opCopy k) := by
  unfold opCopy
  bnd

theorem bounded_opDup (k : Op) (hk : Bounded B0 k) : Bounded B0 (opDup k) := by
  unfold opDup
  bnd

theorem bounded_opSha256_H (k : Op) (hk : Bounded B0 k) : Bounded B0 (opSha256 H k) := by
  unfold opSha256
  bnd

theorem bounded_opShake256_H (k : Op) (hk : Bounded B0 k) : Bounded B0 (opShake256 H k) := by
  unfold opShake256
  bnd

theorem bounded_opVerify (k : Op) (hk : Bounded B0 k) : Bounded B0 (opVerify k) := by
  unfold opVerify
  bnd

theorem bounded_opEqual (k : Op) (hk : Bounded B0 k) : Bounded B0 (opEqual k) := by
  unfold opEqual
  bnd

theorem bounded_opEqualVerify (k : Op) (hk : Bounded B0 k) : Bounded B0 (opEqualVerify k) := by
  unfold opEqualVerify
  bnd

theorem bounded_opCheckSig_H_C_cfg (k : Op) (hk : Bounded B0 k) : Bounded B0 (opCheckSig H C cfg k) := by
  unfold opCheckSig
  bnd

theorem bounded_opCheckSigVerify_H_C_cfg (k : Op) (hk : Bounded B0 k) : Bounded B0 (opCheckSigVerify H C cfg k) := by
  unfold opCheckSigVerify
  bnd

theorem bounded_opCheckTimestamp_cfg (k : Op) (hk : Bounded B0 k) : Bounded B0 (opCheckTimestamp cfg k) := by
  unfold opCheckTimestamp
  bnd

theorem bounded_opCheckTimestampVerify_cfg (k : Op) (hk : Bounded B0 k) : Bounded B0 (opCheckTimestampVerify cfg k) := by
  unfold opCheckTimestampVerify
  bnd

theorem bounded_opCheckEpoch_cfg (k : Op) (hk : Bounded B0 k) : Bounded B0 (opCheckEpoch cfg k) := by
  unfold opCheckEpoch
  bnd

theorem bounded_opCheckEpochVerify_cfg (k : Op) (hk : Bounded B0 k) : Bounded B0 (opCheckEpochVerify cfg k) := by
  unfold opCheckEpochVerify
  bnd

theorem bounded_opDef (k : Op) (hk : Bounded B0 k) : Bounded B0 (opDef k) := by
  unfold opDef
  bnd

theorem bounded_opCall (k : Op) (hk : Bounded B0 k) : Bounded B0 (opCall k) := by
  unfold opCall
  bnd

theorem bounded_opIf (k : Op) (hk : Bounded B0 k) : Bounded B0 (opIf k) := by
  unfold opIf
  bnd

theorem bounded_opIfElse (k : Op) (hk : Bounded B0 k) : Bounded B0 (opIfElse k) := by
  unfold opIfElse
  bnd

theorem bounded_opEval_cfg (k : Op) (hk : Bounded B0 k) : Bounded B0 (opEval cfg k) := by
  unfold opEval
  bnd

theorem bounded_opNot (k : Op) (hk : Bounded B0 k) : Bounded B0 (opNot k) := by
  unfold opNot
  bnd

theorem bounded_opRandom_cfg (k : Op) (hk : Bounded B0 k) : Bounded B0 (opRandom cfg k) := by
  unfold opRandom
  bnd

theorem bounded_opSetFlag (k : Op) (hk : Bounded B0 k) : Bounded B0 (opSetFlag k) := by
  unfold opSetFlag
  bnd

theorem bounded_opUnsetFlag (k : Op) (hk : Bounded B0 k) : Bounded B0 (opUnsetFlag k) := by
  unfold opUnsetFlag
  bnd

theorem bounded_opDepth (k : Op) (hk : Bounded B0 k) : Bounded B0 (opDepth k) := by
  unfold opDepth
  bnd

theorem bounded_opSwap (k : Op) (hk : Bounded B0 k) : Bounded B0 (opSwap k) := by
  unfold opSwap
  bnd

theorem bounded_opSwap2 (k : Op) (hk : Bounded B0 k) : Bounded B0 (opSwap2 k) := by
  unfold opSwap2
  bnd

theorem bounded_opReverse (k : Op) (hk : Bounded B0 k) : Bounded B0 (opReverse k) := by
  unfold opReverse
  bnd

theorem bounded_opConcat (k : Op) (hk : Bounded B0 k) : Bounded B0 (opConcat k) := by
  unfold opConcat
  bnd

theorem bounded_opSplit (k : Op) (hk : Bounded B0 k) : Bounded B0 (opSplit k) := by
  unfold opSplit
  bnd

theorem bounded_opConcatStr (k : Op) (hk : Bounded B0 k) : Bounded B0 (opConcatStr k) := by
  unfold opConcatStr
  bnd

theorem bounded_opSplitStr (k : Op) (hk : Bounded B0 k) : Bounded B0 (opSplitStr k) := by
  unfold opSplitStr
  bnd

theorem bounded_opCheckTransfer_cfg (k : Op) (hk : Bounded B0 k) : Bounded B0 (opCheckTransfer cfg k) := by
  unfold opCheckTransfer
  bnd

theorem bounded_opMerkleval_H_cfg (k : Op) (hk : Bounded B0 k) : Bounded B0 (opMerkleval H cfg k) := by
  unfold opMerkleval
  bnd

theorem bounded_opTryExcept (k : Op) (hk : Bounded B0 k) : Bounded B0 (opTryExcept k) := by
  unfold opTryExcept
  bnd

theorem bounded_opLess (k : Op) (hk : Bounded B0 k) : Bounded B0 (opLess k) := by
  unfold opLess
  bnd

theorem bounded_opLeq (k : Op) (hk : Bounded B0 k) : Bounded B0 (opLeq k) := by
  unfold opLeq
  bnd

theorem bounded_opGetValue (k : Op) (hk : Bounded B0 k) : Bounded B0 (opGetValue k) := by
  unfold opGetValue
  bnd

theorem bounded_opFloatLess (k : Op) (hk : Bounded B0 k) : Bounded B0 (opFloatLess k) := by
  unfold opFloatLess
  bnd

theorem bounded_opFloatLeq (k : Op) (hk : Bounded B0 k) : Bounded B0 (opFloatLeq k) := by
  unfold opFloatLeq
  bnd

theorem bounded_opIntToFloat (k : Op) (hk : Bounded B0 k) : Bounded B0 (opIntToFloat k) := by
  unfold opIntToFloat
  bnd

theorem bounded_opFloatToInt (k : Op) (hk : Bounded B0 k) : Bounded B0 (opFloatToInt k) := by
  unfold opFloatToInt
  bnd

theorem bounded_opLoop (k : Op) (hk : Bounded B0 k) : Bounded B0 (opLoop k) := by
  unfold opLoop
  bnd

theorem bounded_opCheckMultisig_H_C_cfg (k : Op) (hk : Bounded B0 k) : Bounded B0 (opCheckMultisig H C cfg k) := by
  unfold opCheckMultisig
  bnd

theorem bounded_opCheckMultisigVerify_H_C_cfg (k : Op) (hk : Bounded B0 k) : Bounded B0 (opCheckMultisigVerify H C cfg k) := by
  unfold opCheckMultisigVerify
  bnd

theorem bounded_opSign_H_C_cfg (k : Op) (hk : Bounded B0 k) : Bounded B0 (opSign H C cfg k) := by
  unfold opSign
  bnd

theorem bounded_opSignStack_H_C_cfg (k : Op) (hk : Bounded B0 k) : Bounded B0 (opSignStack H C cfg k) := by
  unfold opSignStack
  bnd

theorem bounded_opCheckSigStack_H_C (k : Op) (hk : Bounded B0 k) : Bounded B0 (opCheckSigStack H C k) := by
  unfold opCheckSigStack
  bnd

theorem bounded_opDeriveScalar_H_cfg (k : Op) (hk : Bounded B0 k) : Bounded B0 (opDeriveScalar H cfg k) := by
  unfold opDeriveScalar
  bnd

theorem bounded_opClampScalar (k : Op) (hk : Bounded B0 k) : Bounded B0 (opClampScalar k) := by
  unfold opClampScalar
  bnd

theorem bounded_opAddScalars (k : Op) (hk : Bounded B0 k) : Bounded B0 (opAddScalars k) := by
  unfold opAddScalars
  bnd

theorem bounded_opSubScalars (k : Op) (hk : Bounded B0 k) : Bounded B0 (opSubScalars k) := by
  unfold opSubScalars
  bnd

theorem bounded_opDerivePoint_C_cfg (k : Op) (hk : Bounded B0 k) : Bounded B0 (opDerivePoint C cfg k) := by
  unfold opDerivePoint
  bnd

theorem bounded_opSubPoints_C (k : Op) (hk : Bounded B0 k) : Bounded B0 (opSubPoints C k) := by
  unfold opSubPoints
  bnd

theorem bounded_opMakeAdapterPublic_H_C_cfg (k : Op) (hk : Bounded B0 k) : Bounded B0 (opMakeAdapterPublic H C cfg k) := by
  unfold opMakeAdapterPublic
  bnd

theorem bounded_opMakeAdapterPrivate_H_C_cfg (k : Op) (hk : Bounded B0 k) : Bounded B0 (opMakeAdapterPrivate H C cfg k) := by
  unfold opMakeAdapterPrivate
  bnd

theorem bounded_opCheckAdapterSig_H_C (k : Op) (hk : Bounded B0 k) : Bounded B0 (opCheckAdapterSig H C k) := by
  unfold opCheckAdapterSig
  bnd

theorem bounded_opDecryptAdapterSig_C_cfg (k : Op) (hk : Bounded B0 k) : Bounded B0 (opDecryptAdapterSig C cfg k) := by
  unfold opDecryptAdapterSig
  bnd

theorem bounded_opInvoke_cfg (k : Op) (hk : Bounded B0 k) : Bounded B0 (opInvoke cfg k) := by
  unfold opInvoke
  bnd

theorem bounded_bitop_xorBytes (k : Op) (hk : Bounded B0 k) : Bounded B0 (bitop xorBytes k) := by
  unfold bitop
  bnd

theorem bounded_bitop_orBytes (k : Op) (hk : Bounded B0 k) : Bounded B0 (bitop orBytes k) := by
  unfold bitop
  bnd

theorem bounded_bitop_andBytes (k : Op) (hk : Bounded B0 k) : Bounded B0 (bitop andBytes k) := by
  unfold bitop
  bnd

theorem bounded_opCheckTemplate_cfg (k : Op) (hk : Bounded B0 k) : Bounded B0 (opCheckTemplate cfg k) := by
  unfold opCheckTemplate
  bnd

theorem bounded_opCheckTemplateVerify_cfg (k : Op) (hk : Bounded B0 k) : Bounded B0 (opCheckTemplateVerify cfg k) := by
  unfold opCheckTemplateVerify opCheckTemplate
  bnd

theorem bounded_opTaproot_H_C_cfg (k : Op) (hk : Bounded B0 k) : Bounded B0 (opTaproot H C cfg k) := by
  unfold opTaproot
  bnd

theorem bounded_opNop (k : Op) (hk : Bounded B0 k) : Bounded B0 (opNop k) := by
  unfold opNop
  bnd

theorem bounded_instr (c : Nat) (k : Op) (hk : Bounded B0 k) : Bounded B0 (instr H C cfg c k) := by
  unfold instr
  split
  · apply bounded_opFalse; exact hk
  · apply bounded_opTrue; exact hk
  · apply bounded_opPush0; exact hk
  · apply bounded_opPush1; exact hk
  · apply bounded_opPush2; exact hk
  · apply bounded_opGetMessage_cfg; exact hk
  · apply bounded_opPop0; exact hk
  · apply bounded_opPop1; exact hk
  · apply bounded_opSize; exact hk
  · apply bounded_opWriteCache; exact hk
  · apply bounded_opReadCache; exact hk
  · apply bounded_opReadCacheSize; exact hk
  · apply bounded_opReadCacheStack; exact hk
  · apply bounded_opReadCacheStackSize; exact hk
  · apply bounded_opAddInts; exact hk
  · apply bounded_opSubInts; exact hk
  · apply bounded_opMultInts; exact hk
  · apply bounded_opDivInt; exact hk
  · apply bounded_opDivInts; exact hk
  · apply bounded_opModInt; exact hk
  · apply bounded_opModInts; exact hk
  · apply bounded_opAddFloats; exact hk
  · apply bounded_opSubFloats; exact hk
  · apply bounded_opDivFloat; exact hk
  · apply bounded_opDivFloats; exact hk
  · apply bounded_opModFloat; exact hk
  · apply bounded_opModFloats; exact hk
  · apply bounded_opAddPoints_C; exact hk
  · apply bounded_opCopy; exact hk
  · apply bounded_opDup; exact hk
  · apply bounded_opSha256_H; exact hk
  · apply bounded_opShake256_H; exact hk
  · apply bounded_opVerify; exact hk
  · apply bounded_opEqual; exact hk
  · apply bounded_opEqualVerify; exact hk
  · apply bounded_opCheckSig_H_C_cfg; exact hk
  · apply bounded_opCheckSigVerify_H_C_cfg; exact hk
  · apply bounded_opCheckTimestamp_cfg; exact hk
  · apply bounded_opCheckTimestampVerify_cfg; exact hk
  · apply bounded_opCheckEpoch_cfg; exact hk
  · apply bounded_opCheckEpochVerify_cfg; exact hk
  · apply bounded_opDef; exact hk
  · apply bounded_opCall; exact hk
  · apply bounded_opIf; exact hk
  · apply bounded_opIfElse; exact hk
  · apply bounded_opEval_cfg; exact hk
  · apply bounded_opNot; exact hk
  · apply bounded_opRandom_cfg; exact hk
  · simp only [Bounded]
  · apply bounded_opSetFlag; exact hk
  · apply bounded_opUnsetFlag; exact hk
  · apply bounded_opDepth; exact hk
  · apply bounded_opSwap; exact hk
  · apply bounded_opSwap2; exact hk
  · apply bounded_opReverse; exact hk
  · apply bounded_opConcat; exact hk
  · apply bounded_opSplit; exact hk
  · apply bounded_opConcatStr; exact hk
  · apply bounded_opSplitStr; exact hk
  · apply bounded_opCheckTransfer_cfg; exact hk
  · apply bounded_opMerkleval_H_cfg; exact hk
  · apply bounded_opTryExcept; exact hk
  · apply bounded_opLess; exact hk
  · apply bounded_opLeq; exact hk
  · apply bounded_opGetValue; exact hk
  · apply bounded_opFloatLess; exact hk
  · apply bounded_opFloatLeq; exact hk
  · apply bounded_opIntToFloat; exact hk
  · apply bounded_opFloatToInt; exact hk
  · apply bounded_opLoop; exact hk
  · apply bounded_opCheckMultisig_H_C_cfg; exact hk
  · apply bounded_opCheckMultisigVerify_H_C_cfg; exact hk
  · apply bounded_opSign_H_C_cfg; exact hk
  · apply bounded_opSignStack_H_C_cfg; exact hk
  · apply bounded_opCheckSigStack_H_C; exact hk
  · apply bounded_opDeriveScalar_H_cfg; exact hk
  · apply bounded_opClampScalar; exact hk
  · apply bounded_opAddScalars; exact hk
  · apply bounded_opSubScalars; exact hk
  · apply bounded_opDerivePoint_C_cfg; exact hk
  · apply bounded_opSubPoints_C; exact hk
  · apply bounded_opMakeAdapterPublic_H_C_cfg; exact hk
  · apply bounded_opMakeAdapterPrivate_H_C_cfg; exact hk
  · apply bounded_opCheckAdapterSig_H_C; exact hk
  · apply bounded_opDecryptAdapterSig_C_cfg; exact hk
  · apply bounded_opInvoke_cfg; exact hk
  · apply bounded_bitop_xorBytes; exact hk
  · apply bounded_bitop_orBytes; exact hk
  · apply bounded_bitop_andBytes; exact hk
  · apply bounded_opCheckTemplate_cfg; exact hk
  · apply bounded_opCheckTemplateVerify_cfg; exact hk
  · apply bounded_opTaproot_H_C_cfg; exact hk
  · apply bounded_opNop; exact hk

end withParams


/-! ### the semantic statement -/

variable (T : UInt8 → Op) (L : Limits)

/-- outcome of a run that never hit the guard; for successful runs, the frame is the one the run
    started in with a suffix of its tape left -/
def NG (fr : Frame) : Res → Prop
  | .ok fr' _ => fr'.rest.length ≤ fr.rest.length ∧ fr'.len0 = fr.len0 ∧ fr'.cap = fr.cap
  | .err e _ => e ≠ .guard ∧ e ≠ .abort

theorem NG.mono {fr fr1 : Frame} {r : Res} (h1 : fr1.rest.length ≤ fr.rest.length) (h2 : fr1.len0 = fr.len0) (h3 : fr1.cap = fr.cap)
    (h : NG fr1 r) : NG fr r := by
  cases r with
  | ok f s => exact ⟨Nat.le_trans h.1 h1, h.2.1.trans h2, h.2.2.trans h3⟩
  | err e s => exact h

theorem noguard_main (hT : ∀ c B0, Bounded B0 (T c)) (fuel : Nat) :
    (∀ op fr sh B0, Bounded B0 op → fr.rest.length ≤ B0 → B0 < fr.len0 → fr.len0 < fr.cap → NG fr (runOp T L fuel op fr sh)) ∧
    (∀ budget lc body k fr sh B0, body.length ≤ B0 → Bounded B0 k → fr.rest.length ≤ B0 → B0 < fr.len0 → fr.len0 < fr.cap →
        NG fr (runLoop T L fuel budget lc body k fr sh)) ∧
    (∀ fr sh, fr.rest.length ≤ fr.len0 → fr.len0 < fr.cap → NG fr (runTape T L fuel fr sh)) := by
  induction fuel with
  | zero =>
    refine ⟨?_, ?_, ?_⟩ <;> intros <;> simp only [runOp, runLoop, runTape, NG] <;> simp
  | succ n ih =>
    obtain ⟨ihO, ihL, ihT⟩ := ih
    have refl : ∀ fr sh, NG fr (.ok fr sh) := fun fr sh => ⟨Nat.le_refl _, rfl, rfl⟩
    have endf : ∀ fr sh, NG fr (.ok (endFrame fr) sh) := fun fr sh => ⟨Nat.zero_le _, rfl, rfl⟩
    have uerr : ∀ (fr : Frame) (e : ErrKind) sh, NG fr (.err (.user e) sh) := fun fr e sh => by simp [NG]
    -- after a block body: "if returned then end the frame else continue with k"
    have cont : ∀ (fr : Frame) (sh' : Shared) (k : Op) (B0 : Nat), Bounded B0 k → fr.rest.length ≤ B0 → B0 < fr.len0 → fr.len0 < fr.cap →
        NG fr (if sh'.returned then Res.ok (endFrame fr) sh' else runOp T L n k fr sh') := by
      intro fr sh' k B0 hb h1 h2 h3
      split
      · exact endf fr sh'
      · exact ihO k fr sh' B0 hb h1 h2 h3
    -- a block body frame (IF / ELSE / TRY / EXCEPT / LOOP): its tape is shorter than the parent's
    have block : ∀ (fr : Frame) (body : Bytes) (cnt d : Nat) (sh1 : Shared) (B0 : Nat), body.length ≤ B0 → B0 < fr.len0 →
        NG { rest := body, count := cnt, fn := none, dict := d, len0 := body.length, cap := fr.len0 }
          (runTape T L n { rest := body, count := cnt, fn := none, dict := d, len0 := body.length, cap := fr.len0 } sh1) := by
      intro fr body cnt d sh1 B0 hb h2
      exact ihT _ sh1 (Nat.le_refl _) (by show body.length < fr.len0; omega)
    refine ⟨?_, ?_, ?_⟩
    · intro op fr sh B0 hb h1 h2 h3
      cases op with
      | done => exact refl fr sh
      | fail e => exact uerr fr e sh
      | read m k =>
        simp only [runOp]; split
        · next hm =>
          have hmB : m ≤ B0 := Nat.le_trans hm h1
          have hb' := hb hmB (fr.rest.take m) (by simp [List.length_take]; omega)
          have := ihO (k (fr.rest.take m)) { fr with rest := fr.rest.drop m } sh B0 hb' (by simp; omega) h2 h3
          exact NG.mono (fr1 := { fr with rest := fr.rest.drop m }) (by simp) rfl rfl this
        · exact uerr fr _ sh
      | pop k =>
        simp only [runOp]; split
        · exact uerr fr _ sh
        · exact ihO _ fr _ B0 (hb _) h1 h2 h3
      | peekTop k =>
        simp only [runOp]; split
        · exact uerr fr _ sh
        · exact ihO _ fr _ B0 (hb _) h1 h2 h3
      | depth k => simp only [runOp]; exact ihO _ fr _ B0 (hb _) h1 h2 h3
      | push b k =>
        simp only [runOp]; split
        · split
          · exact ihO _ fr _ B0 hb h1 h2 h3
          · exact uerr fr _ sh
        · exact uerr fr _ sh
      | cacheGet key k => simp only [runOp]; exact ihO _ fr _ B0 (hb _) h1 h2 h3
      | cachePut key v k => simp only [runOp]; exact ihO _ fr _ B0 hb h1 h2 h3
      | rand m k => simp only [runOp]; exact ihO _ fr _ B0 (hb _) h1 h2 h3
      | log t k => simp only [runOp]; exact ihO _ fr _ B0 hb h1 h2 h3
      | guardCount k =>
        simp only [runOp]; split
        · exact ihO _ fr _ B0 hb h1 h2 h3
        · exact uerr fr _ sh
      | define h body k => simp only [runOp]; exact ihO _ fr _ B0 hb h1 h2 h3
      | call h k =>
        simp only [runOp]
        split
        · have hset : ∃ fr1 sh1, setCount fr sh (getCount fr sh + 1) = (fr1, sh1) ∧ fr1.rest = fr.rest ∧ fr1.len0 = fr.len0 ∧ fr1.cap = fr.cap := by
            unfold setCount
            cases fr.fn with
            | none => exact ⟨_, _, rfl, rfl, rfl, rfl⟩
            | some id0 => exact ⟨_, _, rfl, rfl, rfl, rfl⟩
          obtain ⟨fr1, sh1, hsc, hr1, hl1, hc1⟩ := hset
          rw [hsc]
          simp only
          split
          · exact uerr fr _ _
          · next id hid =>
            have hB := ihT { rest := (sh1.fns.getD id default).body, count := getCount fr sh + 1,
                             fn := some id, dict := (sh1.fns.getD id default).dict,
                             len0 := (sh1.fns.getD id default).body.length,
                             cap := (sh1.fns.getD id default).body.length + 1 }
                        (setFnCount sh1 id (getCount fr sh + 1)) (Nat.le_refl _) (Nat.lt_succ_self _)
            split
            · next e sh' heq => rw [heq] at hB; exact hB
            · next fr2 sh' heq =>
              have := ihO k fr1 { sh' with returned := false } B0 hb (by rw [hr1]; exact h1) (by rw [hl1]; exact h2) (by rw [hl1, hc1]; exact h3)
              exact NG.mono (by rw [hr1]; exact Nat.le_refl _) hl1 hc1 this
        · exact uerr fr _ sh
      | ret => exact endf fr _
      | abort => exact absurd hb (by simp [Bounded])
      | sub kind body k =>
        cases kind with
        | inline =>
          simp only [runOp]
          have hB := block fr body (getCount fr sh) (copyDict sh fr.dict).1 (copyDict sh fr.dict).2 B0 hb.1 h2
          split
          · next e sh' heq => rw [heq] at hB; exact hB
          · exact cont fr _ k B0 hb.2 h1 h2 h3
        | eval propagate =>
          simp only [runOp]; split
          · have hB := ihT { rest := body, count := getCount fr sh + 1, fn := none,
                             dict := (copyDict sh fr.dict).1, len0 := body.length, cap := body.length + 1 }
                        (copyDict sh fr.dict).2 (Nat.le_refl _) (Nat.lt_succ_self _)
            split
            · next e sh' heq => rw [heq] at hB; exact hB
            · split
              · exact endf fr _
              · exact ihO k fr _ B0 hb h1 h2 h3
          · exact uerr fr _ sh
      | tryCatch body exc k =>
        simp only [runOp]
        have hB := block fr body (getCount fr sh) (copyDict sh fr.dict).1 (copyDict sh fr.dict).2 B0 hb.1 h2
        split
        · exact cont fr _ k B0 hb.2.2 h1 h2 h3
        · next e sh' heq =>
          rw [heq] at hB
          split
          · next ek =>
            have hB2 := block fr exc (getCount fr (copyDict ({ sh' with cache := (.byt eKey, errValue ek) :: sh'.cache, eTaint := true } : Shared) fr.dict).2)
              (copyDict ({ sh' with cache := (.byt eKey, errValue ek) :: sh'.cache, eTaint := true } : Shared) fr.dict).1
              (copyDict ({ sh' with cache := (.byt eKey, errValue ek) :: sh'.cache, eTaint := true } : Shared) fr.dict).2 B0 hb.2.1 h2
            split
            · next e2 sh4 heq2 => rw [heq2] at hB2; exact hB2
            · exact cont fr _ k B0 hb.2.2 h1 h2 h3
          · exact hB
      | loop body k =>
        simp only [runOp]
        split
        · exact uerr fr _ sh
        · exact ihL _ _ body k fr sh B0 hb.1 hb.2 h1 h2 h3
    · intro budget lc body k fr sh B0 hbody hb h1 h2 h3
      simp only [runLoop]
      split
      · exact uerr fr _ sh
      · split
        · cases budget with
          | zero => exact uerr fr _ sh
          | succ b =>
            simp only []
            have hB := block fr body lc fr.dict sh B0 hbody h2
            split
            · next e sh' heq => rw [heq] at hB; exact hB
            · next fr2 sh' heq =>
              split
              · exact endf fr _
              · exact ihL b fr2.count body k fr sh' B0 hbody hb h1 h2 h3
        · exact ihO k fr sh B0 hb h1 h2 h3
    · intro fr sh h1 h3
      simp only [runTape]
      split
      · exact refl fr sh
      · next c rest heq =>
        split
        · next hg => exact absurd h3 hg
        · split
          · simp [NG]
          · have hlen : rest.length < fr.len0 := by rw [heq] at h1; simp at h1; omega
            have hO := ihO (T c) { fr with rest := rest } sh rest.length (hT c rest.length) (Nat.le_refl _) hlen h3
            split
            · next e sh' heq2 => rw [heq2] at hO; exact hO
            · next fr' sh' heq2 =>
              rw [heq2] at hO
              have hT' := ihT fr' sh' (by rw [hO.2.1]; exact Nat.le_trans hO.1 (Nat.le_of_lt hlen)) (by rw [hO.2.1, hO.2.2]; exact h3)
              exact NG.mono (by rw [heq]; exact Nat.le_trans hO.1 (Nat.le_succ _)) hO.2.1 hO.2.2 hT'

end TV
