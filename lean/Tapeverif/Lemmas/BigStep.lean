import Tapeverif.Lemmas.Mono
import Tapeverif.Model.Auth
/-! Fuel-free big-step relations on top of the fuel-indexed interpreters. `Steps op fr sh r`
    says: with some (hence, by monotonicity, every larger) amount of fuel, running `op` from
    `(fr, sh)` ends in `r`, and `r` is not the out-of-fuel outcome. -/
namespace TV

variable (T : UInt8 → Op) (L : Limits)

def Steps (op : Op) (fr : Frame) (sh : Shared) (r : Res) : Prop :=
  ∃ n, runOp T L n op fr sh = r ∧ r.isFuel = false

def TSteps (fr : Frame) (sh : Shared) (r : Res) : Prop :=
  ∃ n, runTape T L n fr sh = r ∧ r.isFuel = false

variable {T L}

/-- the outcome is determined -/
theorem Steps.det {op : Op} {fr : Frame} {sh : Shared} {r r' : Res}
    (h : Steps T L op fr sh r) (h' : Steps T L op fr sh r') : r = r' := by
  obtain ⟨n, hn, hf⟩ := h
  obtain ⟨m, hm, hf'⟩ := h'
  have a := runOp_mono T L (Nat.le_max_left n m) hn hf
  have b := runOp_mono T L (Nat.le_max_right n m) hm hf'
  rw [← a, ← b]

theorem TSteps.det {fr : Frame} {sh : Shared} {r r' : Res}
    (h : TSteps T L fr sh r) (h' : TSteps T L fr sh r') : r = r' := by
  obtain ⟨n, hn, hf⟩ := h
  obtain ⟨m, hm, hf'⟩ := h'
  have a := runTape_mono T L (Nat.le_max_left n m) hn hf
  have b := runTape_mono T L (Nat.le_max_right n m) hm hf'
  rw [← a, ← b]

/-- every sufficiently large fuel gives the outcome -/
theorem TSteps.run {fr : Frame} {sh : Shared} {r : Res} (h : TSteps T L fr sh r) :
    ∃ n0, ∀ n, n0 ≤ n → runTape T L n fr sh = r := by
  obtain ⟨n0, hn, hf⟩ := h
  exact ⟨n0, fun n hle => runTape_mono T L hle hn hf⟩

theorem Steps.run {op : Op} {fr : Frame} {sh : Shared} {r : Res} (h : Steps T L op fr sh r) :
    ∃ n0, ∀ n, n0 ≤ n → runOp T L n op fr sh = r := by
  obtain ⟨n0, hn, hf⟩ := h
  exact ⟨n0, fun n hle => runOp_mono T L hle hn hf⟩

/-! ### primitives -/
theorem Steps.done (fr : Frame) (sh : Shared) : Steps T L .done fr sh (.ok fr sh) :=
  ⟨1, by simp [runOp], rfl⟩

theorem Steps.fail (e : ErrKind) (fr : Frame) (sh : Shared) :
    Steps T L (.fail e) fr sh (.err (.user e) sh) := ⟨1, by simp [runOp], rfl⟩

theorem Steps.ret (fr : Frame) (sh : Shared) :
    Steps T L .ret fr sh (.ok (endFrame fr) { sh with returned := true }) := ⟨1, by simp [runOp], rfl⟩

theorem Steps.pop {k : Bytes → Op} {fr : Frame} {sh : Shared} {r : Res} (x : Bytes) (st : List Bytes)
    (hs : sh.stack = x :: st) (h : Steps T L (k x) fr { sh with stack := st } r) :
    Steps T L (.pop k) fr sh r := by
  obtain ⟨n, hn, hf⟩ := h
  exact ⟨n+1, by simp [runOp, hs, hn], hf⟩

theorem Steps.pop_empty {k : Bytes → Op} {fr : Frame} {sh : Shared} (hs : sh.stack = []) :
    Steps T L (.pop k) fr sh (.err (.user .index) sh) := ⟨1, by simp [runOp, hs], rfl⟩

theorem Steps.peekTop {k : Bytes → Op} {fr : Frame} {sh : Shared} {r : Res} (x : Bytes) (st : List Bytes)
    (hs : sh.stack = x :: st) (h : Steps T L (k x) fr sh r) :
    Steps T L (.peekTop k) fr sh r := by
  obtain ⟨n, hn, hf⟩ := h
  exact ⟨n+1, by simp [runOp, hs, hn], hf⟩

theorem Steps.depth {k : Nat → Op} {fr : Frame} {sh : Shared} {r : Res}
    (h : Steps T L (k sh.stack.length) fr sh r) : Steps T L (.depth k) fr sh r := by
  obtain ⟨n, hn, hf⟩ := h
  exact ⟨n+1, by simp [runOp, hn], hf⟩

theorem Steps.push {b : Bytes} {k : Op} {fr : Frame} {sh : Shared} {r : Res}
    (h1 : b.length ≤ L.maxItemSize) (h2 : sh.stack.length < L.maxItems)
    (h : Steps T L k fr { sh with stack := b :: sh.stack } r) : Steps T L (.push b k) fr sh r := by
  obtain ⟨n, hn, hf⟩ := h
  exact ⟨n+1, by simp [runOp, h1, h2, hn], hf⟩

theorem Steps.push_too_big {b : Bytes} {k : Op} {fr : Frame} {sh : Shared}
    (h1 : ¬ b.length ≤ L.maxItemSize) : Steps T L (.push b k) fr sh (.err (.user .see) sh) :=
  ⟨1, by simp [runOp, h1], rfl⟩

theorem Steps.push_full {b : Bytes} {k : Op} {fr : Frame} {sh : Shared}
    (h2 : ¬ sh.stack.length < L.maxItems) : Steps T L (.push b k) fr sh (.err (.user .see) sh) :=
  ⟨1, by simp [runOp, h2], rfl⟩

theorem Steps.read {m : Nat} {k : Bytes → Op} {fr : Frame} {sh : Shared} {r : Res}
    (hm : m ≤ fr.rest.length)
    (h : Steps T L (k (fr.rest.take m)) { fr with rest := fr.rest.drop m } sh r) :
    Steps T L (.read m k) fr sh r := by
  obtain ⟨n, hn, hf⟩ := h
  exact ⟨n+1, by simp [runOp, hm, hn], hf⟩

theorem Steps.read_short {m : Nat} {k : Bytes → Op} {fr : Frame} {sh : Shared}
    (hm : ¬ m ≤ fr.rest.length) : Steps T L (.read m k) fr sh (.err (.user .see) sh) :=
  ⟨1, by simp [runOp, hm], rfl⟩

/-- reading a `str`-keyed cache entry (never touches the taint flags) -/
theorem Steps.cacheGet_str {s : Bytes} {k : Option CVal → Op} {fr : Frame} {sh : Shared} {r : Res}
    (h : Steps T L (k (lookupC (.str s) sh.cache)) fr sh r) :
    Steps T L (.cacheGet (.str s) k) fr sh r := by
  obtain ⟨n, hn, hf⟩ := h
  exact ⟨n+1, by simp [runOp, hn], hf⟩

/-- reading a `bytes`-keyed cache entry other than `b'E'` -/
theorem Steps.cacheGet_byt {key : Bytes} {k : Option CVal → Op} {fr : Frame} {sh : Shared} {r : Res}
    (hk : key ≠ eKey) (h : Steps T L (k (lookupC (.byt key) sh.cache)) fr sh r) :
    Steps T L (.cacheGet (.byt key) k) fr sh r := by
  obtain ⟨n, hn, hf⟩ := h
  refine ⟨n+1, ?_, hf⟩
  have : ¬ (CKey.byt key = CKey.byt eKey ∧ sh.eTaint = true) := by
    intro ⟨h1, _⟩; exact hk (by injection h1)
  simp only [runOp, this, ↓reduceIte, hn]

theorem Steps.cachePut {key : Bytes} {v : CVal} {k : Op} {fr : Frame} {sh : Shared} {r : Res}
    (h : Steps T L k fr { sh with cache := (.byt key, v) :: sh.cache,
                                  eTaint := if key = eKey then false else sh.eTaint } r) :
    Steps T L (.cachePut key v k) fr sh r := by
  obtain ⟨n, hn, hf⟩ := h
  exact ⟨n+1, by simp only [runOp]; exact hn, hf⟩

theorem Steps.log {t : Nat} {k : Op} {fr : Frame} {sh : Shared} {r : Res}
    (h : Steps T L k fr { sh with plog := t :: sh.plog } r) : Steps T L (.log t k) fr sh r := by
  obtain ⟨n, hn, hf⟩ := h
  exact ⟨n+1, by simp [runOp, hn], hf⟩

theorem Steps.guardCount {k : Op} {fr : Frame} {sh : Shared} {r : Res}
    (hc : getCount fr sh < L.callLimit) (h : Steps T L k fr sh r) :
    Steps T L (.guardCount k) fr sh r := by
  obtain ⟨n, hn, hf⟩ := h
  exact ⟨n+1, by simp [runOp, hc, hn], hf⟩

theorem Steps.guardCount_over {k : Op} {fr : Frame} {sh : Shared}
    (hc : ¬ getCount fr sh < L.callLimit) :
    Steps T L (.guardCount k) fr sh (.err (.user .see) sh) := ⟨1, by simp [runOp, hc], rfl⟩

/-- the frame an evaluated script runs in -/
def evalFrame (body : Bytes) (c : Nat) (d : Nat) : Frame :=
  { rest := body, count := c + 1, fn := none, dict := d, len0 := body.length, cap := body.length + 1 }

/-- `OP_EVAL`-style sub-run that ends without error and without a propagating RETURN -/
theorem Steps.sub_eval_ok {p : Bool} {body : Bytes} {k : Op} {fr fr' : Frame} {sh sh' : Shared} {r : Res}
    (hc : getCount fr sh < L.callLimit)
    (hb : TSteps T L (evalFrame body (getCount fr sh) (copyDict sh fr.dict).1) (copyDict sh fr.dict).2 (.ok fr' sh'))
    (hp : (sh'.returned && p) = false)
    (h : Steps T L k fr { sh' with returned := false } r) :
    Steps T L (.sub (.eval p) body k) fr sh r := by
  obtain ⟨n, hn, hf⟩ := h
  obtain ⟨m, hm, _⟩ := hb
  have hm' := runTape_mono T L (Nat.le_max_left m n) hm rfl
  have hn' := runOp_mono T L (Nat.le_max_right m n) hn hf
  refine ⟨max m n + 1, ?_, hf⟩
  unfold evalFrame at hm'
  simp only [runOp, hc, ↓reduceIte, hm', hp, Bool.false_eq_true, hn']

/-- … that ends with an error: the error propagates, nothing after it runs -/
theorem Steps.sub_eval_err {p : Bool} {body : Bytes} {k : Op} {fr : Frame} {sh sh' : Shared} {e : Err}
    (hc : getCount fr sh < L.callLimit) (he : e ≠ .fuel)
    (hb : TSteps T L (evalFrame body (getCount fr sh) (copyDict sh fr.dict).1) (copyDict sh fr.dict).2 (.err e sh')) :
    Steps T L (.sub (.eval p) body k) fr sh (.err e sh') := by
  obtain ⟨m, hm, _⟩ := hb
  refine ⟨m + 1, ?_, by cases e <;> first | rfl | exact absurd rfl he⟩
  unfold evalFrame at hm
  simp only [runOp, hc, ↓reduceIte, hm]

theorem Steps.sub_eval_over {p : Bool} {body : Bytes} {k : Op} {fr : Frame} {sh : Shared}
    (hc : ¬ getCount fr sh < L.callLimit) :
    Steps T L (.sub (.eval p) body k) fr sh (.err (.user .see) sh) := ⟨1, by simp [runOp, hc], rfl⟩

/-! ### tapes -/
theorem TSteps.nil {fr : Frame} {sh : Shared} (h : fr.rest = []) : TSteps T L fr sh (.ok fr sh) :=
  ⟨1, by simp [runTape, h], rfl⟩

theorem TSteps.cons_ok {fr fr' : Frame} {sh sh' : Shared} {r : Res} (c : UInt8) (rest : Bytes)
    (hrest : fr.rest = c :: rest) (hcap : fr.len0 < fr.cap) (hr : sh.returned = false)
    (h1 : Steps T L (T c) { fr with rest := rest } sh (.ok fr' sh'))
    (h2 : TSteps T L fr' sh' r) : TSteps T L fr sh r := by
  obtain ⟨n, hn, _⟩ := h1
  obtain ⟨m, hm, hf⟩ := h2
  have hn' := runOp_mono T L (Nat.le_max_left n m) hn rfl
  have hm' := runTape_mono T L (Nat.le_max_right n m) hm hf
  refine ⟨max n m + 1, ?_, hf⟩
  have : ¬ ¬ fr.len0 < fr.cap := by simpa using hcap
  simp only [runTape, hrest, hr, this, Bool.false_eq_true, ↓reduceIte, hn', hm']

theorem TSteps.cons_err {fr : Frame} {sh sh' : Shared} {e : Err} (c : UInt8) (rest : Bytes)
    (hrest : fr.rest = c :: rest) (hcap : fr.len0 < fr.cap) (hr : sh.returned = false)
    (h1 : Steps T L (T c) { fr with rest := rest } sh (.err e sh')) :
    TSteps T L fr sh (.err e sh') := by
  obtain ⟨n, hn, hf⟩ := h1
  refine ⟨n + 1, ?_, hf⟩
  have : ¬ ¬ fr.len0 < fr.cap := by simpa using hcap
  simp only [runTape, hrest, hr, this, Bool.false_eq_true, ↓reduceIte, hn]

end TV
