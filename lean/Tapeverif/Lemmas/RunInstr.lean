import Tapeverif.Lemmas.Run
import Tapeverif.Lemmas.SigRefine
import Tapeverif.Props.C16
/-! Head-of-tape big-step rules, one per instruction the lock builders use: each consumes the
    instruction's bytes from the front of the tape and hands over the exact next state. The time
    instructions reuse the C16 theorems (this is why the file imports `Props/C16`). -/
namespace TV
open Instr Tools

variable (H : Hashes) (C : Curve) (cfg : Cfg)

/-- a generic head-of-tape rule: fetch opcode `c`, run its op term on the remaining tape -/
theorem run_instr {T : UInt8 → Op} {L : Limits} (fr fr' : Frame) (sh sh' : Shared) (c : UInt8) (tl : Bytes) (r : Res)
    (hrest : fr.rest = c :: tl) (hcap : fr.len0 < fr.cap) (hr : sh.returned = false)
    (h1 : Steps T L (T c) { fr with rest := tl } sh (.ok fr' sh'))
    (h2 : TSteps T L fr' sh' r) : TSteps T L fr sh r :=
  TSteps.cons_ok c tl hrest hcap hr h1 h2

/-- `OP_DUP` -/
theorem run_dup (fr : Frame) (sh : Shared) (rest' : Bytes) (x : Bytes) (st : List Bytes) (r : Res)
    (hrest : fr.rest = DUP ++ rest') (hcap : fr.len0 < fr.cap) (hr : sh.returned = false)
    (hs : sh.stack = x :: st) (hsz : x.length ≤ cfg.lim.maxItemSize) (hroom : st.length + 1 < cfg.lim.maxItems)
    (h : TSteps (instrTable H C cfg) cfg.lim { fr with rest := rest' } { sh with stack := x :: x :: st } r) :
    TSteps (instrTable H C cfg) cfg.lim fr sh r := by
  refine run_instr fr _ sh _ 29 rest' r (by simpa [DUP, opc] using hrest) hcap hr ?_ h
  show Steps _ _ (opDup .done) _ _ _
  unfold opDup
  nstep Steps.pop x st hs ?_
  nstep Steps.push hsz (by simp; omega) ?_
  nstep Steps.push hsz (by simp; omega) ?_
  exact Steps.done _ _

/-- `OP_POP0` (the popped item is remembered in `cache[b'P']`) -/
theorem run_pop0 (fr : Frame) (sh : Shared) (rest' : Bytes) (x : Bytes) (st : List Bytes) (r : Res)
    (hrest : fr.rest = POP0 ++ rest') (hcap : fr.len0 < fr.cap) (hr : sh.returned = false)
    (hs : sh.stack = x :: st)
    (h : TSteps (instrTable H C cfg) cfg.lim { fr with rest := rest' }
          { sh with stack := st, cache := (.byt pKey, .list [.bytes x]) :: sh.cache } r) :
    TSteps (instrTable H C cfg) cfg.lim fr sh r := by
  refine run_instr fr _ sh _ 6 rest' r (by simpa [POP0, opc] using hrest) hcap hr ?_ h
  show Steps _ _ (opPop0 .done) _ _ _
  unfold opPop0
  nstep Steps.pop x st hs ?_
  nstep Steps.cachePut ?_
  simp only [show (pKey = eKey) = False by decide, ↓reduceIte]
  exact Steps.done _ _

/-- `OP_SWAP2` -/
theorem run_swap2 (fr : Frame) (sh : Shared) (rest' : Bytes) (a b : Bytes) (st : List Bytes) (r : Res)
    (hrest : fr.rest = SWAP2 ++ rest') (hcap : fr.len0 < fr.cap) (hr : sh.returned = false)
    (hs : sh.stack = a :: b :: st) (ha : a.length ≤ cfg.lim.maxItemSize) (hb : b.length ≤ cfg.lim.maxItemSize)
    (hroom : st.length + 1 < cfg.lim.maxItems)
    (h : TSteps (instrTable H C cfg) cfg.lim { fr with rest := rest' } { sh with stack := b :: a :: st } r) :
    TSteps (instrTable H C cfg) cfg.lim fr sh r := by
  refine run_instr fr _ sh _ 53 rest' r (by simpa [SWAP2, opc] using hrest) hcap hr ?_ h
  show Steps _ _ (opSwap2 .done) _ _ _
  unfold opSwap2
  nstep Steps.pop a (b :: st) hs ?_
  nstep Steps.pop b st rfl ?_
  nstep Steps.push ha (by simp; omega) ?_
  nstep Steps.push hb (by simp; omega) ?_
  exact Steps.done _ _

/-- `OP_NOT` -/
theorem run_not (fr : Frame) (sh : Shared) (rest' : Bytes) (x : Bytes) (st : List Bytes) (r : Res)
    (hrest : fr.rest = opc NOT ++ rest') (hcap : fr.len0 < fr.cap) (hr : sh.returned = false)
    (hs : sh.stack = x :: st) (hsz : x.length ≤ cfg.lim.maxItemSize) (hroom : st.length < cfg.lim.maxItems)
    (h : TSteps (instrTable H C cfg) cfg.lim { fr with rest := rest' } { sh with stack := notBytes x :: st } r) :
    TSteps (instrTable H C cfg) cfg.lim fr sh r := by
  refine run_instr fr _ sh _ 46 rest' r (by simpa [NOT, opc] using hrest) hcap hr ?_ h
  show Steps _ _ (opNot .done) _ _ _
  unfold opNot
  nstep Steps.pop x st hs ?_
  nstep Steps.push (by simpa [notBytes] using hsz) (by simpa using hroom) ?_
  exact Steps.done _ _

/-- `OP_VERIFY` on a true item -/
theorem run_verify_true (fr : Frame) (sh : Shared) (rest' : Bytes) (x : Bytes) (st : List Bytes) (r : Res)
    (hrest : fr.rest = opc VERIFY ++ rest') (hcap : fr.len0 < fr.cap) (hr : sh.returned = false)
    (hs : sh.stack = x :: st) (hx : truthy x = true)
    (h : TSteps (instrTable H C cfg) cfg.lim { fr with rest := rest' } { sh with stack := st } r) :
    TSteps (instrTable H C cfg) cfg.lim fr sh r := by
  refine run_instr fr _ sh _ 32 rest' r (by simpa [VERIFY, opc] using hrest) hcap hr ?_ h
  show Steps _ _ (opVerify .done) _ _ _
  unfold opVerify
  nstep Steps.pop x st hs ?_
  simp only [hx, ↓reduceIte]
  exact Steps.done _ _

/-- `OP_VERIFY` on a false item: the script ends with a `ScriptExecutionError` -/
theorem run_verify_false (fr : Frame) (sh : Shared) (rest' : Bytes) (x : Bytes) (st : List Bytes)
    (hrest : fr.rest = opc VERIFY ++ rest') (hcap : fr.len0 < fr.cap) (hr : sh.returned = false)
    (hs : sh.stack = x :: st) (hx : truthy x = false) :
    TSteps (instrTable H C cfg) cfg.lim fr sh (.err (.user .see) { sh with stack := st }) := by
  refine TSteps.cons_err 32 rest' (by simpa [VERIFY, opc] using hrest) hcap hr ?_
  show Steps _ _ (opVerify .done) _ _ _
  unfold opVerify
  nstep Steps.pop x st hs ?_
  simp only [hx, Bool.false_eq_true, ↓reduceIte]
  exact Steps.fail _ _ _

/-- `OP_SPLIT` with the index on top -/
theorem run_split (fr : Frame) (sh : Shared) (rest' : Bytes) (idx : Nat) (ib item : Bytes) (st : List Bytes) (r : Res)
    (hrest : fr.rest = SPLIT ++ rest') (hcap : fr.len0 < fr.cap) (hr : sh.returned = false)
    (hs : sh.stack = ib :: item :: st) (hib : bytesToInt ib = some (idx : Int)) (hidx : idx < item.length)
    (hsz : item.length ≤ cfg.lim.maxItemSize) (hroom : st.length + 1 < cfg.lim.maxItems)
    (h : TSteps (instrTable H C cfg) cfg.lim { fr with rest := rest' }
          { sh with stack := item.drop idx :: item.take idx :: st } r) :
    TSteps (instrTable H C cfg) cfg.lim fr sh r := by
  refine run_instr fr _ sh _ 56 rest' r (by simpa [SPLIT, opc] using hrest) hcap hr ?_ h
  show Steps _ _ (opSplit .done) _ _ _
  unfold opSplit popInt
  nstep Steps.pop ib (item :: st) hs ?_
  rw [hib]
  dsimp only
  nstep Steps.pop item st rfl ?_
  have hneg : ¬ ((idx : Int) < 0) := by omega
  simp only [hneg, ↓reduceIte, Int.toNat_natCast, hidx]
  nstep Steps.push (by simp; omega) (by simp; omega) ?_
  nstep Steps.push (by simp; omega) (by simp; omega) ?_
  exact Steps.done _ _

/-- turn a fuel-indexed rewriting lemma into a big-step rule -/
theorem steps_of_eq {T : UInt8 → Op} {L : Limits} {op k : Op} {fr fr' : Frame} {sh sh' : Shared} {r : Res} (K : Nat)
    (h : ∀ n, runOp T L (n + K) op fr sh = runOp T L n k fr' sh') (hk : Steps T L k fr' sh' r) :
    Steps T L op fr sh r := by
  obtain ⟨n, hn, hf⟩ := hk
  exact ⟨n + K, by rw [h, hn], hf⟩

theorem u1_of_nat (n : Nat) (h : n < 256) : natOfBytesBE [UInt8.ofNat n] = n := by
  simp [natOfBytesBE, UInt8.toNat_ofNat', Nat.mod_eq_of_lt h]

/-- `OP_WRITE_CACHE <key> 1` -/
theorem run_writeCache1 (fr : Frame) (sh : Shared) (rest' kb : Bytes) (x : Bytes) (st : List Bytes) (r : Res)
    (hrest : fr.rest = 9 :: UInt8.ofNat kb.length :: (kb ++ 1 :: rest')) (hkl : kb.length < 256) (hk : kb ≠ eKey)
    (hcap : fr.len0 < fr.cap) (hr : sh.returned = false) (hs : sh.stack = x :: st)
    (h : TSteps (instrTable H C cfg) cfg.lim { fr with rest := rest' }
          { sh with stack := st, cache := (.byt kb, .list [.bytes x]) :: sh.cache } r) :
    TSteps (instrTable H C cfg) cfg.lim fr sh r := by
  refine run_instr fr _ sh _ 9 _ r hrest hcap hr ?_ h
  show Steps _ _ (opWriteCache .done) _ _ _
  unfold opWriteCache readU1
  nstep Steps.read (by simp) ?_
  simp only [List.take_succ_cons, List.take_zero, List.drop_succ_cons, List.drop_zero, u1_of_nat _ hkl]
  nstep Steps.read (by simp) ?_
  simp only [List.take_left', List.drop_left']
  nstep Steps.read (by simp) ?_
  simp only [List.take_succ_cons, List.take_zero, List.drop_succ_cons, List.drop_zero,
    show natOfBytesBE [(1 : UInt8)] = 1 by decide, popN]
  nstep Steps.pop x st hs ?_
  nstep Steps.cachePut ?_
  simp only [hk, ↓reduceIte, List.map_cons, List.map_nil]
  exact Steps.done _ _

/-- `OP_READ_CACHE <key>` of an entry holding one bytes item -/
theorem run_readCache1 (fr : Frame) (sh : Shared) (rest' kb : Bytes) (x : Bytes) (r : Res)
    (hrest : fr.rest = 10 :: UInt8.ofNat kb.length :: (kb ++ rest')) (hkl : kb.length < 256) (hk : kb ≠ eKey)
    (hcap : fr.len0 < fr.cap) (hr : sh.returned = false)
    (hv : lookupC (.byt kb) sh.cache = some (.list [.bytes x]))
    (hsz : x.length ≤ cfg.lim.maxItemSize) (hroom : sh.stack.length < cfg.lim.maxItems)
    (h : TSteps (instrTable H C cfg) cfg.lim { fr with rest := rest' } { sh with stack := x :: sh.stack } r) :
    TSteps (instrTable H C cfg) cfg.lim fr sh r := by
  refine run_instr fr _ sh _ 10 _ r hrest hcap hr ?_ h
  show Steps _ _ (opReadCache .done) _ _ _
  unfold opReadCache readU1
  nstep Steps.read (by simp) ?_
  simp only [List.take_succ_cons, List.take_zero, List.drop_succ_cons, List.drop_zero, u1_of_nat _ hkl]
  nstep Steps.read (by simp) ?_
  simp only [List.take_left', List.drop_left']
  unfold readCacheCore
  nstep Steps.cacheGet_byt hk ?_
  rw [hv]
  simp only [itemsOf, pushAtoms]
  nstep Steps.push hsz hroom ?_
  exact Steps.done _ _

/-- `OP_CHECK_SIG_STACK`: key, message, signature on the stack -/
theorem run_css (fr : Frame) (sh : Shared) (rest' : Bytes) (vkey m sig : Bytes) (st : List Bytes) (r : Res)
    (hrest : fr.rest = CSS ++ rest') (hcap : fr.len0 < fr.cap) (hr : sh.returned = false)
    (hs : sh.stack = vkey :: m :: sig :: st) (hv : vkey.length = 32) (hsl : sig.length = 64)
    (h1 : 1 ≤ cfg.lim.maxItemSize) (hroom : st.length < cfg.lim.maxItems)
    (h : TSteps (instrTable H C cfg) cfg.lim { fr with rest := rest' }
          { sh with stack := boolBytes (Sodium.verify H C vkey m sig) :: st } r) :
    TSteps (instrTable H C cfg) cfg.lim fr sh r := by
  refine run_instr fr _ sh _ 74 rest' r (by simpa [CSS, opc] using hrest) hcap hr ?_ h
  show Steps _ _ (opCheckSigStack H C .done) _ _ _
  unfold opCheckSigStack
  nstep Steps.pop vkey (m :: sig :: st) hs ?_
  simp only [hv, ne_eq, not_true_eq_false, ↓reduceIte]
  nstep Steps.pop m (sig :: st) rfl ?_
  nstep Steps.pop sig st rfl ?_
  simp only [hsl, not_true_eq_false, ↓reduceIte]
  unfold pushBool
  nstep Steps.push (by cases Sodium.verify H C vkey m sig <;> simp [boolBytes] <;> omega) (by simpa using hroom) ?_
  exact Steps.done _ _

/-- `OP_CHECK_TIMESTAMP` -/
theorem run_cts (fr : Frame) (sh : Shared) (rest' : Bytes) (c : Bytes) (st : List Bytes) (t thr : Int) (r : Res)
    (hrest : fr.rest = opc CTS ++ rest') (hcap : fr.len0 < fr.cap) (hr : sh.returned = false)
    (hs : sh.stack = c :: st) (hc : c ≠ [])
    (ht : lookupC C16.tsKey sh.cache = some (.atom (.int t))) (hthr : cfg.tsThreshold = some thr)
    (h1 : 1 ≤ cfg.lim.maxItemSize) (hroom : st.length < cfg.lim.maxItems)
    (h : TSteps (instrTable H C cfg) cfg.lim { fr with rest := rest' }
          { sh with stack := boolBytes (C16.tsAccept t cfg.now thr c) :: st } r) :
    TSteps (instrTable H C cfg) cfg.lim fr sh r := by
  refine run_instr fr _ sh _ 37 rest' r (by simpa [CTS, opc] using hrest) hcap hr ?_ h
  show Steps _ _ (opCheckTimestamp cfg .done) _ _ _
  exact steps_of_eq 3 (fun n => C16.checkTimestamp_iff _ cfg.lim cfg n .done _ sh c st t thr hc hs ht hthr h1 hroom)
    (Steps.done _ _)

/-- `OP_CHECK_TIMESTAMP_VERIFY`, constraint satisfied -/
theorem run_ctsv_ok (fr : Frame) (sh : Shared) (rest' : Bytes) (c : Bytes) (st : List Bytes) (t thr : Int) (r : Res)
    (hrest : fr.rest = opc CTSV ++ rest') (hcap : fr.len0 < fr.cap) (hr : sh.returned = false)
    (hs : sh.stack = c :: st) (hc : c ≠ [])
    (ht : lookupC C16.tsKey sh.cache = some (.atom (.int t))) (hthr : cfg.tsThreshold = some thr)
    (h1 : 1 ≤ cfg.lim.maxItemSize) (hroom : st.length < cfg.lim.maxItems)
    (hacc : C16.tsAccept t cfg.now thr c = true)
    (h : TSteps (instrTable H C cfg) cfg.lim { fr with rest := rest' } { sh with stack := st } r) :
    TSteps (instrTable H C cfg) cfg.lim fr sh r := by
  refine run_instr fr _ sh _ 38 rest' r (by simpa [CTSV, opc] using hrest) hcap hr ?_ h
  show Steps _ _ (opCheckTimestampVerify cfg .done) _ _ _
  unfold opCheckTimestampVerify
  refine steps_of_eq 3 (fun n => C16.checkTimestamp_iff _ cfg.lim cfg n (opVerify .done) _ sh c st t thr hc hs ht hthr h1 hroom) ?_
  unfold opVerify
  nstep Steps.pop (boolBytes (C16.tsAccept t cfg.now thr c)) st rfl ?_
  rw [hacc]
  simp only [show truthy (boolBytes true) = true by decide, ↓reduceIte]
  exact Steps.done _ _

/-- `OP_CHECK_TIMESTAMP_VERIFY`, constraint violated: the script ends with an error -/
theorem run_ctsv_fail (fr : Frame) (sh : Shared) (rest' : Bytes) (c : Bytes) (st : List Bytes) (t thr : Int)
    (hrest : fr.rest = opc CTSV ++ rest') (hcap : fr.len0 < fr.cap) (hr : sh.returned = false)
    (hs : sh.stack = c :: st) (hc : c ≠ [])
    (ht : lookupC C16.tsKey sh.cache = some (.atom (.int t))) (hthr : cfg.tsThreshold = some thr)
    (h1 : 1 ≤ cfg.lim.maxItemSize) (hroom : st.length < cfg.lim.maxItems)
    (hacc : C16.tsAccept t cfg.now thr c = false) :
    TSteps (instrTable H C cfg) cfg.lim fr sh (.err (.user .see) { sh with stack := st }) := by
  refine TSteps.cons_err 38 rest' (by simpa [CTSV, opc] using hrest) hcap hr ?_
  show Steps _ _ (opCheckTimestampVerify cfg .done) _ _ _
  unfold opCheckTimestampVerify
  refine steps_of_eq 3 (fun n => C16.checkTimestamp_iff _ cfg.lim cfg n (opVerify .done) _ sh c st t thr hc hs ht hthr h1 hroom) ?_
  unfold opVerify
  nstep Steps.pop (boolBytes (C16.tsAccept t cfg.now thr c)) st rfl ?_
  rw [hacc]
  simp only [show truthy (boolBytes false) = false by decide, Bool.false_eq_true, ↓reduceIte]
  exact Steps.fail _ _ _

/-- `OP_CHECK_SIG <allowed>` as the last instruction of a tape, no signature-extension plugin:
    the tape ends with exactly the C02 specification's verdict on the stack, or with its error -/
theorem run_checksig_last (hno : cfg.sigExts = []) (fr : Frame) (sh : Shared) (flags : Nat) (vkey sig : Bytes) (st : List Bytes)
    (hrest : fr.rest = CHECK_SIG flags) (hfl : flags < 256) (hcap : fr.len0 < fr.cap) (hr : sh.returned = false)
    (hs : sh.stack = vkey :: sig :: st) (h1 : 1 ≤ cfg.lim.maxItemSize) (hroom : st.length < cfg.lim.maxItems) :
    TSteps (instrTable H C cfg) cfg.lim fr sh
      (match SigPure.checkSig H C cfg.lim.maxItemSize sh.cache flags sig vkey with
       | .ok b => .ok { fr with rest := [] } { sh with stack := boolBytes b :: st }
       | .error e => .err (.user e) { sh with stack := st }) := by
  have hT : instrTable H C cfg 35 = readU1 fun allowed => checkSigCore H C allowed .done := by
    show opCheckSig H C cfg .done = _
    unfold opCheckSig sigExt
    rw [hno]; rfl
  have hcore : Steps (instrTable H C cfg) cfg.lim (instrTable H C cfg 35) { fr with rest := [UInt8.ofNat flags] } sh
      (match SigPure.checkSig H C cfg.lim.maxItemSize sh.cache flags sig vkey with
       | .ok b => .ok { fr with rest := [] } { sh with stack := boolBytes b :: st }
       | .error e => .err (.user e) { sh with stack := st }) := by
    rw [hT]
    unfold readU1
    nstep Steps.read (by simp) ?_
    simp only [List.take_succ_cons, List.take_zero, List.drop_succ_cons, List.drop_zero, u1_of_nat _ hfl]
    have href := checkSigCore_refines (instrTable H C cfg) cfg.lim H C flags .done 1 { fr with rest := [] } sh vkey sig st hs h1 hroom
    refine ⟨1 + 13, ?_, ?_⟩
    · rw [href]
      cases SigPure.checkSig H C cfg.lim.maxItemSize sh.cache flags sig vkey with
      | ok b => simp [runOp]
      | error e => rfl
    · cases SigPure.checkSig H C cfg.lim.maxItemSize sh.cache flags sig vkey <;> rfl
  have hrest' : fr.rest = 35 :: [UInt8.ofNat flags] := by simpa [CHECK_SIG, opc] using hrest
  cases hspec : SigPure.checkSig H C cfg.lim.maxItemSize sh.cache flags sig vkey with
  | error e =>
    rw [hspec] at hcore
    exact TSteps.cons_err 35 _ hrest' hcap hr hcore
  | ok b =>
    rw [hspec] at hcore
    exact TSteps.cons_ok 35 _ hrest' hcap hr hcore (TSteps.nil rfl)


/-! ### cache lookups through the entries a lock writes -/
theorem lookupC_str_cons_byt (s kb : Bytes) (v : CVal) (c : List (CKey × CVal)) :
    lookupC (.str s) ((.byt kb, v) :: c) = lookupC (.str s) c := by
  simp [lookupC]

theorem lookupC_byt_cons_eq (kb : Bytes) (v : CVal) (c : List (CKey × CVal)) :
    lookupC (.byt kb) ((.byt kb, v) :: c) = some v := by
  simp [lookupC]

theorem lookupC_byt_cons_ne (kb kb' : Bytes) (v : CVal) (c : List (CKey × CVal)) (h : kb ≠ kb') :
    lookupC (.byt kb) ((.byt kb', v) :: c) = lookupC (.byt kb) c := by
  simp [lookupC, h]

/-- the signed message only reads `str`-keyed entries: a `bytes`-keyed write does not change it -/
theorem msgFrom_cons_byt (flag : Nat) (kb : Bytes) (v : CVal) (c : List (CKey × CVal)) :
    ∀ (fuel i : Nat), SigPure.msgFrom flag ((.byt kb, v) :: c) fuel i = SigPure.msgFrom flag c fuel i := by
  intro fuel
  induction fuel with
  | zero => intro i; rfl
  | succ n ih =>
    intro i
    simp only [SigPure.msgFrom, sigfieldKey, lookupC_str_cons_byt, ih]

theorem checkSig_cons_byt (m : Nat) (kb : Bytes) (v : CVal) (c : List (CKey × CVal)) (allowed : Nat) (sig vkey : Bytes) :
    SigPure.checkSig H C m ((.byt kb, v) :: c) allowed sig vkey = SigPure.checkSig H C m c allowed sig vkey := by
  simp only [SigPure.checkSig, SigPure.message, msgFrom_cons_byt]

/-! ### IF / ELSE, hashes, EQUAL -/
/-- the frame an inline (IF / ELSE) body runs in -/
def inlineFrame (body : Bytes) (fr : Frame) (sh : Shared) : Frame :=
  { rest := body, count := getCount fr sh, fn := none, dict := (copyDict sh fr.dict).1, len0 := body.length, cap := fr.len0 }

theorem Steps.sub_inline_ok {T : UInt8 → Op} {L : Limits} {body : Bytes} {k : Op} {fr fr' : Frame} {sh sh' : Shared} {r : Res}
    (hb : TSteps T L (inlineFrame body fr sh) (copyDict sh fr.dict).2 (.ok fr' sh'))
    (hret : sh'.returned = false) (h : Steps T L k fr sh' r) :
    Steps T L (.sub .inline body k) fr sh r := by
  obtain ⟨n, hn, hf⟩ := h
  obtain ⟨m, hm, _⟩ := hb
  have hm' := runTape_mono T L (Nat.le_max_left m n) hm rfl
  have hn' := runOp_mono T L (Nat.le_max_right m n) hn hf
  refine ⟨max m n + 1, ?_, hf⟩
  unfold inlineFrame at hm'
  simp only [runOp, hm', hret, Bool.false_eq_true, ↓reduceIte, hn']

theorem Steps.sub_inline_err {T : UInt8 → Op} {L : Limits} {body : Bytes} {k : Op} {fr : Frame} {sh sh' : Shared} {e : Err}
    (he : e ≠ .fuel)
    (hb : TSteps T L (inlineFrame body fr sh) (copyDict sh fr.dict).2 (.err e sh')) :
    Steps T L (.sub .inline body k) fr sh (.err e sh') := by
  obtain ⟨m, hm, _⟩ := hb
  refine ⟨m + 1, ?_, by cases e <;> first | rfl | exact absurd rfl he⟩
  unfold inlineFrame at hm
  simp only [runOp, hm]

theorem u2_of_nat (n : Nat) (h : n < 65536) : natOfBytesBE (u2 n) = n := by
  unfold u2; rw [natOf_natTo]; exact Nat.mod_eq_of_lt (by simpa using h)

/-- `OP_IF_ELSE` whose chosen body ends normally (no RETURN): continue after the construct -/
theorem run_ifelse_ok (fr fr' : Frame) (sh sh' : Shared) (rest' a b c : Bytes) (st : List Bytes) (r : Res)
    (hrest : fr.rest = ifElse a b ++ rest') (ha : a.length < 65536) (hb : b.length < 65536)
    (hcap : fr.len0 < fr.cap) (hr : sh.returned = false) (hs : sh.stack = c :: st)
    (hbody : TSteps (instrTable H C cfg) cfg.lim
        (inlineFrame (if truthy c then a else b) { fr with rest := rest' } { sh with stack := st })
        (copyDict { sh with stack := st } fr.dict).2 (.ok fr' sh'))
    (hret : sh'.returned = false)
    (h : TSteps (instrTable H C cfg) cfg.lim { fr with rest := rest' } sh' r) :
    TSteps (instrTable H C cfg) cfg.lim fr sh r := by
  have hrest' : fr.rest = 44 :: (u2 a.length ++ (a ++ (u2 b.length ++ (b ++ rest')))) := by
    simpa [ifElse, opc, List.append_assoc] using hrest
  refine run_instr fr _ sh _ 44 _ r hrest' hcap hr ?_ h
  show Steps _ _ (opIfElse .done) _ _ _
  unfold opIfElse readU2
  have hu : ∀ k, (u2 k).length = 2 := fun k => natToBytesBE_length 2 k
  nstep Steps.read (by simp [hu]) ?_
  rw [take_append_len _ _ _ (hu _), drop_append_len _ _ _ (hu _), u2_of_nat _ ha]
  nstep Steps.read (by simp) ?_
  rw [take_append_len _ _ _ rfl, drop_append_len _ _ _ rfl]
  nstep Steps.read (by simp [hu]) ?_
  rw [take_append_len _ _ _ (hu _), drop_append_len _ _ _ (hu _), u2_of_nat _ hb]
  nstep Steps.read (by simp) ?_
  rw [take_append_len _ _ _ rfl, drop_append_len _ _ _ rfl]
  nstep Steps.pop c st hs ?_
  exact Steps.sub_inline_ok hbody hret (Steps.done _ _)

/-- `OP_IF_ELSE` whose chosen body fails: the error propagates -/
theorem run_ifelse_err (fr : Frame) (sh sh' : Shared) (rest' a b c : Bytes) (st : List Bytes) (e : Err)
    (hrest : fr.rest = ifElse a b ++ rest') (ha : a.length < 65536) (hb : b.length < 65536)
    (hcap : fr.len0 < fr.cap) (hr : sh.returned = false) (hs : sh.stack = c :: st) (he : e ≠ .fuel)
    (hbody : TSteps (instrTable H C cfg) cfg.lim
        (inlineFrame (if truthy c then a else b) { fr with rest := rest' } { sh with stack := st })
        (copyDict { sh with stack := st } fr.dict).2 (.err e sh')) :
    TSteps (instrTable H C cfg) cfg.lim fr sh (.err e sh') := by
  have hrest' : fr.rest = 44 :: (u2 a.length ++ (a ++ (u2 b.length ++ (b ++ rest')))) := by
    simpa [ifElse, opc, List.append_assoc] using hrest
  refine TSteps.cons_err 44 _ hrest' hcap hr ?_
  show Steps _ _ (opIfElse .done) _ _ _
  unfold opIfElse readU2
  have hu : ∀ k, (u2 k).length = 2 := fun k => natToBytesBE_length 2 k
  nstep Steps.read (by simp [hu]) ?_
  rw [take_append_len _ _ _ (hu _), drop_append_len _ _ _ (hu _), u2_of_nat _ ha]
  nstep Steps.read (by simp) ?_
  rw [take_append_len _ _ _ rfl, drop_append_len _ _ _ rfl]
  nstep Steps.read (by simp [hu]) ?_
  rw [take_append_len _ _ _ (hu _), drop_append_len _ _ _ (hu _), u2_of_nat _ hb]
  nstep Steps.read (by simp) ?_
  rw [take_append_len _ _ _ rfl, drop_append_len _ _ _ rfl]
  nstep Steps.pop c st hs ?_
  exact Steps.sub_inline_err he hbody

/-- `OP_SHA256` -/
theorem run_sha256 (fr : Frame) (sh : Shared) (rest' : Bytes) (x : Bytes) (st : List Bytes) (r : Res)
    (hrest : fr.rest = SHA256 ++ rest') (hcap : fr.len0 < fr.cap) (hr : sh.returned = false)
    (hs : sh.stack = x :: st) (hsz : (H.sha256 x).length ≤ cfg.lim.maxItemSize) (hroom : st.length < cfg.lim.maxItems)
    (h : TSteps (instrTable H C cfg) cfg.lim { fr with rest := rest' } { sh with stack := H.sha256 x :: st } r) :
    TSteps (instrTable H C cfg) cfg.lim fr sh r := by
  refine run_instr fr _ sh _ 30 rest' r (by simpa [SHA256, opc] using hrest) hcap hr ?_ h
  show Steps _ _ (opSha256 H .done) _ _ _
  unfold opSha256
  nstep Steps.pop x st hs ?_
  nstep Steps.push hsz (by simpa using hroom) ?_
  exact Steps.done _ _

/-- `OP_SHAKE256 <n>` -/
theorem run_shake256 (fr : Frame) (sh : Shared) (rest' : Bytes) (n : Nat) (x : Bytes) (st : List Bytes) (r : Res)
    (hrest : fr.rest = SHAKE256 n ++ rest') (hn : n < 256) (hcap : fr.len0 < fr.cap) (hr : sh.returned = false)
    (hs : sh.stack = x :: st) (hsz : (H.shake256 x n).length ≤ cfg.lim.maxItemSize) (hroom : st.length < cfg.lim.maxItems)
    (h : TSteps (instrTable H C cfg) cfg.lim { fr with rest := rest' } { sh with stack := H.shake256 x n :: st } r) :
    TSteps (instrTable H C cfg) cfg.lim fr sh r := by
  refine run_instr fr _ sh _ 31 (UInt8.ofNat n :: rest') r (by simpa [SHAKE256, opc] using hrest) hcap hr ?_ h
  show Steps _ _ (opShake256 H .done) _ _ _
  unfold opShake256 readU1
  nstep Steps.read (by simp) ?_
  simp only [List.take_succ_cons, List.take_zero, List.drop_succ_cons, List.drop_zero, u1_of_nat _ hn]
  nstep Steps.pop x st hs ?_
  nstep Steps.push hsz (by simpa using hroom) ?_
  exact Steps.done _ _

/-- `OP_EQUAL` -/
theorem run_equal (fr : Frame) (sh : Shared) (rest' : Bytes) (a b : Bytes) (st : List Bytes) (r : Res)
    (hrest : fr.rest = EQUAL ++ rest') (hcap : fr.len0 < fr.cap) (hr : sh.returned = false)
    (hs : sh.stack = a :: b :: st) (h1 : 1 ≤ cfg.lim.maxItemSize) (hroom : st.length < cfg.lim.maxItems)
    (h : TSteps (instrTable H C cfg) cfg.lim { fr with rest := rest' } { sh with stack := boolBytes (a == b) :: st } r) :
    TSteps (instrTable H C cfg) cfg.lim fr sh r := by
  refine run_instr fr _ sh _ 33 rest' r (by simpa [EQUAL, opc] using hrest) hcap hr ?_ h
  show Steps _ _ (opEqual .done) _ _ _
  unfold opEqual pushBool
  nstep Steps.pop a (b :: st) hs ?_
  nstep Steps.pop b st rfl ?_
  nstep Steps.push (by cases (a == b) <;> simp [boolBytes] <;> omega) (by simpa using hroom) ?_
  exact Steps.done _ _


/-! ### EQUAL_VERIFY, runs of pushes -/
/-- `OP_EQUAL_VERIFY` on equal items -/
theorem run_equal_verify_ok (fr : Frame) (sh : Shared) (rest' : Bytes) (a b : Bytes) (st : List Bytes) (r : Res)
    (hrest : fr.rest = EQUAL_VERIFY ++ rest') (hcap : fr.len0 < fr.cap) (hr : sh.returned = false)
    (hs : sh.stack = a :: b :: st) (hab : a = b) (h1 : 1 ≤ cfg.lim.maxItemSize) (hroom : st.length < cfg.lim.maxItems)
    (h : TSteps (instrTable H C cfg) cfg.lim { fr with rest := rest' } { sh with stack := st } r) :
    TSteps (instrTable H C cfg) cfg.lim fr sh r := by
  refine run_instr fr _ sh _ 34 rest' r (by simpa [EQUAL_VERIFY, opc] using hrest) hcap hr ?_ h
  show Steps _ _ (opEqualVerify .done) _ _ _
  unfold opEqualVerify opEqual pushBool
  nstep Steps.pop a (b :: st) hs ?_
  nstep Steps.pop b st rfl ?_
  have : (a == b) = true := by simp [hab]
  rw [this]
  nstep Steps.push (by simp [boolBytes]; omega) (by simpa using hroom) ?_
  unfold opVerify
  nstep Steps.pop (boolBytes true) st rfl ?_
  simp only [show truthy (boolBytes true) = true by decide, ↓reduceIte]
  exact Steps.done _ _

/-- `OP_EQUAL_VERIFY` on different items: the script ends with an error -/
theorem run_equal_verify_fail (fr : Frame) (sh : Shared) (rest' : Bytes) (a b : Bytes) (st : List Bytes)
    (hrest : fr.rest = EQUAL_VERIFY ++ rest') (hcap : fr.len0 < fr.cap) (hr : sh.returned = false)
    (hs : sh.stack = a :: b :: st) (hab : a ≠ b) (h1 : 1 ≤ cfg.lim.maxItemSize) (hroom : st.length < cfg.lim.maxItems) :
    TSteps (instrTable H C cfg) cfg.lim fr sh (.err (.user .see) { sh with stack := st }) := by
  refine TSteps.cons_err 34 rest' (by simpa [EQUAL_VERIFY, opc] using hrest) hcap hr ?_
  show Steps _ _ (opEqualVerify .done) _ _ _
  unfold opEqualVerify opEqual pushBool
  nstep Steps.pop a (b :: st) hs ?_
  nstep Steps.pop b st rfl ?_
  have : (a == b) = false := by simpa using hab
  rw [this]
  nstep Steps.push (by simp [boolBytes]; omega) (by simpa using hroom) ?_
  unfold opVerify
  nstep Steps.pop (boolBytes false) st rfl ?_
  simp only [show truthy (boolBytes false) = false by decide, Bool.false_eq_true, ↓reduceIte]
  exact Steps.fail _ _ _

/-- a run of compiler-emitted pushes leaves the values on the stack, last one on top -/
theorem run_pushes : ∀ (vs : List Bytes) (fr : Frame) (sh : Shared) (rest' : Bytes) (r : Res),
    fr.rest = vs.flatMap pushB ++ rest' → fr.len0 < fr.cap → sh.returned = false →
    (∀ v ∈ vs, 0 < v.length ∧ v.length < 65536 ∧ v.length ≤ cfg.lim.maxItemSize) →
    sh.stack.length + vs.length ≤ cfg.lim.maxItems →
    TSteps (instrTable H C cfg) cfg.lim { fr with rest := rest' } { sh with stack := vs.reverse ++ sh.stack } r →
    TSteps (instrTable H C cfg) cfg.lim fr sh r := by
  intro vs
  induction vs with
  | nil =>
    intro fr sh rest' r hrest _ _ _ _ h
    simp only [List.flatMap_nil, List.nil_append] at hrest
    have hf : ({ fr with rest := rest' } : Frame) = fr := by cases fr; simp_all
    have hsh : ({ sh with stack := ([] : List Bytes).reverse ++ sh.stack } : Shared) = sh := by cases sh; simp
    rw [hf, hsh] at h
    exact h
  | cons v vs ih =>
    intro fr sh rest' r hrest hcap hr hv hroom h
    have hv0 := hv v (by simp)
    simp only [List.flatMap_cons, List.append_assoc] at hrest
    simp only [List.length_cons] at hroom
    refine run_pushB H C cfg fr sh v (vs.flatMap pushB ++ rest') r hv0.1 hv0.2.1 hrest hcap hr hv0.2.2 (by omega) ?_
    refine ih _ _ rest' r rfl hcap hr (fun x hx => hv x (by simp [hx])) (by simp; omega) ?_
    simpa [List.reverse_cons, List.append_assoc] using h


/-- `OP_SWAP 1 2`: exchanges the second and third items -/
theorem run_swap12 (fr : Frame) (sh : Shared) (rest' : Bytes) (a b c : Bytes) (st : List Bytes) (r : Res)
    (hrest : fr.rest = SWAP 1 2 ++ rest') (hcap : fr.len0 < fr.cap) (hr : sh.returned = false)
    (hs : sh.stack = a :: b :: c :: st)
    (ha : a.length ≤ cfg.lim.maxItemSize) (hb : b.length ≤ cfg.lim.maxItemSize) (hc : c.length ≤ cfg.lim.maxItemSize)
    (hroom : st.length + 2 < cfg.lim.maxItems)
    (h : TSteps (instrTable H C cfg) cfg.lim { fr with rest := rest' } { sh with stack := a :: c :: b :: st } r) :
    TSteps (instrTable H C cfg) cfg.lim fr sh r := by
  refine run_instr fr _ sh _ 52 (1 :: 2 :: rest') r (by simpa [SWAP, opc] using hrest) hcap hr ?_ h
  show Steps _ _ (opSwap .done) _ _ _
  unfold opSwap readU1
  nstep Steps.read (by simp) ?_
  simp only [List.take_succ_cons, List.take_zero, List.drop_succ_cons, List.drop_zero, show natOfBytesBE [(1 : UInt8)] = 1 by decide]
  nstep Steps.read (by simp) ?_
  simp only [List.take_succ_cons, List.take_zero, List.drop_succ_cons, List.drop_zero, show natOfBytesBE [(2 : UInt8)] = 2 by decide]
  unfold swapCore
  simp only [show (1 : Nat) ≠ 2 by decide, ↓reduceIte]
  nstep Steps.depth ?_
  rw [hs]
  simp only [List.length_cons]
  rw [if_pos (by simp)]
  simp only [popN]
  nstep Steps.pop a (b :: c :: st) hs ?_
  nstep Steps.pop b (c :: st) rfl ?_
  nstep Steps.pop c st rfl ?_
  simp only [swapList, List.getElem?_cons_succ, List.getElem?_cons_zero, List.set_cons_succ, List.set_cons_zero,
    List.reverse_cons, List.reverse_nil, List.nil_append, List.cons_append, pushAll]
  nstep Steps.push hb (by simp; omega) ?_
  nstep Steps.push hc (by simp; omega) ?_
  nstep Steps.push ha (by simp; omega) ?_
  exact Steps.done _ _


/-! ### AND, inline bodies as the last instruction -/
/-- `OP_AND` -/
theorem run_and (fr : Frame) (sh : Shared) (rest' : Bytes) (a b : Bytes) (st : List Bytes) (r : Res)
    (hrest : fr.rest = opc 88 ++ rest') (hcap : fr.len0 < fr.cap) (hr : sh.returned = false)
    (hs : sh.stack = a :: b :: st) (hsz : (andBytes a b).length ≤ cfg.lim.maxItemSize) (hroom : st.length < cfg.lim.maxItems)
    (h : TSteps (instrTable H C cfg) cfg.lim { fr with rest := rest' } { sh with stack := andBytes a b :: st } r) :
    TSteps (instrTable H C cfg) cfg.lim fr sh r := by
  refine run_instr fr _ sh _ 88 rest' r (by simpa [opc] using hrest) hcap hr ?_ h
  show Steps _ _ (bitop andBytes .done) _ _ _
  unfold bitop
  nstep Steps.pop a (b :: st) hs ?_
  nstep Steps.pop b st rfl ?_
  nstep Steps.push hsz (by simpa using hroom) ?_
  exact Steps.done _ _

/-- what the enclosing tape sees of an IF / ELSE body: an error propagates; otherwise it goes on
    (or, if the body executed RETURN, ends) with the body's state -/
def wrapInline (fr : Frame) : Res → Res
  | .err e s => .err e s
  | .ok _ s => if s.returned then .ok (endFrame fr) s else .ok fr s

theorem wrapInline_isFuel (fr : Frame) (r : Res) (h : r.isFuel = false) : (wrapInline fr r).isFuel = false := by
  cases r with
  | err e s => exact h
  | ok f s => simp only [wrapInline]; split <;> rfl

theorem Steps.sub_inline_done {T : UInt8 → Op} {L : Limits} {body : Bytes} {fr : Frame} {sh : Shared} {rB : Res}
    (hb : TSteps T L (inlineFrame body fr sh) (copyDict sh fr.dict).2 rB) :
    Steps T L (.sub .inline body .done) fr sh (wrapInline fr rB) := by
  obtain ⟨m, hm, hf⟩ := hb
  have hm' := runTape_mono T L (Nat.le_succ m) hm hf
  refine ⟨m + 2, ?_, wrapInline_isFuel fr rB hf⟩
  unfold inlineFrame at hm'
  simp only [runOp, hm']
  cases rB with
  | err e s => rfl
  | ok f s =>
    simp only [wrapInline]

/-- `OP_IF_ELSE` as the last instruction of a tape: the tape ends as its chosen body does -/
theorem run_ifelse_last (fr : Frame) (sh : Shared) (a b c : Bytes) (st : List Bytes) (rB : Res)
    (hrest : fr.rest = ifElse a b) (ha : a.length < 65536) (hb : b.length < 65536)
    (hcap : fr.len0 < fr.cap) (hr : sh.returned = false) (hs : sh.stack = c :: st)
    (hbody : TSteps (instrTable H C cfg) cfg.lim
        (inlineFrame (if truthy c then a else b) { fr with rest := [] } { sh with stack := st })
        (copyDict { sh with stack := st } fr.dict).2 rB) :
    TSteps (instrTable H C cfg) cfg.lim fr sh (wrapInline { fr with rest := [] } rB) := by
  have hrest' : fr.rest = 44 :: (u2 a.length ++ (a ++ (u2 b.length ++ (b ++ [])))) := by
    simpa [ifElse, opc, List.append_assoc] using hrest
  have hu : ∀ k, (u2 k).length = 2 := fun k => natToBytesBE_length 2 k
  have hstep : Steps (instrTable H C cfg) cfg.lim (instrTable H C cfg 44)
      { fr with rest := u2 a.length ++ (a ++ (u2 b.length ++ (b ++ []))) } sh (wrapInline { fr with rest := [] } rB) := by
    show Steps _ _ (opIfElse .done) _ _ _
    unfold opIfElse readU2
    nstep Steps.read (by simp [hu]) ?_
    rw [take_append_len _ _ _ (hu _), drop_append_len _ _ _ (hu _), u2_of_nat _ ha]
    nstep Steps.read (by simp) ?_
    rw [take_append_len _ _ _ rfl, drop_append_len _ _ _ rfl]
    nstep Steps.read (by simp [hu]) ?_
    rw [take_append_len _ _ _ (hu _), drop_append_len _ _ _ (hu _), u2_of_nat _ hb]
    nstep Steps.read (by simp) ?_
    rw [take_append_len _ _ _ rfl, drop_append_len _ _ _ rfl]
    nstep Steps.pop c st hs ?_
    exact Steps.sub_inline_done hbody
  cases rB with
  | err e s => exact TSteps.cons_err 44 _ hrest' hcap hr hstep
  | ok f s =>
    simp only [wrapInline] at hstep ⊢
    split
    · next hc => rw [if_pos hc] at hstep; exact TSteps.cons_ok 44 _ hrest' hcap hr hstep (TSteps.nil (by simp [endFrame]))
    · next hc => rw [if_neg hc] at hstep; exact TSteps.cons_ok 44 _ hrest' hcap hr hstep (TSteps.nil rfl)


/-! ### outcomes -/
/-- what a run amounts to for the verdict: the final stack, or the error -/
def Res.summary : Res → Except Err (List Bytes)
  | .ok _ sh => .ok sh.stack
  | .err e _ => .error e

/-- "the run from `(fr, sh)` ends, and its outcome satisfies `P`" -/
def Ends (T : UInt8 → Op) (L : Limits) (fr : Frame) (sh : Shared) (P : Res → Prop) : Prop :=
  ∃ r, TSteps T L fr sh r ∧ P r

theorem Ends.step {T : UInt8 → Op} {L : Limits} {fr fr' : Frame} {sh sh' : Shared} {P : Res → Prop}
    (h : ∀ r, TSteps T L fr' sh' r → TSteps T L fr sh r) (h2 : Ends T L fr' sh' P) : Ends T L fr sh P := by
  obtain ⟨r, hr, hp⟩ := h2
  exact ⟨r, h r hr, hp⟩


end TV
