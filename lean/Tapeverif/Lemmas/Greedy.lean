import Mathlib.Data.List.Perm.Subperm
import Mathlib.Data.List.Perm.Basic

/-! OP_CHECK_MULTISIG's greedy matching, abstractly: soundness (unconditional) and completeness
    (under "unique signer"). Uses Mathlib's `List.Subperm`. -/
namespace TV.Greedy
variable {σ κ : Type} [DecidableEq σ] [DecidableEq κ]

def step (v : σ → κ → Bool) (acc : List σ × List κ) (s : σ) : List σ × List κ :=
  match acc.2.find? (v s) with
  | some k => (if s ∈ acc.1 then acc.1 else s :: acc.1, acc.2.erase k)
  | none => acc

def greedy (v : σ → κ → Bool) (sigs : List σ) (ks : List κ) : Bool :=
  (sigs.foldl (step v) ([], ks)).1.length == sigs.length

theorem step_len (v : σ → κ → Bool) (acc : List σ × List κ) (s : σ) :
    (step v acc s).1.length ≤ acc.1.length + 1 := by
  unfold step; split
  · simp only; split <;> simp
  · omega

theorem fold_inv (v : σ → κ → Bool) (l : List σ) : ∀ (acc : List σ × List κ),
    (l.foldl (step v) acc).1.length ≤ acc.1.length + l.length ∧
    ((l.foldl (step v) acc).1.length = acc.1.length + l.length →
      l.Nodup ∧ (∀ x ∈ l, x ∉ acc.1) ∧
      ∃ ms, List.Forall₂ (fun s k => v s k = true) l ms ∧
        (ms ++ (l.foldl (step v) acc).2).Perm acc.2) := by
  induction l with
  | nil => intro acc; simp
  | cons s t ih =>
    intro acc
    simp only [List.foldl_cons, List.length_cons]
    have hs := step_len v acc s
    obtain ⟨ih1, ih2⟩ := ih (step v acc s)
    constructor
    · omega
    · intro heq
      have hlen1 : (step v acc s).1.length = acc.1.length + 1 := by omega
      obtain ⟨hnd, hdis, ms, hf, hp⟩ := ih2 (by omega)
      cases hfind : acc.2.find? (v s) with
      | none => simp [step, hfind] at hlen1
      | some k =>
        by_cases hmem : s ∈ acc.1
        · simp [step, hfind, hmem] at hlen1
        · have hstep : step v acc s = (s :: acc.1, acc.2.erase k) := by simp [step, hfind, hmem]
          rw [hstep] at hdis hp
          have hvk : v s k = true := List.find?_some hfind
          have hkR : k ∈ acc.2 := List.mem_of_find?_eq_some hfind
          refine ⟨?_, ?_, k :: ms, ?_, ?_⟩
          · exact List.nodup_cons.mpr ⟨fun hst => (hdis s hst) (by simp), hnd⟩
          · intro x hx
            rcases List.mem_cons.mp hx with rfl | hx
            · exact hmem
            · exact fun hc => hdis x hx (List.mem_cons_of_mem _ hc)
          · exact List.Forall₂.cons hvk hf
          · simp only [List.cons_append, hstep]
            exact (List.Perm.cons k hp).trans (List.perm_cons_erase hkR).symm

/-- Soundness: the verdict is true only if the signatures are pairwise distinct and can be matched,
    in order, to a sub-multiset of the listed keys. -/
theorem greedy_sound (v : σ → κ → Bool) (sigs : List σ) (ks : List κ)
    (h : greedy v sigs ks = true) :
    sigs.Nodup ∧ ∃ ms, List.Forall₂ (fun s k => v s k = true) sigs ms ∧ ms.Subperm ks := by
  unfold greedy at h
  obtain ⟨hnd, _, ms, hf, hp⟩ := (fold_inv v sigs ([], ks)).2 (by simpa using h)
  exact ⟨hnd, ms, hf, (List.sublist_append_left ms _).subperm.trans hp.subperm⟩

/-- Completeness under "unique signer": all keys under which a signature verifies are equal. -/
theorem fold_complete (v : σ → κ → Bool) (H : ∀ s k k', v s k = true → v s k' = true → k = k')
    (l : List σ) : ∀ (acc : List σ × List κ) (ms : List κ),
    l.Nodup → (∀ x ∈ l, x ∉ acc.1) → List.Forall₂ (fun s k => v s k = true) l ms → ms.Subperm acc.2 →
    (l.foldl (step v) acc).1.length = acc.1.length + l.length := by
  induction l with
  | nil => intro acc ms _ _ _ _; simp
  | cons s t ih =>
    intro acc ms hnd hdis hf hsub
    obtain ⟨m, ms', rfl⟩ : ∃ m ms', ms = m :: ms' := by cases hf; exact ⟨_, _, rfl⟩
    rw [List.forall₂_cons] at hf
    obtain ⟨hvm, hf'⟩ := hf
    have hmR : m ∈ acc.2 := hsub.subset (by simp)
    -- find? succeeds, and by uniqueness it finds (a copy of) m
    obtain ⟨k, hfind⟩ : ∃ k, acc.2.find? (v s) = some k := by
      cases h : acc.2.find? (v s) with
      | some k => exact ⟨k, rfl⟩
      | none => exact absurd hvm (by simpa using List.find?_eq_none.mp h m hmR)
    have hk : k = m := H s k m (List.find?_some hfind) hvm
    subst hk
    have hmem : s ∉ acc.1 := hdis s (by simp)
    have hstep : step v acc s = (s :: acc.1, acc.2.erase k) := by simp [step, hfind, hmem]
    simp only [List.foldl_cons, hstep, List.length_cons]
    have hnd' := List.nodup_cons.mp hnd
    have := ih (s :: acc.1, acc.2.erase k) ms' hnd'.2
      (fun x hx hc => by
        rcases List.mem_cons.mp hc with rfl | hc
        · exact hnd'.1 hx
        · exact hdis x (List.mem_cons_of_mem _ hx) hc)
      hf' (by simpa using hsub.erase k)
    simp only [List.length_cons] at this
    omega

theorem greedy_complete (v : σ → κ → Bool) (H : ∀ s k k', v s k = true → v s k' = true → k = k')
    (sigs : List σ) (ks ms : List κ) (hnd : sigs.Nodup)
    (hf : List.Forall₂ (fun s k => v s k = true) sigs ms) (hsub : ms.Subperm ks) :
    greedy v sigs ks = true := by
  unfold greedy
  have := fold_complete v H sigs ([], ks) ms hnd (by simp) hf hsub
  simpa using this


end TV.Greedy
