import Tapeverif.Lemmas.BigStep
import Tapeverif.Lemmas.Codec
import Tapeverif.Model.Tools
/-! Reusable big-step facts about whole instructions and small tapes: `OP_EVAL`, the compiler's
    push instructions, one-instruction tapes. Used by the builder-level property theorems. -/
namespace TV

open Instr Tools

/-- one big-step rule, then normalise the record updates in the new state -/
macro "nstep " t:term : tactic => `(tactic| (refine $t; try dsimp only))

/-- what the caller of an evaluated script sees: an error propagates; a RETURN propagates when
    the `eval_return` flag is set; otherwise the caller continues with the flag cleared -/
def wrapEval (er : Bool) (fr : Frame) : Res → Res
  | .err e s => .err e s
  | .ok _ s => if s.returned && er then .ok (endFrame fr) s else .ok fr { s with returned := false }

theorem wrapEval_isFuel (er : Bool) (fr : Frame) (r : Res) (h : r.isFuel = false) :
    (wrapEval er fr r).isFuel = false := by
  cases r with
  | err e s => exact h
  | ok f s =>
    simp only [wrapEval]
    split <;> rfl

theorem wrapEval_wrapEval (er : Bool) (f f' : Frame) (r : Res) :
    wrapEval er f (wrapEval er f' r) = wrapEval er f r := by
  cases r with
  | err e s => rfl
  | ok g s =>
    unfold wrapEval
    by_cases h : (s.returned && er) = true
    · simp [h]
    · simp [h]

/-- `.sub (.eval p) body .done`: the outcome is the body's outcome as the caller sees it -/
theorem Steps.sub_eval_done {T : UInt8 → Op} {L : Limits} {p : Bool} {body : Bytes} {fr : Frame} {sh : Shared} {rB : Res}
    (hc : getCount fr sh < L.callLimit)
    (hb : TSteps T L (evalFrame body (getCount fr sh) (copyDict sh fr.dict).1) (copyDict sh fr.dict).2 rB) :
    Steps T L (.sub (.eval p) body .done) fr sh (wrapEval p fr rB) := by
  obtain ⟨m, hm, hf⟩ := hb
  have hm' := runTape_mono T L (Nat.le_succ m) hm hf
  refine ⟨m + 2, ?_, wrapEval_isFuel p fr rB hf⟩
  unfold evalFrame at hm'
  simp only [runOp, hc, ↓reduceIte, hm']
  cases rB with
  | err e s => rfl
  | ok f s =>
    simp only [wrapEval]

/-- `OP_EVAL` with continuation `.done` on a non-empty script -/
theorem eval_done (cfg : Cfg) (hev : cfg.disallowEval = false) (T : UInt8 → Op) (fr : Frame) (sh : Shared)
    (script : Bytes) (st : List Bytes) (rB : Res)
    (hs : sh.stack = script :: st) (hne : script ≠ [])
    (hc : getCount fr sh < cfg.lim.callLimit)
    (hb : TSteps T cfg.lim (evalFrame script (getCount fr sh) (copyDict { sh with stack := st } fr.dict).1)
            (copyDict { sh with stack := st } fr.dict).2 rB) :
    Steps T cfg.lim (opEval cfg .done) fr sh (wrapEval cfg.evalReturn fr rB) := by
  unfold opEval
  simp only [hev, Bool.false_eq_true, ↓reduceIte]
  refine Steps.guardCount hc ?_
  refine Steps.pop script st hs ?_
  simp only [hne, ↓reduceIte]
  exact Steps.sub_eval_done (by exact hc) hb

/-- a tape consisting of one instruction whose outcome is an `eval` outcome seen from a frame
    with nothing left to run -/
theorem tape_single {T : UInt8 → Op} {L : Limits} (fr : Frame) (sh : Shared) (c : UInt8) (ops : Bytes) (g : Frame)
    (hg : g.rest = []) (er : Bool) (rL : Res)
    (hrest : fr.rest = c :: ops) (hcap : fr.len0 < fr.cap) (hr : sh.returned = false)
    (h : Steps T L (T c) { fr with rest := ops } sh (wrapEval er g rL)) :
    TSteps T L fr sh (wrapEval er g rL) := by
  cases rL with
  | err e s => exact TSteps.cons_err c ops hrest hcap hr h
  | ok f s =>
    simp only [wrapEval] at h ⊢
    split
    · next hc =>
      rw [if_pos hc] at h
      exact TSteps.cons_ok c ops hrest hcap hr h (TSteps.nil (by simp [endFrame]))
    · next hc =>
      rw [if_neg hc] at h
      exact TSteps.cons_ok c ops hrest hcap hr h (TSteps.nil hg)

theorem take_append_len {α : Type} (a b : List α) (n : Nat) (h : a.length = n) : (a ++ b).take n = a := by
  subst h; simp
theorem drop_append_len {α : Type} (a b : List α) (n : Nat) (h : a.length = n) : (a ++ b).drop n = b := by
  subst h; simp

/-- one `OP_PUSH0/1/2` instruction as the compiler emits it for `v`, at the head of a tape -/
theorem run_pushB (H : Hashes) (C : Curve) (cfg : Cfg) (fr : Frame) (sh : Shared) (v rest' : Bytes) (r : Res)
    (hv0 : 0 < v.length) (hv1 : v.length < 65536)
    (hrest : fr.rest = pushB v ++ rest') (hcap : fr.len0 < fr.cap) (hr : sh.returned = false)
    (hsz : v.length ≤ cfg.lim.maxItemSize) (hroom : sh.stack.length < cfg.lim.maxItems)
    (h : TSteps (instrTable H C cfg) cfg.lim { fr with rest := rest' } { sh with stack := v :: sh.stack } r) :
    TSteps (instrTable H C cfg) cfg.lim fr sh r := by
  unfold pushB pushBytes at hrest
  by_cases h1 : v.length = 1
  · -- PUSH0
    simp only [h1, ↓reduceIte, Option.getD_some, opc] at hrest
    refine TSteps.cons_ok (UInt8.ofNat 2) (v ++ rest') (by simpa using hrest) hcap hr ?_ h
    show Steps _ _ (opPush0 .done) _ _ _
    unfold opPush0
    refine Steps.read (by simp [h1]) ?_
    dsimp only
    have ht : (v ++ rest').take 1 = v := take_append_len _ _ _ h1
    have hd : (v ++ rest').drop 1 = rest' := drop_append_len _ _ _ h1
    rw [ht, hd]
    refine Steps.push hsz hroom ?_
    exact Steps.done _ _
  · by_cases h2 : v.length < 256
    · -- PUSH1
      have hc : 1 < v.length ∧ v.length < 256 := ⟨by omega, h2⟩
      simp only [h1, ↓reduceIte, hc, and_self, Option.getD_some, opc] at hrest
      refine TSteps.cons_ok (UInt8.ofNat 3) (natToBytesBE 1 v.length ++ v ++ rest') (by simpa [List.append_assoc] using hrest) hcap hr ?_ h
      show Steps _ _ (opPush1 .done) _ _ _
      unfold opPush1 readU1
      have hl : (natToBytesBE 1 v.length).length = 1 := natToBytesBE_length 1 _
      refine Steps.read (by simp [hl]) ?_
      dsimp only
      have ht : (natToBytesBE 1 v.length ++ v ++ rest').take 1 = natToBytesBE 1 v.length := by
        rw [List.append_assoc]; exact take_append_len _ _ _ hl
      have hd : (natToBytesBE 1 v.length ++ v ++ rest').drop 1 = v ++ rest' := by
        rw [List.append_assoc]; exact drop_append_len _ _ _ hl
      rw [ht, hd, natOf_natTo, Nat.mod_eq_of_lt (by simpa using h2)]
      refine Steps.read (by simp) ?_
      dsimp only
      simp only [List.take_left', List.drop_left']
      refine Steps.push hsz hroom ?_
      exact Steps.done _ _
    · -- PUSH2
      have hc : ¬ (1 < v.length ∧ v.length < 256) := by omega
      have hc2 : 255 < v.length ∧ v.length < 65536 := ⟨by omega, hv1⟩
      simp only [h1, ↓reduceIte, hc, hc2, and_self, Option.getD_some, opc] at hrest
      refine TSteps.cons_ok (UInt8.ofNat 4) (natToBytesBE 2 v.length ++ v ++ rest') (by simpa [List.append_assoc] using hrest) hcap hr ?_ h
      show Steps _ _ (opPush2 .done) _ _ _
      unfold opPush2 readU2
      have hl : (natToBytesBE 2 v.length).length = 2 := natToBytesBE_length 2 _
      refine Steps.read (by simp [hl]) ?_
      dsimp only
      have ht : (natToBytesBE 2 v.length ++ v ++ rest').take 2 = natToBytesBE 2 v.length := by
        rw [List.append_assoc]; exact take_append_len _ _ _ hl
      have hd : (natToBytesBE 2 v.length ++ v ++ rest').drop 2 = v ++ rest' := by
        rw [List.append_assoc]; exact drop_append_len _ _ _ hl
      rw [ht, hd, natOf_natTo, Nat.mod_eq_of_lt (by simpa using hv1)]
      refine Steps.read (by simp) ?_
      dsimp only
      simp only [List.take_left', List.drop_left']
      refine Steps.push hsz hroom ?_
      exact Steps.done _ _


end TV
