import Tapeverif.Model.VM
/-! Fuel monotonicity: a run that did not stop for lack of fuel gives the same outcome with any
    larger fuel. This makes the fuel-free big-step relation (`Lemmas/BigStep.lean`) functional
    and compositional. -/
namespace TV

def Res.isFuel : Res → Bool
  | .err .fuel _ => true
  | _ => false

/-- `r ⊑ r'`: `r` ran out of fuel, or the two outcomes are equal -/
def Res.le (r r' : Res) : Prop := r.isFuel = true ∨ r = r'

theorem Res.le_refl (r : Res) : Res.le r r := Or.inr rfl

theorem Res.isFuel_eq {r : Res} (h : r.isFuel = true) : ∃ s, r = .err .fuel s := by
  cases r with
  | ok _ _ => cases h
  | err e s => cases e <;> first | exact ⟨s, rfl⟩ | cases h

variable (T : UInt8 → Op) (L : Limits)

/-- sequencing is monotone: "run X, stop on error, else continue with g" -/
theorem Res.le_bind (X X' : Res) (g g' : Frame → Shared → Res) :
    Res.le X X' → (∀ f s, Res.le (g f s) (g' f s)) →
    Res.le (match X with | .err e s => .err e s | .ok f s => g f s)
           (match X' with | .err e s => .err e s | .ok f s => g' f s) := by
  intro hX hg
  rcases hX with hf | rfl
  · obtain ⟨s, rfl⟩ := Res.isFuel_eq hf; exact Or.inl rfl
  · cases X with
    | err e s => exact Or.inr rfl
    | ok f s => exact hg f s

/-- TRY / EXCEPT sequencing is monotone -/
theorem Res.le_try (X X' : Res) (g g' : Frame → Shared → Res) (h h' : ErrKind → Shared → Res) :
    Res.le X X' → (∀ f s, Res.le (g f s) (g' f s)) → (∀ e s, Res.le (h e s) (h' e s)) →
    Res.le (match X with
            | .ok f s => g f s
            | .err e s => match e with
              | .user ek => h ek s
              | _ => .err e s)
           (match X' with
            | .ok f s => g' f s
            | .err e s => match e with
              | .user ek => h' ek s
              | _ => .err e s) := by
  intro hX hg hh
  rcases hX with hf | rfl
  · obtain ⟨s, rfl⟩ := Res.isFuel_eq hf; exact Or.inl rfl
  · cases X with
    | ok f s => exact hg f s
    | err e s => cases e <;> first | exact hh _ _ | exact Or.inr rfl

syntax "unfold_both" : tactic
macro_rules
  | `(tactic| unfold_both) => `(tactic| (conv => arg 1; rw [runOp]); (conv => arg 2; rw [runOp]))

theorem mono (n : Nat) :
    (∀ op fr sh, Res.le (runOp T L n op fr sh) (runOp T L (n+1) op fr sh)) ∧
    (∀ budget lc body k fr sh, Res.le (runLoop T L n budget lc body k fr sh)
        (runLoop T L (n+1) budget lc body k fr sh)) ∧
    (∀ fr sh, Res.le (runTape T L n fr sh) (runTape T L (n+1) fr sh)) := by
  induction n with
  | zero =>
    refine ⟨?_, ?_, ?_⟩ <;> intros <;> exact Or.inl (by simp [runOp, runLoop, runTape, Res.isFuel])
  | succ n ih =>
    obtain ⟨ihO, ihL, ihT⟩ := ih
    have cont : ∀ (fr : Frame) (sh' : Shared) (k : Op),
        Res.le (if sh'.returned then Res.ok (endFrame fr) sh' else runOp T L n k fr sh')
               (if sh'.returned then Res.ok (endFrame fr) sh' else runOp T L (n+1) k fr sh') := by
      intro fr sh' k
      split
      · exact Res.le_refl _
      · exact ihO _ _ _
    refine ⟨?_, ?_, ?_⟩
    · intro op fr sh
      cases op with
      | done => exact Or.inr (by simp [runOp])
      | fail e => exact Or.inr (by simp [runOp])
      | read m k =>
        unfold_both; split
        · exact ihO _ _ _
        · exact Res.le_refl _
      | pop k =>
        unfold_both; split
        · exact Res.le_refl _
        · exact ihO _ _ _
      | peekTop k =>
        unfold_both; split
        · exact Res.le_refl _
        · exact ihO _ _ _
      | depth k => unfold_both; exact ihO _ _ _
      | push b k =>
        unfold_both; split
        · split
          · exact ihO _ _ _
          · exact Res.le_refl _
        · exact Res.le_refl _
      | cacheGet key k => unfold_both; exact ihO _ _ _
      | cachePut key v k => unfold_both; exact ihO _ _ _
      | rand m k => unfold_both; exact ihO _ _ _
      | log t k => unfold_both; exact ihO _ _ _
      | guardCount k =>
        unfold_both; split
        · exact ihO _ _ _
        · exact Res.le_refl _
      | define h body k => unfold_both; exact ihO _ _ _
      | call h k =>
        unfold_both; split
        · simp only []
          split
          · exact Res.le_refl _
          · exact Res.le_bind _ _ _ _ (ihT _ _) (fun f s => ihO _ _ _)
        · exact Res.le_refl _
      | ret => exact Or.inr (by simp [runOp])
      | abort => exact Or.inr (by simp [runOp])
      | sub kind body k =>
        cases kind with
        | inline =>
          unfold_both
          exact Res.le_bind _ _ _ _ (ihT _ _) (fun f s => cont fr s k)
        | eval p =>
          unfold_both; split
          · refine Res.le_bind _ _ _ _ (ihT _ _) (fun f s => ?_)
            split
            · exact Res.le_refl _
            · exact ihO _ _ _
          · exact Res.le_refl _
      | tryCatch body exc k =>
        unfold_both
        refine Res.le_try _ _ _ _ _ _ (ihT _ _) (fun f s => cont fr s k) (fun e s => ?_)
        exact Res.le_bind _ _ _ _ (ihT _ _) (fun f s => cont fr s k)
      | loop body k =>
        unfold_both; split
        · exact Res.le_refl _
        · exact ihL _ _ _ _ _ _
    · intro budget lc body k fr sh
      conv => arg 1; rw [runLoop.eq_def]
      conv => arg 2; rw [runLoop.eq_def]
      dsimp only
      split
      · exact Res.le_refl _
      · split
        · cases budget with
          | zero => exact Res.le_refl _
          | succ b =>
            simp only
            refine Res.le_bind _ _ _ _ (ihT _ _) (fun f s => ?_)
            split
            · exact Res.le_refl _
            · exact ihL _ _ _ _ _ _
        · exact ihO _ _ _
    · intro fr sh
      conv => arg 1; rw [runTape]
      conv => arg 2; rw [runTape]
      split
      · exact Res.le_refl _
      · split
        · exact Res.le_refl _
        · split
          · exact Res.le_refl _
          · exact Res.le_bind _ _ _ _ (ihO _ _ _) (fun f s => ihT _ _)

theorem runOp_mono_le {n m : Nat} (h : n ≤ m) (op : Op) (fr : Frame) (sh : Shared) :
    Res.le (runOp T L n op fr sh) (runOp T L m op fr sh) := by
  induction h with
  | refl => exact Res.le_refl _
  | step _ ih =>
    rcases ih with hf | heq
    · exact Or.inl hf
    · rw [heq]; exact (mono T L _).1 op fr sh

theorem runTape_mono_le {n m : Nat} (h : n ≤ m) (fr : Frame) (sh : Shared) :
    Res.le (runTape T L n fr sh) (runTape T L m fr sh) := by
  induction h with
  | refl => exact Res.le_refl _
  | step _ ih =>
    rcases ih with hf | heq
    · exact Or.inl hf
    · rw [heq]; exact (mono T L _).2.2 fr sh

/-- a run that did not run out of fuel is unchanged by more fuel -/
theorem runOp_mono {n m : Nat} (h : n ≤ m) {op : Op} {fr : Frame} {sh : Shared} {r : Res}
    (hr : runOp T L n op fr sh = r) (hnf : r.isFuel = false) : runOp T L m op fr sh = r := by
  rcases runOp_mono_le T L h op fr sh with hf | heq
  · rw [hr, hnf] at hf; cases hf
  · rw [← heq, hr]

theorem runTape_mono {n m : Nat} (h : n ≤ m) {fr : Frame} {sh : Shared} {r : Res}
    (hr : runTape T L n fr sh = r) (hnf : r.isFuel = false) : runTape T L m fr sh = r := by
  rcases runTape_mono_le T L h fr sh with hf | heq
  · rw [hr, hnf] at hf; cases hf
  · rw [← heq, hr]

end TV
