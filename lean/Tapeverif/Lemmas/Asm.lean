import Mathlib.Data.List.Induction
import Tapeverif.Model.Asm
import Tapeverif.Lemmas.Codec
/-! Lemmas about the instruction codec. -/
namespace TV.Asm

theorem natTo_natOf : ∀ (l : Bytes), natToBytesBE l.length (natOfBytesBE l) = l := by
  intro l
  induction l using List.reverseRecOn with
  | nil => rfl
  | append_singleton r x ih =>
    simp only [List.length_append, List.length_singleton, natToBytesBE]
    rw [natOfBytesBE_append_single]
    have hx : x.toNat < 256 := x.toNat_lt
    have h1 : (natOfBytesBE r * 256 + x.toNat) / 256 = natOfBytesBE r := by omega
    have h2 : (natOfBytesBE r * 256 + x.toNat) % 256 = x.toNat := by omega
    rw [h1, h2, ih]
    simp

theorem takeExact_spec {n : Nat} {b x r : Bytes} (h : takeExact n b = some (x, r)) :
    b = x ++ r ∧ x.length = n := by
  unfold takeExact at h
  split at h
  · next hle =>
    simp only [Option.some.injEq, Prod.mk.injEq] at h
    obtain ⟨rfl, rfl⟩ := h
    exact ⟨(List.take_append_drop n b).symm, by simp [hle]⟩
  · cases h

theorem takeExact_append (x r : Bytes) : takeExact x.length (x ++ r) = some (x, r) := by
  unfold takeExact
  simp

/-- reading a sized field: exactly the bytes `sized w v ++ rest`, and `v` fits the width -/
theorem readSized_spec {w : Nat} {b v r : Bytes} (h : readSized w b = some (v, r)) :
    b = sized w v ++ r ∧ v.length < 256 ^ w := by
  unfold readSized at h
  cases h1 : takeExact w b with
  | none => simp [h1] at h
  | some p =>
    obtain ⟨l, r1⟩ := p
    simp only [h1, Option.bind_eq_bind, Option.bind_some] at h
    obtain ⟨hb, hl⟩ := takeExact_spec h1
    obtain ⟨hr1, hv⟩ := takeExact_spec h
    constructor
    · unfold sized
      rw [hv, ← hl, natTo_natOf, hb, hr1, List.append_assoc]
    · rw [hv, ← hl]; exact natOfBytesBE_lt l

theorem readSized_sized (w : Nat) (v r : Bytes) (h : v.length < 256 ^ w) :
    readSized w (sized w v ++ r) = some (v, r) := by
  unfold readSized sized
  have hlen : (natToBytesBE w v.length).length = w := natToBytesBE_length w v.length
  rw [List.append_assoc]
  have := takeExact_append (natToBytesBE w v.length) (v ++ r)
  rw [hlen] at this
  simp only [this, Option.bind_eq_bind, Option.bind_some]
  rw [natOf_natTo, Nat.mod_eq_of_lt h]
  exact takeExact_append v r

end TV.Asm
