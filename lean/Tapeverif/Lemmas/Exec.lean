import Tapeverif.Model.Instr
/-! Symbolic-execution lemmas: one rewriting step of `runOp` per primitive when its guard
    is known. Tagged `@[simp]`-free; used with `simp only [...]`. -/
namespace TV

variable (T : UInt8 → Op) (L : Limits)

theorem runOp_done (n : Nat) (fr : Frame) (sh : Shared) :
    runOp T L (n+1) .done fr sh = .ok fr sh := by simp [runOp]

theorem runOp_fail (n : Nat) (e : ErrKind) (fr : Frame) (sh : Shared) :
    runOp T L (n+1) (.fail e) fr sh = .err (.user e) sh := by simp [runOp]

theorem runOp_pop (n : Nat) (k : Bytes → Op) (fr : Frame) (sh : Shared) (x : Bytes) (r : List Bytes)
    (h : sh.stack = x :: r) :
    runOp T L (n+1) (.pop k) fr sh = runOp T L n (k x) fr { sh with stack := r } := by
  simp [runOp, h]

theorem runOp_pop_empty (n : Nat) (k : Bytes → Op) (fr : Frame) (sh : Shared) (h : sh.stack = []) :
    runOp T L (n+1) (.pop k) fr sh = .err (.user .index) sh := by
  simp [runOp, h]

theorem runOp_push (n : Nat) (b : Bytes) (k : Op) (fr : Frame) (sh : Shared)
    (h1 : b.length ≤ L.maxItemSize) (h2 : sh.stack.length < L.maxItems) :
    runOp T L (n+1) (.push b k) fr sh = runOp T L n k fr { sh with stack := b :: sh.stack } := by
  simp [runOp, h1, h2]

theorem runOp_read (n m : Nat) (k : Bytes → Op) (fr : Frame) (sh : Shared) (h : m ≤ fr.rest.length) :
    runOp T L (n+1) (.read m k) fr sh =
      runOp T L n (k (fr.rest.take m)) { fr with rest := fr.rest.drop m } sh := by
  simp [runOp, h]

theorem runOp_cacheGet_str (n : Nat) (s : Bytes) (k : Option CVal → Op) (fr : Frame) (sh : Shared) :
    runOp T L (n+1) (.cacheGet (.str s) k) fr sh = runOp T L n (k (lookupC (.str s) sh.cache)) fr sh := by
  simp [runOp]

end TV

namespace TV

variable (T : UInt8 → Op) (L : Limits)

/-- one fetch–execute step of a tape -/
theorem runTape_cons (m : Nat) (fr : Frame) (sh : Shared) (c : UInt8) (rest : Bytes)
    (hrest : fr.rest = c :: rest) (hcap : fr.len0 < fr.cap) (hr : sh.returned = false) :
    runTape T L (m+1) fr sh =
      (match runOp T L m (T c) { fr with rest := rest } sh with
       | .err e sh' => .err e sh'
       | .ok fr' sh' => runTape T L m fr' sh') := by
  simp only [runTape, hrest, hr, Bool.false_eq_true, ↓reduceIte]
  have : ¬ ¬ fr.len0 < fr.cap := by simpa using hcap
  simp only [this, ↓reduceIte]
  rfl

theorem runTape_nil (m : Nat) (fr : Frame) (sh : Shared) (hrest : fr.rest = []) :
    runTape T L (m+1) fr sh = .ok fr sh := by
  simp only [runTape, hrest]

/-- `OP_PUSH1 <len> <v>` with the operand present and room on the stack -/
theorem run_push1 (m : Nat) (k : Op) (fr : Frame) (sh : Shared) (v rest : Bytes)
    (hv : v.length < 256) (hrest : fr.rest = UInt8.ofNat v.length :: (v ++ rest))
    (h1 : v.length ≤ L.maxItemSize) (h2 : sh.stack.length < L.maxItems) :
    runOp T L (m+3) (Instr.opPush1 k) fr sh =
      runOp T L m k { fr with rest := rest } { sh with stack := v :: sh.stack } := by
  unfold Instr.opPush1 Instr.readU1
  rw [runOp_read T L _ 1 _ fr sh (by simp [hrest])]
  simp only [hrest, List.take_succ_cons, List.take_zero, List.drop_succ_cons, List.drop_zero]
  have hn : natOfBytesBE [UInt8.ofNat v.length] = v.length := by
    simp [natOfBytesBE, UInt8.toNat_ofNat', Nat.mod_eq_of_lt hv]
  rw [hn, runOp_read T L _ _ _ _ sh (by simp)]
  simp only [List.take_left', List.drop_left']
  rw [runOp_push T L _ v _ _ sh h1 h2]

end TV
