import Tapeverif.Model.Instr
/-! Symbolic-execution lemmas: one rewriting step of `runOp` per primitive when its guard
    is known. Tagged `@[simp]`-free; used with `simp only [...]`. -/
namespace TV

variable (T : UInt8 → Op) (L : Limits)

theorem runOp_done (n : Nat) (fr : Frame) (sh : Shared) :
    runOp T L (n+1) .done fr sh = .ok fr sh := by simp [runOp]

theorem runOp_fail (n : Nat) (e : ErrKind) (fr : Frame) (sh : Shared) :
    runOp T L (n+1) (.fail e) fr sh = .err (.user e) sh := by simp [runOp]

theorem runOp_pop (n : Nat) (k : Bytes → Op) (fr : Frame) (sh : Shared) (x : Bytes) (r : List Bytes)
    (h : sh.stack = x :: r) :
    runOp T L (n+1) (.pop k) fr sh = runOp T L n (k x) fr { sh with stack := r } := by
  simp [runOp, h]

theorem runOp_pop_empty (n : Nat) (k : Bytes → Op) (fr : Frame) (sh : Shared) (h : sh.stack = []) :
    runOp T L (n+1) (.pop k) fr sh = .err (.user .index) sh := by
  simp [runOp, h]

theorem runOp_push (n : Nat) (b : Bytes) (k : Op) (fr : Frame) (sh : Shared)
    (h1 : b.length ≤ L.maxItemSize) (h2 : sh.stack.length < L.maxItems) :
    runOp T L (n+1) (.push b k) fr sh = runOp T L n k fr { sh with stack := b :: sh.stack } := by
  simp [runOp, h1, h2]

theorem runOp_read (n m : Nat) (k : Bytes → Op) (fr : Frame) (sh : Shared) (h : m ≤ fr.rest.length) :
    runOp T L (n+1) (.read m k) fr sh =
      runOp T L n (k (fr.rest.take m)) { fr with rest := fr.rest.drop m } sh := by
  simp [runOp, h]

theorem runOp_cacheGet_str (n : Nat) (s : Bytes) (k : Option CVal → Op) (fr : Frame) (sh : Shared) :
    runOp T L (n+1) (.cacheGet (.str s) k) fr sh = runOp T L n (k (lookupC (.str s) sh.cache)) fr sh := by
  simp [runOp]

end TV
