import Mathlib.Algebra.Module.Basic
import Mathlib.Tactic.Abel
import Mathlib.Tactic.Ring
import Mathlib.Algebra.BigOperators.Group.List.Basic
/-! Group-level facts behind the adapter-signature, taproot and AMHL constructions.
    `P` is any commutative group written additively (the curve), `G` its base point, `L` a
    number with `L • G = 0` (the group order). Scalars are natural numbers, as in the model
    (`Model/Crypto.lean` reduces them `% L`). -/
namespace TV.Algebra

variable {P : Type} [AddCommGroup P] (G : P) (L : ℕ) (hL : L • G = 0)

include hL in
/-- reducing a scalar mod `L` does not change the point it derives -/
theorem smul_mod (a : ℕ) : (a % L) • G = a • G := by
  conv_rhs => rw [← Nat.div_add_mod a L]
  rw [add_nsmul, mul_nsmul, hL, smul_zero, zero_add]

include hL in
/-- the adapter equation: `sa = r + ca·x (mod L)` satisfies `sa•G = R + ca•X` -/
theorem adapter_check (r ca x : ℕ) :
    ((r + ca * x) % L) • G = r • G + ca • (x • G) := by
  rw [smul_mod G L hL, add_nsmul, mul_nsmul']

include hL in
/-- decrypting with `t`: `s = sa + t (mod L)` satisfies the Ed25519 equation for the nonce point
    `R + T` under the *same* challenge `ca` (which was computed from `R + T`) -/
theorem decrypt_is_signature (r ca x t : ℕ) :
    ((((r + ca * x) % L) + t) % L) • G = (r • G + t • G) + ca • (x • G) := by
  rw [smul_mod G L hL, add_nsmul, adapter_check G L hL]
  abel

/-- from the decrypted signature and the adapter anyone recovers the tweak: `t = s − sa (mod L)` -/
theorem recover_tweak (sa t : ℤ) (L : ℤ) : ((sa + t) % L - sa) % L = t % L := by
  rw [Int.sub_emod, Int.emod_emod_of_dvd _ (dvd_refl L), ← Int.sub_emod]
  congr 1; ring

include hL in
/-- the adapter itself is not a signature for the nonce point `R + T` unless `T = 0` -/
theorem adapter_not_signature (r ca x : ℕ) (T : P) (hT : T ≠ 0) :
    ((r + ca * x) % L) • G ≠ (r • G + T) + ca • (x • G) := by
  rw [adapter_check G L hL]
  intro h
  apply hT
  have h2 : (r • G + ca • x • G) + 0 = (r • G + ca • x • G) + T := by
    rw [add_zero]; exact h.trans (by abel)
  exact (add_left_cancel h2).symm

include hL in
/-- decrypting with any scalar whose point is not `T` does not give a signature for `R + T` -/
theorem wrong_tweak_not_signature (r ca x t' : ℕ) (T : P) (hT : t' • G ≠ T) :
    ((((r + ca * x) % L) + t') % L) • G ≠ (r • G + T) + ca • (x • G) := by
  rw [smul_mod G L hL, add_nsmul, adapter_check G L hL]
  intro h
  apply hT
  have h' : (r • G + ca • x • G) + t' • G = (r • G + ca • x • G) + T := by rw [h]; abel
  exact add_left_cancel h'

/-- taproot: the builder adds `P + X`, the VM adds `X + P` -/
theorem taproot_root_comm (Pk X : P) : Pk + X = X + Pk := add_comm _ _

include hL in
/-- taproot key spend: the scalar `x + t (mod L)` derives the root `x•G + t•G` -/
theorem taproot_keyspend_scalar (x t : ℕ) : ((x + t) % L) • G = x • G + t • G := by
  rw [smul_mod G L hL, add_nsmul]

/-- AMHL setup: the running sum of points is the point of the running sum of scalars -/
theorem amhl_partial_sums (ys : List ℕ) :
    (ys.map (· • G)).sum = ys.sum • G := by
  induction ys with
  | nil => simp
  | cons y r ih => simp [add_nsmul, ih]

include hL in
/-- AMHL release: if `k` opens the lock `Y + y•G` then `k − y (mod L)` opens `Y` -/
theorem amhl_release (hpos : 0 < L) (k y : ℕ) (Y : P) (hk : k • G = Y + y • G) :
    ((k + (L - y % L) % L) % L) • G = Y := by
  rw [smul_mod G L hL, add_nsmul, smul_mod G L hL, hk]
  have hy : y % L ≤ L := Nat.le_of_lt (Nat.mod_lt _ hpos)
  have : (L - y % L) • G + (y % L) • G = L • G := by rw [← add_nsmul, Nat.sub_add_cancel hy]
  rw [smul_mod G L hL, hL] at this
  have h2 : (L - y % L) • G = - (y • G) := eq_neg_of_add_eq_zero_left this
  rw [h2]; abel

end TV.Algebra
