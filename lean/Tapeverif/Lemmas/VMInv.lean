import Tapeverif.Model.VM
/-! # Invariants of the VM kernel, for an arbitrary op table

Proved once over the `Op` vocabulary by induction on fuel:
* stack limits hold on every outcome, successful or not (C07);
* no string-keyed cache entry is ever added, changed or removed (C08);
* return hygiene: no instruction is ever fetched with RETURN pending — the ghost
  assertion in `runTape` is unreachable (C01, C06);
* a successful run of a tape always consumed the whole tape. -/
namespace TV

variable (T : UInt8 → Op) (L : Limits)

def StackInv (sh : Shared) : Prop :=
  sh.stack.length ≤ L.maxItems ∧ ∀ x ∈ sh.stack, x.length ≤ L.maxItemSize

/-- string-keyed entries are the same in `sh'` as in `sh` -/
def StrFrame (sh sh' : Shared) : Prop :=
  ∀ s, lookupC (.str s) sh'.cache = lookupC (.str s) sh.cache

/-- same script-visible state (only heap / bookkeeping fields may differ) -/
def Same (a b : Shared) : Prop :=
  a.stack = b.stack ∧ a.cache = b.cache ∧ a.returned = b.returned

def Post (sh : Shared) : Res → Prop
  | .ok fr' sh' => StackInv L sh' ∧ StrFrame sh sh' ∧ (sh'.returned = true → fr'.rest = [])
  | .err e sh' => StackInv L sh' ∧ StrFrame sh sh' ∧ e ≠ .ghost ∧ (catchable e = true → sh'.returned = false)

theorem StrFrame.refl (sh : Shared) : StrFrame sh sh := fun _ => rfl
theorem StrFrame.trans {a b c : Shared} (h1 : StrFrame a b) (h2 : StrFrame b c) : StrFrame a c :=
  fun s => by rw [h2 s, h1 s]
theorem StrFrame.of_cache_eq {a b : Shared} (h : a.cache = b.cache) : StrFrame a b :=
  fun s => by rw [h]

theorem post_trans {a b : Shared} {r : Res} (h1 : StrFrame a b) (h2 : Post L b r) : Post L a r := by
  cases r with
  | ok fr' sh' => exact ⟨h2.1, h1.trans h2.2.1, h2.2.2⟩
  | err e sh' => exact ⟨h2.1, h1.trans h2.2.1, h2.2.2.1, h2.2.2.2⟩

theorem strFrame_put (sh : Shared) (key : Bytes) (v : CVal) (c : List (CKey × CVal))
    (hc : c = (.byt key, v) :: sh.cache) (sh' : Shared) (h' : sh'.cache = c) : StrFrame sh sh' := by
  intro s; rw [h', hc]; simp [lookupC]

theorem Same.inv {a b : Shared} (h : Same a b) (hi : StackInv L a) : StackInv L b := by
  unfold StackInv at *; rw [← h.1]; exact hi
theorem Same.ret {a b : Shared} (h : Same a b) (hr : a.returned = false) : b.returned = false := by
  rw [← h.2.2]; exact hr
theorem Same.frame {a b : Shared} (h : Same a b) : StrFrame a b := StrFrame.of_cache_eq h.2.1

theorem same_setFnCount (sh : Shared) (id c : Nat) : Same sh (setFnCount sh id c) := ⟨rfl, rfl, rfl⟩
theorem same_setCount (fr : Frame) (sh : Shared) (c : Nat) : Same sh (setCount fr sh c).2 := by
  unfold setCount; split
  · exact ⟨rfl, rfl, rfl⟩
  · exact same_setFnCount _ _ _
theorem same_copyDict (sh : Shared) (d : Nat) : Same sh (copyDict sh d).2 := ⟨rfl, rfl, rfl⟩
theorem Same.trans {a b c : Shared} (h1 : Same a b) (h2 : Same b c) : Same a c :=
  ⟨h1.1.trans h2.1, h1.2.1.trans h2.2.1, h1.2.2.trans h2.2.2⟩

theorem errPost (sh : Shared) (e : ErrKind) (hi : StackInv L sh) (hr : sh.returned = false) :
    Post L sh (.err (.user e) sh) :=
  ⟨hi, StrFrame.refl _, by simp, fun _ => hr⟩

theorem main (fuel : Nat) :
    (∀ op fr sh, StackInv L sh → sh.returned = false → Post L sh (runOp T L fuel op fr sh)) ∧
    (∀ budget lc body k fr sh, StackInv L sh → sh.returned = false →
        Post L sh (runLoop T L fuel budget lc body k fr sh)) ∧
    (∀ fr sh, StackInv L sh → sh.returned = false → Post L sh (runTape T L fuel fr sh)) := by
  induction fuel with
  | zero =>
    refine ⟨?_, ?_, ?_⟩ <;> intros <;> simp [runOp, runLoop, runTape, Post, StrFrame.refl, catchable, *]
  | succ n ih =>
    obtain ⟨ihO, ihL, ihT⟩ := ih
    -- after a body run: "if returned then end the frame else continue with k"
    have cont : ∀ (fr : Frame) (sh sh' : Shared) (k : Op),
        StackInv L sh' → StrFrame sh sh' →
        Post L sh (if sh'.returned then Res.ok (endFrame fr) sh' else runOp T L n k fr sh') := by
      intro fr sh sh' k hi hf
      split
      · exact ⟨hi, hf, fun _ => rfl⟩
      · next hr => exact post_trans L hf (ihO k fr sh' hi (by simpa using hr))
    refine ⟨?_, ?_, ?_⟩
    · intro op fr sh hinv hret
      cases op with
      | done => exact ⟨hinv, StrFrame.refl _, by simp [hret]⟩
      | fail e => exact errPost L sh e hinv hret
      | read m k =>
        simp only [runOp]; split
        · exact ihO _ _ _ hinv hret
        · exact errPost L sh _ hinv hret
      | pop k =>
        simp only [runOp]; split
        · exact errPost L sh _ hinv hret
        · next x r heq =>
          have hinv' : StackInv L { sh with stack := r } := by
            unfold StackInv at *; simp [heq] at hinv ⊢; exact ⟨by omega, fun y hy => hinv.2.2 y hy⟩
          exact post_trans L (StrFrame.refl _) (ihO _ _ _ hinv' hret)
      | peekTop k =>
        simp only [runOp]; split
        · exact errPost L sh _ hinv hret
        · exact ihO _ _ _ hinv hret
      | depth k => simp only [runOp]; exact ihO _ _ _ hinv hret
      | push b k =>
        simp only [runOp]; split
        · next hc1 =>
          split
          · next hc2 =>
            have hinv' : StackInv L { sh with stack := b :: sh.stack } := by
              unfold StackInv at *; simp; exact ⟨by omega, hc1, hinv.2⟩
            exact post_trans L (StrFrame.refl _) (ihO _ _ _ hinv' hret)
          · exact errPost L sh _ hinv hret
        · exact errPost L sh _ hinv hret
      | cacheGet key k =>
        simp only [runOp]
        split
        · exact post_trans L (a := sh) (b := { sh with tainted := true }) (StrFrame.refl _)
            (ihO _ _ _ hinv hret)
        · exact ihO _ _ _ hinv hret
      | cachePut key v k =>
        simp only [runOp]
        generalize hsh : ({ sh with cache := (.byt key, v) :: sh.cache,
                                    eTaint := if key = eKey then false else sh.eTaint } : Shared) = sh1
        have hf : StrFrame sh sh1 := by subst hsh; intro s; simp [lookupC]
        have hi : StackInv L sh1 := by subst hsh; exact hinv
        have hr : sh1.returned = false := by subst hsh; exact hret
        exact post_trans L hf (ihO _ _ _ hi hr)
      | rand m k =>
        simp only [runOp]
        exact post_trans L (a := sh) (b := { sh with randCtr := sh.randCtr + 1 }) (StrFrame.refl _)
          (ihO _ _ _ hinv hret)
      | log t k =>
        simp only [runOp]
        exact post_trans L (a := sh) (b := { sh with plog := t :: sh.plog }) (StrFrame.refl _)
          (ihO _ _ _ hinv hret)
      | guardCount k =>
        simp only [runOp]; split
        · exact ihO _ _ _ hinv hret
        · exact errPost L sh _ hinv hret
      | define h body k =>
        simp only [runOp]
        generalize hsh : ({ sh with
            fns := sh.fns ++ [{ body := body, dict := fr.dict, count := 0 }],
            dicts := sh.dicts.set fr.dict ((h, sh.fns.length) :: sh.dicts.getD fr.dict []) } : Shared) = sh1
        have hs : Same sh sh1 := by subst hsh; exact ⟨rfl, rfl, rfl⟩
        exact post_trans L hs.frame (ihO _ _ _ (hs.inv L hinv) (hs.ret hret))
      | call h k =>
        simp only [runOp]
        split
        · have hs1 := same_setCount fr sh (getCount fr sh + 1)
          generalize hsc : setCount fr sh (getCount fr sh + 1) = p at hs1
          obtain ⟨fr1, sh1⟩ := p
          simp only at hs1 ⊢
          split
          · exact post_trans L hs1.frame (errPost L sh1 _ (hs1.inv L hinv) (hs1.ret hret))
          · next id hid =>
            have hs2 := hs1.trans (same_setFnCount sh1 id (getCount fr sh + 1))
            have h1 := ihT { rest := (sh1.fns.getD id default).body, count := getCount fr sh + 1,
                             fn := some id, dict := (sh1.fns.getD id default).dict,
                             len0 := (sh1.fns.getD id default).body.length,
                             cap := (sh1.fns.getD id default).body.length + 1 }
                        (setFnCount sh1 id (getCount fr sh + 1)) (hs2.inv L hinv) (hs2.ret hret)
            split
            · next e sh' heq => rw [heq] at h1; exact post_trans L hs2.frame h1
            · next fr2 sh' heq =>
              rw [heq] at h1
              exact post_trans L (a := sh) (b := { sh' with returned := false })
                (hs2.frame.trans h1.2.1) (ihO k fr1 { sh' with returned := false } h1.1 rfl)
        · exact errPost L sh _ hinv hret
      | ret => exact ⟨hinv, StrFrame.refl _, fun _ => rfl⟩
      | abort => exact ⟨hinv, StrFrame.refl _, by simp, by simp [catchable]⟩
      | sub kind body k =>
        cases kind with
        | inline =>
          simp only [runOp]
          have hs := same_copyDict sh fr.dict
          have h1 := ihT { rest := body, count := getCount fr sh, fn := none, dict := (copyDict sh fr.dict).1,
                           len0 := body.length, cap := fr.len0 } (copyDict sh fr.dict).2
                      (hs.inv L hinv) (hs.ret hret)
          split
          · next e sh' heq => rw [heq] at h1; exact post_trans L hs.frame h1
          · next fr2 sh' heq =>
            rw [heq] at h1
            exact cont fr sh sh' k h1.1 (hs.frame.trans h1.2.1)
        | eval propagate =>
          simp only [runOp]; split
          · have hs := same_copyDict sh fr.dict
            have h1 := ihT { rest := body, count := getCount fr sh + 1, fn := none,
                             dict := (copyDict sh fr.dict).1, len0 := body.length, cap := body.length + 1 }
                        (copyDict sh fr.dict).2 (hs.inv L hinv) (hs.ret hret)
            split
            · next e sh' heq => rw [heq] at h1; exact post_trans L hs.frame h1
            · next fr2 sh' heq =>
              rw [heq] at h1
              split
              · exact ⟨h1.1, hs.frame.trans h1.2.1, fun _ => rfl⟩
              · exact post_trans L (a := sh) (b := { sh' with returned := false })
                  (hs.frame.trans h1.2.1) (ihO k fr { sh' with returned := false } h1.1 rfl)
          · exact errPost L sh _ hinv hret
      | tryCatch body exc k =>
        simp only [runOp]
        have hs := same_copyDict sh fr.dict
        have h1 := ihT { rest := body, count := getCount fr sh, fn := none, dict := (copyDict sh fr.dict).1,
                         len0 := body.length, cap := fr.len0 } (copyDict sh fr.dict).2
                    (hs.inv L hinv) (hs.ret hret)
        split
        · next fr2 sh' heq =>
          rw [heq] at h1
          exact cont fr sh sh' k h1.1 (hs.frame.trans h1.2.1)
        · next e sh' heq =>
          rw [heq] at h1
          split
          · next ek =>
            -- caught: the EXCEPT body runs on the state the failure left
            have hret' : sh'.returned = false := h1.2.2.2 rfl
            let sh2 : Shared := { sh' with cache := (.byt eKey, errValue ek) :: sh'.cache, eTaint := true }
            have hf2 : StrFrame sh' sh2 := by intro s; simp [sh2, lookupC]
            have hs3 := same_copyDict sh2 fr.dict
            have hi2 : StackInv L sh2 := h1.1
            have h2 := ihT { rest := exc, count := getCount fr (copyDict sh2 fr.dict).2, fn := none,
                             dict := (copyDict sh2 fr.dict).1, len0 := exc.length, cap := fr.len0 }
                        (copyDict sh2 fr.dict).2 (hs3.inv L hi2) (hs3.ret hret')
            have hf : StrFrame sh (copyDict sh2 fr.dict).2 :=
              (hs.frame.trans h1.2.1).trans (hf2.trans hs3.frame)
            split
            · next e2 sh4 heq2 => rw [heq2] at h2; exact post_trans L hf h2
            · next fr3 sh4 heq2 =>
              rw [heq2] at h2
              exact cont fr sh sh4 k h2.1 (hf.trans h2.2.1)
          · next hne =>
            refine post_trans L hs.frame ?_
            cases e with
            | user ek => exact absurd rfl (hne ek)
            | fuel => exact ⟨h1.1, h1.2.1, by simp, by simp [catchable]⟩
            | ghost => exact absurd rfl h1.2.2.1
            | guard => exact ⟨h1.1, h1.2.1, by simp, by simp [catchable]⟩
            | abort => exact ⟨h1.1, h1.2.1, by simp, by simp [catchable]⟩
      | loop body k =>
        simp only [runOp]
        split
        · exact errPost L sh _ hinv hret
        · exact ihL _ _ _ _ _ _ hinv hret
    · intro budget lc body k fr sh hinv hret
      simp only [runLoop]
      split
      · exact errPost L sh _ hinv hret
      · split
        · cases budget with
          | zero => exact errPost L sh _ hinv hret
          | succ b =>
            simp only []
            have h1 := ihT { rest := body, count := lc, fn := none, dict := fr.dict,
                             len0 := body.length, cap := fr.len0 } sh hinv hret
            split
            · next e sh' heq => rw [heq] at h1; exact h1
            · next fr2 sh' heq =>
              rw [heq] at h1
              split
              · exact ⟨h1.1, h1.2.1, fun _ => rfl⟩
              · next hr => exact post_trans L h1.2.1 (ihL b fr2.count body k fr sh' h1.1 (by simpa using hr))
        · exact ihO _ _ _ hinv hret
    · intro fr sh hinv hret
      simp only [runTape]
      split
      · next heq => exact ⟨hinv, StrFrame.refl _, fun _ => heq⟩
      · next c rest heq =>
        split
        · exact ⟨hinv, StrFrame.refl _, by simp, by simp [catchable]⟩
        · simp only [hret, Bool.false_eq_true, ↓reduceIte]
          have h1 := ihO (T c) { fr with rest := rest } sh hinv hret
          split
          · next e sh' heq2 => rw [heq2] at h1; exact h1
          · next fr' sh' heq2 =>
            rw [heq2] at h1
            by_cases hr : sh'.returned = true
            · have hrest := h1.2.2 hr
              cases n with
              | zero => simp [runTape, Post, h1.1, h1.2.1, catchable]
              | succ m => simp only [runTape, hrest]; exact ⟨h1.1, h1.2.1, fun _ => hrest⟩
            · exact post_trans L h1.2.1 (ihT fr' sh' h1.1 (by simpa using hr))

/-- A successful run of a tape consumed the whole tape. -/
theorem runTape_ok_rest (fuel : Nat) : ∀ fr sh fr' sh',
    runTape T L fuel fr sh = .ok fr' sh' → fr'.rest = [] := by
  induction fuel with
  | zero => intro fr sh fr' sh' h; simp [runTape] at h
  | succ n ih =>
    intro fr sh fr' sh' h
    simp only [runTape] at h
    split at h
    · next heq => cases h; exact heq
    · split at h
      · cases h
      · split at h
        · cases h
        · split at h
          · cases h
          · exact ih _ _ _ _ h

end TV
