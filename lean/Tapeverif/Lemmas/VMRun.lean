import Tapeverif.Lemmas.VMInv
import Tapeverif.Model.Auth
/-! Lifting the kernel invariants to `runScript` / `runAuth`. -/
namespace TV

variable (T : UInt8 → Op) (L : Limits)

def Res.shared : Res → Shared
  | .ok _ sh => sh
  | .err _ sh => sh

def Res.isGhost : Res → Bool
  | .err .ghost _ => true
  | _ => false

theorem post_shared {sh : Shared} {r : Res} (h : Post L sh r) :
    StackInv L r.shared ∧ StrFrame sh r.shared ∧ r.isGhost = false := by
  cases r with
  | ok fr sh' => exact ⟨h.1, h.2.1, rfl⟩
  | err e sh' =>
    refine ⟨h.1, h.2.1, ?_⟩
    cases e <;> simp [Res.isGhost] at *
    exact h.2.2.1 rfl

theorem initShared_inv (cache : List (CKey × CVal)) : StackInv L (initShared cache) := by
  unfold StackInv initShared; simp

theorem runTape_post (fuel : Nat) (fr : Frame) (sh : Shared) (hi : StackInv L sh)
    (hr : sh.returned = false) : Post L sh (runTape T L fuel fr sh) :=
  (main T L fuel).2.2 fr sh hi hr

/-- invariants across a whole `run_auth_scripts` list -/
theorem runAuthRest_post (fuel : Nat) : ∀ (scripts : List Bytes) (count : Nat) (sh : Shared),
    StackInv L sh →
    StackInv L (runAuthRest T L fuel scripts count sh).shared ∧
    StrFrame sh (runAuthRest T L fuel scripts count sh).shared ∧
    (runAuthRest T L fuel scripts count sh).isGhost = false := by
  intro scripts
  induction scripts with
  | nil => intro count sh hi; exact ⟨hi, StrFrame.refl _, rfl⟩
  | cons s rest ih =>
    intro count sh hi
    simp only [runAuthRest]
    have h1 := runTape_post T L fuel (topFrame s count) { sh with returned := false } hi rfl
    split
    · next e sh' heq =>
      rw [heq] at h1
      have := post_shared L h1
      exact ⟨this.1, this.2.1, this.2.2⟩
    · next fr sh' heq =>
      rw [heq] at h1
      have h2 := ih fr.count sh' h1.1
      exact ⟨h2.1, (StrFrame.trans (a := sh) (b := { sh with returned := false }) (StrFrame.refl _) h1.2.1).trans h2.2.1, h2.2.2⟩

end TV
