import Tapeverif.Model.Codec
/-! Helper lemmas for the integer codec (C10). Core Lean only. -/
namespace TV

theorem natToBytesBE_length (len n : Nat) : (natToBytesBE len n).length = len := by
  induction len generalizing n with
  | zero => rfl
  | succ k ih => simp [natToBytesBE, ih]

theorem natOfBytesBE_append_single (b : Bytes) (x : UInt8) :
    natOfBytesBE (b ++ [x]) = natOfBytesBE b * 256 + x.toNat := by
  simp [natOfBytesBE, List.foldl_append]

theorem natOf_natTo (len n : Nat) : natOfBytesBE (natToBytesBE len n) = n % 256 ^ len := by
  induction len generalizing n with
  | zero => simp [natToBytesBE, natOfBytesBE, Nat.mod_one]
  | succ k ih =>
    simp only [natToBytesBE, natOfBytesBE_append_single, ih]
    have h : (UInt8.ofNat (n % 256)).toNat = n % 256 := by
      simp [UInt8.toNat_ofNat']
    rw [h, Nat.pow_succ]
    -- n/256 % 256^k * 256 + n%256 = n % (256^k*256)
    have h1 : n % (256 * 256 ^ k) / 256 = n / 256 % 256 ^ k := Nat.mod_mul_right_div_self n 256 (256^k)
    have h2 : n % (256 * 256 ^ k) = 256 * (n % (256 * 256 ^ k) / 256) + n % (256 * 256 ^ k) % 256 := (Nat.div_add_mod _ _).symm
    have h3 : n % (256 * 256 ^ k) % 256 = n % 256 := Nat.mod_mod_of_dvd n (Nat.dvd_mul_right 256 _)
    rw [Nat.mul_comm (256^k) 256]
    omega

theorem lt_two_pow_bitLength (n : Nat) : n < 2 ^ bitLength n := by
  unfold bitLength; split
  · subst_vars; simp
  · exact Nat.lt_log2_self

theorem two_pow_le_of_bitLength (n : Nat) (h : n ≠ 0) : 2 ^ (bitLength n - 1) ≤ n := by
  unfold bitLength; simp [h]; exact Nat.log2_self_le h

theorem pow256 (k : Nat) : 256 ^ k = 2 ^ (k * 8) := by
  rw [show (256:Nat) = 2^8 from rfl, ← Nat.pow_mul, Nat.mul_comm]


theorem natToBytesBE_ne_nil (len n : Nat) (h : 0 < len) : natToBytesBE len n ≠ [] := by
  intro hc; have := natToBytesBE_length len n; rw [hc] at this; simp at this; omega

theorem two_pow_split (nbytes : Nat) (hn : 0 < nbytes) :
    256 ^ nbytes = 2 * 2 ^ (nbytes * 8 - 1) ∧ 2 ^ (nbytes * 8) = 2 * 2 ^ (nbytes * 8 - 1) := by
  have : nbytes * 8 = (nbytes * 8 - 1) + 1 := by omega
  constructor
  · rw [pow256, this, Nat.pow_succ]; simp; omega
  · conv => lhs; rw [this, Nat.pow_succ]
    omega

theorem roundtrip_pos (nbytes a : Nat) (hn : 0 < nbytes) (hlt : a < 2 ^ (nbytes * 8 - 1)) :
    bytesToInt (natToBytesBE nbytes a) = some (a : Int) := by
  obtain ⟨h256, h2⟩ := two_pow_split nbytes hn
  unfold bytesToInt
  simp only [natToBytesBE_ne_nil nbytes a hn, ↓reduceIte, natToBytesBE_length, natOf_natTo]
  generalize hP : 2 ^ (nbytes * 8 - 1) = P at *
  have hmod : a % 256 ^ nbytes = a := Nat.mod_eq_of_lt (by omega)
  rw [hmod]
  have : a / P = 0 := Nat.div_eq_of_lt hlt
  simp [this]

theorem roundtrip_neg (nbytes a : Nat) (hn : 0 < nbytes) (ha : 0 < a)
    (hle : a ≤ 2 ^ (nbytes * 8 - 1)) :
    bytesToInt (natToBytesBE nbytes (2 ^ (nbytes * 8 - 1) + (2 ^ (nbytes * 8 - 1) - a)))
      = some (-(a : Int)) := by
  obtain ⟨h256, h2⟩ := two_pow_split nbytes hn
  unfold bytesToInt
  simp only [natToBytesBE_ne_nil nbytes _ hn, ↓reduceIte, natToBytesBE_length, natOf_natTo]
  generalize hP : 2 ^ (nbytes * 8 - 1) = P at *
  have hPpos : 0 < P := by rw [← hP]; exact Nat.two_pow_pos _
  have hmod : (P + (P - a)) % 256 ^ nbytes = P + (P - a) := Nat.mod_eq_of_lt (by omega)
  rw [hmod, h2]
  have hdiv : (P + (P - a)) / P ≠ 0 := by
    intro h; have := (Nat.div_eq_zero_iff).mp h; omega
  simp only [hdiv, ne_eq, not_false_eq_true, ↓reduceIte, Option.some.injEq]
  omega

theorem pow_mono {a b : Nat} (h : a ≤ b) : 2 ^ a ≤ 2 ^ b := Nat.pow_le_pow_right (by omega) h

/-- main round trip -/
theorem decode_encode (z : Int) : bytesToInt (intToBytes z) = some z := by
  unfold intToBytes
  simp only []
  by_cases hneg : z < 0
  · simp only [hneg, ↓reduceIte]
    have ha : z.natAbs ≠ 0 := by omega
    simp only [ha, ↓reduceIte]
    generalize hA : z.natAbs = a at *
    have hz : z = -(a : Int) := by omega
    generalize hB : bitLength a = nb
    have hlt : a < 2 ^ nb := hB ▸ lt_two_pow_bitLength a
    have hnb : 0 < nb := by
      rcases Nat.eq_zero_or_pos nb with h | h
      · subst h; simp at hlt; omega
      · exact h
    rw [hz]
    split
    · next hc =>
      apply roundtrip_neg _ _ (by omega) (by omega)
      have : nb ≤ ((nb + 7) / 8 + 1) * 8 - 1 := by omega
      exact Nat.le_of_lt (Nat.lt_of_lt_of_le hlt (pow_mono this))
    · next hc =>
      apply roundtrip_neg _ _ (by omega) (by omega)
      by_cases h8 : nb % 8 = 0
      · have : ¬ a > 2 ^ ((nb + 7) / 8 * 8 - 1) := fun h => hc ⟨h8, h⟩
        omega
      · have : nb ≤ (nb + 7) / 8 * 8 - 1 := by omega
        exact Nat.le_of_lt (Nat.lt_of_lt_of_le hlt (pow_mono this))
  · simp only [hneg, ↓reduceIte]
    generalize hA : z.natAbs = a at *
    have hz : z = (a : Int) := by omega
    rw [hz]
    by_cases ha : a = 0
    · subst ha; simp; exact roundtrip_pos 1 0 (by omega) (by simp)
    · simp only [ha, ↓reduceIte]
      generalize hB : bitLength a = nb
      have hlt : a < 2 ^ nb := hB ▸ lt_two_pow_bitLength a
      have hnb : 0 < nb := by
        rcases Nat.eq_zero_or_pos nb with h | h
        · subst h; simp at hlt; omega
        · exact h
      split
      · next h8 =>
        apply roundtrip_pos _ _ (by omega)
        have : nb ≤ ((nb + 7) / 8 + 1) * 8 - 1 := by omega
        exact Nat.lt_of_lt_of_le hlt (pow_mono this)
      · next h8 =>
        apply roundtrip_pos _ _ (by omega)
        have : nb ≤ (nb + 7) / 8 * 8 - 1 := by omega
        exact Nat.lt_of_lt_of_le hlt (pow_mono this)


theorem foldl_be (a : Nat) (b : Bytes) :
    b.foldl (fun a x => a * 256 + x.toNat) a = a * 256 ^ b.length + natOfBytesBE b := by
  unfold natOfBytesBE
  induction b generalizing a with
  | nil => simp
  | cons y r ih =>
    simp only [List.foldl_cons, List.length_cons]
    rw [ih (a * 256 + y.toNat), ih (0 * 256 + y.toNat)]
    simp [Nat.pow_succ, Nat.add_mul, Nat.mul_assoc, Nat.add_assoc, Nat.mul_comm 256]

theorem natOfBytesBE_cons (x : UInt8) (b : Bytes) :
    natOfBytesBE (x :: b) = x.toNat * 256 ^ b.length + natOfBytesBE b := by
  conv => lhs; unfold natOfBytesBE
  simp only [List.foldl_cons]
  rw [foldl_be]; simp

theorem natOfBytesBE_lt (b : Bytes) : natOfBytesBE b < 256 ^ b.length := by
  induction b with
  | nil => simp [natOfBytesBE]
  | cons y r ih =>
    rw [natOfBytesBE_cons]
    have hy : y.toNat < 256 := y.toNat_lt
    simp only [List.length_cons, Nat.pow_succ]
    have : y.toNat * 256 ^ r.length ≤ 255 * 256 ^ r.length := Nat.mul_le_mul_right _ (by omega)
    omega

theorem lt_pow_of_pow_le_lt {a k m : Nat} (h1 : 2 ^ k ≤ a) (h2 : a < 2 ^ m) : k < m := by
  rcases Nat.lt_or_ge k m with h | h
  · exact h
  · have := pow_mono h; omega

theorem intToBytes_length (z : Int) :
    (intToBytes z).length =
      (let a := z.natAbs
       let nbits := if a = 0 then 1 else bitLength a
       let nbytes := (nbits + 7) / 8
       if z < 0 then (if nbits % 8 = 0 ∧ a > 2 ^ (nbytes * 8 - 1) then nbytes + 1 else nbytes)
       else (if nbits % 8 = 0 then nbytes + 1 else nbytes)) := by
  unfold intToBytes
  simp only []
  split <;> simp [natToBytesBE_length]

/-- Head-byte view of `bytes_to_int`: the sign is the top bit of the first byte. -/
theorem bytesToInt_cons (hd : UInt8) (tl : Bytes) :
    bytesToInt (hd :: tl) =
      some (if 128 ≤ hd.toNat
            then ((hd.toNat * 256 ^ tl.length + natOfBytesBE tl : Nat) : Int) - ((256 * 256 ^ tl.length : Nat) : Int)
            else ((hd.toNat * 256 ^ tl.length + natOfBytesBE tl : Nat) : Int)) := by
  unfold bytesToInt
  simp only [List.cons_ne_nil, ↓reduceIte, List.length_cons]
  rw [natOfBytesBE_cons]
  have hsplit : 2 ^ ((tl.length + 1) * 8 - 1) = 128 * 256 ^ tl.length := by
    rw [pow256, show (tl.length + 1) * 8 - 1 = 7 + tl.length * 8 by omega, Nat.pow_add]
  have hfull : 2 ^ ((tl.length + 1) * 8) = 256 * 256 ^ tl.length := by
    rw [pow256, show (tl.length + 1) * 8 = 8 + tl.length * 8 by omega, Nat.pow_add]
  rw [hsplit, hfull]
  have hlt := natOfBytesBE_lt tl
  have hQ : 0 < 256 ^ tl.length := Nat.pow_pos (by omega)
  generalize 256 ^ tl.length = Q at *
  generalize natOfBytesBE tl = r at *
  by_cases h128 : 128 ≤ hd.toNat
  · have h1 : 128 * Q ≤ hd.toNat * Q := Nat.mul_le_mul_right _ h128
    have h2 : 0 < (hd.toNat * Q + r) / (128 * Q) := Nat.div_pos (by omega) (by omega)
    have h3 : (hd.toNat * Q + r) / (128 * Q) ≠ 0 := by omega
    simp [h3, h128]
  · have h1 : hd.toNat * Q ≤ 127 * Q := Nat.mul_le_mul_right _ (by omega)
    have h2 : (hd.toNat * Q + r) / (128 * Q) = 0 := Nat.div_eq_of_lt (by omega)
    simp [h2, h128]

end TV
