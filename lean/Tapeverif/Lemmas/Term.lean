import Tapeverif.Lemmas.Counts
/-!
# Termination of the VM kernel, for an arbitrary op table

Every run of `runTape` / `runOp` / `runLoop` ends for some fuel — from every frame and every
well-formed state, for every op table `T` and all limits `L`. The measure is lexicographic:

1. `L.callLimit - c0`, where `c0` bounds the frame's call counter from below: `OP_CALL` and the
   evaluating instructions start their body with a counter one higher, and refuse once the
   counter has reached the limit;
2. the length of the frame's tape when it was created (`len0`): the bodies of IF / ELSE / TRY /
   EXCEPT / LOOP are proper substrings of the tape they are read from (`len0 < cap`, the guard in
   `runTape`);
3. the remaining tape of the frame, the structure of the instruction's op term, and the remaining
   iteration budget of a loop.

The bookkeeping facts about the heap of call counters the argument needs after each nested run
(`Lemmas/Counts.lean`) are partial-correctness invariants proved by induction on fuel.
-/
namespace TV

variable (T : UInt8 → Op) (L : Limits)

def Halts (fr : Frame) (sh : Shared) : Prop := ∃ n, (runTape T L n fr sh).isFuel = false
def HaltsOp (op : Op) (fr : Frame) (sh : Shared) : Prop := ∃ n, (runOp T L n op fr sh).isFuel = false
def HaltsLoop (budget lc : Nat) (body : Bytes) (k : Op) (fr : Frame) (sh : Shared) : Prop :=
  ∃ n, (runLoop T L n budget lc body k fr sh).isFuel = false

theorem runLoop_mono {n m : Nat} (h : n ≤ m) {budget lc : Nat} {body : Bytes} {k : Op} {fr : Frame} {sh : Shared} {r : Res}
    (hr : runLoop T L n budget lc body k fr sh = r) (hnf : r.isFuel = false) : runLoop T L m budget lc body k fr sh = r := by
  induction h with
  | refl => exact hr
  | step _ ih =>
    rcases (mono T L _).2.1 budget lc body k fr sh with hf | heq
    · rw [ih, hnf] at hf; cases hf
    · rw [← heq, ih]

/-- a frame that fails the substring guard (or is empty) ends at once -/
theorem halts_of_not_lt (fr : Frame) (sh : Shared) (h : ¬ fr.len0 < fr.cap) : Halts T L fr sh := by
  refine ⟨1, ?_⟩
  simp only [runTape]
  split
  · rfl
  · simp only [h, not_false_eq_true, ↓reduceIte]; rfl

theorem halts_main (d : Nat) : ∀ len fr sh c0, WF sh → c0 ≤ getCount fr sh → L.callLimit - c0 ≤ d → fr.len0 ≤ len →
    Halts T L fr sh := by
  induction d using Nat.strongRecOn with
  | ind d ihd =>
  intro len
  induction len using Nat.strongRecOn with
  | ind len ihl =>
  intro fr0 sh0 c0 hw0 hc0 hd hl0
  -- nested activations (CALL, EVAL): counter bound one higher
  have deeper : ∀ fr sh, WF sh → c0 + 1 ≤ getCount fr sh → c0 < L.callLimit → Halts T L fr sh := fun fr sh hw hc hlt =>
    ihd (L.callLimit - (c0 + 1)) (by omega) fr.len0 fr sh (c0 + 1) hw hc (Nat.le_refl _) (Nat.le_refl _)
  -- block bodies: same counter bound, tape shorter than `len`
  have inl : ∀ fr sh, WF sh → c0 ≤ getCount fr sh → fr.cap ≤ len → Halts T L fr sh := by
    intro fr sh hw hc hcap
    by_cases h : fr.len0 < fr.cap
    · exact ihl fr.len0 (by omega) fr sh c0 hw hc hd (Nat.le_refl _)
    · exact halts_of_not_lt T L fr sh h
  -- one instruction
  have opH : ∀ op fr sh, WF sh → c0 ≤ getCount fr sh → fr.len0 ≤ len → HaltsOp T L op fr sh := by
    intro op
    induction op with
    | done => intro fr sh _ _ _; exact ⟨1, rfl⟩
    | fail e => intro fr sh _ _ _; exact ⟨1, rfl⟩
    | ret => intro fr sh _ _ _; exact ⟨1, rfl⟩
    | abort => intro fr sh _ _ _; exact ⟨1, rfl⟩
    | read m k ih =>
      intro fr sh hw hc hl
      by_cases hm : m ≤ fr.rest.length
      · obtain ⟨n, hn⟩ := ih (fr.rest.take m) { fr with rest := fr.rest.drop m } sh hw hc hl
        exact ⟨n + 1, by simpa [runOp, hm] using hn⟩
      · exact ⟨1, by simp [runOp, hm, Res.isFuel]⟩
    | pop k ih =>
      intro fr sh hw hc hl
      cases hs : sh.stack with
      | nil => exact ⟨1, by simp [runOp, hs, Res.isFuel]⟩
      | cons x r =>
        obtain ⟨n, hn⟩ := ih x fr { sh with stack := r } hw hc hl
        exact ⟨n + 1, by simpa [runOp, hs] using hn⟩
    | peekTop k ih =>
      intro fr sh hw hc hl
      cases hs : sh.stack with
      | nil => exact ⟨1, by simp [runOp, hs, Res.isFuel]⟩
      | cons x r =>
        obtain ⟨n, hn⟩ := ih x fr sh hw hc hl
        exact ⟨n + 1, by simpa [runOp, hs] using hn⟩
    | depth k ih =>
      intro fr sh hw hc hl
      obtain ⟨n, hn⟩ := ih sh.stack.length fr sh hw hc hl
      exact ⟨n + 1, by simpa [runOp] using hn⟩
    | push b k ih =>
      intro fr sh hw hc hl
      by_cases h1 : b.length ≤ L.maxItemSize
      · by_cases h2 : sh.stack.length < L.maxItems
        · obtain ⟨n, hn⟩ := ih fr { sh with stack := b :: sh.stack } hw hc hl
          exact ⟨n + 1, by simpa [runOp, h1, h2] using hn⟩
        · exact ⟨1, by simp [runOp, h1, h2, Res.isFuel]⟩
      · exact ⟨1, by simp [runOp, h1, Res.isFuel]⟩
    | cacheGet key k ih =>
      intro fr sh hw hc hl
      by_cases hk : key = .byt eKey ∧ sh.eTaint
      · obtain ⟨n, hn⟩ := ih (lookupC key sh.cache) fr { sh with tainted := true } hw hc hl
        exact ⟨n + 1, by simpa [runOp, hk] using hn⟩
      · obtain ⟨n, hn⟩ := ih (lookupC key sh.cache) fr sh hw hc hl
        exact ⟨n + 1, by simpa [runOp, hk] using hn⟩
    | cachePut key v k ih =>
      intro fr sh hw hc hl
      obtain ⟨n, hn⟩ := ih fr { sh with cache := (.byt key, v) :: sh.cache, eTaint := if key = eKey then false else sh.eTaint } hw hc hl
      exact ⟨n + 1, by simpa [runOp] using hn⟩
    | rand m k ih =>
      intro fr sh hw hc hl
      obtain ⟨n, hn⟩ := ih (randBytes sh.randCtr m) fr { sh with randCtr := sh.randCtr + 1 } hw hc hl
      exact ⟨n + 1, by simpa [runOp] using hn⟩
    | log t k ih =>
      intro fr sh hw hc hl
      obtain ⟨n, hn⟩ := ih fr { sh with plog := t :: sh.plog } hw hc hl
      exact ⟨n + 1, by simpa [runOp] using hn⟩
    | guardCount k ih =>
      intro fr sh hw hc hl
      by_cases hg : getCount fr sh < L.callLimit
      · obtain ⟨n, hn⟩ := ih fr sh hw hc hl
        exact ⟨n + 1, by simpa [runOp, hg] using hn⟩
      · exact ⟨1, by simp [runOp, hg, Res.isFuel]⟩
    | define h body k ih =>
      intro fr sh hw hc hl
      have hp := HP.define (c0 := c0) sh fr.dict body (sh.dicts.set fr.dict ((h, sh.fns.length) :: sh.dicts.getD fr.dict []))
      obtain ⟨n, hn⟩ := ih fr _ (WF.define fr.dict h body hw) (count_keep hc hp (FrameLe.refl fr)) hl
      exact ⟨n + 1, by simpa [runOp] using hn⟩
    | call h k ih =>
      intro fr sh hw hc hl
      by_cases hlt : getCount fr sh < L.callLimit
      · obtain ⟨fr1, sh1, hsc, hw1, hp1, hf1⟩ := setCount_spec (c0 := c0) fr sh hw hc
        cases hlk : lookupDef h (sh1.dicts.getD fr.dict []) with
        | none => exact ⟨1, by simp only [runOp, hlt, ↓reduceIte, hsc, hlk]; rfl⟩
        | some id =>
          have hidlt : id < sh1.fns.length := hw1.lookup hlk
          have hp2 : HP c0 sh1 (setFnCount sh1 id (getCount fr sh + 1)) := HP.setFnCount sh1 id _ (by omega)
          have hcB : ∀ frB : Frame, frB.fn = some id → c0 + 1 ≤ getCount frB (setFnCount sh1 id (getCount fr sh + 1)) := by
            intro frB hfn; rw [getCount_callee frB sh1 id _ hfn hidlt]; omega
          have hw2 := hw1.setFnCount id (getCount fr sh + 1)
          obtain ⟨n1, h1⟩ := deeper
            { rest := (sh1.fns.getD id default).body, count := getCount fr sh + 1,
              fn := some id, dict := (sh1.fns.getD id default).dict,
              len0 := (sh1.fns.getD id default).body.length,
              cap := (sh1.fns.getD id default).body.length + 1 }
            (setFnCount sh1 id (getCount fr sh + 1)) hw2 (hcB _ rfl) (by omega)
          have hA := (counts_main T L n1).2.2
            { rest := (sh1.fns.getD id default).body, count := getCount fr sh + 1,
              fn := some id, dict := (sh1.fns.getD id default).dict,
              len0 := (sh1.fns.getD id default).body.length,
              cap := (sh1.fns.getD id default).body.length + 1 }
            (setFnCount sh1 id (getCount fr sh + 1)) (c0 + 1) hw2 (hcB _ rfl)
          cases hr : runTape T L n1
            { rest := (sh1.fns.getD id default).body, count := getCount fr sh + 1,
              fn := some id, dict := (sh1.fns.getD id default).dict,
              len0 := (sh1.fns.getD id default).body.length,
              cap := (sh1.fns.getD id default).body.length + 1 }
            (setFnCount sh1 id (getCount fr sh + 1)) with
          | err e s =>
            rw [hr] at h1
            exact ⟨n1 + 1, by simp only [runOp, hlt, ↓reduceIte, hsc, hlk, hr]; exact h1⟩
          | ok f s =>
            rw [hr] at hA
            have hp3 : HP c0 sh { s with returned := false } := hp1.trans (hp2.trans (HP.mono (Nat.le_succ _) hA.2.1))
            obtain ⟨n2, h2⟩ := ih fr1 { s with returned := false } hA.1 (count_keep hc hp3 hf1) (by rw [hf1.2.1]; exact hl)
            refine ⟨max n1 n2 + 1, ?_⟩
            have e1 := runTape_mono T L (Nat.le_max_left n1 n2) hr rfl
            have e2 := runOp_mono T L (Nat.le_max_right n1 n2) rfl h2
            simp only [runOp, hlt, ↓reduceIte, hsc, hlk, e1, e2]; exact h2
      · exact ⟨1, by simp [runOp, hlt, Res.isFuel]⟩
    | sub kind body k ih =>
      intro fr sh hw hc hl
      cases kind with
      | inline =>
        have hpc : HP c0 sh (copyDict sh fr.dict).2 := HP.of_fns_eq rfl
        obtain ⟨n1, h1⟩ := inl
          { rest := body, count := getCount fr sh, fn := none, dict := (copyDict sh fr.dict).1, len0 := body.length, cap := fr.len0 }
          (copyDict sh fr.dict).2 (hw.copyDict fr.dict) hc hl
        have hA := (counts_main T L n1).2.2
          { rest := body, count := getCount fr sh, fn := none, dict := (copyDict sh fr.dict).1, len0 := body.length, cap := fr.len0 }
          (copyDict sh fr.dict).2 c0 (hw.copyDict fr.dict) hc
        cases hr : runTape T L n1
          { rest := body, count := getCount fr sh, fn := none, dict := (copyDict sh fr.dict).1, len0 := body.length, cap := fr.len0 }
          (copyDict sh fr.dict).2 with
        | err e s =>
          rw [hr] at h1
          exact ⟨n1 + 1, by simp only [runOp, hr]; exact h1⟩
        | ok f s =>
          rw [hr] at hA
          by_cases hret : s.returned = true
          · exact ⟨n1 + 1, by simp only [runOp, hr, hret, ↓reduceIte]; rfl⟩
          · obtain ⟨n2, h2⟩ := ih fr s hA.1 (count_keep hc (hpc.trans hA.2.1) (FrameLe.refl fr)) hl
            refine ⟨max n1 n2 + 1, ?_⟩
            have e1 := runTape_mono T L (Nat.le_max_left n1 n2) hr rfl
            have e2 := runOp_mono T L (Nat.le_max_right n1 n2) rfl h2
            simp only [runOp, e1, hret, Bool.false_eq_true, ↓reduceIte, e2]; exact h2
      | eval propagate =>
        by_cases hlt : getCount fr sh < L.callLimit
        · have hpc : HP c0 sh (copyDict sh fr.dict).2 := HP.of_fns_eq rfl
          have hcB : c0 + 1 ≤ getCount
              { rest := body, count := getCount fr sh + 1, fn := none, dict := (copyDict sh fr.dict).1, len0 := body.length, cap := body.length + 1 }
              (copyDict sh fr.dict).2 := by show c0 + 1 ≤ getCount fr sh + 1; omega
          obtain ⟨n1, h1⟩ := deeper _ _ (hw.copyDict fr.dict) hcB (by omega)
          have hA := (counts_main T L n1).2.2 _ _ (c0 + 1) (hw.copyDict fr.dict) hcB
          cases hr : runTape T L n1
            { rest := body, count := getCount fr sh + 1, fn := none, dict := (copyDict sh fr.dict).1, len0 := body.length, cap := body.length + 1 }
            (copyDict sh fr.dict).2 with
          | err e s =>
            rw [hr] at h1
            exact ⟨n1 + 1, by simp only [runOp, hlt, ↓reduceIte, hr]; exact h1⟩
          | ok f s =>
            rw [hr] at hA
            by_cases hret : (s.returned && propagate) = true
            · exact ⟨n1 + 1, by simp only [runOp, hlt, ↓reduceIte, hr, hret]; rfl⟩
            · have hp3 : HP c0 sh { s with returned := false } := hpc.trans (HP.mono (Nat.le_succ _) hA.2.1)
              obtain ⟨n2, h2⟩ := ih fr { s with returned := false } hA.1 (count_keep hc hp3 (FrameLe.refl fr)) hl
              refine ⟨max n1 n2 + 1, ?_⟩
              have e1 := runTape_mono T L (Nat.le_max_left n1 n2) hr rfl
              have e2 := runOp_mono T L (Nat.le_max_right n1 n2) rfl h2
              simp only [runOp, hlt, ↓reduceIte, e1, hret, Bool.false_eq_true, e2]; exact h2
        · exact ⟨1, by simp [runOp, hlt, Res.isFuel]⟩
    | tryCatch body exc k ih =>
      intro fr sh hw hc hl
      have hpc : HP c0 sh (copyDict sh fr.dict).2 := HP.of_fns_eq rfl
      obtain ⟨n1, h1⟩ := inl
        { rest := body, count := getCount fr sh, fn := none, dict := (copyDict sh fr.dict).1, len0 := body.length, cap := fr.len0 }
        (copyDict sh fr.dict).2 (hw.copyDict fr.dict) hc hl
      have hA := (counts_main T L n1).2.2
        { rest := body, count := getCount fr sh, fn := none, dict := (copyDict sh fr.dict).1, len0 := body.length, cap := fr.len0 }
        (copyDict sh fr.dict).2 c0 (hw.copyDict fr.dict) hc
      cases hr : runTape T L n1
        { rest := body, count := getCount fr sh, fn := none, dict := (copyDict sh fr.dict).1, len0 := body.length, cap := fr.len0 }
        (copyDict sh fr.dict).2 with
      | ok f s =>
        rw [hr] at hA
        by_cases hret : s.returned = true
        · exact ⟨n1 + 1, by simp only [runOp, hr, hret, ↓reduceIte]; rfl⟩
        · obtain ⟨n2, h2⟩ := ih fr s hA.1 (count_keep hc (hpc.trans hA.2.1) (FrameLe.refl fr)) hl
          refine ⟨max n1 n2 + 1, ?_⟩
          have e1 := runTape_mono T L (Nat.le_max_left n1 n2) hr rfl
          have e2 := runOp_mono T L (Nat.le_max_right n1 n2) rfl h2
          simp only [runOp, e1, hret, Bool.false_eq_true, ↓reduceIte, e2]; exact h2
      | err e s =>
        rw [hr] at hA h1
        cases e with
        | user ek =>
          -- caught: the EXCEPT body runs on the state the failure left
          have hw2 : WF ({ s with cache := (.byt eKey, errValue ek) :: s.cache, eTaint := true } : Shared) := hA.1
          have hp2 : HP c0 sh (copyDict ({ s with cache := (.byt eKey, errValue ek) :: s.cache, eTaint := true } : Shared) fr.dict).2 :=
            hpc.trans hA.2
          have hc2 := count_keep hc hp2 (FrameLe.refl fr)
          obtain ⟨m1, g1⟩ := inl
            { rest := exc, count := getCount fr (copyDict ({ s with cache := (.byt eKey, errValue ek) :: s.cache, eTaint := true } : Shared) fr.dict).2,
              fn := none, dict := (copyDict ({ s with cache := (.byt eKey, errValue ek) :: s.cache, eTaint := true } : Shared) fr.dict).1,
              len0 := exc.length, cap := fr.len0 }
            (copyDict ({ s with cache := (.byt eKey, errValue ek) :: s.cache, eTaint := true } : Shared) fr.dict).2
            (hw2.copyDict fr.dict) hc2 hl
          have hB := (counts_main T L m1).2.2
            { rest := exc, count := getCount fr (copyDict ({ s with cache := (.byt eKey, errValue ek) :: s.cache, eTaint := true } : Shared) fr.dict).2,
              fn := none, dict := (copyDict ({ s with cache := (.byt eKey, errValue ek) :: s.cache, eTaint := true } : Shared) fr.dict).1,
              len0 := exc.length, cap := fr.len0 }
            (copyDict ({ s with cache := (.byt eKey, errValue ek) :: s.cache, eTaint := true } : Shared) fr.dict).2 c0
            (hw2.copyDict fr.dict) hc2
          cases hr2 : runTape T L m1
            { rest := exc, count := getCount fr (copyDict ({ s with cache := (.byt eKey, errValue ek) :: s.cache, eTaint := true } : Shared) fr.dict).2,
              fn := none, dict := (copyDict ({ s with cache := (.byt eKey, errValue ek) :: s.cache, eTaint := true } : Shared) fr.dict).1,
              len0 := exc.length, cap := fr.len0 }
            (copyDict ({ s with cache := (.byt eKey, errValue ek) :: s.cache, eTaint := true } : Shared) fr.dict).2 with
          | err e2 s4 =>
            rw [hr2] at g1
            refine ⟨max n1 m1 + 1, ?_⟩
            have e1 := runTape_mono T L (Nat.le_max_left n1 m1) hr rfl
            have e2 := runTape_mono T L (Nat.le_max_right n1 m1) hr2 g1
            simp only [runOp, e1, e2]; exact g1
          | ok f3 s4 =>
            rw [hr2] at hB
            by_cases hret : s4.returned = true
            · refine ⟨max n1 m1 + 1, ?_⟩
              have e1 := runTape_mono T L (Nat.le_max_left n1 m1) hr rfl
              have e2 := runTape_mono T L (Nat.le_max_right n1 m1) hr2 rfl
              simp only [runOp, e1, e2, hret, ↓reduceIte]; rfl
            · obtain ⟨n2, h2⟩ := ih fr s4 hB.1 (count_keep hc (hp2.trans hB.2.1) (FrameLe.refl fr)) hl
              refine ⟨max (max n1 m1) n2 + 1, ?_⟩
              have e1 := runTape_mono T L (Nat.le_trans (Nat.le_max_left n1 m1) (Nat.le_max_left _ n2)) hr rfl
              have e2 := runTape_mono T L (Nat.le_trans (Nat.le_max_right n1 m1) (Nat.le_max_left _ n2)) hr2 rfl
              have e3 := runOp_mono T L (Nat.le_max_right (max n1 m1) n2) rfl h2
              simp only [runOp, e1, e2, hret, Bool.false_eq_true, ↓reduceIte, e3]; exact h2
        | fuel => cases h1
        | ghost => exact ⟨n1 + 1, by simp only [runOp, hr]; rfl⟩
        | guard => exact ⟨n1 + 1, by simp only [runOp, hr]; rfl⟩
        | abort => exact ⟨n1 + 1, by simp only [runOp, hr]; rfl⟩
    | loop body k ih =>
      intro fr sh hw hc hl
      -- the loop: induction on the remaining iteration budget
      have loopH : ∀ budget lc s, WF s → c0 ≤ getCount fr s → c0 ≤ lc → HaltsLoop T L budget lc body k fr s := by
        intro budget
        induction budget with
        | zero =>
          intro lc s hws hcs hlc
          cases hst : s.stack with
          | nil => exact ⟨1, by simp [runLoop, hst, Res.isFuel]⟩
          | cons top r =>
            by_cases htr : truthy top = true
            · exact ⟨1, by simp [runLoop, hst, htr, Res.isFuel]⟩
            · obtain ⟨n2, h2⟩ := ih fr s hws hcs hl
              exact ⟨n2 + 1, by simpa [runLoop, hst, htr] using h2⟩
        | succ b ihb =>
          intro lc s hws hcs hlc
          cases hst : s.stack with
          | nil => exact ⟨1, by simp [runLoop, hst, Res.isFuel]⟩
          | cons top r =>
            by_cases htr : truthy top = true
            · obtain ⟨n1, h1⟩ := inl { rest := body, count := lc, fn := none, dict := fr.dict, len0 := body.length, cap := fr.len0 } s hws hlc hl
              have hA := (counts_main T L n1).2.2 { rest := body, count := lc, fn := none, dict := fr.dict, len0 := body.length, cap := fr.len0 } s c0 hws hlc
              cases hr : runTape T L n1 { rest := body, count := lc, fn := none, dict := fr.dict, len0 := body.length, cap := fr.len0 } s with
              | err e s' =>
                rw [hr] at h1
                exact ⟨n1 + 1, by simp only [runLoop, hst, htr, ↓reduceIte, hr]; exact h1⟩
              | ok f s' =>
                rw [hr] at hA
                by_cases hret : s'.returned = true
                · exact ⟨n1 + 1, by simp only [runLoop, hst, htr, ↓reduceIte, hr, hret]; rfl⟩
                · obtain ⟨n2, h2⟩ := ihb f.count s' hA.1 (count_keep hcs hA.2.1 (FrameLe.refl fr)) (Nat.le_trans hlc hA.2.2.2.2.2.2.2)
                  refine ⟨max n1 n2 + 1, ?_⟩
                  have e1 := runTape_mono T L (Nat.le_max_left n1 n2) hr rfl
                  have e2 := runLoop_mono T L (Nat.le_max_right n1 n2) rfl h2
                  simp only [runLoop, hst, htr, ↓reduceIte, e1, hret, Bool.false_eq_true, e2]; exact h2
            · obtain ⟨n2, h2⟩ := ih fr s hws hcs hl
              exact ⟨n2 + 1, by simpa [runLoop, hst, htr] using h2⟩
      cases hst : sh.stack with
      | nil => exact ⟨1, by simp [runOp, hst, Res.isFuel]⟩
      | cons top r =>
        obtain ⟨n, hn⟩ := loopH L.callLimit (getCount fr sh) sh hw hc hc
        exact ⟨n + 1, by simpa [runOp, hst] using hn⟩
  -- the tape loop: induction on the remaining tape
  have tapeH : ∀ m fr sh, fr.rest.length ≤ m → WF sh → c0 ≤ getCount fr sh → fr.len0 ≤ len → Halts T L fr sh := by
    intro m
    induction m with
    | zero =>
      intro fr sh hm _ _ _
      have : fr.rest = [] := List.length_eq_zero_iff.mp (Nat.le_zero.mp hm)
      exact ⟨1, by simp [runTape, this, Res.isFuel]⟩
    | succ m ihm =>
      intro fr sh hm hw hc hl
      cases hrest : fr.rest with
      | nil => exact ⟨1, by simp [runTape, hrest, Res.isFuel]⟩
      | cons c rest =>
        by_cases hg : fr.len0 < fr.cap
        · by_cases hret : sh.returned = true
          · exact ⟨1, by simp [runTape, hrest, hg, hret, Res.isFuel]⟩
          · obtain ⟨n1, h1⟩ := opH (T c) { fr with rest := rest } sh hw hc hl
            have hA := (counts_main T L n1).1 (T c) { fr with rest := rest } sh c0 hw hc
            cases hr : runOp T L n1 (T c) { fr with rest := rest } sh with
            | err e s =>
              rw [hr] at h1
              exact ⟨n1 + 1, by simp only [runTape, hrest, hg, not_true_eq_false, ↓reduceIte, hret, hr]; exact h1⟩
            | ok f s =>
              rw [hr] at hA
              have hfr : FrameLe fr { fr with rest := rest } := ⟨by simp [hrest], rfl, rfl, rfl, rfl, Nat.le_refl _⟩
              have hfl : f.rest.length ≤ m := by
                have := hA.2.2.1
                simp only at this
                rw [hrest] at hm
                simp only [List.length_cons] at hm
                omega
              obtain ⟨n2, h2⟩ := ihm f s hfl hA.1 (count_keep hc hA.2.1 (hfr.trans hA.2.2)) (by rw [hA.2.2.2.1]; exact hl)
              refine ⟨max n1 n2 + 1, ?_⟩
              have e1 := runOp_mono T L (Nat.le_max_left n1 n2) hr rfl
              have e2 := runTape_mono T L (Nat.le_max_right n1 n2) rfl h2
              simp only [runTape, hrest, hg, not_true_eq_false, ↓reduceIte, hret, e1, e2]; exact h2
        · exact halts_of_not_lt T L fr sh hg
  exact tapeH fr0.rest.length fr0 sh0 (Nat.le_refl _) hw0 hc0 hl0

/-- **Termination.** For every op table, all limits, every frame and every well-formed state:
    the run of the tape ends — for some fuel the outcome is not the out-of-fuel marker — and by
    fuel monotonicity it is then the outcome for every larger fuel. -/
theorem runTape_terminates (fr : Frame) (sh : Shared) (hw : WF sh) :
    ∃ n r, r.isFuel = false ∧ ∀ m, n ≤ m → runTape T L m fr sh = r := by
  obtain ⟨n, hn⟩ := halts_main T L (L.callLimit - 0) fr.len0 fr sh 0 hw (Nat.zero_le _) (Nat.le_refl _) (Nat.le_refl _)
  exact ⟨n, _, hn, fun m hm => runTape_mono T L hm rfl hn⟩

end TV
