import Tapeverif.Model.Basic
/-! Integer / UTF-8 codecs of the VM (`bytes_to_int`, `int_to_bytes`, `uint_to_bytes`,
    strict UTF-8). Core Lean only. -/
namespace TV

def bitLength (n : Nat) : Nat := if n = 0 then 0 else Nat.log2 n + 1

/-- `int_to_bytes` (after the bit_length repair): minimal big-endian two's complement. -/
def intToBytes (z : Int) : Bytes :=
  let neg := z < 0
  let a := z.natAbs
  let nbits := if a = 0 then 1 else bitLength a
  let nbytes := (nbits + 7) / 8
  if neg then
    let nbytes := if nbits % 8 = 0 ∧ a > 2 ^ (nbytes * 8 - 1) then nbytes + 1 else nbytes
    natToBytesBE nbytes (2 ^ (nbytes * 8 - 1) + (2 ^ (nbytes * 8 - 1) - a))
  else
    let nbytes := if nbits % 8 = 0 then nbytes + 1 else nbytes
    natToBytesBE nbytes a

/-- `bytes_to_int`: `none` is Python's ValueError on the empty string. -/
def bytesToInt (b : Bytes) : Option Int :=
  if b = [] then none else
  let size := b.length * 8
  let n := natOfBytesBE b
  if n / 2 ^ (size - 1) ≠ 0 then some ((n : Int) - (2 ^ size : Nat)) else some n

/-- `uint_to_bytes` (defined for non-negative input; Python raises on negatives). -/
def uintToBytes (n : Nat) : Bytes :=
  let nbits := if n = 0 then 1 else bitLength n
  natToBytesBE ((nbits + 7) / 8) n

/-! ### strict UTF-8 (Python's `str(b, 'utf-8')` / `bytes(s, 'utf-8')`) -/

def isCont (b : UInt8) : Bool := b.toNat / 64 = 2

/-- Decode to code points; `none` = UnicodeDecodeError. -/
def utf8Decode : Bytes → Option (List Nat)
  | [] => some []
  | b0 :: r =>
    let n0 := b0.toNat
    if n0 < 0x80 then (utf8Decode r).map (n0 :: ·)
    else if n0 < 0xC2 then none
    else if n0 < 0xE0 then
      match r with
      | b1 :: r1 =>
        if isCont b1 then (utf8Decode r1).map (((n0 % 32) * 64 + b1.toNat % 64) :: ·) else none
      | _ => none
    else if n0 < 0xF0 then
      match r with
      | b1 :: b2 :: r2 =>
        let cp := (n0 % 16) * 4096 + (b1.toNat % 64) * 64 + b2.toNat % 64
        if isCont b1 ∧ isCont b2 ∧ cp ≥ 0x800 ∧ ¬ (0xD800 ≤ cp ∧ cp ≤ 0xDFFF) then
          (utf8Decode r2).map (cp :: ·) else none
      | _ => none
    else if n0 < 0xF5 then
      match r with
      | b1 :: b2 :: b3 :: r3 =>
        let cp := (n0 % 8) * 262144 + (b1.toNat % 64) * 4096 + (b2.toNat % 64) * 64 + b3.toNat % 64
        if isCont b1 ∧ isCont b2 ∧ isCont b3 ∧ cp ≥ 0x10000 ∧ cp ≤ 0x10FFFF then
          (utf8Decode r3).map (cp :: ·) else none
      | _ => none
    else none

def utf8EncodeCp (cp : Nat) : Bytes :=
  if cp < 0x80 then [UInt8.ofNat cp]
  else if cp < 0x800 then [UInt8.ofNat (0xC0 + cp / 64), UInt8.ofNat (0x80 + cp % 64)]
  else if cp < 0x10000 then
    [UInt8.ofNat (0xE0 + cp / 4096), UInt8.ofNat (0x80 + cp / 64 % 64), UInt8.ofNat (0x80 + cp % 64)]
  else
    [UInt8.ofNat (0xF0 + cp / 262144), UInt8.ofNat (0x80 + cp / 4096 % 64),
     UInt8.ofNat (0x80 + cp / 64 % 64), UInt8.ofNat (0x80 + cp % 64)]

def utf8Encode (cps : List Nat) : Bytes := cps.flatMap utf8EncodeCp

end TV
