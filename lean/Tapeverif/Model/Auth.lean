import Tapeverif.Model.Instr
/-! `run_script` / `run_auth_scripts` on top of the VM kernel. -/
namespace TV

def initShared (cache : List (CKey × CVal)) : Shared :=
  { stack := [], cache := cache.filter (fun kv => kv.1 ≠ .str (asciiBytes "returned")),
    returned := false, dicts := [[]], fns := [], randCtr := 0, plog := [],
    tainted := false, eTaint := false }

def topFrame (script : Bytes) (count : Nat) : Frame :=
  { rest := script, count := count, fn := none, dict := 0,
    len0 := script.length, cap := script.length + 1 }

variable (T : UInt8 → Op) (L : Limits)

/-- `run_script(script, cache_vals, …)` -/
def runScript (fuel : Nat) (script : Bytes) (cache : List (CKey × CVal)) : Res :=
  runTape T L fuel (topFrame script 0) (initShared cache)

/-- the scripts after the first one: same stack, cache and definition dictionary; the call
    counter is inherited; the RETURN flag is cleared before each script -/
def runAuthRest (fuel : Nat) : List Bytes → Nat → Shared → Res
  | [], count, sh => .ok (topFrame [] count) sh
  | s :: rest, count, sh =>
    match runTape T L fuel (topFrame s count) { sh with returned := false } with
    | .err e sh' => .err e sh'
    | .ok fr sh' => runAuthRest fuel rest fr.count sh'

def runAuthRes (fuel : Nat) (scripts : List Bytes) (cache : List (CKey × CVal)) : Res :=
  runAuthRest T L fuel scripts 0 (initShared cache)

/-- `run_auth_scripts`: true iff no script raised and the stack is exactly `[0xff]`. -/
def runAuth (fuel : Nat) (scripts : List Bytes) (cache : List (CKey × CVal)) : Bool :=
  match runAuthRes T L fuel scripts cache with
  | .ok _ sh => sh.stack == [[0xff]]
  | .err _ _ => false

end TV
