/-! # Extension registries as a state machine (plugins per scope; the dict registries are the
    same machine with `reset` unused). Entries and scopes are natural numbers. -/
namespace TV.Registry

inductive ROp
  | add (scope entry : Nat)
  | remove (scope entry : Nat)
  | reset (scope : Nat)
deriving DecidableEq, Repr

/-- registry state: the list of active entries of each scope, in insertion order (as the
    implementation keeps them: `_plugins[scope]` is a list) -/
abbrev State := Nat → List Nat

def init : State := fun _ => []

/-- `add_plugin` appends unless present; `remove_plugin` removes the (single) occurrence;
    `reset_plugins` empties the scope (after repair F7) -/
def step (st : State) : ROp → State
  | .add s e => fun s' => if s' = s then (if e ∈ st s then st s else st s ++ [e]) else st s'
  | .remove s e => fun s' => if s' = s then (st s).erase e else st s'
  | .reset s => fun s' => if s' = s then [] else st s'

def run (ops : List ROp) : State := ops.foldl step init

/-- the set specification, read off the history alone: an entry is active iff the last operation
    that concerns it (an add / remove of it, or a reset of its scope) is an add -/
def specActive : List ROp → Nat → Nat → Bool
  | [], _, _ => false
  | op :: rest, s, e =>
    -- `rest` is the EARLIER part when the history is given newest-first
    match op with
    | .add s' e' => if s' = s ∧ e' = e then true else specActive rest s e
    | .remove s' e' => if s' = s ∧ e' = e then false else specActive rest s e
    | .reset s' => if s' = s then false else specActive rest s e

end TV.Registry
