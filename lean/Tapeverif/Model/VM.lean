import Tapeverif.Model.Codec
/-! # VM kernel

A small continuation-passing vocabulary of primitive actions (`Op`, a free monad) and three
mutually recursive fuel-indexed interpreters. Every instruction of the VM is an `Op` term
(`Model/Instr.lean`); invariants are proved once over this vocabulary for an *arbitrary*
op table (`Lemmas/VMInv.lean`).

Outcomes carry the shared state on both branches: a Python exception rolls nothing back, and
the EXCEPT body of a TRY runs on the state the failing body left. -/
namespace TV

/-- Python exception classes a script can observe (`cache[b'E']`). -/
inductive ErrKind
  | see | index | value | type | key | zeroDiv | overflow | unicode | runtime | assertion | attribute | other
deriving DecidableEq, Repr, Inhabited

def ErrKind.name : ErrKind → String
  | .see => "ScriptExecutionError" | .index => "IndexError" | .value => "ValueError"
  | .type => "TypeError" | .key => "KeyError" | .zeroDiv => "ZeroDivisionError"
  | .overflow => "OverflowError" | .unicode => "UnicodeDecodeError" | .runtime => "RuntimeError"
  | .assertion => "AssertionError" | .attribute => "AttributeError" | .other => "Exception"

/-- Interpreter-level outcomes are a separate, uncatchable layer. -/
inductive Err
  | user (k : ErrKind)   -- a Python exception: TRY can catch it
  | fuel                 -- the interpreter ran out of fuel (never with enough fuel)
  | ghost                -- ghost assertion violated: an instruction fetch with RETURN pending
  | guard                -- model guard: an inline body not shorter than its parent tape
  | abort                -- `Op.abort`: an uncatchable failure (used to state soft-fork safety)
deriving DecidableEq, Repr, Inhabited

def catchable : Err → Bool
  | .user _ => true
  | _ => false

/-- Cache keys: Python `str` keys (kept as their UTF-8 bytes) and `bytes` keys. -/
inductive CKey
  | str (utf8 : Bytes)
  | byt (b : Bytes)
deriving DecidableEq, Repr, Inhabited

/-- Python values an embedder (or an instruction) can store in the cache. -/
inductive Atom
  | bytes (b : Bytes)
  | str (utf8 : Bytes)
  | int (i : Int)
  | float (bits64 : Nat)     -- a Python float, as its IEEE double bits
  | bytearray (b : Bytes)
  | other                    -- None / bool / nested container: no instruction can use it
deriving DecidableEq, Repr, Inhabited

inductive CVal
  | atom (a : Atom)
  | list (l : List Atom)     -- list or tuple
deriving DecidableEq, Repr, Inhabited

structure Limits where
  maxItems : Nat
  maxItemSize : Nat
  callLimit : Nat
deriving Repr

/-- A function object created by DEF: its body, the definition dictionary it was defined in
    (calls made by the body resolve there), and its own mutable call counter. -/
structure Fn where
  body : Bytes
  dict : Nat
  count : Nat
deriving Repr, Inhabited

structure Shared where
  stack : List Bytes                      -- head = top
  cache : List (CKey × CVal)              -- association list, first match wins
  returned : Bool                         -- `'returned' in cache`
  dicts : List (List (UInt8 × Nat))       -- heap of definition dictionaries (identity matters)
  fns : List Fn                           -- heap of function objects
  randCtr : Nat                           -- number of `token_bytes` calls so far
  plog : List Nat                         -- plugin / contract invocation log (most recent first)
  tainted : Bool                          -- the script read an exception *message* (not modelled)
  eTaint : Bool                           -- cache[b'E'] currently holds a TRY-written message
deriving Repr, Inhabited

structure Frame where
  rest : Bytes            -- remaining tape
  count : Nat             -- callstack_count when it lives in the frame (`fn = none`)
  fn : Option Nat         -- `some id`: this frame is an activation of function object `id`,
                          -- whose counter lives in the heap
  dict : Nat              -- definition dictionary of this tape
  len0 : Nat              -- length of this frame's tape when it was created
  cap : Nat               -- strict upper bound `len0` must respect (parent's `len0` for inline bodies)
deriving Repr, Inhabited

inductive SubKind
  | inline                       -- IF / ELSE body: transparent to RETURN
  | eval (propagate : Bool)      -- evaluated script; `propagate` = the `eval_return` flag
deriving DecidableEq, Repr

inductive Op : Type where
  | done : Op
  | fail : ErrKind → Op
  | read : Nat → (Bytes → Op) → Op
  | pop : (Bytes → Op) → Op
  | peekTop : (Bytes → Op) → Op
  | depth : (Nat → Op) → Op
  | push : Bytes → Op → Op
  | cacheGet : CKey → (Option CVal → Op) → Op
  | cachePut : Bytes → CVal → Op → Op
  | rand : Nat → (Bytes → Op) → Op
  | log : Nat → Op → Op
  | guardCount : Op → Op
  | define : UInt8 → Bytes → Op → Op
  | call : UInt8 → Op → Op
  | sub : SubKind → Bytes → Op → Op
  | tryCatch : Bytes → Bytes → Op → Op
  | loop : Bytes → Op → Op
  | ret : Op
  | abort : Op

inductive Res where
  | ok : Frame → Shared → Res
  | err : Err → Shared → Res

def lookupC (k : CKey) : List (CKey × CVal) → Option CVal
  | [] => none
  | (k', v) :: r => if k = k' then some v else lookupC k r

def lookupDef (h : UInt8) : List (UInt8 × Nat) → Option Nat
  | [] => none
  | (h', id) :: r => if h = h' then some id else lookupDef h r

/-- The deterministic stand-in for `token_bytes` shared with the harness. -/
def randBytes (ctr n : Nat) : Bytes :=
  (List.range n).map (fun j => UInt8.ofNat ((ctr * 31 + j * 7 + 13) % 256))

def getCount (fr : Frame) (sh : Shared) : Nat :=
  match fr.fn with
  | none => fr.count
  | some id => (sh.fns.getD id default).count

def setFnCount (sh : Shared) (id c : Nat) : Shared :=
  { sh with fns := sh.fns.set id { sh.fns.getD id default with count := c } }

def setCount (fr : Frame) (sh : Shared) (c : Nat) : Frame × Shared :=
  match fr.fn with
  | none => ({ fr with count := c }, sh)
  | some id => (fr, setFnCount sh id c)

/-- Shallow copy of a definition dictionary (`{**tape.definitions}`): a new dictionary
    object holding the same function objects. -/
def copyDict (sh : Shared) (d : Nat) : Nat × Shared :=
  (sh.dicts.length, { sh with dicts := sh.dicts ++ [sh.dicts.getD d []] })

def eKey : Bytes := [69]

def errValue (e : ErrKind) : CVal := .list [.bytes (asciiBytes (e.name ++ "|"))]

def endFrame (fr : Frame) : Frame := { fr with rest := [] }

variable (T : UInt8 → Op) (L : Limits)

mutual
def runOp : Nat → Op → Frame → Shared → Res
  | 0, _, _, sh => .err .fuel sh
  | fuel+1, op, fr, sh =>
    match op with
    | .done => .ok fr sh
    | .fail e => .err (.user e) sh
    | .read n k =>
        if n ≤ fr.rest.length then runOp fuel (k (fr.rest.take n)) { fr with rest := fr.rest.drop n } sh
        else .err (.user .see) sh
    | .pop k => match sh.stack with
        | [] => .err (.user .index) sh
        | x :: r => runOp fuel (k x) fr { sh with stack := r }
    | .peekTop k => match sh.stack with
        | [] => .err (.user .index) sh
        | x :: _ => runOp fuel (k x) fr sh
    | .depth k => runOp fuel (k sh.stack.length) fr sh
    | .push b k =>
        if b.length ≤ L.maxItemSize then
          if sh.stack.length < L.maxItems then runOp fuel k fr { sh with stack := b :: sh.stack }
          else .err (.user .see) sh
        else .err (.user .see) sh
    | .cacheGet key k =>
        runOp fuel (k (lookupC key sh.cache)) fr
          (if key = .byt eKey ∧ sh.eTaint then { sh with tainted := true } else sh)
    | .cachePut key v k =>
        runOp fuel k fr { sh with cache := (.byt key, v) :: sh.cache,
                                  eTaint := if key = eKey then false else sh.eTaint }
    | .rand n k => runOp fuel (k (randBytes sh.randCtr n)) fr { sh with randCtr := sh.randCtr + 1 }
    | .log tag k => runOp fuel k fr { sh with plog := tag :: sh.plog }
    | .guardCount k =>
        if getCount fr sh < L.callLimit then runOp fuel k fr sh else .err (.user .see) sh
    | .define h body k =>
        let id := sh.fns.length
        let d := sh.dicts.getD fr.dict []
        runOp fuel k fr { sh with fns := sh.fns ++ [{ body := body, dict := fr.dict, count := 0 }],
                                  dicts := sh.dicts.set fr.dict ((h, id) :: d) }
    | .call h k =>
        let c := getCount fr sh
        if c < L.callLimit then
          let (fr1, sh1) := setCount fr sh (c + 1)
          match lookupDef h (sh1.dicts.getD fr.dict []) with
          | none => .err (.user .key) sh1
          | some id =>
            let f := sh1.fns.getD id default
            let sh2 := setFnCount sh1 id (c + 1)
            match runTape fuel { rest := f.body, count := c + 1, fn := some id, dict := f.dict,
                                 len0 := f.body.length, cap := f.body.length + 1 } sh2 with
            | .err e sh' => .err e sh'
            | .ok _ sh' => runOp fuel k fr1 { sh' with returned := false }
        else .err (.user .see) sh
    | .ret => .ok (endFrame fr) { sh with returned := true }
    | .abort => .err .abort sh
    | .sub .inline body k =>
        let (d, sh1) := copyDict sh fr.dict
        match runTape fuel { rest := body, count := getCount fr sh, fn := none, dict := d,
                             len0 := body.length, cap := fr.len0 } sh1 with
        | .err e sh' => .err e sh'
        | .ok _ sh' =>
            if sh'.returned then .ok (endFrame fr) sh' else runOp fuel k fr sh'
    | .sub (.eval propagate) body k =>
        let c := getCount fr sh
        if c < L.callLimit then
          let (d, sh1) := copyDict sh fr.dict
          match runTape fuel { rest := body, count := c + 1, fn := none, dict := d,
                               len0 := body.length, cap := body.length + 1 } sh1 with
          | .err e sh' => .err e sh'
          | .ok _ sh' =>
              if sh'.returned && propagate then .ok (endFrame fr) sh'
              else runOp fuel k fr { sh' with returned := false }
        else .err (.user .see) sh
    | .tryCatch body exc k =>
        let (d, sh1) := copyDict sh fr.dict
        match runTape fuel { rest := body, count := getCount fr sh, fn := none, dict := d,
                             len0 := body.length, cap := fr.len0 } sh1 with
        | .ok _ sh' =>
            if sh'.returned then .ok (endFrame fr) sh' else runOp fuel k fr sh'
        | .err e sh' =>
            match e with
            | .user ek =>
              let sh2 := { sh' with cache := (.byt eKey, errValue ek) :: sh'.cache, eTaint := true }
              let (d2, sh3) := copyDict sh2 fr.dict
              match runTape fuel { rest := exc, count := getCount fr sh3, fn := none, dict := d2,
                                   len0 := exc.length, cap := fr.len0 } sh3 with
              | .err e2 sh4 => .err e2 sh4
              | .ok _ sh4 =>
                  if sh4.returned then .ok (endFrame fr) sh4 else runOp fuel k fr sh4
            | _ => .err e sh'
    | .loop body k =>
        match sh.stack with
        | [] => .err (.user .index) sh
        | _ :: _ => runLoop fuel L.callLimit (getCount fr sh) body k fr sh
/-- `budget` iterations left; `lc` = the loop sub-tape's own call counter, which persists
    across iterations and is never copied back. -/
def runLoop : Nat → Nat → Nat → Bytes → Op → Frame → Shared → Res
  | 0, _, _, _, _, _, sh => .err .fuel sh
  | fuel+1, budget, lc, body, k, fr, sh =>
    match sh.stack with
    | [] => .err (.user .index) sh
    | top :: _ =>
      if truthy top then
        match budget with
        | 0 => .err (.user .see) sh
        | b+1 =>
          match runTape fuel { rest := body, count := lc, fn := none, dict := fr.dict,
                               len0 := body.length, cap := fr.len0 } sh with
          | .err e sh' => .err e sh'
          | .ok fr' sh' =>
              if sh'.returned then .ok (endFrame fr) sh'
              else runLoop fuel b fr'.count body k fr sh'
      else runOp fuel k fr sh
def runTape : Nat → Frame → Shared → Res
  | 0, _, sh => .err .fuel sh
  | fuel+1, fr, sh =>
    match fr.rest with
    | [] => .ok fr sh
    | c :: rest =>
      if ¬ fr.len0 < fr.cap then .err .guard sh
      else if sh.returned then .err .ghost sh
      else
        match runOp fuel (T c) { fr with rest := rest } sh with
        | .err e sh' => .err e sh'
        | .ok fr' sh' => runTape fuel fr' sh'
end

end TV
