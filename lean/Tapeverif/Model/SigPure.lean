import Tapeverif.Model.Instr
/-! Pure (stack-free) specifications of the signature instructions. `Props/C02`, `Props/C03`
    state the properties about these; `Lemmas/SigRefine.lean` shows that the `Op` terms of the
    VM compute them; the driver exposes them so that they are also compared with the
    implementation directly. -/
namespace TV.SigPure

open Instr

variable (H : Hashes) (C : Curve)

/-- the concatenation, in index order `i … 8`, of the present sigfields whose flag bit is clear;
    a present, covered field that is not a byte string is a TypeError -/
def msgFrom (flag : Nat) (cache : List (CKey × CVal)) : Nat → Nat → R Bytes
  | 0, _ => pure []
  | fuel+1, i =>
    match lookupC (sigfieldKey i) cache with
    | none => msgFrom flag cache fuel (i+1)
    | some v =>
      if flag / 2^(i-1) % 2 = 1 then msgFrom flag cache fuel (i+1)
      else match v with
        | .atom (.bytes b) => (b ++ ·) <$> msgFrom flag cache fuel (i+1)
        | .atom (.bytearray b) => (b ++ ·) <$> msgFrom flag cache fuel (i+1)
        | _ => throw .type

/-- the message `OP_GET_MESSAGE flag` / `OP_SIGN flag` / `OP_CHECK_SIG` build -/
def message (flag : Nat) (cache : List (CKey × CVal)) : R Bytes := msgFrom flag cache 8 1

/-- `OP_CHECK_SIG allowed` on (sig, vkey) — the result it pushes, or the error it raises -/
def checkSig (maxItemSize : Nat) (cache : List (CKey × CVal)) (allowed : Nat) (sig vkey : Bytes) : R Bool :=
  if vkey.length ≠ 32 then throw .value
  else if sig.length ≠ 64 ∧ sig.length ≠ 65 then throw .value
  else
    let flag := if sig.length = 64 then 0 else (sig.getLast?.getD 0).toNat
    if !flagsAllowed flag allowed then throw .see
    else do
      let m ← message flag cache
      if m.length ≤ maxItemSize then pure (Sodium.verify H C vkey m (sig.take 64))
      else throw .see

/-- first key (in order) under which `sig` checks; an error of any inner check propagates -/
def findKey (maxItemSize : Nat) (cache : List (CKey × CVal)) (allowed : Nat) (sig : Bytes) :
    List Bytes → R (Option Bytes)
  | [] => pure none
  | vk :: r => do
    if ← checkSig H C maxItemSize cache allowed sig vk then pure (some vk)
    else findKey maxItemSize cache allowed sig r

def multisigLoop (maxItemSize : Nat) (cache : List (CKey × CVal)) (allowed : Nat) :
    List Bytes → List Bytes → List Bytes → R (List Bytes)
  | [], _, confirmed => pure confirmed
  | sig :: sigs, vkeys, confirmed => do
    match ← findKey H C maxItemSize cache allowed sig vkeys with
    | some vk => multisigLoop maxItemSize cache allowed sigs (@List.erase Bytes instBEqOfDecidableEq vkeys vk)
                   (if sig ∈ confirmed then confirmed else sig :: confirmed)
    | none => multisigLoop maxItemSize cache allowed sigs vkeys confirmed

/-- `OP_CHECK_MULTISIG allowed m n` on the popped signature and key lists -/
def multisig (maxItemSize : Nat) (cache : List (CKey × CVal)) (allowed : Nat) (sigs vkeys : List Bytes) : R Bool := do
  let confirmed ← multisigLoop H C maxItemSize cache allowed sigs vkeys []
  pure (confirmed.length = sigs.length)

end TV.SigPure
