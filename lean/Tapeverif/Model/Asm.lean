import Tapeverif.Model.Codec
/-! # Instruction encoding: one shared decoder / encoder / lister

`decodeNext` parses one instruction (nested bodies stay raw bytes), `encodeInstr` is its
inverse, `listing` is the disassembler's text (recursing into bodies). -/
namespace TV.Asm

/-- operand layouts -/
inductive Kind
  | none | u1 | sized1 | sized2 | writeCache | f4 | swap | multisig | bytes32
  | def_ | body1 | body2
deriving DecidableEq, Repr, Inhabited

def Kind.name : Kind → String
  | .none => "none" | .u1 => "u1" | .sized1 => "sized1" | .sized2 => "sized2"
  | .writeCache => "writeCache" | .f4 => "f4" | .swap => "swap" | .multisig => "multisig"
  | .bytes32 => "bytes32" | .def_ => "def" | .body1 => "body1" | .body2 => "body2"

def opNames : List String := [
  "OP_FALSE", "OP_TRUE", "OP_PUSH0", "OP_PUSH1", "OP_PUSH2", "OP_GET_MESSAGE", "OP_POP0", "OP_POP1",
  "OP_SIZE", "OP_WRITE_CACHE", "OP_READ_CACHE", "OP_READ_CACHE_SIZE", "OP_READ_CACHE_STACK",
  "OP_READ_CACHE_STACK_SIZE", "OP_ADD_INTS", "OP_SUBTRACT_INTS", "OP_MULT_INTS", "OP_DIV_INT",
  "OP_DIV_INTS", "OP_MOD_INT", "OP_MOD_INTS", "OP_ADD_FLOATS", "OP_SUBTRACT_FLOATS", "OP_DIV_FLOAT",
  "OP_DIV_FLOATS", "OP_MOD_FLOAT", "OP_MOD_FLOATS", "OP_ADD_POINTS", "OP_COPY", "OP_DUP", "OP_SHA256",
  "OP_SHAKE256", "OP_VERIFY", "OP_EQUAL", "OP_EQUAL_VERIFY", "OP_CHECK_SIG", "OP_CHECK_SIG_VERIFY",
  "OP_CHECK_TIMESTAMP", "OP_CHECK_TIMESTAMP_VERIFY", "OP_CHECK_EPOCH", "OP_CHECK_EPOCH_VERIFY",
  "OP_DEF", "OP_CALL", "OP_IF", "OP_IF_ELSE", "OP_EVAL", "OP_NOT", "OP_RANDOM", "OP_RETURN",
  "OP_SET_FLAG", "OP_UNSET_FLAG", "OP_DEPTH", "OP_SWAP", "OP_SWAP2", "OP_REVERSE", "OP_CONCAT",
  "OP_SPLIT", "OP_CONCAT_STR", "OP_SPLIT_STR", "OP_CHECK_TRANSFER", "OP_MERKLEVAL", "OP_TRY_EXCEPT",
  "OP_LESS", "OP_LESS_OR_EQUAL", "OP_GET_VALUE", "OP_FLOAT_LESS", "OP_FLOAT_LESS_OR_EQUAL",
  "OP_INT_TO_FLOAT", "OP_FLOAT_TO_INT", "OP_LOOP", "OP_CHECK_MULTISIG", "OP_CHECK_MULTISIG_VERIFY",
  "OP_SIGN", "OP_SIGN_STACK", "OP_CHECK_SIG_STACK", "OP_DERIVE_SCALAR", "OP_CLAMP_SCALAR",
  "OP_ADD_SCALARS", "OP_SUBTRACT_SCALARS", "OP_DERIVE_POINT", "OP_SUBTRACT_POINTS",
  "OP_MAKE_ADAPTER_SIG_PUBLIC", "OP_MAKE_ADAPTER_SIG_PRIVATE", "OP_CHECK_ADAPTER_SIG",
  "OP_DECRYPT_ADAPTER_SIG", "OP_INVOKE", "OP_XOR", "OP_OR", "OP_AND", "OP_CHECK_TEMPLATE",
  "OP_CHECK_TEMPLATE_VERIFY", "OP_TAPROOT"]

def opName (c : Nat) : String := if c < 92 then opNames.getD c "?" else "NOP" ++ toString c

/-- operand layout of every opcode (NOP codes read one count byte) -/
def kindOf (c : Nat) : Kind :=
  if c ≥ 92 then .u1 else
  match c with
  | 2 | 5 | 7 | 14 | 15 | 16 | 21 | 22 | 27 | 28 | 31 | 35 | 36 | 42 | 54 | 72 | 76 | 77 | 78 | 80 | 89 | 90 | 91 => .u1
  | 3 | 10 | 11 | 17 | 19 | 49 | 50 | 64 => .sized1
  | 4 => .sized2
  | 9 => .writeCache
  | 23 | 25 => .f4
  | 52 => .swap
  | 70 | 71 => .multisig
  | 60 => .bytes32
  | 41 => .def_
  | 43 | 69 => .body1
  | 44 | 61 => .body2
  | _ => .none

/-- how the disassembler prints a 1-byte operand: `d<signed>` or `x<hex>` -/
def u1Hex (c : Nat) : Bool := c = 35 || c = 36 || c = 72 || c = 91 || c = 5 || c = 89 || c = 90

/-- one decoded instruction: opcode and its operand fields (bodies raw) -/
structure Instr where
  code : UInt8
  fields : List Bytes
deriving DecidableEq, Repr, Inhabited

def takeExact (n : Nat) (b : Bytes) : Option (Bytes × Bytes) :=
  if n ≤ b.length then some (b.take n, b.drop n) else none

def readSized (w : Nat) (b : Bytes) : Option (Bytes × Bytes) := do
  let (l, r) ← takeExact w b
  takeExact (natOfBytesBE l) r

/-- parse the operands of opcode `c` from `b` -/
def decodeOperands (c : UInt8) (b : Bytes) : Option (List Bytes × Bytes) :=
  match kindOf c.toNat with
  | .none => some ([], b)
  | .u1 => do let (x, r) ← takeExact 1 b; pure ([x], r)
  | .sized1 => do let (v, r) ← readSized 1 b; pure ([v], r)
  | .sized2 => do let (v, r) ← readSized 2 b; pure ([v], r)
  | .writeCache => do
      let (k, r) ← readSized 1 b
      let (n, r2) ← takeExact 1 r
      pure ([k, n], r2)
  | .f4 => do let (x, r) ← takeExact 4 b; pure ([x], r)
  | .swap => do let (x, r) ← takeExact 1 b; let (y, r2) ← takeExact 1 r; pure ([x, y], r2)
  | .multisig => do
      let (x, r) ← takeExact 1 b; let (y, r2) ← takeExact 1 r; let (z, r3) ← takeExact 1 r2
      pure ([x, y, z], r3)
  | .bytes32 => do let (x, r) ← takeExact 32 b; pure ([x], r)
  | .def_ => do
      let (h, r) ← takeExact 1 b
      let (body, r2) ← readSized 2 r
      pure ([h, body], r2)
  | .body1 => do let (body, r) ← readSized 2 b; pure ([body], r)
  | .body2 => do
      let (b1, r) ← readSized 2 b
      let (b2, r2) ← readSized 2 r
      pure ([b1, b2], r2)

def decodeNext : Bytes → Option (Instr × Bytes)
  | [] => none
  | c :: b => (decodeOperands c b).map fun (fs, r) => (⟨c, fs⟩, r)

def sized (w : Nat) (v : Bytes) : Bytes := natToBytesBE w v.length ++ v

/-- the documented encoding of an instruction -/
def encodeOperands (c : UInt8) (fs : List Bytes) : Bytes :=
  match kindOf c.toNat, fs with
  | .none, _ => []
  | .u1, [x] => x
  | .sized1, [v] => sized 1 v
  | .sized2, [v] => sized 2 v
  | .writeCache, [k, n] => sized 1 k ++ n
  | .f4, [x] => x
  | .swap, [x, y] => x ++ y
  | .multisig, [x, y, z] => x ++ y ++ z
  | .bytes32, [x] => x
  | .def_, [h, body] => h ++ sized 2 body
  | .body1, [body] => sized 2 body
  | .body2, [b1, b2] => sized 2 b1 ++ sized 2 b2
  | _, _ => []

def encodeInstr (i : Instr) : Bytes := i.code :: encodeOperands i.code i.fields

/-- the fields fit their layout (what `encode` needs in order not to mis-assemble) -/
def wellFormed (i : Instr) : Bool :=
  match kindOf i.code.toNat, i.fields with
  | .none, [] => true
  | .u1, [x] => x.length = 1
  | .sized1, [v] => v.length < 256
  | .sized2, [v] => v.length < 65536
  | .writeCache, [k, n] => k.length < 256 && n.length = 1
  | .f4, [x] => x.length = 4
  | .swap, [x, y] => x.length = 1 && y.length = 1
  | .multisig, [x, y, z] => x.length = 1 && y.length = 1 && z.length = 1
  | .bytes32, [x] => x.length = 32
  | .def_, [h, body] => h.length = 1 && body.length < 65536
  | .body1, [body] => body.length < 65536
  | .body2, [b1, b2] => b1.length < 65536 && b2.length < 65536
  | _, _ => false

/-- decode a whole (flat) instruction sequence; fuel = length suffices since every
    instruction consumes at least its opcode byte -/
def decodeSeq : Nat → Bytes → Option (List Instr)
  | _, [] => some []
  | 0, _ :: _ => none
  | fuel+1, b => do
    let (i, r) ← decodeNext b
    let rest ← decodeSeq fuel r
    pure (i :: rest)

def decodeAll (b : Bytes) : Option (List Instr) := decodeSeq b.length b

def encodeSeq (is : List Instr) : Bytes := is.flatMap encodeInstr

/-! ### listing (the disassembler's text) -/
def signed8 (x : Bytes) : Int := (bytesToInt x).getD 0
def unsigned (x : Bytes) : Nat := natOfBytesBE x

def indentStr (n : Nat) : String := String.ofList (List.replicate (4 * n) ' ')

def hexs (b : Bytes) : String := toHex b

/-- the text of one non-block instruction -/
def lineOf (i : Instr) : String :=
  let c := i.code.toNat
  let name := opName c
  match kindOf c, i.fields with
  | .none, _ => name
  | .u1, [x] => if u1Hex c then name ++ " x" ++ hexs x else name ++ " d" ++ toString (signed8 x)
  | .sized1, [v] =>
      if c = 3 then name ++ " d" ++ toString v.length ++ " x" ++ hexs v
      else if c = 17 ∨ c = 19 then
        (match bytesToInt v with
         | some z => if intToBytes z = v then name ++ " d" ++ toString z else name ++ " x" ++ hexs v
         | none => name ++ " x" ++ hexs v)
      else name ++ " x" ++ hexs v
  | .sized2, [v] => name ++ " d" ++ toString v.length ++ " x" ++ hexs v
  | .writeCache, [k, n] => name ++ " x" ++ hexs k ++ " d" ++ toString (unsigned n)
  | .f4, [x] => name ++ " x" ++ hexs x
  | .swap, [x, y] => name ++ " d" ++ toString (unsigned x) ++ " d" ++ toString (unsigned y)
  | .multisig, [x, y, z] => name ++ " x" ++ hexs x ++ " d" ++ toString (unsigned y) ++ " d" ++ toString (unsigned z)
  | .bytes32, [x] => name ++ " x" ++ hexs x
  | _, _ => name

/-- recursive listing; `fuel` bounds the total work (bodies are strictly shorter than the
    instruction that contains them) -/
def listing : Nat → Nat → Bytes → Option (List String)
  | _, _, [] => some []
  | 0, _, _ :: _ => none
  | fuel+1, ind, b => do
    let (i, r) ← decodeNext b
    let c := i.code.toNat
    let here ← (match kindOf c, i.fields with
      | .def_, [h, body] => do
          let inner ← listing fuel (ind + 1) body
          pure ([indentStr ind ++ "OP_DEF " ++ toString (unsigned h) ++ " {"] ++ inner ++ [indentStr ind ++ "}"])
      | .body1, [body] => do
          let inner ← listing fuel (ind + 1) body
          pure ([indentStr ind ++ (if c = 43 then "OP_IF {" else "OP_LOOP {")] ++ inner ++ [indentStr ind ++ "}"])
      | .body2, [b1, b2] => do
          let l1 ← listing fuel (ind + 1) b1
          let l2 ← listing fuel (ind + 1) b2
          if c = 44 then
            pure ([indentStr ind ++ "OP_IF {"] ++ l1 ++ [indentStr ind ++ "} ELSE {"] ++ l2 ++ [indentStr ind ++ "}"])
          else
            pure ([indentStr ind ++ "OP_TRY {"] ++ l1 ++
                  (if l2 = [] then [] else [indentStr ind ++ "} EXCEPT {"] ++ l2) ++ [indentStr ind ++ "}"])
      | _, _ => pure [indentStr ind ++ lineOf i])
    let rest ← listing fuel ind r
    pure (here ++ rest)

def listAll (b : Bytes) : Option (List String) := listing (b.length + 1) 0 b

end TV.Asm
