import Tapeverif.Model.Codec
/-! Float32 items. A float item is 4 bytes; arithmetic is done with Lean's `Float`
    (IEEE double, opaque to the kernel) exactly as CPython does it: unpack to double,
    operate in double, pack with a single rounding. No theorem speaks about results of
    float arithmetic (DESIGN §6); the bit-pattern identity is in Props/C10. -/
namespace TV

def f32Bits (b : Bytes) : UInt32 := UInt32.ofNat (natOfBytesBE b)
def bitsBytes (u : UInt32) : Bytes := natToBytesBE 4 u.toNat

/-- `struct.unpack('!f', b)[0]` for a 4-byte `b`. -/
def unpackF32 (b : Bytes) : Float := (Float32.ofBits (f32Bits b)).toFloat

/-- `struct.pack('!f', x)`: `none` = OverflowError (finite double too large for float32). -/
def packF32 (x : Float) : Option Bytes :=
  let y := x.toFloat32
  if y.isInf && !x.isInf then none
  else if x.isNaN then some [0x7f, 0xc0, 0x00, 0x00]
  else some (bitsBytes y.toBits)

/-- Exact `fmod(x, y)` for finite x, y ≠ 0, via integer arithmetic on the double's
    mantissa / exponent (the result of fmod is always exactly representable). -/
def decomposeDouble (x : Float) : Int × Int :=
  -- x = m * 2^e with integer m
  let bits := x.toBits.toNat
  let sign : Int := if bits / 2^63 = 1 then -1 else 1
  let ex : Nat := bits / 2^52 % 2048
  let frac : Nat := bits % 2^52
  if ex = 0 then (sign * (frac : Int), -1074) else (sign * ((frac + 2^52 : Nat) : Int), (ex : Int) - 1075)

def floatOfIntScaled (m : Int) (e : Int) : Float :=
  -- m * 2^e, exact when representable
  (Float.ofInt m).scaleB e

def fmodExact (x y : Float) : Float :=
  let (mx, ex) := decomposeDouble x
  let (my, ey) := decomposeDouble y
  let e := min ex ey
  let X := mx * 2 ^ (ex - e).toNat
  let Y := my * 2 ^ (ey - e).toNat
  let r := Int.tmod X Y      -- sign of dividend, like C fmod
  if r = 0 then (if x.toBits.toNat / 2^63 = 1 then -0.0 else 0.0)
  else floatOfIntScaled r e

/-- CPython `float_rem` (`x % y`); `none` = ZeroDivisionError. -/
def pyFloatMod (x y : Float) : Option Float :=
  if y == 0.0 then none
  else if x.isNaN || y.isNaN then some (0.0/0.0)
  else if x.isInf then some (0.0/0.0)
  else
    let m := if y.isInf then x else fmodExact x y
    if m != 0.0 then
      if (y < 0.0) != (m < 0.0) then some (m + y) else some m
    else
      some (if y.toBits.toNat / 2^63 = 1 then -0.0 else 0.0)

/-- CPython `float_div`; `none` = ZeroDivisionError. -/
def pyFloatDiv (x y : Float) : Option Float := if y == 0.0 then none else some (x / y)

/-- `1.0 * value` for a Python int: correctly rounded conversion; `none` = OverflowError. -/
def intToDouble (z : Int) : Option Float :=
  let f := Float.ofInt z
  if f.isInf then none else some f

/-- `int(x)` for a Python float: `none` for NaN (ValueError) / inf (OverflowError) is
    decided by the caller. Truncates toward zero, exact. -/
def doubleToInt (x : Float) : Int :=
  let (m, e) := decomposeDouble x
  if e ≥ 0 then m * 2 ^ e.toNat else Int.tdiv m (2 ^ (-e).toNat)

end TV
