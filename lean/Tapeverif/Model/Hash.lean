import Tapeverif.Model.Basic
/-! Concrete SHA-256, SHA-512 and SHAKE-256 for the executable model (validated against
    hashlib on every run; no theorem depends on their definitions). -/
namespace TV.Hash

def k256 : Array UInt32 := #[0x428a2f98, 0x71374491, 0xb5c0fbcf, 0xe9b5dba5, 0x3956c25b, 0x59f111f1, 0x923f82a4, 0xab1c5ed5, 0xd807aa98, 0x12835b01, 0x243185be, 0x550c7dc3, 0x72be5d74, 0x80deb1fe, 0x9bdc06a7, 0xc19bf174, 0xe49b69c1, 0xefbe4786, 0xfc19dc6, 0x240ca1cc, 0x2de92c6f, 0x4a7484aa, 0x5cb0a9dc, 0x76f988da, 0x983e5152, 0xa831c66d, 0xb00327c8, 0xbf597fc7, 0xc6e00bf3, 0xd5a79147, 0x6ca6351, 0x14292967, 0x27b70a85, 0x2e1b2138, 0x4d2c6dfc, 0x53380d13, 0x650a7354, 0x766a0abb, 0x81c2c92e, 0x92722c85, 0xa2bfe8a1, 0xa81a664b, 0xc24b8b70, 0xc76c51a3, 0xd192e819, 0xd6990624, 0xf40e3585, 0x106aa070, 0x19a4c116, 0x1e376c08, 0x2748774c, 0x34b0bcb5, 0x391c0cb3, 0x4ed8aa4a, 0x5b9cca4f, 0x682e6ff3, 0x748f82ee, 0x78a5636f, 0x84c87814, 0x8cc70208, 0x90befffa, 0xa4506ceb, 0xbef9a3f7, 0xc67178f2]
def h256 : Array UInt32 := #[0x6a09e667, 0xbb67ae85, 0x3c6ef372, 0xa54ff53a, 0x510e527f, 0x9b05688c, 0x1f83d9ab, 0x5be0cd19]
def k512 : Array UInt64 := #[0x428a2f98d728ae22, 0x7137449123ef65cd, 0xb5c0fbcfec4d3b2f, 0xe9b5dba58189dbbc, 0x3956c25bf348b538, 0x59f111f1b605d019, 0x923f82a4af194f9b, 0xab1c5ed5da6d8118, 0xd807aa98a3030242, 0x12835b0145706fbe, 0x243185be4ee4b28c, 0x550c7dc3d5ffb4e2, 0x72be5d74f27b896f, 0x80deb1fe3b1696b1, 0x9bdc06a725c71235, 0xc19bf174cf692694, 0xe49b69c19ef14ad2, 0xefbe4786384f25e3, 0xfc19dc68b8cd5b5, 0x240ca1cc77ac9c65, 0x2de92c6f592b0275, 0x4a7484aa6ea6e483, 0x5cb0a9dcbd41fbd4, 0x76f988da831153b5, 0x983e5152ee66dfab, 0xa831c66d2db43210, 0xb00327c898fb213f, 0xbf597fc7beef0ee4, 0xc6e00bf33da88fc2, 0xd5a79147930aa725, 0x6ca6351e003826f, 0x142929670a0e6e70, 0x27b70a8546d22ffc, 0x2e1b21385c26c926, 0x4d2c6dfc5ac42aed, 0x53380d139d95b3df, 0x650a73548baf63de, 0x766a0abb3c77b2a8, 0x81c2c92e47edaee6, 0x92722c851482353b, 0xa2bfe8a14cf10364, 0xa81a664bbc423001, 0xc24b8b70d0f89791, 0xc76c51a30654be30, 0xd192e819d6ef5218, 0xd69906245565a910, 0xf40e35855771202a, 0x106aa07032bbd1b8, 0x19a4c116b8d2d0c8, 0x1e376c085141ab53, 0x2748774cdf8eeb99, 0x34b0bcb5e19b48a8, 0x391c0cb3c5c95a63, 0x4ed8aa4ae3418acb, 0x5b9cca4f7763e373, 0x682e6ff3d6b2b8a3, 0x748f82ee5defb2fc, 0x78a5636f43172f60, 0x84c87814a1f0ab72, 0x8cc702081a6439ec, 0x90befffa23631e28, 0xa4506cebde82bde9, 0xbef9a3f7b2c67915, 0xc67178f2e372532b, 0xca273eceea26619c, 0xd186b8c721c0c207, 0xeada7dd6cde0eb1e, 0xf57d4f7fee6ed178, 0x6f067aa72176fba, 0xa637dc5a2c898a6, 0x113f9804bef90dae, 0x1b710b35131c471b, 0x28db77f523047d84, 0x32caab7b40c72493, 0x3c9ebe0a15c9bebc, 0x431d67c49c100d4c, 0x4cc5d4becb3e42b6, 0x597f299cfc657e2a, 0x5fcb6fab3ad6faec, 0x6c44198c4a475817]
def h512 : Array UInt64 := #[0x6a09e667f3bcc908, 0xbb67ae8584caa73b, 0x3c6ef372fe94f82b, 0xa54ff53a5f1d36f1, 0x510e527fade682d1, 0x9b05688c2b3e6c1f, 0x1f83d9abfb41bd6b, 0x5be0cd19137e2179]
def keccakRC : Array UInt64 := #[0x1, 0x8082, 0x800000000000808a, 0x8000000080008000, 0x808b, 0x80000001, 0x8000000080008081, 0x8000000000008009, 0x8a, 0x88, 0x80008009, 0x8000000a, 0x8000808b, 0x800000000000008b, 0x8000000000008089, 0x8000000000008003, 0x8000000000008002, 0x8000000000000080, 0x800a, 0x800000008000000a, 0x8000000080008081, 0x8000000000008080, 0x80000001, 0x8000000080008008]
/-- rotation offsets indexed by x + 5*y -/
def keccakRot : Array UInt64 := #[0, 1, 62, 28, 27, 36, 44, 6, 55, 20, 3, 10, 43, 25, 39, 41, 45, 15, 21, 8, 18, 2, 61, 56, 14]

@[inline] def rotr32 (x : UInt32) (n : UInt32) : UInt32 := (x >>> n) ||| (x <<< (32 - n))
@[inline] def rotr64 (x : UInt64) (n : UInt64) : UInt64 := (x >>> n) ||| (x <<< (64 - n))
@[inline] def rotl64 (x : UInt64) (n : UInt64) : UInt64 := if n = 0 then x else (x <<< n) ||| (x >>> (64 - n))

def padMD (msg : Bytes) (blockLen lenBytes : Nat) : Bytes :=
  let l := msg.length
  let padLen := (blockLen - (l + 1 + lenBytes) % blockLen) % blockLen
  msg ++ [0x80] ++ List.replicate padLen 0 ++ natToBytesBE lenBytes (l * 8)

def chunks (n : Nat) (a : Array UInt8) : List (Array UInt8) :=
  (List.range (a.size / n)).map (fun i => a.extract (i * n) (i * n + n))

def be32 (a : Array UInt8) (i : Nat) : UInt32 :=
  (a[i]!.toUInt32 <<< 24) ||| (a[i+1]!.toUInt32 <<< 16) ||| (a[i+2]!.toUInt32 <<< 8) ||| a[i+3]!.toUInt32
def be64 (a : Array UInt8) (i : Nat) : UInt64 :=
  (be32 a i).toUInt64 <<< 32 ||| (be32 a (i+4)).toUInt64
def le64 (a : Array UInt8) (i : Nat) : UInt64 :=
  (List.range 8).foldl (fun acc j => acc ||| (a[i+j]!.toUInt64 <<< (8 * j).toUInt64)) 0

def sha256Block (h : Array UInt32) (blk : Array UInt8) : Array UInt32 := Id.run do
  let mut w : Array UInt32 := Array.mkEmpty 64
  for i in [0:16] do
    w := w.push (be32 blk (4*i))
  for i in [16:64] do
    let w15 := w[i-15]!; let w2 := w[i-2]!
    let s0 := rotr32 w15 7 ^^^ rotr32 w15 18 ^^^ (w15 >>> 3)
    let s1 := rotr32 w2 17 ^^^ rotr32 w2 19 ^^^ (w2 >>> 10)
    w := w.push (w[i-16]! + s0 + w[i-7]! + s1)
  let mut a := h[0]!; let mut b := h[1]!; let mut c := h[2]!; let mut d := h[3]!
  let mut e := h[4]!; let mut f := h[5]!; let mut g := h[6]!; let mut hh := h[7]!
  for i in [0:64] do
    let S1 := rotr32 e 6 ^^^ rotr32 e 11 ^^^ rotr32 e 25
    let ch := (e &&& f) ^^^ ((~~~ e) &&& g)
    let t1 := hh + S1 + ch + k256[i]! + w[i]!
    let S0 := rotr32 a 2 ^^^ rotr32 a 13 ^^^ rotr32 a 22
    let maj := (a &&& b) ^^^ (a &&& c) ^^^ (b &&& c)
    let t2 := S0 + maj
    hh := g; g := f; f := e; e := d + t1; d := c; c := b; b := a; a := t1 + t2
  return #[h[0]! + a, h[1]! + b, h[2]! + c, h[3]! + d, h[4]! + e, h[5]! + f, h[6]! + g, h[7]! + hh]

def sha256 (msg : Bytes) : Bytes :=
  let padded := (padMD msg 64 8).toArray
  let h := (chunks 64 padded).foldl sha256Block h256
  h.toList.flatMap (fun x => natToBytesBE 4 x.toNat)

def sha512Block (h : Array UInt64) (blk : Array UInt8) : Array UInt64 := Id.run do
  let mut w : Array UInt64 := Array.mkEmpty 80
  for i in [0:16] do
    w := w.push (be64 blk (8*i))
  for i in [16:80] do
    let w15 := w[i-15]!; let w2 := w[i-2]!
    let s0 := rotr64 w15 1 ^^^ rotr64 w15 8 ^^^ (w15 >>> 7)
    let s1 := rotr64 w2 19 ^^^ rotr64 w2 61 ^^^ (w2 >>> 6)
    w := w.push (w[i-16]! + s0 + w[i-7]! + s1)
  let mut a := h[0]!; let mut b := h[1]!; let mut c := h[2]!; let mut d := h[3]!
  let mut e := h[4]!; let mut f := h[5]!; let mut g := h[6]!; let mut hh := h[7]!
  for i in [0:80] do
    let S1 := rotr64 e 14 ^^^ rotr64 e 18 ^^^ rotr64 e 41
    let ch := (e &&& f) ^^^ ((~~~ e) &&& g)
    let t1 := hh + S1 + ch + k512[i]! + w[i]!
    let S0 := rotr64 a 28 ^^^ rotr64 a 34 ^^^ rotr64 a 39
    let maj := (a &&& b) ^^^ (a &&& c) ^^^ (b &&& c)
    let t2 := S0 + maj
    hh := g; g := f; f := e; e := d + t1; d := c; c := b; b := a; a := t1 + t2
  return #[h[0]! + a, h[1]! + b, h[2]! + c, h[3]! + d, h[4]! + e, h[5]! + f, h[6]! + g, h[7]! + hh]

def sha512 (msg : Bytes) : Bytes :=
  let padded := (padMD msg 128 16).toArray
  let h := (chunks 128 padded).foldl sha512Block h512
  h.toList.flatMap (fun x => natToBytesBE 8 x.toNat)

def keccakF (s0 : Array UInt64) : Array UInt64 := Id.run do
  let mut s := s0
  for rnd in [0:24] do
    -- theta
    let mut c : Array UInt64 := Array.mkEmpty 5
    for x in [0:5] do
      c := c.push (s[x]! ^^^ s[x+5]! ^^^ s[x+10]! ^^^ s[x+15]! ^^^ s[x+20]!)
    let mut s1 := s
    for x in [0:5] do
      let dx := c[(x+4)%5]! ^^^ rotl64 c[(x+1)%5]! 1
      for y in [0:5] do
        s1 := s1.set! (x+5*y) (s[x+5*y]! ^^^ dx)
    -- rho + pi
    let mut b : Array UInt64 := Array.replicate 25 0
    for x in [0:5] do
      for y in [0:5] do
        b := b.set! (y + 5*((2*x+3*y)%5)) (rotl64 s1[x+5*y]! keccakRot[x+5*y]!)
    -- chi
    let mut s2 : Array UInt64 := Array.replicate 25 0
    for x in [0:5] do
      for y in [0:5] do
        s2 := s2.set! (x+5*y) (b[x+5*y]! ^^^ ((~~~ b[(x+1)%5+5*y]!) &&& b[(x+2)%5+5*y]!))
    -- iota
    s := s2.set! 0 (s2[0]! ^^^ keccakRC[rnd]!)
  return s

def shake256 (msg : Bytes) (outLen : Nat) : Bytes :=
  let rate := 136
  -- pad10*1 with SHAKE domain separator 0x1f
  let l := msg.length
  let padLen := rate - l % rate
  let padded : Bytes :=
    if padLen = 1 then msg ++ [0x9f]
    else msg ++ [0x1f] ++ List.replicate (padLen - 2) 0 ++ [0x80]
  let absorb (s : Array UInt64) (blk : Array UInt8) : Array UInt64 := Id.run do
    let mut t := s
    for i in [0:17] do
      t := t.set! i (t[i]! ^^^ le64 blk (8*i))
    return keccakF t
  let st := (chunks rate padded.toArray).foldl absorb (Array.replicate 25 0)
  let squeezeBlock (s : Array UInt64) : Bytes :=
    (List.range 17).flatMap (fun i => natToBytesLE 8 s[i]!.toNat)
  let nBlocks := (outLen + rate - 1) / rate
  let rec go : Nat → Array UInt64 → Bytes → Bytes
    | 0, _, acc => acc
    | n+1, s, acc => go n (keccakF s) (acc ++ squeezeBlock s)
  (go nBlocks st []).take outLen

end TV.Hash
