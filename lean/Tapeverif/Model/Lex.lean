/-!
# The compiler's tokenizer (`parsing.get_symbols`)

`get_symbols` splits the source at whitespace and then regroups the words into *symbols*: a word that
opens a string literal (`s"` / `s'`) absorbs the following words up to the first one containing the
same quote; `@=` / `!=` take the next word with them; every other word is one symbol, upper-cased
unless it is a `d…` / `x…` value or a reference (`@…`, `!…`). A symbol is modelled as the list of
its words (the implementation joins them with single spaces). `none` = the implementation raises
(`SyntaxError` for an unterminated literal, `IndexError` for a lone `s` or a trailing `@=`).
ASCII only: Python's `str.upper` / `str.split` on other characters is not modelled.
-/
namespace TV.Lex

abbrev Tok := List Char

/-- the ASCII characters `str.split()` splits at -/
def isWs (c : Char) : Bool :=
  c = ' ' || c = '\t' || c = '\n' || c = '\r' || c = '\x0b' || c = '\x0c' ||
  c = '\x1c' || c = '\x1d' || c = '\x1e' || c = '\x1f'

/-- `str.split()` : maximal runs of non-whitespace characters -/
def splitWs : List Char → Tok → List Tok
  | [], cur => if cur.isEmpty then [] else [cur.reverse]
  | c :: cs, cur =>
    if isWs c then (if cur.isEmpty then splitWs cs [] else cur.reverse :: splitWs cs [])
    else splitWs cs (c :: cur)

def upper (t : Tok) : Tok := t.map Char.toUpper

def isDigitTok (t : Tok) : Bool := !t.isEmpty && t.all fun c => '0' ≤ c && c ≤ '9'
def isHexChar (c : Char) : Bool := ('0' ≤ c && c ≤ '9') || ('a' ≤ c && c ≤ 'f') || ('A' ≤ c && c ≤ 'F')
/-- `is_hex` : `bytes.fromhex` accepts it after left-padding to an even length -/
def isHexTok (t : Tok) : Bool := t.all isHexChar

/-- the words of a string literal that is still open: up to and including the first word that
    contains the quote; `none` when no such word follows (unterminated) -/
def takeLit (q : Char) : List Tok → Option (List Tok × List Tok)
  | [] => none
  | t :: ts =>
    if t.contains q then some ([t], ts)
    else match takeLit q ts with
      | some (ps, r) => some (t :: ps, r)
      | none => none

/-- what one word becomes when it is a symbol of its own -/
def normWord (t : Tok) : Option Tok :=
  match t with
  | [] => some []
  | c :: r =>
    if c ≠ 's' ∧ c ≠ 'd' ∧ c ≠ 'x' ∧ c ≠ '!' ∧ c ≠ '@' then some (upper t)
    else if c = 'd' ∧ !isDigitTok r then some (upper t)
    else if c = 'x' ∧ !isHexTok r then some (upper t)
    else if c = 's' then
      match r with
      | [] => none                               -- `token[1]` : IndexError
      | c2 :: _ => if c2 ≠ '"' ∧ c2 ≠ '\'' then some (upper t) else some t
    else some t

/-- `get_symbols` on the word list (fuel = number of words + 1 always suffices) -/
def symbolsF : Nat → List Tok → Option (List (List Tok))
  | 0, _ => none
  | _ + 1, [] => some []
  | n + 1, t :: ts =>
    match t with
    | 's' :: q :: body =>
      if q = '"' ∨ q = '\'' then
        if body.contains q then (symbolsF n ts).map ([t] :: ·)
        else match takeLit q ts with
          | none => none                          -- unterminated string
          | some (ps, r) => (symbolsF n r).map ((t :: ps) :: ·)
      else match normWord t with
        | none => none
        | some w => (symbolsF n ts).map ([w] :: ·)
    | '@' :: '=' :: _ | '!' :: '=' :: _ =>
      match ts with
      | [] => none                                -- `splits.pop()` from an empty list
      | t2 :: ts2 => (symbolsF n ts2).map fun r => [t] :: [t2] :: r
    | _ =>
      match normWord t with
      | none => none
      | some w => (symbolsF n ts).map ([w] :: ·)

def symbols (src : List Char) : Option (List (List Tok)) :=
  let ws := splitWs src []
  symbolsF (ws.length + 1) ws

end TV.Lex
