/-! Basic byte-string vocabulary shared by the whole model (core Lean only). -/
namespace TV

abbrev Bytes := List UInt8

def hexDigit (n : Nat) : Char :=
  if n < 10 then Char.ofNat (48 + n) else Char.ofNat (87 + n)

def hexOfByte (b : UInt8) : List Char := [hexDigit (b.toNat / 16), hexDigit (b.toNat % 16)]

def toHex (b : Bytes) : String := String.ofList (b.flatMap hexOfByte)

def hexVal (c : Char) : Option Nat :=
  if '0' ≤ c ∧ c ≤ '9' then some (c.toNat - 48)
  else if 'a' ≤ c ∧ c ≤ 'f' then some (c.toNat - 87)
  else if 'A' ≤ c ∧ c ≤ 'F' then some (c.toNat - 55)
  else none

def ofHexChars : List Char → Option Bytes
  | [] => some []
  | [_] => none
  | a :: b :: r => do
    let x ← hexVal a
    let y ← hexVal b
    let t ← ofHexChars r
    pure (UInt8.ofNat (x * 16 + y) :: t)

/-- Parse a hex string; `-` denotes the empty string in the line protocol. -/
def ofHex (s : String) : Option Bytes :=
  if s = "-" then some [] else ofHexChars s.toList

def natOfBytesBE (b : Bytes) : Nat := b.foldl (fun a x => a * 256 + x.toNat) 0

/-- `n.to_bytes(len,'big')` (value taken mod 256^len). -/
def natToBytesBE : Nat → Nat → Bytes
  | 0, _ => []
  | len+1, n => natToBytesBE len (n / 256) ++ [UInt8.ofNat (n % 256)]

def natOfBytesLE (b : Bytes) : Nat := natOfBytesBE b.reverse
def natToBytesLE (len n : Nat) : Bytes := (natToBytesBE len n).reverse

/-- Python `bytes_to_bool`: any bit set. -/
def truthy (b : Bytes) : Bool := b.any (· != 0)

def boolBytes (b : Bool) : Bytes := if b then [0xff] else [0x00]

def zipWithPad (f : UInt8 → UInt8 → UInt8) : Bytes → Bytes → Bytes
  | [], [] => []
  | a :: r, [] => f a 0 :: zipWithPad f r []
  | [], b :: s => f 0 b :: zipWithPad f [] s
  | a :: r, b :: s => f a b :: zipWithPad f r s

def xorBytes (a b : Bytes) : Bytes := zipWithPad (· ^^^ ·) a b
def orBytes (a b : Bytes) : Bytes := zipWithPad (· ||| ·) a b
def andBytes (a b : Bytes) : Bytes := zipWithPad (· &&& ·) a b
def notBytes (a : Bytes) : Bytes := a.map (fun x => ~~~ x)

def asciiBytes (s : String) : Bytes := s.toList.map (fun c => UInt8.ofNat c.toNat)

end TV
