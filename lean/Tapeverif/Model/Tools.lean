import Tapeverif.Model.Auth
/-! # Lock / witness builders (`tapescript/tools.py`) as functions returning **bytes**. -/
namespace TV.Tools

def opc (n : Nat) : Bytes := [UInt8.ofNat n]

/-- the compiler's `OP_PUSH` for a value: smallest push instruction that fits; the empty
    value and values of 65536 bytes or more are rejected (`none`). -/
def pushBytes (v : Bytes) : Option Bytes :=
  if v.length = 1 then some (opc 2 ++ v)
  else if 1 < v.length ∧ v.length < 256 then some (opc 3 ++ natToBytesBE 1 v.length ++ v)
  else if 255 < v.length ∧ v.length < 65536 then some (opc 4 ++ natToBytesBE 2 v.length ++ v)
  else none

/-- `push d<n>`: never fails (the encoding is non-empty and short) -/
def pushInt (z : Int) : Bytes := (pushBytes (intToBytes z)).getD []

def CTS : Nat := 37
def CTSV : Nat := 38
def NOT : Nat := 46
def VERIFY : Nat := 32

/-- `make_timestamp_after_lock(ts, op_verify)` -/
def timestampAfterLock (ts : Int) (verify : Bool) : Bytes :=
  pushInt ts ++ opc (if verify then CTSV else CTS)

/-- `make_timestamp_before_lock(ts, op_verify)` -/
def timestampBeforeLock (ts : Int) (verify : Bool) : Bytes :=
  pushInt ts ++ opc CTS ++ opc NOT ++ (if verify then opc VERIFY else [])

/-- `make_timestamp_between_lock(begin, end, op_verify)` -/
def timestampBetweenLock (b e : Int) (verify : Bool) : Bytes :=
  timestampAfterLock b true ++ timestampBeforeLock e verify

end TV.Tools
