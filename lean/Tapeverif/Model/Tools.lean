import Tapeverif.Model.Auth
/-! # Lock / witness builders (`tapescript/tools.py`) as functions returning **bytes**. -/
namespace TV.Tools

def opc (n : Nat) : Bytes := [UInt8.ofNat n]

/-- the compiler's `OP_PUSH` for a value: smallest push instruction that fits; the empty
    value and values of 65536 bytes or more are rejected (`none`). -/
def pushBytes (v : Bytes) : Option Bytes :=
  if v.length = 1 then some (opc 2 ++ v)
  else if 1 < v.length ∧ v.length < 256 then some (opc 3 ++ natToBytesBE 1 v.length ++ v)
  else if 255 < v.length ∧ v.length < 65536 then some (opc 4 ++ natToBytesBE 2 v.length ++ v)
  else none

/-- `push d<n>`: never fails (the encoding is non-empty and short) -/
def pushInt (z : Int) : Bytes := (pushBytes (intToBytes z)).getD []

def CTS : Nat := 37
def CTSV : Nat := 38
def NOT : Nat := 46
def VERIFY : Nat := 32

/-- `make_timestamp_after_lock(ts, op_verify)` -/
def timestampAfterLock (ts : Int) (verify : Bool) : Bytes :=
  pushInt ts ++ opc (if verify then CTSV else CTS)

/-- `make_timestamp_before_lock(ts, op_verify)` -/
def timestampBeforeLock (ts : Int) (verify : Bool) : Bytes :=
  pushInt ts ++ opc CTS ++ opc NOT ++ (if verify then opc VERIFY else [])

/-- `make_timestamp_between_lock(begin, end, op_verify)` -/
def timestampBetweenLock (b e : Int) (verify : Bool) : Bytes :=
  timestampAfterLock b true ++ timestampBeforeLock e verify


/-! ### assembler helpers (opcode numbers as in `Model/Asm.lean`) -/
def u2 (n : Nat) : Bytes := natToBytesBE 2 n
def pushB (v : Bytes) : Bytes := (pushBytes v).getD []
def ifOp (body : Bytes) : Bytes := opc 43 ++ u2 body.length ++ body
def ifElse (a b : Bytes) : Bytes := opc 44 ++ u2 a.length ++ a ++ u2 b.length ++ b
def defOp (h : Nat) (body : Bytes) : Bytes := opc 41 ++ opc h ++ u2 body.length ++ body
def writeCache (key : String) (n : Nat) : Bytes := opc 9 ++ opc key.length ++ asciiBytes key ++ opc n
def readCache (key : String) : Bytes := opc 10 ++ opc key.length ++ asciiBytes key
/-- `@= name [ v ]` -/
def setVar1 (key : String) (v : Bytes) : Bytes := pushB v ++ writeCache key 1

def DUP := opc 29
def SHA256 := opc 30
def SHAKE256 (n : Nat) := opc 31 ++ opc n
def EQUAL := opc 33
def EQUAL_VERIFY := opc 34
def CHECK_SIG (flags : Nat) := opc 35 ++ opc flags
def EVAL := opc 45
def SWAP (i j : Nat) := opc 52 ++ opc i ++ opc j
def SWAP2 := opc 53
def CSS := opc 74
def SPLIT := opc 56
def POP0 := opc 6
def CALL (h : Nat) := opc 42 ++ opc h
def TRUE_ := opc 1
def FALSE_ := opc 0

variable (H : Hashes) (C : Curve)

/-- `make_single_sig_lock` -/
def singleSigLock (pk : Bytes) (flags : Nat) : Bytes := pushB pk ++ CHECK_SIG flags

/-- `make_single_sig_lock2` (the key is committed by a 20-byte SHAKE-256 hash) -/
def singleSigLock2 (pk : Bytes) (flags : Nat) : Bytes :=
  DUP ++ SHAKE256 20 ++ pushB (H.shake256 pk 20) ++ EQUAL_VERIFY ++ CHECK_SIG flags

/-- `make_multisig_lock` (quorum guard: `m ≤ #unique keys`, else ValueError = `none`) -/
def multisigLock (pks : List Bytes) (m flags : Nat) : Option Bytes :=
  if m ≤ pks.eraseDups.length then
    some ((pks.flatMap pushB) ++ opc 70 ++ opc flags ++ opc m ++ opc pks.length)
  else none

/-- `make_scripthash_lock` -/
def scripthashLock (script : Bytes) (hashsize : Nat) : Bytes :=
  DUP ++ SHAKE256 hashsize ++ pushB (H.shake256 script hashsize) ++ EQUAL_VERIFY ++ EVAL

def scripthashWitness (script : Bytes) : Bytes := pushB script

/-- `make_graftroot_lock` -/
def graftrootLock (pk : Bytes) (flags : Nat) : Bytes :=
  setVar1 "k" pk ++
  ifElse (DUP ++ SWAP 1 2 ++ readCache "k" ++ CSS ++ opc VERIFY ++ EVAL)
         (readCache "k" ++ CHECK_SIG flags)

/-- the taproot root `P + clamp(sha256(P ‖ commitment)) • G` as the builder computes it -/
def taprootRoot (pk commitment : Bytes) : R Bytes := do
  let t ← Sodium.clampScalar (H.sha256 (pk ++ commitment)) false
  let X ← Sodium.derivePoint C t
  Sodium.aggregatePoints C [pk, X]

/-- `make_taproot_lock` -/
def taprootLock (pk commitment : Bytes) (flags : Nat) : R Bytes := do
  let root ← taprootRoot H C pk commitment
  pure (pushB root ++ opc 91 ++ opc flags)

def graftapCommitted (pk : Bytes) : Bytes :=
  DUP ++ SWAP 1 2 ++ pushB pk ++ CSS ++ opc VERIFY ++ EVAL

/-- `make_graftap_lock` -/
def graftapLock (pk : Bytes) (flags : Nat) : R Bytes :=
  taprootLock H C pk (H.sha256 (graftapCommitted pk)) flags

def taprootScriptspendWitness (pk script : Bytes) : Bytes := pushB script ++ pushB pk

/-- `make_nonnative_taproot_lock` -/
def nonnativeTaprootLock (pk commitment : Bytes) (flags : Nat) : R Bytes := do
  let root ← taprootRoot H C pk commitment
  let cond := DUP ++ opc 8 ++ pushInt 32 ++ EQUAL
  let a := DUP ++ SWAP 0 2 ++ DUP ++ SWAP 1 3 ++ SHA256 ++ opc 55 ++ SHA256 ++ opc 76 ++ opc 0 ++
           opc 79 ++ opc 27 ++ opc 2 ++ CALL 0 ++ EQUAL_VERIFY ++ EVAL
  let b := CALL 0 ++ CHECK_SIG flags
  pure (defOp 0 (pushB root) ++ cond ++ ifElse a b)

def GET_MESSAGE (flags : Nat) := opc 5 ++ opc flags
def CHECK_ADAPTER_SIG := opc 83
def DECRYPT_ADAPTER_SIG := opc 84

/-- `make_adapter_locks_pub`, first script (also every hop's first lock of `setup_amhl`): checks the
    adapter `(sa, R)` the witness pushed against the key and the tweak point -/
def adapterLock1 (pk tweakPoint : Bytes) (flags : Nat) : Bytes :=
  GET_MESSAGE flags ++ pushB tweakPoint ++ pushB pk ++ CHECK_ADAPTER_SIG

def CONCAT := opc 55

/-- `make_adapter_lock_pub` (the deprecated single-script form; the witness pushes t, sa, R): checks the
    adapter, decrypts it with `t`, and checks the decrypted signature (with the flag byte appended
    when the flags are not 00 — repair F16) -/
def adapterLockPub (pk tweakPoint : Bytes) (flags : Nat) : Bytes :=
  writeCache "R" 1 ++ (writeCache "sa" 1 ++ (writeCache "t" 1 ++
  (readCache "sa" ++ (readCache "R" ++ (GET_MESSAGE flags ++ (pushB tweakPoint ++ (pushB pk ++ (CHECK_ADAPTER_SIG ++ (opc VERIFY ++
  (readCache "sa" ++ (readCache "R" ++ (readCache "t" ++ (DECRYPT_ADAPTER_SIG ++ (CONCAT ++
  ((if flags = 0 then [] else pushB [UInt8.ofNat flags] ++ CONCAT) ++ (pushB pk ++ CHECK_SIG flags))))))))))))))))

/-- `make_adapter_decrypt` (ValueError for a tweak shorter than 32 bytes) -/
def adapterDecrypt (tweak : Bytes) : R Bytes := do
  let t ← Sodium.clampScalar tweak false
  pure (pushB t ++ DECRYPT_ADAPTER_SIG)

/-- the time-locked alternative of the HTLC / PTLC locks -/
def refundArm (deadline : Int) (refund : Bytes) : Bytes := pushInt deadline ++ opc CTSV ++ pushB refund

/-- `make_htlc_sha256_lock` / `make_htlc_shake256_lock` (`hashOp` = SHA256 or SHAKE256 n) -/
def htlcLock (hashOp digest receiver refund : Bytes) (deadline : Int) (flags : Nat) : Bytes :=
  hashOp ++ pushB digest ++ EQUAL ++ ifElse (pushB receiver) (refundArm deadline refund) ++ CHECK_SIG flags

/-- `make_htlc2_*_lock` (keys committed by hash; `hs` = key-hash size) -/
def htlc2Lock (hashOp digest receiver refund : Bytes) (hs : Nat) (deadline : Int) (flags : Nat) : Bytes :=
  hashOp ++ pushB digest ++ EQUAL ++
  ifElse (DUP ++ SHAKE256 hs ++ pushB (H.shake256 receiver hs))
         (pushInt deadline ++ opc CTSV ++ DUP ++ SHAKE256 hs ++ pushB (H.shake256 refund hs)) ++
  EQUAL_VERIFY ++ CHECK_SIG flags

/-- `make_ptlc_lock` (with a tweak point the claim key is `receiver + T`) -/
def ptlcLock (receiver refund : Bytes) (tweak : Option Bytes) (deadline : Int) (flags : Nat) : R Bytes := do
  let claim ← (match tweak with
    | some T => Sodium.aggregatePoints C [receiver, T]
    | none => pure receiver)
  pure (ifElse (pushB claim) (refundArm deadline refund) ++ CHECK_SIG flags)

/-- the certificate-checking prelude shared by the two delegation locks (after the authorizing
    key handling): splits the cert, checks the window, checks the cert signature -/
def certChecks (keepCan : Bool) : Bytes :=
  pushInt 41 ++ SPLIT ++ writeCache "s" 1 ++ DUP ++
  pushInt 40 ++ SPLIT ++ (if keepCan then writeCache "c" 1 else POP0) ++
  pushInt 36 ++ SPLIT ++ writeCache "e" 1 ++
  pushInt 32 ++ SPLIT ++ writeCache "b" 1 ++ writeCache "d" 1 ++
  readCache "b" ++ opc CTSV ++
  readCache "e" ++ opc CTS ++ opc NOT ++ opc VERIFY ++
  readCache "s" ++ SWAP2

/-- `make_delegate_key_lock` -/
def delegateKeyLock (root : Bytes) (flags : Nat) : Bytes :=
  certChecks false ++ pushB root ++ CSS ++ opc VERIFY ++ readCache "d" ++ CHECK_SIG flags

/-- `make_delegate_key_chain_lock` -/
def delegateKeyChainLock (root : Bytes) (flags : Nat) : Bytes :=
  let body := writeCache "r" 1 ++ certChecks true ++ readCache "r" ++ CSS ++ opc VERIFY ++
    readCache "c" ++ opc 88 ++
    ifElse (readCache "d" ++ CALL 0) (readCache "d" ++ CHECK_SIG flags)
  defOp 0 body ++ pushB root ++ CALL 0

/-! ### certificates -/
structure Certificate where
  delegate : Bytes
  beginTs : Nat
  endTs : Nat
  may : Bool
  signature : Bytes
deriving DecidableEq, Repr

def pad4 (n : Nat) : Bytes := natToBytesBE 4 n

/-- `Certificate.preimage` (fields in range: 32-byte key, timestamps `< 2^31`) -/
def Certificate.preimage (c : Certificate) : Bytes :=
  c.delegate ++ pad4 c.beginTs ++ pad4 c.endTs ++ [if c.may then 0xff else 0x00]

def Certificate.pack (c : Certificate) : Bytes := c.preimage ++ c.signature

/-- `Certificate.unpack` (105 bytes) -/
def Certificate.unpack (b : Bytes) : Option Certificate :=
  if b.length = 105 then
    some { delegate := b.take 32, beginTs := natOfBytesBE ((b.drop 32).take 4),
           endTs := natOfBytesBE ((b.drop 36).take 4), may := (b.drop 40).head? = some 0xff,
           signature := b.drop 41 }
  else none

/-! ### merklized script trees -/
inductive Tree
  | leaf (script : Bytes)
  | node (l r : Tree)
deriving Repr, DecidableEq

mutual
/-- `commitment()` of a leaf / node -/
def Tree.commitment : Tree → Bytes
  | .leaf s => H.sha256 s
  | .node l r => H.sha256 (opc 60 ++ Tree.root (.node l r))
/-- `ScriptNode.root()`: xor of the hashes of the two children's commitments -/
def Tree.root : Tree → Bytes
  | .leaf s => H.sha256 s
  | .node l r => xorBytes (H.sha256 (Tree.commitment l)) (H.sha256 (Tree.commitment r))
end

/-- `ScriptNode.locking_script()` -/
def Tree.lockScript (t : Tree) : Bytes := opc 60 ++ Tree.root H t

/-- what a subtree contributes as the *executed* script of its level: a leaf's own script, a
    node's locking script -/
def Tree.code (t : Tree) : Bytes :=
  match t with
  | .leaf s => s
  | .node _ _ => Tree.lockScript H t

/-- the unlocking script of the leaf reached by `path` (false = left) from the root, as
    `ScriptLeaf.unlocking_script()` builds it: innermost level first -/
def Tree.unlock : Tree → List Bool → Option Bytes
  | .leaf _, [] => some []
  | .leaf _, _ :: _ => none
  | .node _ _, [] => none
  | .node l r, d :: rest =>
    let (sub, sib) := if d then (r, l) else (l, r)
    match Tree.unlock sub rest with
    | some inner => some (inner ++ pushB (Tree.commitment H sib) ++ pushB (Tree.code H sub))
    | none => none

/-- `ScriptNode.pack()` (children shorter than 2^16 bytes) -/
def Tree.pack : Tree → Bytes
  | .leaf s => s
  | .node l r =>
    let pl := Tree.pack l
    let pr := Tree.pack r
    (match l with | .leaf _ => [76] | .node _ _ => [78]) ++ u2 pl.length ++ pl ++
    (match r with | .leaf _ => [76] | .node _ _ => [78]) ++ u2 pr.length ++ pr

/-- `ScriptNode.unpack()`; fuel bounds the nesting depth -/
def Tree.unpack : Nat → Bytes → Option Tree
  | 0, _ => none
  | fuel+1, b =>
    match b with
    | lt :: b1 =>
      let ll := natOfBytesBE (b1.take 2)
      let ld := (b1.drop 2).take ll
      match (b1.drop 2).drop ll with
      | rt :: b2 =>
        let rl := natOfBytesBE (b2.take 2)
        let rd0 := b2.drop 2
        let rd := if rd0.length > rl then rd0.take rl else rd0
        let sub (ty : UInt8) (d : Bytes) : Option Tree := if ty = 76 then some (.leaf d) else Tree.unpack fuel d
        match sub lt ld, sub rt rd with
        | some l, some r => some (.node l r)
        | _, _ => none
      | [] => none
    | [] => none

end TV.Tools
