import Tapeverif.Model.VM
import Tapeverif.Model.Crypto
import Tapeverif.Model.Float
/-! # The instruction set, written in the `Op` vocabulary.

Each instruction is a function `Op → Op` (it takes its continuation), so that composite
instructions (EQUAL_VERIFY, MERKLEVAL, TAPROOT, CHECK_MULTISIG …) are compositions exactly
as in the Python source. `instrTable` is the dispatch table. -/
namespace TV

/-- signature-extension plugin family shared with the harness -/
inductive SigExt
  | log (tag : Nat)
  | raise            -- raises ValueError
deriving Repr, DecidableEq

/-- check_template plugin family: judge (field, template) -/
inductive CTPlugin
  | constTrue | constFalse | isPrefix | equal
deriving Repr, DecidableEq

/-- contract family shared with the harness -/
inductive Contract
  | echo        -- abi(args) = args
  | none_       -- abi(args) = None
  | concat      -- abi(args) = [b''.join(args)]
  | badItem     -- abi(args) = [b'ok', 5]      (TypeError after pushing the first)
  | badType     -- abi(args) = b'raw'          (TypeError)
  | transfer    -- CanCheckTransfer (see `xfer*` below)
  | both        -- echo + transfer
  | neither     -- implements no interface
deriving Repr, DecidableEq

structure Cfg where
  lim : Limits
  now : Int
  flags : List (Nat × Bool)
  flag10 : Bool                    -- `tape.flags.get(10, True)`
  tsThreshold : Option Int         -- `none`: present but not an int
  epochThreshold : Option Int
  disallowEval : Bool
  evalReturn : Bool
  sigExts : List SigExt
  ctPlugins : List CTPlugin
  contracts : List (Bytes × Contract)
deriving Repr

def Cfg.flag (c : Cfg) (n : Nat) : Bool :=
  match c.flags.find? (·.1 = n) with
  | some (_, b) => b
  | none => false

def Contract.invocable : Contract → Bool
  | .echo | .none_ | .concat | .badItem | .badType | .both => true
  | _ => false
def Contract.transferable : Contract → Bool
  | .transfer | .both => true
  | _ => false

inductive AbiRes
  | none_ | items (l : List Atom) | notAList

def Contract.abi : Contract → List Bytes → AbiRes
  | .echo, args | .both, args => .items (args.map .bytes)
  | .none_, _ => .none_
  | .concat, args => .items [.bytes args.flatten]
  | .badItem, _ => .items [.bytes (asciiBytes "ok"), .int 5]
  | .badType, _ => .notAList
  | _, _ => .none_

def CTPlugin.judge : CTPlugin → Bytes → Bytes → Bool
  | .constTrue, _, _ => true
  | .constFalse, _, _ => false
  | .isPrefix, field, tmpl => tmpl.isPrefixOf field
  | .equal, field, tmpl => field == tmpl

namespace Instr
variable (H : Hashes) (C : Curve) (cfg : Cfg)

/-! ### combinators -/
def liftR {α} (r : R α) (k : α → Op) : Op :=
  match r with
  | .ok a => k a
  | .error e => .fail e

def readU1 (k : Nat → Op) : Op := .read 1 fun b => k (natOfBytesBE b)
def readU2 (k : Nat → Op) : Op := .read 2 fun b => k (natOfBytesBE b)

/-- pop `n` items; the list is in pop order (top first) -/
def popN : Nat → (List Bytes → Op) → Op
  | 0, k => k []
  | n+1, k => .pop fun x => popN n fun r => k (x :: r)

def pushAll : List Bytes → Op → Op
  | [], k => k
  | x :: r, k => .push x (pushAll r k)

def popInt (k : Int → Op) : Op :=
  .pop fun b => match bytesToInt b with
    | some z => k z
    | none => .fail .value

def pushInt (z : Int) (k : Op) : Op := .push (intToBytes z) k
def pushBool (b : Bool) (k : Op) : Op := .push (boolBytes b) k

def cachePutIf (c : Bool) (key : String) (v : Bytes) (k : Op) : Op :=
  if c then .cachePut (asciiBytes key) (.atom (.bytes v)) k else k

/-! ### plugins -/
def runSigExts : List SigExt → Op → Op
  | [], k => k
  | .log t :: r, k => .log t (runSigExts r k)
  | .raise :: _, _ => .fail .value

def sigExt (k : Op) : Op := runSigExts cfg.sigExts k

/-! ### simple stack / cache instructions -/
def opFalse (k : Op) : Op := .push [0x00] k
def opTrue (k : Op) : Op := .push [0xff] k
def opPush0 (k : Op) : Op := .read 1 fun b => .push b k
def opPush1 (k : Op) : Op := readU1 fun n => .read n fun b => .push b k
def opPush2 (k : Op) : Op := readU2 fun n => .read n fun b => .push b k

def sigfieldKey (i : Nat) : CKey := .str (asciiBytes ("sigfield" ++ toString i))

/-- `message += cache['sigfield<i>']` for i = `i`..8 -/
def getMessageFrom (flag : Nat) : Nat → Nat → Bytes → (Bytes → Op) → Op
  | 0, _, acc, k => k acc
  | fuel+1, i, acc, k =>
    .cacheGet (sigfieldKey i) fun v =>
      match v with
      | none => getMessageFrom flag fuel (i+1) acc k
      | some v =>
        if flag / 2^(i-1) % 2 = 1 then getMessageFrom flag fuel (i+1) acc k
        else match v with
          | .atom (.bytes b) => getMessageFrom flag fuel (i+1) (acc ++ b) k
          | .atom (.bytearray b) => getMessageFrom flag fuel (i+1) (acc ++ b) k
          | _ => .fail .type

/-- `OP_GET_MESSAGE(Tape(flag))` without plugins: build the message, put it on the stack -/
def getMessageCore (flag : Nat) (k : Op) : Op :=
  getMessageFrom flag 8 1 [] fun m => .push m k

def opGetMessage (k : Op) : Op := sigExt cfg (readU1 fun flag => getMessageCore flag k)

def pKey : Bytes := [80]
def opPop0 (k : Op) : Op := .pop fun x => .cachePut pKey (.list [.bytes x]) k
def opPop1 (k : Op) : Op := readU1 fun n => popN n fun items => .cachePut pKey (.list (items.map .bytes)) k
def opSize (k : Op) : Op := .pop fun x => pushInt x.length k
def opWriteCache (k : Op) : Op :=
  readU1 fun ks => .read ks fun key => readU1 fun n => popN n fun items =>
    .cachePut key (.list (items.map .bytes)) k

def itemsOf : CVal → List Atom
  | .list l => l
  | .atom a => [a]

def pushAtoms : List Atom → Op → Op
  | [], k => k
  | .bytes b :: r, k => .push b (pushAtoms r k)
  | _ :: _, _ => .fail .type

def readCacheCore (key : Bytes) (k : Op) : Op :=
  .cacheGet (.byt key) fun v => match v with
    | none => .fail .see
    | some v => pushAtoms (itemsOf v) k

/-- Python `len(value)` -/
def lenOf : CVal → Option Nat
  | .list l => some l.length
  | .atom (.bytes b) => some b.length
  | .atom (.bytearray b) => some b.length
  | .atom (.str s) => (utf8Decode s).map List.length
  | .atom _ => none

def readCacheSizeCore (key : Bytes) (k : Op) : Op :=
  .cacheGet (.byt key) fun v => match v with
    | none => pushInt 0 k
    | some v => match lenOf v with
      | some n => pushInt n k
      | none => .fail .type

def opReadCache (k : Op) : Op := readU1 fun ks => .read ks fun key => readCacheCore key k
def opReadCacheSize (k : Op) : Op := readU1 fun ks => .read ks fun key => readCacheSizeCore key k
def opReadCacheStack (k : Op) : Op := .pop fun key => readCacheCore key k
def opReadCacheStackSize (k : Op) : Op := .pop fun key => readCacheSizeCore key k

/-! ### integers -/
def foldInts (f : Int → Int → Int) : Nat → Int → (Int → Op) → Op
  | 0, acc, k => k acc
  | n+1, acc, k => popInt fun z => foldInts f n (f acc z) k

def opAddInts (k : Op) : Op := readU1 fun n => foldInts (· + ·) n 0 fun t => pushInt t k
def opSubInts (k : Op) : Op :=
  readU1 fun n => popInt fun t0 => foldInts (· - ·) (n - 1) t0 fun t => pushInt t k
def opMultInts (k : Op) : Op :=
  readU1 fun n => popInt fun t0 => foldInts (· * ·) (n - 1) t0 fun t => pushInt t k

def divOrFail (f : Int → Int → Int) (a b : Int) (k : Op) : Op :=
  if b = 0 then .fail .zeroDiv else pushInt (f a b) k

def opDivInt (k : Op) : Op :=
  readU1 fun s => .read s fun d => match bytesToInt d with
    | none => .fail .value
    | some dv => popInt fun a => divOrFail Int.fdiv a dv k
def opDivInts (k : Op) : Op := popInt fun a => popInt fun b => divOrFail Int.fdiv a b k
def opModInt (k : Op) : Op :=
  readU1 fun s => .read s fun d => match bytesToInt d with
    | none => .fail .value
    | some dv => popInt fun a => divOrFail Int.fmod a dv k
def opModInts (k : Op) : Op := popInt fun a => popInt fun b => divOrFail Int.fmod a b k

/-! ### floats -/
/-- pop an item that must be exactly 4 bytes (`tert`: TypeError) -/
def popF32T (k : Float → Op) : Op :=
  .pop fun b => if b.length = 4 then k (unpackF32 b) else .fail .type
/-- `bytes_to_float(stack.get())` (`vert`: ValueError) -/
def popF32V (k : Float → Op) : Op :=
  .pop fun b => if b.length = 4 then k (unpackF32 b) else .fail .value

def pushPacked (x : Float) (k : Op) : Op :=
  match packF32 x with
  | some b => .push b k
  | none => .fail .overflow

def finishFloat (x : Float) (k : Op) : Op :=
  if x.isNaN then .fail .value else pushPacked x k

def foldFloats (f : Float → Float → Float) : Nat → Float → (Float → Op) → Op
  | 0, acc, k => k acc
  | n+1, acc, k => popF32T fun z => foldFloats f n (f acc z) k

def opAddFloats (k : Op) : Op := readU1 fun n => foldFloats (· + ·) n 0.0 fun t => finishFloat t k
def opSubFloats (k : Op) : Op :=
  readU1 fun n => popF32T fun t0 => foldFloats (· - ·) (n - 1) t0 fun t => finishFloat t k

def divFloat (a b : Float) (k : Op) : Op :=
  match pyFloatDiv a b with
  | none => .fail .zeroDiv
  | some r => finishFloat r k
def modFloat (a b : Float) (k : Op) : Op :=
  match pyFloatMod a b with
  | none => .fail .zeroDiv
  | some r => finishFloat r k

def opDivFloat (k : Op) : Op := .read 4 fun d => popF32T fun a => divFloat a (unpackF32 d) k
def opDivFloats (k : Op) : Op := popF32T fun a => popF32T fun b => divFloat a b k
def opModFloat (k : Op) : Op := .read 4 fun d => popF32T fun a => modFloat a (unpackF32 d) k
def opModFloats (k : Op) : Op := popF32T fun b => popF32T fun a => modFloat a b k

def opFloatLess (k : Op) : Op := popF32V fun a => popF32V fun b => pushBool (a < b) k
def opFloatLeq (k : Op) : Op := popF32V fun a => popF32V fun b => pushBool (a ≤ b) k
def opIntToFloat (k : Op) : Op :=
  popInt fun z => match intToDouble z with
    | none => .fail .overflow
    | some f => pushPacked f k
def opFloatToInt (k : Op) : Op :=
  popF32V fun x =>
    if x.isNaN then .fail .value
    else if x.isInf then .fail .overflow
    else pushInt (doubleToInt x) k

/-! ### stack manipulation, hashing, comparison -/
def opCopy (k : Op) : Op := readU1 fun n => .pop fun x => pushAll (List.replicate (n + 1) x) k
def opDup (k : Op) : Op := .pop fun x => .push x (.push x k)
def opSha256 (k : Op) : Op := .pop fun x => .push (H.sha256 x) k
def opShake256 (k : Op) : Op := readU1 fun n => .pop fun x => .push (H.shake256 x n) k
def opVerify (k : Op) : Op := .pop fun x => if truthy x then k else .fail .see
def opEqual (k : Op) : Op := .pop fun a => .pop fun b => pushBool (a == b) k
def opEqualVerify (k : Op) : Op := opEqual (opVerify k)
def opNot (k : Op) : Op := .pop fun x => .push (notBytes x) k
def opDepth (k : Op) : Op := .depth fun n => pushInt n k

def swapList (i j : Nat) (l : List Bytes) : List Bytes :=
  match l[i]?, l[j]? with
  | some a, some b => (l.set i b).set j a
  | _, _ => l

/-- `OP_SWAP` with indices already read -/
def swapCore (i j : Nat) (k : Op) : Op :=
  if i = j then k
  else .depth fun d =>
    if d > max i j then
      popN (max i j + 1) fun items => pushAll (swapList i j items).reverse k
    else .fail .see

def opSwap (k : Op) : Op := readU1 fun i => readU1 fun j => swapCore i j k
def opSwap2 (k : Op) : Op := .pop fun a => .pop fun b => .push a (.push b k)
def opReverse (k : Op) : Op :=
  readU1 fun n => .depth fun d =>
    if d ≥ n then popN n fun items => pushAll items k else .fail .see
def opConcat (k : Op) : Op := .pop fun second => .pop fun first => .push (first ++ second) k
def opSplit (k : Op) : Op :=
  popInt fun idx => .pop fun item =>
    if idx < 0 then .fail .see
    else if idx.toNat < item.length then .push (item.take idx.toNat) (.push (item.drop idx.toNat) k)
    else .fail .see
def opConcatStr (k : Op) : Op :=
  .pop fun second => match utf8Decode second with
    | none => .fail .unicode
    | some s2 => .pop fun first => match utf8Decode first with
      | none => .fail .unicode
      | some s1 => .push (utf8Encode (s1 ++ s2)) k
def opSplitStr (k : Op) : Op :=
  popInt fun idx => .pop fun item => match utf8Decode item with
    | none => .fail .unicode
    | some s =>
      if idx < 0 then .fail .see
      else if idx.toNat < s.length then
        .push (utf8Encode (s.take idx.toNat)) (.push (utf8Encode (s.drop idx.toNat)) k)
      else .fail .see
def opLess (k : Op) : Op := popInt fun a => popInt fun b => pushBool (a < b) k
def opLeq (k : Op) : Op := popInt fun a => popInt fun b => pushBool (a ≤ b) k
def bitop (f : Bytes → Bytes → Bytes) (k : Op) : Op := .pop fun a => .pop fun b => .push (f a b) k

/-! ### signatures -/
def flagsAllowed (flag allowed : Nat) : Bool :=
  (List.range 8).all fun i => flag / 2^i % 2 = 0 || allowed / 2^i % 2 = 1

/-- `OP_CHECK_SIG(Tape(allowed))` on a tape without plugins -/
def checkSigCore (allowed : Nat) (k : Op) : Op :=
  .pop fun vkey => .pop fun sig =>
    if vkey.length ≠ 32 then .fail .value
    else if sig.length ≠ 64 ∧ sig.length ≠ 65 then .fail .value
    else
      let flag := if sig.length = 64 then 0 else (sig.getLast?.getD 0).toNat
      let sig64 := sig.take 64
      if !flagsAllowed flag allowed then .fail .see
      else getMessageCore flag (.pop fun m => pushBool (Sodium.verify H C vkey m sig64) k)

def opCheckSig (k : Op) : Op := sigExt cfg (readU1 fun allowed => checkSigCore H C allowed k)
def opCheckSigVerify (k : Op) : Op := opCheckSig H C cfg (opVerify k)

def eraseFirst (x : Bytes) : List Bytes → List Bytes
  | [] => []
  | y :: r => if x = y then r else y :: eraseFirst x r

/-- inner loop of CHECK_MULTISIG: try `sig` against the remaining keys in order -/
def msTryKeys (allowed : Nat) (sig : Bytes) : List Bytes → (Option Bytes → Op) → Op
  | [], k => k none
  | vk :: r, k =>
    .push sig (.push vk (checkSigCore H C allowed (.pop fun res =>
      if truthy res then k (some vk) else msTryKeys allowed sig r k)))

def msLoop (allowed : Nat) : List Bytes → List Bytes → List Bytes → (List Bytes → Op) → Op
  | [], _, confirmed, k => k confirmed
  | sig :: sigs, vkeys, confirmed, k =>
    msTryKeys H C allowed sig vkeys fun hit => match hit with
      | some vk => msLoop allowed sigs (eraseFirst vk vkeys)
                     (if confirmed.contains sig then confirmed else sig :: confirmed) k
      | none => msLoop allowed sigs vkeys confirmed k

def opCheckMultisig (k : Op) : Op :=
  sigExt cfg (readU1 fun allowed => readU1 fun m => readU1 fun n =>
    popN n fun vkeys => popN m fun sigs =>
      msLoop H C allowed sigs vkeys [] fun confirmed =>
        pushBool (confirmed.length = sigs.length) k)
def opCheckMultisigVerify (k : Op) : Op := opCheckMultisig H C cfg (opVerify k)

def opSign (k : Op) : Op :=
  sigExt cfg (readU1 fun flag => .pop fun seed =>
    if seed.length ≠ 32 then .fail .value
    else getMessageCore flag (.pop fun m =>
      let sig0 := Sodium.sign H C seed m
      let sig := if flag ≠ 0 then sig0 ++ [UInt8.ofNat flag] else sig0
      cachePutIf (cfg.flag 9) "s" sig (.push sig k)))

def opSignStack (k : Op) : Op :=
  .pop fun seed => .pop fun m =>
    if seed.length ≠ 32 then .fail .value
    else
      let sig := Sodium.sign H C seed m
      cachePutIf (cfg.flag 9) "s" sig (.push sig k)

def opCheckSigStack (k : Op) : Op :=
  .pop fun vkey =>
    if vkey.length ≠ 32 then .fail .value
    else .pop fun m => .pop fun sig =>
      if sig.length ≠ 64 then .fail .value
      else pushBool (Sodium.verify H C vkey m sig) k

/-! ### time -/
def opCheckTimestamp (k : Op) : Op :=
  .pop fun c =>
    if c = [] then .fail .see
    else .cacheGet (.str (asciiBytes "timestamp")) fun v => match v with
      | some (.atom (.int t)) =>
        match cfg.tsThreshold with
        | none => .fail .see
        | some thr =>
          let cn : Int := natOfBytesBE c
          if t < cn then pushBool false k
          else if t - cfg.now ≥ thr ∧ thr > 0 then pushBool false k
          else pushBool true k
      | _ => .fail .see
def opCheckTimestampVerify (k : Op) : Op := opCheckTimestamp cfg (opVerify k)

def opCheckEpoch (k : Op) : Op :=
  .pop fun c =>
    if c = [] then .fail .see
    else match cfg.epochThreshold with
      | none => .fail .see
      | some thr =>
        if thr < 0 then .fail .see
        else
          let cn : Int := natOfBytesBE c
          if cn - cfg.now ≥ thr then pushBool false k else pushBool true k
def opCheckEpochVerify (k : Op) : Op := opCheckEpoch cfg (opVerify k)

/-! ### control flow -/
def opDef (k : Op) : Op :=
  .read 1 fun h => readU2 fun n => .read n fun body => .define (h.headD 0) body k
def opCall (k : Op) : Op := .guardCount (.read 1 fun h => .call (h.headD 0) k)
def opIf (k : Op) : Op :=
  readU2 fun n => .read n fun body => .pop fun c =>
    if truthy c then .sub .inline body k else k
def opIfElse (k : Op) : Op :=
  readU2 fun n => .read n fun b1 => readU2 fun m => .read m fun b2 => .pop fun c =>
    .sub .inline (if truthy c then b1 else b2) k
def opEval (k : Op) : Op :=
  if cfg.disallowEval then .fail .see
  else .guardCount (.pop fun script =>
    if script = [] then .fail .value else .sub (.eval cfg.evalReturn) script k)
def opTryExcept (k : Op) : Op :=
  readU2 fun n => .read n fun b1 => readU2 fun m => .read m fun b2 => .tryCatch b1 b2 k
def opLoop (k : Op) : Op := readU2 fun n => .read n fun body => .loop body k
def opRandom (k : Op) : Op :=
  popInt fun n =>
    if 0 ≤ n ∧ n ≤ (cfg.lim.maxItemSize : Int) then .rand n.toNat fun b => .push b k
    else .fail .see
def opSetFlag (_k : Op) : Op := readU1 fun n => .read n fun _ => .fail .see
def opUnsetFlag (k : Op) : Op := readU1 fun n => .read n fun _ => k

def opMerkleval (k : Op) : Op :=
  .read 32 fun root =>
    opDup (opSha256 H (opSha256 H (swapCore 1 2 (opSwap2 (opSha256 H (bitop xorBytes
      (.push root (opEqualVerify (opEval cfg k)))))))))

def opNop (k : Op) : Op :=
  .read 1 fun b => match bytesToInt b with
    | some n => if n < 0 then .fail .see else popN n.toNat fun _ => k
    | none => .fail .value

/-! ### scalars and points -/
def opDeriveScalar (k : Op) : Op :=
  .pop fun seed => liftR (Sodium.deriveKeyFromSeed H seed) fun x =>
    cachePutIf (cfg.flag 1) "x" x (.push x k)
def opClampScalar (k : Op) : Op :=
  .read 1 fun b => .pop fun v => liftR (Sodium.clampScalar v (truthy b)) fun x => .push x k
def opAddScalars (k : Op) : Op :=
  readU1 fun n => popN n fun xs => liftR (Sodium.aggregateScalars xs) fun s => .push s k
def foldR (f : Bytes → Bytes → R Bytes) : Nat → Bytes → (Bytes → Op) → Op
  | 0, acc, k => k acc
  | n+1, acc, k => .pop fun x => liftR (f acc x) fun acc' => foldR f n acc' k
def opSubScalars (k : Op) : Op :=
  readU1 fun n => .pop fun t => foldR Sodium.scalarSub (n - 1) t fun r => .push r k
def opDerivePoint (k : Op) : Op :=
  .pop fun x => liftR (Sodium.derivePoint C x) fun X => cachePutIf (cfg.flag 2) "X" X (.push X k)
def opSubPoints (k : Op) : Op :=
  readU1 fun n => .pop fun t => foldR (Sodium.coreSub C) (n - 1) t fun r => .push r k
def opAddPoints (k : Op) : Op :=
  readU1 fun n => popN n fun pts =>
    -- `vert(is_valid_point(pt))` for each, then aggregate_points (which validates again)
    liftR (pts.forM fun pt => do
             if !(← Sodium.isValidPoint C pt) then throw ErrKind.value) fun _ =>
      liftR (Sodium.aggregatePoints C pts) fun s => .push s k

def opMakeAdapterPublic (k : Op) : Op :=
  .pop fun T => .pop fun m => .pop fun seed =>
    liftR (do
      let x ← Sodium.deriveKeyFromSeed H seed
      let X ← Sodium.derivePoint C x
      let nonce := (Sodium.hBig H seed).drop 32
      let r ← Sodium.clampScalar (← Sodium.hSmall H (Sodium.hBig H (nonce ++ m))) false
      let Rp ← Sodium.derivePoint C r
      let RT ← Sodium.aggregatePoints C [Rp, T]
      let ca ← Sodium.clampScalar (← Sodium.hSmall H (RT ++ X ++ m)) false
      let sa ← Sodium.scalarAdd r (← Sodium.scalarMul ca x)
      pure (r, Rp, sa)) fun (r, Rp, sa) =>
    cachePutIf (cfg.flag 3) "r" r (cachePutIf (cfg.flag 4) "R" Rp (cachePutIf (cfg.flag 6) "T" T
      (cachePutIf (cfg.flag 8) "sa" sa (.push Rp (.push sa k)))))

def opMakeAdapterPrivate (k : Op) : Op :=
  .pop fun seed => .pop fun t0 => liftR (Sodium.clampScalar t0 false) fun t => .pop fun m =>
    liftR (do
      let x ← Sodium.deriveKeyFromSeed H seed
      let X ← Sodium.derivePoint C x
      let T ← Sodium.derivePoint C t
      let nonce := (Sodium.hBig H seed).drop 32
      let r ← Sodium.clampScalar (← Sodium.hSmall H (nonce ++ m)) false
      let Rp ← Sodium.derivePoint C r
      let c ← Sodium.clampScalar (← Sodium.hSmall H (Rp ++ X ++ m)) false
      let tr ← Sodium.scalarAdd t r
      let sa ← Sodium.scalarAdd tr (← Sodium.scalarMul c x)
      pure (T, Rp, sa)) fun (T, Rp, sa) =>
    cachePutIf (cfg.flag 4) "R" Rp (cachePutIf (cfg.flag 5) "t" t (cachePutIf (cfg.flag 6) "T" T
      (cachePutIf (cfg.flag 8) "sa" sa (.push T (.push Rp (.push sa k))))))

def opCheckAdapterSig (k : Op) : Op :=
  .pop fun X => .pop fun T => .pop fun m => .pop fun Rp => .pop fun sa =>
    liftR (do
      let saG ← Sodium.baseNoclamp C sa
      let RT ← Sodium.aggregatePoints C [Rp, T]
      let ca ← Sodium.clampScalar (← Sodium.hSmall H (RT ++ X ++ m)) false
      let caX ← Sodium.multNoclamp C ca X
      let RcaX ← Sodium.aggregatePoints C [Rp, caX]
      -- a non-canonical `sa` (≥ L, e.g. bit 255 set) denotes the same point: not accepted
      pure (decide (Sodium.leNat sa < groupL) && saG == RcaX)) fun ok => pushBool ok k

def opDecryptAdapterSig (k : Op) : Op :=
  .pop fun t0 => liftR (Sodium.clampScalar t0 false) fun t => .pop fun Rp => .pop fun sa =>
    liftR (do
      let T ← Sodium.derivePoint C t
      let RT ← Sodium.aggregatePoints C [Rp, T]
      let s ← Sodium.scalarAdd sa t
      pure (RT, s)) fun (RT, s) =>
    cachePutIf (cfg.flag 7) "RT" RT (cachePutIf (cfg.flag 9) "s" s (.push RT (.push s k)))

/-! ### contracts -/
def findContract (id : Bytes) : Option Contract :=
  (cfg.contracts.find? (·.1 = id)).map (·.2)

def logInvoke : Nat := 1000
def logTransfer : Nat := 2000

def opInvoke (k : Op) : Op :=
  .pop fun id => popInt fun argc =>
    if argc < 0 then .fail .see
    else popN argc.toNat fun args =>
      match findContract cfg id with
      | none => .fail .see
      | some c =>
        if !c.invocable then .fail .see
        else .log logInvoke (match c.abi args with
          | .notAList => .fail .type
          | .none_ => k
          | .items l => pushAtoms l
              (if cfg.flag 0 then .cachePut (asciiBytes "IR") (.list l) k else k))

/-- the transfer contract of the shared family -/
def xferProof (p : Bytes) : Bool := p.headD 0 ≠ 0
def xferTransfer (p s _d : Bytes) : Bool := s = [] || p.take 1 == s.take 1
def xferConstraint (p c : Bytes) : Bool := c.take 1 == (p.reverse.take 1)
def xferAggregate (proofs : List Bytes) : Int := (proofs.map List.length).sum

def opCheckTransfer (k : Op) : Op :=
  .pop fun id => popInt fun amount => .pop fun constraint => .pop fun dest => .pop fun cnt =>
    let count := natOfBytesBE cnt
    popN count fun sources => popN count fun proofs =>
      match findContract cfg id with
      | none => .fail .see
      | some c =>
        if !c.transferable then .fail .see
        else
          let okEach := (proofs.zip sources).all fun (p, s) =>
            xferProof p && xferTransfer p s dest && (constraint = [] || xferConstraint p constraint)
          .log logTransfer (pushBool (okEach && amount ≤ xferAggregate proofs) k)

/-! ### templates -/
def logTemplate : Nat := 3000

def ctLoop (flag : Nat) : Nat → Nat → Bool → (Bool → Op) → Op
  | 0, _, ok, k => k ok
  | fuel+1, i, ok, k =>
    if flag / 2^(i-1) % 2 = 0 then ctLoop flag fuel (i+1) ok k
    else .pop fun tmpl => .cacheGet (sigfieldKey i) fun v => match v with
      | none => .fail .key
      | some (.atom (.bytes field)) =>
        -- `Stack()` with default limits holds field and template
        if field.length > 1024 then .fail .see
        else if tmpl.length > 1024 then .fail .see
        else
          let verdict := if cfg.ctPlugins = [] then tmpl == field
                         else cfg.ctPlugins.any fun p => p.judge field tmpl
          let logged : Op → Op := fun k' => if cfg.ctPlugins = [] then k' else .log logTemplate k'
          logged (ctLoop flag fuel (i+1) (ok && verdict) k)
      | some _ => .fail .type

def opCheckTemplate (k : Op) : Op :=
  (if cfg.flag10 then sigExt cfg else id)
    (readU1 fun flag => ctLoop cfg flag 8 1 true fun ok => pushBool ok k)
def opCheckTemplateVerify (k : Op) : Op := opCheckTemplate cfg (opVerify k)

/-! ### GET_VALUE -/
def pushValues : List Atom → Op → Op
  | [], k => k
  | .bytes b :: r, k => .push b (pushValues r k)
  | .bytearray _ :: _, _ => .fail .type
  | .str s :: r, k => .push s (pushValues r k)
  | .int z :: r, k => pushInt z (pushValues r k)
  | .float d :: r, k => pushPacked (Float.ofBits (UInt64.ofNat d)) (pushValues r k)
  | .other :: r, k => pushValues r k

def opGetValue (k : Op) : Op :=
  readU1 fun n => .read n fun key => match utf8Decode key with
    | none => .fail .unicode
    | some _ => .cacheGet (.str key) fun v => match v with
      | none => .fail .see
      | some v => pushValues (itemsOf v) k

/-! ### taproot -/
def opTaproot (k : Op) : Op :=
  .read 1 fun allowed => .pop fun root =>
    if root.length ≠ 32 then .fail .see
    else .peekTop fun top =>
      if top.length = 32 then
        .pop fun pubkey => .pop fun script =>
          liftR (do
            let sc ← Sodium.clampScalar (H.sha256 (pubkey ++ H.sha256 script)) false
            let pt ← Sodium.derivePoint C sc
            Sodium.aggregatePoints C [pt, pubkey]) fun point =>
          if point == root then .push script (opEval cfg k)
          else .push [0x00] k
      else .push root (sigExt cfg (checkSigCore H C (natOfBytesBE allowed) k))

/-! ### dispatch -/
def instr (c : Nat) (k : Op) : Op :=
  match c with
  | 0 => opFalse k | 1 => opTrue k | 2 => opPush0 k | 3 => opPush1 k | 4 => opPush2 k
  | 5 => opGetMessage cfg k | 6 => opPop0 k | 7 => opPop1 k | 8 => opSize k
  | 9 => opWriteCache k | 10 => opReadCache k | 11 => opReadCacheSize k
  | 12 => opReadCacheStack k | 13 => opReadCacheStackSize k
  | 14 => opAddInts k | 15 => opSubInts k | 16 => opMultInts k | 17 => opDivInt k
  | 18 => opDivInts k | 19 => opModInt k | 20 => opModInts k
  | 21 => opAddFloats k | 22 => opSubFloats k | 23 => opDivFloat k | 24 => opDivFloats k
  | 25 => opModFloat k | 26 => opModFloats k | 27 => opAddPoints C k | 28 => opCopy k
  | 29 => opDup k | 30 => opSha256 H k | 31 => opShake256 H k | 32 => opVerify k
  | 33 => opEqual k | 34 => opEqualVerify k | 35 => opCheckSig H C cfg k
  | 36 => opCheckSigVerify H C cfg k | 37 => opCheckTimestamp cfg k
  | 38 => opCheckTimestampVerify cfg k | 39 => opCheckEpoch cfg k | 40 => opCheckEpochVerify cfg k
  | 41 => opDef k | 42 => opCall k | 43 => opIf k | 44 => opIfElse k | 45 => opEval cfg k
  | 46 => opNot k | 47 => opRandom cfg k | 48 => .ret | 49 => opSetFlag k | 50 => opUnsetFlag k
  | 51 => opDepth k | 52 => opSwap k | 53 => opSwap2 k | 54 => opReverse k | 55 => opConcat k
  | 56 => opSplit k | 57 => opConcatStr k | 58 => opSplitStr k | 59 => opCheckTransfer cfg k
  | 60 => opMerkleval H cfg k | 61 => opTryExcept k | 62 => opLess k | 63 => opLeq k
  | 64 => opGetValue k | 65 => opFloatLess k | 66 => opFloatLeq k | 67 => opIntToFloat k
  | 68 => opFloatToInt k | 69 => opLoop k | 70 => opCheckMultisig H C cfg k
  | 71 => opCheckMultisigVerify H C cfg k | 72 => opSign H C cfg k | 73 => opSignStack H C cfg k
  | 74 => opCheckSigStack H C k | 75 => opDeriveScalar H cfg k | 76 => opClampScalar k
  | 77 => opAddScalars k | 78 => opSubScalars k | 79 => opDerivePoint C cfg k
  | 80 => opSubPoints C k | 81 => opMakeAdapterPublic H C cfg k
  | 82 => opMakeAdapterPrivate H C cfg k | 83 => opCheckAdapterSig H C k
  | 84 => opDecryptAdapterSig C cfg k | 85 => opInvoke cfg k | 86 => bitop xorBytes k
  | 87 => bitop orBytes k | 88 => bitop andBytes k | 89 => opCheckTemplate cfg k
  | 90 => opCheckTemplateVerify cfg k | 91 => opTaproot H C cfg k
  | _ => opNop k

def opcodeCount : Nat := 92

end Instr

/-- The op table of the VM for a configuration. -/
def instrTable (H : Hashes) (C : Curve) (cfg : Cfg) : UInt8 → Op :=
  fun c => Instr.instr H C cfg c.toNat .done

end TV
