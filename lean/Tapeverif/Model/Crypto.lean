import Tapeverif.Model.VM
/-! # Cryptographic interface

`Hashes` and `Curve` are *parameters*: theorems quantify over them (with explicit law
hypotheses where needed); the driver instantiates them with concrete implementations
(`Model/Hash.lean`, `Model/Ed25519.lean`) that are validated against hashlib / libsodium
on every run. Everything libsodium / PyNaCl does on top of the group — lenient decoding
rules, canonicity and small-order checks, scalar reduction quirks, RFC 8032 signing and
libsodium's verification rule — is *defined* here, not assumed. -/
namespace TV

structure Hashes where
  sha256 : Bytes → Bytes
  sha512 : Bytes → Bytes
  shake256 : Bytes → Nat → Bytes

/-- The edwards25519 group as libsodium presents it. -/
structure Curve where
  Pt : Type
  add : Pt → Pt → Pt
  neg : Pt → Pt
  smul : Nat → Pt → Pt
  B : Pt
  enc : Pt → Bytes
  dec : Bytes → Option Pt      -- libsodium's lenient decoder (`ge25519_frombytes`)
  isZero : Pt → Bool           -- the identity
  xIsZero : Pt → Bool          -- X = 0 (the identity or the point of order 2)

def fieldP : Nat := 2^255 - 19
def groupL : Nat := 2^252 + 27742317777372353535851937790883648493

abbrev R := Except ErrKind

namespace Sodium
variable (H : Hashes) (C : Curve)

def leNat (b : Bytes) : Nat := natOfBytesLE b
def leBytes32 (n : Nat) : Bytes := natToBytesLE 32 n

/-- `y < p` for the 255-bit field element of an encoding. -/
def isCanonical (b : Bytes) : Bool := leNat b % 2^255 < fieldP

def smallOrder (P : C.Pt) : Bool := C.isZero (C.smul 8 P)

def smallOrderBytes (b : Bytes) : Bool :=
  match C.dec b with
  | some P => smallOrder C P
  | none => false

/-- `crypto_core_ed25519_is_valid_point` on a 32-byte string (libsodium 1.0.18: canonical,
    not small order, decodes, and `L•P` has X = 0). -/
def validPoint32 (b : Bytes) : Bool :=
  match C.dec b with
  | some P => isCanonical b && !smallOrder C P && C.xIsZero (C.smul groupL P)
  | none => false

def isValidPoint (b : Bytes) : R Bool :=
  if b.length = 32 then pure (validPoint32 C b) else throw .type

def coreAdd (a b : Bytes) : R Bytes :=
  if a.length = 32 ∧ b.length = 32 then
    match C.dec a, C.dec b with
    | some P, some Q => pure (C.enc (C.add P Q))
    | _, _ => throw .runtime
  else throw .type

def coreSub (a b : Bytes) : R Bytes :=
  if a.length = 32 ∧ b.length = 32 then
    match C.dec a, C.dec b with
    | some P, some Q => pure (C.enc (C.add P (C.neg Q)))
    | _, _ => throw .runtime
  else throw .type

/-- `crypto_scalarmult_ed25519_base_noclamp`: bit 255 of the scalar is cleared; fails when
    the result is the identity. -/
def baseNoclamp (n : Bytes) : R Bytes :=
  if n.length = 32 then
    let P := C.smul (leNat n % 2^255) C.B
    if C.isZero P then throw .runtime else pure (C.enc P)
  else throw .type

def multNoclamp (n pt : Bytes) : R Bytes :=
  if n.length = 32 ∧ pt.length = 32 then
    if validPoint32 C pt then
      match C.dec pt with
      | some Q =>
        let P := C.smul (leNat n % 2^255) Q
        if C.isZero P then throw .runtime else pure (C.enc P)
      | none => throw .runtime
    else throw .runtime
  else throw .type

/-- `((x + y) mod 2^256) mod L`: the carry out of 32 bytes is dropped. -/
def scalarAdd (a b : Bytes) : R Bytes :=
  if a.length = 32 ∧ b.length = 32 then pure (leBytes32 ((leNat a + leNat b) % 2^256 % groupL))
  else throw .type

def scalarSub (a b : Bytes) : R Bytes :=
  if a.length = 32 ∧ b.length = 32 then
    pure (leBytes32 ((leNat a + (groupL - leNat b % groupL) % groupL) % 2^256 % groupL))
  else throw .type

def scalarMul (a b : Bytes) : R Bytes :=
  if a.length = 32 ∧ b.length = 32 then pure (leBytes32 (leNat a * leNat b % groupL))
  else throw .type

def scalarReduce (b : Bytes) : R Bytes :=
  if b.length = 64 then pure (leBytes32 (leNat b % groupL)) else throw .type

/-- tapescript `clamp_scalar` on a bytes value (`ValueError` when shorter than 32 bytes). -/
def clampScalar (v : Bytes) (fromKey : Bool) : R Bytes :=
  if v.length ≥ 32 then
    let x := v.take 32
    let n := leNat x
    let n := if fromKey then (n / 8 * 8) % 2^254 + 2^254 + (n / 2^255) * 2^255 else n
    pure (leBytes32 (n % 2^255))
  else throw .value

def hBig (parts : Bytes) : Bytes := H.sha512 parts
def hSmall (parts : Bytes) : R Bytes := scalarReduce (hBig H parts)

def deriveKeyFromSeed (seed : Bytes) : R Bytes := clampScalar ((hBig H seed).take 32) true
def derivePoint (x : Bytes) : R Bytes := baseNoclamp C x

/-- tapescript `aggregate_points` for bytes inputs (IndexError on the empty list). -/
def aggregatePoints (pts : List Bytes) : R Bytes := do
  for pt in pts do
    if !(← isValidPoint C pt) then throw .value
  match pts with
  | [] => throw .index
  | p0 :: rest => rest.foldlM (fun acc q => coreAdd C acc q) p0

def aggregateScalars (xs : List Bytes) : R Bytes :=
  match xs with
  | [] => throw .index
  | x0 :: rest => rest.foldlM (fun acc q => scalarAdd acc q) x0

/-- RFC 8032 / libsodium signing with a 32-byte seed. -/
def sign (seed msg : Bytes) : Bytes :=
  let h := H.sha512 seed
  let a := (leNat (h.take 32) / 8 * 8) % 2^254 + 2^254
  let A := C.enc (C.smul a C.B)
  let r := leNat (H.sha512 (h.drop 32 ++ msg)) % groupL
  let Rb := C.enc (C.smul r C.B)
  let k := leNat (H.sha512 (Rb ++ A ++ msg)) % groupL
  Rb ++ leBytes32 ((r + k * a) % groupL)

def publicKey (seed : Bytes) : Bytes :=
  let h := H.sha512 seed
  let a := (leNat (h.take 32) / 8 * 8) % 2^254 + 2^254
  C.enc (C.smul a C.B)

/-- libsodium 1.0.18 `crypto_sign_verify_detached` for a 32-byte key and 64-byte signature. -/
def verify (pk msg sig : Bytes) : Bool :=
  let Rb := sig.take 32
  let s := leNat (sig.drop 32)
  if s ≥ groupL then false
  else if smallOrderBytes C Rb then false
  else if !isCanonical pk || smallOrderBytes C pk then false
  else match C.dec pk with
    | none => false
    | some A =>
      let h := leNat (H.sha512 (Rb ++ pk ++ msg)) % groupL
      let Rc := C.add (C.smul s C.B) (C.neg (C.smul h A))
      C.enc Rc == Rb

/-- tapescript `sign_with_scalar(scalar, message)` (seed omitted). -/
def signWithScalar (x m : Bytes) : R Bytes := do
  if x.length ≠ 32 then throw .value
  let seed ← hSmall H (x ++ m)
  let nonce := (hBig H seed).drop 32
  let X ← baseNoclamp C x
  let r ← clampScalar (← hSmall H (hBig H (nonce ++ m))) false
  let Rb ← baseNoclamp C r
  let c ← clampScalar (← hSmall H (Rb ++ X ++ m)) false
  let s ← scalarAdd r (← scalarMul c x)
  pure (Rb ++ s)

end Sodium
end TV
