import Tapeverif.Model.Crypto
import Tapeverif.Model.Hash
/-! Concrete edwards25519 (extended coordinates over `Nat % p`) for the driver. Validated
    against libsodium on every run; no theorem depends on these definitions. -/
namespace TV.Ed

def p : Nat := fieldP

def powMod (b e m : Nat) : Nat := Id.run do
  let mut r := 1
  let mut base := b % m
  let mut ex := e
  -- 256 iterations suffice for every exponent used here
  for _ in [0:256] do
    if ex % 2 = 1 then r := r * base % m
    base := base * base % m
    ex := ex / 2
  return r

def inv (x : Nat) : Nat := powMod x (p - 2) p
def dConst : Nat := (p - 121665 % p) * inv 121666 % p
def sqrtM1 : Nat := powMod 2 ((p - 1) / 4) p

structure Pt where
  X : Nat
  Y : Nat
  Z : Nat
  T : Nat
deriving Repr, Inhabited

def zero : Pt := ⟨0, 1, 1, 0⟩
def ofAffine (x y : Nat) : Pt := ⟨x, y, 1, x * y % p⟩

def add (P Q : Pt) : Pt :=
  let a := (P.Y + p - P.X) * (Q.Y + p - Q.X) % p
  let b := (P.Y + P.X) * (Q.Y + Q.X) % p
  let c := P.T * (2 * dConst % p) % p * Q.T % p
  let d := P.Z * 2 % p * Q.Z % p
  let e := (b + p - a) % p
  let f := (d + p - c) % p
  let g := (d + c) % p
  let h := (b + a) % p
  ⟨e * f % p, g * h % p, f * g % p, e * h % p⟩

def neg (P : Pt) : Pt := ⟨(p - P.X % p) % p, P.Y, P.Z, (p - P.T % p) % p⟩

def smul (n : Nat) (P : Pt) : Pt := Id.run do
  let mut r := zero
  let mut q := P
  let mut k := n
  let bits := if n = 0 then 0 else Nat.log2 n + 1
  for _ in [0:bits] do
    if k % 2 = 1 then r := add r q
    q := add q q
    k := k / 2
  return r

def toAffine (P : Pt) : Nat × Nat :=
  let zi := inv P.Z
  (P.X * zi % p, P.Y * zi % p)

def enc (P : Pt) : Bytes :=
  let (x, y) := toAffine P
  natToBytesLE 32 (y + (x % 2) * 2^255)

def dec (b : Bytes) : Option Pt :=
  let n := natOfBytesLE b
  let sign := n / 2^255 % 2
  let y := n % 2^255 % p
  let u := (y * y + p - 1) % p
  let v := (dConst * y % p * y + 1) % p
  let x0 := if v = 0 then 0 else powMod (u * inv v % p) ((p + 3) / 8) p
  let ok0 := (v * x0 % p * x0 + p - u) % p = 0
  let x1 := if ok0 then x0 else x0 * sqrtM1 % p
  if (v * x1 % p * x1 + p - u) % p ≠ 0 then none
  else
    let x := if x1 % 2 ≠ sign then (p - x1) % p else x1
    some (ofAffine x y)

def isZero (P : Pt) : Bool := P.X % p = 0 && P.Y % p = P.Z % p
def xIsZero (P : Pt) : Bool := P.X % p = 0

def basePoint : Pt :=
  match dec (natToBytesLE 32 (4 * inv 5 % p)) with
  | some P => P
  | none => zero

def curve : Curve :=
  { Pt := Pt, add := add, neg := neg, smul := smul, B := basePoint, enc := enc, dec := dec,
    isZero := isZero, xIsZero := xIsZero }

def hashes : Hashes := { sha256 := Hash.sha256, sha512 := Hash.sha512, shake256 := Hash.shake256 }

end TV.Ed
