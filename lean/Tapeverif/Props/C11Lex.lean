import Tapeverif.Model.Lex
import Batteries.Data.Char.AsciiCasing
/-!
# C11 — the tokenizer drops, duplicates and reorders nothing

`Model/Lex.lean` models `parsing.get_symbols` (compared with the implementation on every source
the C11 check generates). Proved here, for **every** word list: whenever the tokenizer succeeds,
the words of its symbols, read in order, are exactly the source's words up to letter case
(`symbols_words`) — so whatever the assembler does, it is handed every written word once, in
order; a string literal that closes within its own word (in particular the empty literal `s""`,
repair F18) is one symbol and the words after it are tokenized as if it were not there
(`closed_literal_is_one_symbol`); an open literal ends at the first word containing its quote
(`takeLit_split`); and the fuel of the model's loop is immaterial (`symbolsF_stable`).
-/
set_option linter.unusedSimpArgs false
namespace TV.C11
open TV.Lex

theorem upper_idem (t : Tok) : upper (upper t) = upper t := by
  unfold upper
  rw [List.map_map]
  apply List.map_congr_left
  intro c _
  exact Char.toUpper_toUpper_eq_toUpper c

/-- an open literal's words and the rest are a split of the words that followed it -/
theorem takeLit_split (q : Char) : ∀ (ts ps r : List Tok), takeLit q ts = some (ps, r) → ps ++ r = ts := by
  intro ts
  induction ts with
  | nil => intro ps r h; simp [takeLit] at h
  | cons t ts ih =>
    intro ps r h
    unfold takeLit at h
    split at h
    · cases h; rfl
    · cases hq : takeLit q ts with
      | none => rw [hq] at h; cases h
      | some pr =>
        obtain ⟨ps', r'⟩ := pr
        rw [hq] at h
        cases h
        simp [ih ps' r hq]

theorem takeLit_length (q : Char) (ts ps r : List Tok) (h : takeLit q ts = some (ps, r)) : r.length < ts.length := by
  have hs := takeLit_split q ts ps r h
  have hne : ps ≠ [] := by
    intro hp
    subst hp
    cases ts with
    | nil => simp [takeLit] at h
    | cons t ts =>
      unfold takeLit at h
      split at h
      · cases h
      · cases hq : takeLit q ts with
        | none => rw [hq] at h; cases h
        | some pr => rw [hq] at h; cases h
  rw [← hs, List.length_append]
  have : 0 < ps.length := List.length_pos_iff.mpr hne
  omega

/-- a word that is a symbol of its own is the written word up to letter case -/
theorem normWord_upper (t w : Tok) (h : normWord t = some w) : upper w = upper t := by
  unfold normWord at h
  split at h
  · cases h; rfl
  · rename_i c r
    split at h
    · cases h; exact upper_idem _
    · split at h
      · cases h; exact upper_idem _
      · split at h
        · cases h; exact upper_idem _
        · split at h
          · split at h
            · cases h
            · split at h
              · cases h; exact upper_idem _
              · cases h; rfl
          · cases h; rfl

/-- **nothing dropped, duplicated or reordered**: the words of the symbols, in order, are the
    source's words up to letter case -/
theorem symbolsF_words : ∀ (n : Nat) (ts : List Tok) (syms : List (List Tok)),
    symbolsF n ts = some syms → (syms.flatten).map upper = ts.map upper := by
  intro n
  induction n with
  | zero => intro ts syms h; simp [symbolsF] at h
  | succ n ih =>
    intro ts syms h
    cases ts with
    | nil => simp [symbolsF] at h; subst h; rfl
    | cons t ts =>
      have own : ∀ w, normWord t = some w → (symbolsF n ts).map ([w] :: ·) = some syms →
          (syms.flatten).map upper = (t :: ts).map upper := by
        intro w hw hm
        cases hr : symbolsF n ts with
        | none => rw [hr] at hm; cases hm
        | some rest =>
          rw [hr] at hm
          simp only [Option.map_some, Option.some.injEq] at hm
          subst hm
          simp only [List.flatten_cons, List.map_append, List.map_cons, List.map_nil, List.singleton_append, List.cons.injEq]
          exact ⟨normWord_upper t w hw, ih ts rest hr⟩
      unfold symbolsF at h
      split at h
      · -- `s` q body
        rename_i q body
        split at h
        · split at h
          · -- closed within its own word
            cases hr : symbolsF n ts with
            | none => rw [hr] at h; cases h
            | some rest =>
              rw [hr] at h
              simp only [Option.map_some, Option.some.injEq] at h
              subst h
              simp only [List.flatten_cons, List.map_append, List.map_cons, List.map_nil, List.singleton_append, List.cons.injEq, true_and]
              exact ih ts rest hr
          · -- open: absorbs following words
            cases hl : takeLit q ts with
            | none => rw [hl] at h; cases h
            | some pr =>
              obtain ⟨ps, r⟩ := pr
              rw [hl] at h
              dsimp only at h
              cases hr : symbolsF n r with
              | none => rw [hr] at h; cases h
              | some rest =>
                rw [hr] at h
                simp only [Option.map_some, Option.some.injEq] at h
                subst h
                have hs := takeLit_split q ts ps r hl
                simp only [List.flatten_cons, List.map_append, List.map_cons, List.cons_append, List.cons.injEq, true_and]
                rw [ih r rest hr, ← List.map_append, hs]
        · cases hw : normWord ('s' :: q :: body) with
          | none => rw [hw] at h; cases h
          | some w => rw [hw] at h; exact own w hw h
      · -- @= word
        cases ts with
        | nil => cases h
        | cons t2 ts2 =>
          cases hr : symbolsF n ts2 with
          | none => simp only [hr, Option.map_none] at h; cases h
          | some rest =>
            simp only [hr, Option.map_some, Option.some.injEq] at h
            subst h
            simp only [List.flatten_cons, List.map_append, List.map_cons, List.map_nil, List.singleton_append, List.cons.injEq, true_and]
            exact ih ts2 rest hr
      · -- != word
        cases ts with
        | nil => cases h
        | cons t2 ts2 =>
          cases hr : symbolsF n ts2 with
          | none => simp only [hr, Option.map_none] at h; cases h
          | some rest =>
            simp only [hr, Option.map_some, Option.some.injEq] at h
            subst h
            simp only [List.flatten_cons, List.map_append, List.map_cons, List.map_nil, List.singleton_append, List.cons.injEq, true_and]
            exact ih ts2 rest hr
      · cases hw : normWord t with
        | none => rw [hw] at h; cases h
        | some w => rw [hw] at h; exact own w hw h

/-- … for a whole source text -/
theorem symbols_words (src : List Char) (syms : List (List Tok)) (h : symbols src = some syms) :
    (syms.flatten).map upper = (splitWs src []).map upper :=
  symbolsF_words _ _ _ h

/-- the loop's fuel is immaterial once it exceeds the number of words: `symbols` never fails for
    lack of fuel -/
theorem symbolsF_stable : ∀ (n m : Nat) (ts : List Tok), ts.length < n → ts.length < m →
    symbolsF n ts = symbolsF m ts := by
  intro n
  induction n with
  | zero => intro m ts h; omega
  | succ k ih =>
    intro m ts hn hm
    cases m with
    | zero => omega
    | succ j =>
      cases ts with
      | nil => simp [symbolsF]
      | cons t ts =>
        simp only [List.length_cons] at hn hm
        have key : ∀ l : List Tok, l.length ≤ ts.length → symbolsF k l = symbolsF j l :=
          fun l hl => ih j l (by omega) (by omega)
        unfold symbolsF
        split
        · rename_i q body
          split
          · split
            · rw [key ts (Nat.le_refl _)]
            · cases hl : takeLit q ts with
              | none => rfl
              | some pr =>
                obtain ⟨ps, r⟩ := pr
                dsimp only
                rw [key r (Nat.le_of_lt (takeLit_length q ts ps r hl))]
          · rw [key ts (Nat.le_refl _)]
        · cases ts with
          | nil => rfl
          | cons t2 ts2 =>
            dsimp only
            rw [key ts2 (by simp)]
        · cases ts with
          | nil => rfl
          | cons t2 ts2 =>
            dsimp only
            rw [key ts2 (by simp)]
        · rw [key ts (Nat.le_refl _)]

/-- **a literal that closes within its own word is one symbol** — in particular the empty literal
    `s""` / `s''` (repair F18): the words after it are tokenized as if it were not there -/
theorem closed_literal_is_one_symbol (n : Nat) (q : Char) (body : Tok) (ts : List Tok)
    (hq : q = '"' ∨ q = '\'') (hc : body.contains q = true) :
    symbolsF (n + 1) (('s' :: q :: body) :: ts) = (symbolsF n ts).map ([('s' :: q :: body)] :: ·) := by
  simp only [symbolsF, hq, hc, ↓reduceIte]

example : symbolsF 5 ["read_cache".toList, "s\"\"".toList, "dup".toList] =
    some [["READ_CACHE".toList], ["s\"\"".toList], ["DUP".toList]] := by decide

/-- known finding K8, as a fact about the model: whitespace inside a string literal is lost — the two
    spaces of `s"a  b"` leave no trace in the symbol (the implementation joins the words with one) -/
example : symbols "push s\"a  b\"".toList = some [["PUSH".toList], ["s\"a".toList, "b\"".toList]] ∧
    symbols "push s\"a b\"".toList = some [["PUSH".toList], ["s\"a".toList, "b\"".toList]] := by decide

/-- … and an unquoted / upper-case-prefixed string value is upper-cased like an instruction name -/
example : symbols "push shello".toList = some [["PUSH".toList], ["SHELLO".toList]] := by decide

/-- an unterminated literal, a lone `s`, a trailing `@=` are errors -/
example : symbols "push s\"abc def".toList = none ∧ symbols "push s".toList = none ∧ symbols "true @=".toList = none := by decide

end TV.C11
