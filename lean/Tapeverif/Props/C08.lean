import Tapeverif.Lemmas.VMRun
/-! # C08 — scripts can read but never alter interpreter-owned (string-keyed) cache values

For an arbitrary op table: the vocabulary has no primitive that writes a string key. -/
namespace TV.C08

variable (T : UInt8 → Op) (L : Limits)

/-- C08.1 after any script run — successful or failed, state taken at the point of failure —
    every string-keyed entry is what it was: none added, changed or removed. -/
theorem str_entries_unchanged_script (fuel : Nat) (script : Bytes) (cache : List (CKey × CVal)) (s : Bytes) :
    lookupC (.str s) (runScript T L fuel script cache).shared.cache
      = lookupC (.str s) (initShared cache).cache :=
  (post_shared L (runTape_post T L fuel _ _ (initShared_inv L cache) rfl)).2.1 s

theorem str_entries_unchanged_auth (fuel : Nat) (scripts : List Bytes) (cache : List (CKey × CVal)) (s : Bytes) :
    lookupC (.str s) (runAuthRes T L fuel scripts cache).shared.cache
      = lookupC (.str s) (initShared cache).cache :=
  (runAuthRest_post T L fuel scripts 0 _ (initShared_inv L cache)).2.1 s

/-- … and for every nested run from any reachable state. -/
theorem str_entries_unchanged_tape (fuel : Nat) (fr : Frame) (sh : Shared)
    (hi : StackInv L sh) (hr : sh.returned = false) (s : Bytes) :
    lookupC (.str s) (runTape T L fuel fr sh).shared.cache = lookupC (.str s) sh.cache :=
  (post_shared L (runTape_post T L fuel fr sh hi hr)).2.1 s

/-- the embedder's entries other than the interpreter's own `'returned'` flag survive
    `initShared` untouched -/
theorem initShared_keeps (cache : List (CKey × CVal)) (s : Bytes)
    (hs : s ≠ asciiBytes "returned") :
    lookupC (.str s) (initShared cache).cache = lookupC (.str s) cache := by
  unfold initShared
  simp only
  induction cache with
  | nil => rfl
  | cons kv r ih =>
    obtain ⟨k, v⟩ := kv
    by_cases hk : k = .str (asciiBytes "returned")
    · subst hk
      simp only [List.filter, ne_eq, not_true_eq_false, decide_false]
      rw [ih]
      simp [lookupC, hs]
    · simp only [List.filter, ne_eq, hk, not_false_eq_true, decide_true]
      simp only [lookupC]
      split
      · rfl
      · exact ih

/-- C08.2 consequently the message a signature is checked against and the timestamp used by
    time locks — both read only from string keys — are the same before and after. -/
theorem sigfields_and_timestamp_unchanged (fuel : Nat) (scripts : List Bytes)
    (cache : List (CKey × CVal)) :
    (∀ i : Nat, lookupC (.str (asciiBytes ("sigfield" ++ toString i))) (runAuthRes T L fuel scripts cache).shared.cache
        = lookupC (.str (asciiBytes ("sigfield" ++ toString i))) (initShared cache).cache) ∧
    lookupC (.str (asciiBytes "timestamp")) (runAuthRes T L fuel scripts cache).shared.cache
        = lookupC (.str (asciiBytes "timestamp")) (initShared cache).cache :=
  ⟨fun _ => str_entries_unchanged_auth T L fuel scripts cache _,
   str_entries_unchanged_auth T L fuel scripts cache _⟩

/-- Non-vacuity: a cache-writing primitive with a key *spelling* a protected name leaves the
    string-keyed entry alone. -/
example : lookupC (.str (asciiBytes "timestamp"))
    ((.byt (asciiBytes "timestamp"), .atom (.int 0)) :: [(.str (asciiBytes "timestamp"), .atom (.int 7))])
    = some (.atom (.int 7)) := by decide

end TV.C08
