import Tapeverif.Lemmas.Exec
import Tapeverif.Model.Tools
/-! # C16 — time constraints accept exactly their documented window -/
namespace TV.C16

open Instr

variable (T : UInt8 → Op) (L : Limits)

/-- the documented acceptance condition of `OP_CHECK_TIMESTAMP` -/
def tsAccept (t now thr : Int) (c : Bytes) : Bool :=
  decide ((natOfBytesBE c : Int) ≤ t ∧ (thr ≤ 0 ∨ t - now < thr))

/-- the documented acceptance condition of `OP_CHECK_EPOCH` -/
def epochAccept (now thr : Int) (c : Bytes) : Bool :=
  decide ((natOfBytesBE c : Int) - now < thr)

def tsKey : CKey := .str (asciiBytes "timestamp")

/-- C16.1 `OP_CHECK_TIMESTAMP` with a non-empty constraint `c` of **any length**, any integer
    timestamp `t`, clock `now` and threshold `thr`: it pops `c` and pushes true exactly when
    `t ≥ c ∧ (thr ≤ 0 ∨ t − now < thr)` (the constraint is read unsigned, big-endian). -/
theorem checkTimestamp_iff (cfg : Cfg) (n : Nat) (k : Op) (fr : Frame) (sh : Shared)
    (c : Bytes) (st : List Bytes) (t thr : Int)
    (hc : c ≠ []) (hs : sh.stack = c :: st)
    (ht : lookupC tsKey sh.cache = some (.atom (.int t)))
    (hthr : cfg.tsThreshold = some thr)
    (h1 : 1 ≤ L.maxItemSize) (h2 : st.length < L.maxItems) :
    runOp T L (n+3) (opCheckTimestamp cfg k) fr sh =
      runOp T L n k fr { sh with stack := boolBytes (tsAccept t cfg.now thr c) :: st } := by
  unfold opCheckTimestamp
  rw [runOp_pop T L _ _ fr sh c st hs]
  simp only [hc, ↓reduceIte]
  rw [runOp_cacheGet_str]
  have : lookupC (CKey.str (asciiBytes "timestamp")) ({ sh with stack := st } : Shared).cache
      = some (.atom (.int t)) := ht
  simp only [this, hthr]
  unfold tsAccept pushBool
  by_cases hlt : t < (natOfBytesBE c : Int)
  · simp only [hlt, ↓reduceIte]
    have hd : ¬ ((natOfBytesBE c : Int) ≤ t ∧ (thr ≤ 0 ∨ t - cfg.now < thr)) := by omega
    simp only [hd, decide_false]
    rw [runOp_push T L _ _ _ fr _ (by simp [boolBytes]; omega) (by simpa using h2)]
    try rfl
  · simp only [hlt, ↓reduceIte]
    by_cases hfar : t - cfg.now ≥ thr ∧ thr > 0
    · rw [if_pos hfar]
      have hd : ¬ ((natOfBytesBE c : Int) ≤ t ∧ (thr ≤ 0 ∨ t - cfg.now < thr)) := by omega
      simp only [hd, decide_false]
      rw [runOp_push T L _ _ _ fr _ (by simp [boolBytes]; omega) (by simpa using h2)]
      try rfl
    · rw [if_neg hfar]
      have hd : ((natOfBytesBE c : Int) ≤ t ∧ (thr ≤ 0 ∨ t - cfg.now < thr)) := by omega
      simp only [hd, decide_true]
      rw [runOp_push T L _ _ _ fr _ (by simp [boolBytes]; omega) (by simpa using h2)]
      try rfl

/-- C16.2 `OP_CHECK_EPOCH`: true exactly when `c − now < epoch_threshold` (threshold ≥ 0). -/
theorem checkEpoch_iff (cfg : Cfg) (n : Nat) (k : Op) (fr : Frame) (sh : Shared)
    (c : Bytes) (st : List Bytes) (thr : Int)
    (hc : c ≠ []) (hs : sh.stack = c :: st)
    (hthr : cfg.epochThreshold = some thr) (hpos : 0 ≤ thr)
    (h1 : 1 ≤ L.maxItemSize) (h2 : st.length < L.maxItems) :
    runOp T L (n+2) (opCheckEpoch cfg k) fr sh =
      runOp T L n k fr { sh with stack := boolBytes (epochAccept cfg.now thr c) :: st } := by
  unfold opCheckEpoch
  rw [runOp_pop T L _ _ fr sh c st hs]
  simp only [hc, ↓reduceIte, hthr]
  have hneg : ¬ thr < 0 := by omega
  simp only [hneg, ↓reduceIte]
  unfold epochAccept pushBool
  by_cases hge : (natOfBytesBE c : Int) - cfg.now ≥ thr
  · simp only [hge, ↓reduceIte]
    have hd : ¬ ((natOfBytesBE c : Int) - cfg.now < thr) := by omega
    simp only [hd, decide_false]
    rw [runOp_push T L _ _ _ fr _ (by simp [boolBytes]; omega) (by simpa using h2)]
    try rfl
  · simp only [hge, ↓reduceIte]
    have hd : ((natOfBytesBE c : Int) - cfg.now < thr) := by omega
    simp only [hd, decide_true]
    rw [runOp_push T L _ _ _ fr _ (by simp [boolBytes]; omega) (by simpa using h2)]
    try rfl

/-- C16.3 an empty constraint, a missing / non-integer timestamp or a malformed threshold is
    an error, never true. -/
theorem checkTimestamp_empty_constraint (cfg : Cfg) (n : Nat) (k : Op) (fr : Frame) (sh : Shared)
    (st : List Bytes) (hs : sh.stack = [] :: st) :
    runOp T L (n+2) (opCheckTimestamp cfg k) fr sh = .err (.user .see) { sh with stack := st } := by
  unfold opCheckTimestamp
  rw [runOp_pop T L _ _ fr sh [] st hs]
  simp [runOp]

/-- NOT on a boolean item flips it (used by the before-lock). -/
theorem notBytes_bool (b : Bool) : truthy (notBytes (boolBytes b)) = !b := by
  cases b <;> decide

/-- C16.4 the value a lock leaves for the time-before lock is `¬ tsAccept`; with the two-clause
    acceptance condition this is **not** `t < ts`: it also accepts every `t ≥ ts` that is ahead
    of the verifier clock by the threshold or more (known finding K1). -/
theorem beforeLock_value_iff (t now thr : Int) (c : Bytes) :
    (!tsAccept t now thr c) = decide (t < (natOfBytesBE c : Int) ∨ (thr > 0 ∧ t - now ≥ thr)) := by
  unfold tsAccept
  by_cases h1 : (natOfBytesBE c : Int) ≤ t <;> by_cases h2 : thr ≤ 0 <;> by_cases h3 : t - now < thr <;>
    simp [h1, h2, h3] <;> omega

/-- … and is exactly `t < ts` whenever the future-slack clause is not triggered. -/
theorem beforeLock_value_partial (t now thr : Int) (c : Bytes) (h : ¬ (thr > 0 ∧ t - now ≥ thr)) :
    (!tsAccept t now thr c) = decide (t < (natOfBytesBE c : Int)) := by
  rw [beforeLock_value_iff]
  by_cases h1 : t < (natOfBytesBE c : Int) <;> simp [h1, h]

/-- K1 negation witness: t = now+61, ts = now+10, thr = 60 is accepted although t ≥ ts. -/
example : (!tsAccept (1000 + 61) 1000 60 (natToBytesBE 2 1010)) = true := by decide

/-- Non-vacuity of C16.1 at a boundary: t = c is accepted, t = c − 1 is not. -/
example : tsAccept 1010 1000 60 (natToBytesBE 2 1010) = true ∧
          tsAccept 1009 1000 60 (natToBytesBE 2 1010) = false := by decide

end TV.C16
