import Tapeverif.Lemmas.Exec
import Tapeverif.Lemmas.Codec
import Tapeverif.Lemmas.Fork
import Tapeverif.Model.Auth
import Tapeverif.Gen.Tables
/-! # C20 — unassigned opcodes are soft-fork-safe no-ops -/
namespace TV.C20

open Instr

variable (T : UInt8 → Op) (L : Limits)

/-! ## table obligations over the tables regenerated from /repo on this run -/

/-- the implementation assigns exactly the codes 0 … 91, in order, with the names the model's
    dispatch uses the *positions* of (the names are checked for C11/C12) -/
theorem opcodes_are_0_to_91 : (Gen.opcodes.map (·.1)) = List.range opcodeCount := by decide +kernel

/-- every other byte value 92 … 255 is in the NOP table, named `NOP<code>`, and all NOP entries
    share the one `NOP` function -/
theorem nopcodes_are_92_to_255 :
    Gen.nopcodes = (List.range (256 - opcodeCount)).map (fun i => (i + opcodeCount, "NOP" ++ toString (i + opcodeCount)))
    ∧ Gen.nopIsNOP = true := by decide +kernel

/-- the source literal and the imported table agree (the translator read what is written) -/
theorem opcode_literal_matches_import : Gen.opcodesAst = Gen.opcodes.map (·.2) := by decide +kernel

/-! ## the model's dispatch -/

/-- every code ≥ 92 dispatches to NOP in the model -/
theorem instr_ge_92_is_nop (H : Hashes) (C : Curve) (cfg : Cfg) (c : Nat) (k : Op) (h : 92 ≤ c) :
    instr H C cfg c k = opNop k := by
  unfold instr
  split <;> first | omega | rfl

theorem bytesToInt_single (b : UInt8) :
    bytesToInt [b] = some (if 128 ≤ b.toNat then (b.toNat : Int) - 256 else (b.toNat : Int)) := by
  rw [bytesToInt_cons]
  simp [natOfBytesBE]

/-- NOP with a negative count byte (≥ 0x80) is a script-execution error after reading exactly
    one operand byte; nothing else changes. -/
theorem nop_negative (n : Nat) (k : Op) (fr : Frame) (sh : Shared) (b : UInt8) (rest : Bytes)
    (hr : fr.rest = b :: rest) (hb : 128 ≤ b.toNat) :
    runOp T L (n+2) (opNop k) fr sh = .err (.user .see) sh := by
  unfold opNop
  rw [runOp_read T L _ 1 _ fr sh (by simp [hr])]
  simp only [hr, List.take_succ_cons, List.take_zero, bytesToInt_single, hb, ↓reduceIte]
  have hlt : b.toNat < 256 := b.toNat_lt
  have : ((b.toNat : Int) - 256) < 0 := by omega
  simp only [this, ↓reduceIte]
  exact runOp_fail T L n _ _ _

/-- `popN n` on a stack of at least `n` items removes exactly the top `n` and nothing else. -/
theorem popN_ok (fuel : Nat) : ∀ (n : Nat) (k : List Bytes → Op) (fr : Frame) (sh : Shared)
    (items rest : List Bytes), sh.stack = items ++ rest → items.length = n →
    runOp T L (fuel + n) (popN n k) fr sh = runOp T L fuel (k items) fr { sh with stack := rest } := by
  intro n
  induction n with
  | zero =>
    intro k fr sh items rest hs hl
    have : items = [] := List.length_eq_zero_iff.mp hl
    subst this
    simp only [popN, Nat.add_zero]
    have : sh = { sh with stack := rest } := by cases sh; simp at hs; simp [hs]
    rw [← this]
  | succ m ih =>
    intro k fr sh items rest hs hl
    match items, hl with
    | x :: xs, hl =>
      simp only [popN]
      rw [show fuel + (m + 1) = (fuel + m) + 1 by omega]
      rw [runOp_pop T L _ _ fr sh x (xs ++ rest) (by simpa using hs)]
      rw [ih (fun r => k (x :: r)) fr { sh with stack := xs ++ rest } xs rest rfl (by simpa using hl)]

/-- NOP with count byte `b < 0x80` and at least `b` items on the stack: reads one byte,
    removes exactly `b` items, and has no other effect (cache, flags, definitions, counters
    untouched), then continues. -/
theorem nop_spec (n : Nat) (k : Op) (fr : Frame) (sh : Shared) (b : UInt8) (rest : Bytes)
    (items below : List Bytes)
    (hr : fr.rest = b :: rest) (hb : b.toNat < 128)
    (hs : sh.stack = items ++ below) (hl : items.length = b.toNat) :
    runOp T L (n + b.toNat + 1) (opNop k) fr sh =
      runOp T L n k { fr with rest := rest } { sh with stack := below } := by
  unfold opNop
  rw [runOp_read T L _ 1 _ fr sh (by simp [hr])]
  simp only [hr, List.take_succ_cons, List.take_zero, List.drop_succ_cons, List.drop_zero]
  have hb' : ¬ 128 ≤ b.toNat := by omega
  simp only [bytesToInt_single, hb', ↓reduceIte]
  have hnn : ¬ ((b.toNat : Int) < 0) := by omega
  simp only [hnn, ↓reduceIte, Int.toNat_natCast]
  exact popN_ok T L n b.toNat (fun _ => k) _ sh items below hs hl

/-! ## soft-fork safety -/

/-- A fork op written to the documented contract: it reads the count exactly as NOP does,
    removes that many items, inspects them with an arbitrary predicate `P`, and may fail.
    Its failure is modelled as the *uncatchable* `abort` outcome — this is the property's
    "every script that does not wrap that op in a TRY block": a failure that no TRY catches
    ends the whole run, exactly like `abort`. -/
def forkOp (P : List Bytes → Bool) (k : Op) : Op :=
  .read 1 fun b => match bytesToInt b with
    | some n => if n < 0 then .fail .see else popN n.toNat fun items => if P items then k else .abort
    | none => .fail .value

theorem popN_sim : ∀ (n : Nat) (k' k : List Bytes → Op), (∀ items, OpSim (k' items) (k items)) →
    OpSim (popN n k') (popN n k) := by
  intro n
  induction n with
  | zero => intro k' k h; exact h []
  | succ m ih =>
    intro k' k h
    simp only [popN]
    exact .pop _ _ fun x => ih _ _ fun r => h (x :: r)

theorem forkOp_sim_nop (P : List Bytes → Bool) : OpSim (forkOp P .done) (opNop .done) := by
  unfold forkOp opNop
  refine .read 1 _ _ fun b => ?_
  cases bytesToInt b with
  | none => exact .fail _
  | some n =>
    simp only
    split
    · exact .fail _
    · refine popN_sim _ _ _ fun items => ?_
      split
      · exact .done
      · exact .abort _

/-- the upgraded table: `T` with the fork op installed at code `c` -/
def forked (T : UInt8 → Op) (c : UInt8) (P : List Bytes → Bool) : UInt8 → Op :=
  fun c' => if c' = c then forkOp P .done else T c'

theorem forked_sim (c : UInt8) (P : List Bytes → Bool) (hc : T c = opNop .done) :
    ∀ c', OpSim (forked T c P c') (T c') := by
  intro c'
  unfold forked
  split
  · next h => subst h; rw [hc]; exact forkOp_sim_nop P
  · exact OpSim.refl _

theorem runAuthRest_sim (T' : UInt8 → Op) (hT : ∀ c, OpSim (T' c) (T c)) (fuel : Nat) :
    ∀ (scripts : List Bytes) (count : Nat) (sh : Shared),
      Sim (runAuthRest T' L fuel scripts count sh) (runAuthRest T L fuel scripts count sh) := by
  intro scripts
  induction scripts with
  | nil => intro count sh; exact Or.inl rfl
  | cons s rest ih =>
    intro count sh
    simp only [runAuthRest]
    rcases (sim T' T L hT fuel).2.2 (topFrame s count) { sh with returned := false } with heq | ⟨sh2, hab⟩
    · rw [heq]
      split
      · exact Or.inl rfl
      · exact ih _ _
    · rw [hab]
      exact Or.inr ⟨sh2, rfl⟩

/-- **C20 soft-fork safety.** Let code `c` be a NOP in table `T`, and install at `c` any op that
    reads the count as NOP does, removes that many items, inspects them and may fail (failure
    not caught by a TRY). Then for **every** list of scripts, every cache, limits and fuel: if the
    upgraded VM authorizes, the VM without the fork authorizes too — the two runs are in fact
    identical up to the first failure of the new op. -/
theorem soft_fork_safe (c : UInt8) (P : List Bytes → Bool) (hc : T c = opNop .done)
    (fuel : Nat) (scripts : List Bytes) (cache : List (CKey × CVal))
    (h : runAuth (forked T c P) L fuel scripts cache = true) :
    runAuth T L fuel scripts cache = true := by
  unfold runAuth runAuthRes at *
  rcases runAuthRest_sim T L (forked T c P) (forked_sim T c P hc) fuel scripts 0 (initShared cache) with heq | ⟨sh2, hab⟩
  · rw [← heq]; exact h
  · rw [hab] at h; simp at h

/-- the concrete VM's NOP codes satisfy the hypothesis of `soft_fork_safe` -/
theorem instrTable_nop (H : Hashes) (C : Curve) (cfg : Cfg) (c : UInt8) (h : 92 ≤ c.toNat) :
    instrTable H C cfg c = opNop .done := by
  unfold instrTable
  exact instr_ge_92_is_nop H C cfg c.toNat .done h

/-- Non-vacuity: a fork that rejects (`P = false`) makes the upgraded VM refuse a list the old VM
    authorizes — the implication is not an equivalence, and the hypothesis is satisfiable. -/
example :
    runAuth (forked (fun c => if c = 1 then .push [0xff] .done else opNop .done) 200 (fun _ => true))
      ⟨8, 8, 8⟩ 20 [[200, 0, 1]] [] = true := by rfl

/-- Non-vacuity: NOP 200 with count 2 on a 3-item stack. -/
example : runOp (fun _ => .done) ⟨8, 8, 8⟩ 10 (opNop .done)
    { (default : Frame) with rest := [2, 7] } { (default : Shared) with stack := [[1], [2], [3]] }
    = .ok { (default : Frame) with rest := [7] } { (default : Shared) with stack := [[3]] } := by
  rfl

end TV.C20
