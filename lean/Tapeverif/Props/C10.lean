import Tapeverif.Lemmas.Codec
import Tapeverif.Lemmas.RunInstr
/-! # C10 — integer (and float bit-pattern) encodings are exact inverses

Property theorems only; helper lemmas are in `Lemmas/Codec.lean`. -/
namespace TV.C10

/-- C10.1 decoding the VM encoding of `n` gives `n` back, for every integer. -/
theorem decode_encode (z : Int) : bytesToInt (intToBytes z) = some z := TV.decode_encode z

/-- C10.3a decoding is total exactly on the non-empty strings. -/
theorem decode_total (b : Bytes) : (bytesToInt b).isSome = true ↔ b ≠ [] := by
  cases b with
  | nil => simp [bytesToInt]
  | cons hd tl => simp [bytesToInt_cons]

/-- Range of a decoded value: `len` bytes hold exactly `[-2^(8 len-1), 2^(8 len-1))`,
    written with `128 * 256^(len-1)`. -/
theorem decode_range (hd : UInt8) (tl : Bytes) (z : Int) (h : bytesToInt (hd :: tl) = some z) :
    -((128 * 256 ^ tl.length : Nat) : Int) ≤ z ∧ z < ((128 * 256 ^ tl.length : Nat) : Int) := by
  rw [bytesToInt_cons] at h
  have hlt := natOfBytesBE_lt tl
  have hhd : hd.toNat < 256 := hd.toNat_lt
  generalize 256 ^ tl.length = Q at *
  generalize natOfBytesBE tl = r at *
  simp only [Option.some.injEq] at h
  split at h
  · next h128 =>
    have h1 : 128 * Q ≤ hd.toNat * Q := Nat.mul_le_mul_right _ h128
    have h2 : hd.toNat * Q ≤ 255 * Q := Nat.mul_le_mul_right _ (by omega)
    omega
  · next h128 =>
    have h1 : hd.toNat * Q ≤ 127 * Q := Nat.mul_le_mul_right _ (by omega)
    omega

/-- C10.2a the encoding is never empty. -/
theorem encode_ne_nil (z : Int) : intToBytes z ≠ [] := by
  intro h
  have := decode_encode z
  rw [h] at this
  simp [bytesToInt] at this

/-- C10.2b the top bit of the encoding matches the sign of `n`. -/
theorem encode_sign (z : Int) :
    ∃ hd tl, intToBytes z = hd :: tl ∧ (128 ≤ hd.toNat ↔ z < 0) := by
  have hne := encode_ne_nil z
  have hdec := decode_encode z
  match hb : intToBytes z with
  | [] => exact absurd hb hne
  | hd :: tl =>
    refine ⟨hd, tl, rfl, ?_⟩
    rw [hb, bytesToInt_cons] at hdec
    have hlt := natOfBytesBE_lt tl
    have hhd : hd.toNat < 256 := hd.toNat_lt
    generalize 256 ^ tl.length = Q at *
    generalize natOfBytesBE tl = r at *
    simp only [Option.some.injEq] at hdec
    split at hdec
    · next h128 =>
      have h2 : hd.toNat * Q ≤ 255 * Q := Nat.mul_le_mul_right _ (by omega)
      constructor
      · intro _; omega
      · intro _; exact h128
    · next h128 =>
      constructor
      · intro h; exact absurd h h128
      · intro hz; omega

/-- C10.2c minimality: no byte string that decodes to `z` is shorter than `intToBytes z`;
    hence an exact integer result that fits the item limit in *some* encoding fits in the
    VM's own. -/
theorem encode_minimal (b : Bytes) (z : Int) (h : bytesToInt b = some z) :
    (intToBytes z).length ≤ b.length := by
  cases b with
  | nil => simp [bytesToInt] at h
  | cons hd tl =>
    obtain ⟨hlo, hhi⟩ := decode_range hd tl z h
    rw [intToBytes_length]
    simp only [List.length_cons]
    have hP : 128 * 256 ^ tl.length = 2 ^ ((tl.length + 1) * 8 - 1) := by
      rw [pow256, show (tl.length + 1) * 8 - 1 = 7 + tl.length * 8 by omega, Nat.pow_add]
    rw [hP] at hlo hhi
    generalize hn : tl.length + 1 = n at *
    have hn1 : 1 ≤ n := by omega
    generalize hA : z.natAbs = a
    by_cases hneg : z < 0
    · simp only [hneg, ↓reduceIte]
      have ha : a ≠ 0 := by omega
      simp only [ha, ↓reduceIte]
      have hale : a ≤ 2 ^ (n * 8 - 1) := by omega
      generalize hB : bitLength a = nb
      have hge : 2 ^ (nb - 1) ≤ a := hB ▸ two_pow_le_of_bitLength a ha
      have hlt : a < 2 ^ nb := hB ▸ lt_two_pow_bitLength a
      have hnb : 0 < nb := by
        rcases Nat.eq_zero_or_pos nb with h0 | h0
        · subst h0; simp at hlt; omega
        · exact h0
      -- nb - 1 ≤ n*8 - 1
      have hnb_le : nb ≤ n * 8 := by
        rcases Nat.lt_or_ge (n * 8) nb with hc | hc
        · have : 2 ^ (n * 8) ≤ 2 ^ (nb - 1) := pow_mono (by omega)
          have : 2 ^ (n * 8 - 1) < 2 ^ (n * 8) := Nat.pow_lt_pow_right (by omega) (by omega)
          omega
        · exact hc
      split
      · next hc =>
        -- nb % 8 = 0 and a > 2^(nb - 1): then nb < n*8 strictly
        have h8 := hc.1
        have hgt := hc.2
        have : (nb + 7) / 8 * 8 = nb := by omega
        rw [this] at hgt
        have : nb ≠ n * 8 := by
          intro he; rw [he] at hgt; omega
        omega
      · omega
    · simp only [hneg, ↓reduceIte]
      have hz : z = (a : Int) := by omega
      have halt : a < 2 ^ (n * 8 - 1) := by omega
      by_cases ha : a = 0
      · simp [ha]; omega
      · simp only [ha, ↓reduceIte]
        generalize hB : bitLength a = nb
        have hge : 2 ^ (nb - 1) ≤ a := hB ▸ two_pow_le_of_bitLength a ha
        have hnb_lt : nb - 1 < n * 8 - 1 := lt_pow_of_pow_le_lt hge halt
        split <;> omega

/-- Non-vacuity: concrete encodings on both sides of byte boundaries. -/
example : intToBytes (-128) = [0x80] := by decide
example : intToBytes 128 = [0x00, 0x80] := by decide
example : intToBytes (-129) = [0xff, 0x7f] := by decide
example : intToBytes (2^63 - 1) = [0x7f, 0xff, 0xff, 0xff, 0xff, 0xff, 0xff, 0xff] := by decide
example : bytesToInt [0x00, 0x05] = some 5 ∧ (intToBytes 5).length ≤ 2 := by decide

/-! ### "integer instructions compute exact results at any magnitude that fits the item limit"

The instructions are executed symbolically on the VM model (big-step): operands are *any* items that
decode to integers `a`, `b`, … (unbounded `Int`), the result item is the minimal encoding of the exact
result, and by `decode_encode` it decodes back to exactly that result. The only resource hypothesis is
that the result item fits `stack_max_item_size`. -/
section instructions
open Instr

variable {T : UInt8 → Op} {L : Limits}

/-- popping `n` integer items: the continuation receives the fold of the decoded values -/
theorem foldInts_steps (f : Int → Int → Int) (fr : Frame) : ∀ (n : Nat) (acc : Int) (k : Int → Op) (sh : Shared)
    (bs : List Bytes) (zs : List Int) (st : List Bytes) (r : Res),
    bs.length = n → bs.map bytesToInt = zs.map some → sh.stack = bs ++ st →
    Steps T L (k (zs.foldl f acc)) fr { sh with stack := st } r →
    Steps T L (foldInts f n acc k) fr sh r := by
  intro n
  induction n with
  | zero =>
    intro acc k sh bs zs st r hl hf hs h
    have hb : bs = [] := by cases bs <;> simp_all
    subst hb
    have hz : zs = [] := by cases zs <;> simp_all
    subst hz
    simp only [List.nil_append] at hs
    have hsh : ({ sh with stack := st } : Shared) = sh := by cases sh; simp_all
    rw [hsh] at h
    simpa [foldInts] using h
  | succ n ih =>
    intro acc k sh bs zs st r hl hf hs h
    cases bs with
    | nil => simp at hl
    | cons b bs' =>
      cases zs with
      | nil => simp at hf
      | cons z zs' =>
        simp only [List.map_cons, List.cons.injEq] at hf
        unfold foldInts popInt
        refine Steps.pop b (bs' ++ st) (by simpa using hs) ?_
        rw [hf.1]
        dsimp only
        exact ih (f acc z) k _ bs' zs' st r (by simpa using hl) hf.2 rfl (by simpa using h)

/-- **`OP_ADD_INTS n` is exact**: it replaces the `n` top items, which decode to `zs`, by the minimal
    encoding of their (unbounded) sum — which by `decode_encode` decodes back to exactly that sum. -/
theorem addInts_exact (k : Op) (fr : Frame) (sh : Shared) (n : Nat) (rest : Bytes) (bs : List Bytes) (zs : List Int)
    (st : List Bytes) (r : Res) (hn : n < 256) (hrest : fr.rest = UInt8.ofNat n :: rest)
    (hl : bs.length = n) (hf : bs.map bytesToInt = zs.map some) (hs : sh.stack = bs ++ st)
    (hsz : (intToBytes (zs.foldl (· + ·) 0)).length ≤ L.maxItemSize) (hroom : st.length < L.maxItems)
    (h : Steps T L k { fr with rest := rest } { sh with stack := intToBytes (zs.foldl (· + ·) 0) :: st } r) :
    Steps T L (opAddInts k) fr sh r := by
  unfold opAddInts readU1
  refine Steps.read (by simp [hrest]) ?_
  simp only [hrest, List.take_succ_cons, List.take_zero, List.drop_succ_cons, List.drop_zero, u1_of_nat _ hn]
  refine foldInts_steps _ _ n 0 _ sh bs zs st r hl hf hs ?_
  unfold Instr.pushInt
  exact Steps.push hsz (by simpa using hroom) h

theorem sum_decodes (zs : List Int) : bytesToInt (intToBytes (zs.foldl (· + ·) 0)) = some (zs.foldl (· + ·) 0) := decode_encode _

/-- **`OP_SUBTRACT_INTS n`**: the top item minus the following `n − 1` items, exactly -/
theorem subInts_exact (k : Op) (fr : Frame) (sh : Shared) (n : Nat) (rest : Bytes) (b0 : Bytes) (z0 : Int) (bs : List Bytes) (zs : List Int)
    (st : List Bytes) (r : Res) (hn : n < 256) (hrest : fr.rest = UInt8.ofNat n :: rest)
    (hb0 : bytesToInt b0 = some z0) (hl : bs.length = n - 1) (hf : bs.map bytesToInt = zs.map some)
    (hs : sh.stack = b0 :: (bs ++ st))
    (hsz : (intToBytes (zs.foldl (· - ·) z0)).length ≤ L.maxItemSize) (hroom : st.length < L.maxItems)
    (h : Steps T L k { fr with rest := rest } { sh with stack := intToBytes (zs.foldl (· - ·) z0) :: st } r) :
    Steps T L (opSubInts k) fr sh r := by
  unfold opSubInts readU1
  refine Steps.read (by simp [hrest]) ?_
  simp only [hrest, List.take_succ_cons, List.take_zero, List.drop_succ_cons, List.drop_zero, u1_of_nat _ hn]
  unfold popInt
  refine Steps.pop b0 (bs ++ st) hs ?_
  rw [hb0]
  dsimp only
  refine foldInts_steps _ _ (n - 1) z0 _ _ bs zs st r hl hf rfl ?_
  unfold Instr.pushInt
  exact Steps.push hsz (by simpa using hroom) (by simpa using h)

/-- **`OP_MULT_INTS n`**: the product, exactly -/
theorem multInts_exact (k : Op) (fr : Frame) (sh : Shared) (n : Nat) (rest : Bytes) (b0 : Bytes) (z0 : Int) (bs : List Bytes) (zs : List Int)
    (st : List Bytes) (r : Res) (hn : n < 256) (hrest : fr.rest = UInt8.ofNat n :: rest)
    (hb0 : bytesToInt b0 = some z0) (hl : bs.length = n - 1) (hf : bs.map bytesToInt = zs.map some)
    (hs : sh.stack = b0 :: (bs ++ st))
    (hsz : (intToBytes (zs.foldl (· * ·) z0)).length ≤ L.maxItemSize) (hroom : st.length < L.maxItems)
    (h : Steps T L k { fr with rest := rest } { sh with stack := intToBytes (zs.foldl (· * ·) z0) :: st } r) :
    Steps T L (opMultInts k) fr sh r := by
  unfold opMultInts readU1
  refine Steps.read (by simp [hrest]) ?_
  simp only [hrest, List.take_succ_cons, List.take_zero, List.drop_succ_cons, List.drop_zero, u1_of_nat _ hn]
  unfold popInt
  refine Steps.pop b0 (bs ++ st) hs ?_
  rw [hb0]
  dsimp only
  refine foldInts_steps _ _ (n - 1) z0 _ _ bs zs st r hl hf rfl ?_
  unfold Instr.pushInt
  exact Steps.push hsz (by simpa using hroom) (by simpa using h)

/-- **`OP_DIV_INTS` / `OP_MOD_INTS`**: floor division and its remainder on the decoded (unbounded)
    integers — top item divided by the second — or `ZeroDivisionError` when the divisor is 0 -/
theorem divInts_exact (k : Op) (fr : Frame) (sh : Shared) (ba bb : Bytes) (a b : Int) (st : List Bytes) (r : Res)
    (ha : bytesToInt ba = some a) (hb : bytesToInt bb = some b) (hs : sh.stack = ba :: bb :: st) (hb0 : b ≠ 0)
    (hsz : (intToBytes (Int.fdiv a b)).length ≤ L.maxItemSize) (hroom : st.length < L.maxItems)
    (h : Steps T L k fr { sh with stack := intToBytes (Int.fdiv a b) :: st } r) :
    Steps T L (opDivInts k) fr sh r := by
  unfold opDivInts popInt
  refine Steps.pop ba (bb :: st) hs ?_
  rw [ha]; dsimp only
  refine Steps.pop bb st rfl ?_
  rw [hb]; dsimp only
  unfold divOrFail
  rw [if_neg hb0]
  unfold Instr.pushInt
  exact Steps.push hsz (by simpa using hroom) (by simpa using h)

theorem divInts_zero (k : Op) (fr : Frame) (sh : Shared) (ba bb : Bytes) (a : Int) (st : List Bytes)
    (ha : bytesToInt ba = some a) (hb : bytesToInt bb = some 0) (hs : sh.stack = ba :: bb :: st) :
    Steps T L (opDivInts k) fr sh (.err (.user .zeroDiv) { sh with stack := st }) := by
  unfold opDivInts popInt
  refine Steps.pop ba (bb :: st) hs ?_
  rw [ha]; dsimp only
  refine Steps.pop bb st rfl ?_
  rw [hb]; dsimp only
  unfold divOrFail
  rw [if_pos rfl]
  exact Steps.fail _ _ _

theorem modInts_exact (k : Op) (fr : Frame) (sh : Shared) (ba bb : Bytes) (a b : Int) (st : List Bytes) (r : Res)
    (ha : bytesToInt ba = some a) (hb : bytesToInt bb = some b) (hs : sh.stack = ba :: bb :: st) (hb0 : b ≠ 0)
    (hsz : (intToBytes (Int.fmod a b)).length ≤ L.maxItemSize) (hroom : st.length < L.maxItems)
    (h : Steps T L k fr { sh with stack := intToBytes (Int.fmod a b) :: st } r) :
    Steps T L (opModInts k) fr sh r := by
  unfold opModInts popInt
  refine Steps.pop ba (bb :: st) hs ?_
  rw [ha]; dsimp only
  refine Steps.pop bb st rfl ?_
  rw [hb]; dsimp only
  unfold divOrFail
  rw [if_neg hb0]
  unfold Instr.pushInt
  exact Steps.push hsz (by simpa using hroom) (by simpa using h)

/-- **`OP_LESS` / `OP_LESS_OR_EQUAL`** compare the decoded integers: top item `<` / `≤` second item -/
theorem less_exact (k : Op) (fr : Frame) (sh : Shared) (ba bb : Bytes) (a b : Int) (st : List Bytes) (r : Res)
    (ha : bytesToInt ba = some a) (hb : bytesToInt bb = some b) (hs : sh.stack = ba :: bb :: st)
    (h1 : 1 ≤ L.maxItemSize) (hroom : st.length < L.maxItems)
    (h : Steps T L k fr { sh with stack := boolBytes (decide (a < b)) :: st } r) :
    Steps T L (opLess k) fr sh r := by
  unfold opLess popInt
  refine Steps.pop ba (bb :: st) hs ?_
  rw [ha]; dsimp only
  refine Steps.pop bb st rfl ?_
  rw [hb]; dsimp only
  unfold pushBool
  exact Steps.push (by cases (decide (a < b)) <;> simp [boolBytes] <;> omega) (by simpa using hroom) (by simpa using h)

theorem leq_exact (k : Op) (fr : Frame) (sh : Shared) (ba bb : Bytes) (a b : Int) (st : List Bytes) (r : Res)
    (ha : bytesToInt ba = some a) (hb : bytesToInt bb = some b) (hs : sh.stack = ba :: bb :: st)
    (h1 : 1 ≤ L.maxItemSize) (hroom : st.length < L.maxItems)
    (h : Steps T L k fr { sh with stack := boolBytes (decide (a ≤ b)) :: st } r) :
    Steps T L (opLeq k) fr sh r := by
  unfold opLeq popInt
  refine Steps.pop ba (bb :: st) hs ?_
  rw [ha]; dsimp only
  refine Steps.pop bb st rfl ?_
  rw [hb]; dsimp only
  unfold pushBool
  exact Steps.push (by cases (decide (a ≤ b)) <;> simp [boolBytes] <;> omega) (by simpa using hroom) (by simpa using h)

/-- Python's `//` and `%` are floor division: the identity `a = (a // b)·b + a % b` and the sign
    of the remainder follow the divisor (stated for the model's `Int.fdiv` / `Int.fmod`) -/
theorem fdiv_fmod (a b : Int) : Int.fdiv a b * b + Int.fmod a b = a := by
  rw [Int.mul_comm]; exact Int.mul_fdiv_add_fmod a b


end instructions

end TV.C10
