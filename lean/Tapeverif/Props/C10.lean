import Tapeverif.Lemmas.Codec
/-! # C10 — integer (and float bit-pattern) encodings are exact inverses

Property theorems only; helper lemmas are in `Lemmas/Codec.lean`. -/
namespace TV.C10

/-- C10.1 decoding the VM encoding of `n` gives `n` back, for every integer. -/
theorem decode_encode (z : Int) : bytesToInt (intToBytes z) = some z := TV.decode_encode z

/-- C10.3a decoding is total exactly on the non-empty strings. -/
theorem decode_total (b : Bytes) : (bytesToInt b).isSome = true ↔ b ≠ [] := by
  cases b with
  | nil => simp [bytesToInt]
  | cons hd tl => simp [bytesToInt_cons]

/-- Range of a decoded value: `len` bytes hold exactly `[-2^(8 len-1), 2^(8 len-1))`,
    written with `128 * 256^(len-1)`. -/
theorem decode_range (hd : UInt8) (tl : Bytes) (z : Int) (h : bytesToInt (hd :: tl) = some z) :
    -((128 * 256 ^ tl.length : Nat) : Int) ≤ z ∧ z < ((128 * 256 ^ tl.length : Nat) : Int) := by
  rw [bytesToInt_cons] at h
  have hlt := natOfBytesBE_lt tl
  have hhd : hd.toNat < 256 := hd.toNat_lt
  generalize 256 ^ tl.length = Q at *
  generalize natOfBytesBE tl = r at *
  simp only [Option.some.injEq] at h
  split at h
  · next h128 =>
    have h1 : 128 * Q ≤ hd.toNat * Q := Nat.mul_le_mul_right _ h128
    have h2 : hd.toNat * Q ≤ 255 * Q := Nat.mul_le_mul_right _ (by omega)
    omega
  · next h128 =>
    have h1 : hd.toNat * Q ≤ 127 * Q := Nat.mul_le_mul_right _ (by omega)
    omega

/-- C10.2a the encoding is never empty. -/
theorem encode_ne_nil (z : Int) : intToBytes z ≠ [] := by
  intro h
  have := decode_encode z
  rw [h] at this
  simp [bytesToInt] at this

/-- C10.2b the top bit of the encoding matches the sign of `n`. -/
theorem encode_sign (z : Int) :
    ∃ hd tl, intToBytes z = hd :: tl ∧ (128 ≤ hd.toNat ↔ z < 0) := by
  have hne := encode_ne_nil z
  have hdec := decode_encode z
  match hb : intToBytes z with
  | [] => exact absurd hb hne
  | hd :: tl =>
    refine ⟨hd, tl, rfl, ?_⟩
    rw [hb, bytesToInt_cons] at hdec
    have hlt := natOfBytesBE_lt tl
    have hhd : hd.toNat < 256 := hd.toNat_lt
    generalize 256 ^ tl.length = Q at *
    generalize natOfBytesBE tl = r at *
    simp only [Option.some.injEq] at hdec
    split at hdec
    · next h128 =>
      have h2 : hd.toNat * Q ≤ 255 * Q := Nat.mul_le_mul_right _ (by omega)
      constructor
      · intro _; omega
      · intro _; exact h128
    · next h128 =>
      constructor
      · intro h; exact absurd h h128
      · intro hz; omega

/-- C10.2c minimality: no byte string that decodes to `z` is shorter than `intToBytes z`;
    hence an exact integer result that fits the item limit in *some* encoding fits in the
    VM's own. -/
theorem encode_minimal (b : Bytes) (z : Int) (h : bytesToInt b = some z) :
    (intToBytes z).length ≤ b.length := by
  cases b with
  | nil => simp [bytesToInt] at h
  | cons hd tl =>
    obtain ⟨hlo, hhi⟩ := decode_range hd tl z h
    rw [intToBytes_length]
    simp only [List.length_cons]
    have hP : 128 * 256 ^ tl.length = 2 ^ ((tl.length + 1) * 8 - 1) := by
      rw [pow256, show (tl.length + 1) * 8 - 1 = 7 + tl.length * 8 by omega, Nat.pow_add]
    rw [hP] at hlo hhi
    generalize hn : tl.length + 1 = n at *
    have hn1 : 1 ≤ n := by omega
    generalize hA : z.natAbs = a
    by_cases hneg : z < 0
    · simp only [hneg, ↓reduceIte]
      have ha : a ≠ 0 := by omega
      simp only [ha, ↓reduceIte]
      have hale : a ≤ 2 ^ (n * 8 - 1) := by omega
      generalize hB : bitLength a = nb
      have hge : 2 ^ (nb - 1) ≤ a := hB ▸ two_pow_le_of_bitLength a ha
      have hlt : a < 2 ^ nb := hB ▸ lt_two_pow_bitLength a
      have hnb : 0 < nb := by
        rcases Nat.eq_zero_or_pos nb with h0 | h0
        · subst h0; simp at hlt; omega
        · exact h0
      -- nb - 1 ≤ n*8 - 1
      have hnb_le : nb ≤ n * 8 := by
        rcases Nat.lt_or_ge (n * 8) nb with hc | hc
        · have : 2 ^ (n * 8) ≤ 2 ^ (nb - 1) := pow_mono (by omega)
          have : 2 ^ (n * 8 - 1) < 2 ^ (n * 8) := Nat.pow_lt_pow_right (by omega) (by omega)
          omega
        · exact hc
      split
      · next hc =>
        -- nb % 8 = 0 and a > 2^(nb - 1): then nb < n*8 strictly
        have h8 := hc.1
        have hgt := hc.2
        have : (nb + 7) / 8 * 8 = nb := by omega
        rw [this] at hgt
        have : nb ≠ n * 8 := by
          intro he; rw [he] at hgt; omega
        omega
      · omega
    · simp only [hneg, ↓reduceIte]
      have hz : z = (a : Int) := by omega
      have halt : a < 2 ^ (n * 8 - 1) := by omega
      by_cases ha : a = 0
      · simp [ha]; omega
      · simp only [ha, ↓reduceIte]
        generalize hB : bitLength a = nb
        have hge : 2 ^ (nb - 1) ≤ a := hB ▸ two_pow_le_of_bitLength a ha
        have hnb_lt : nb - 1 < n * 8 - 1 := lt_pow_of_pow_le_lt hge halt
        split <;> omega

/-- Non-vacuity: concrete encodings on both sides of byte boundaries. -/
example : intToBytes (-128) = [0x80] := by decide
example : intToBytes 128 = [0x00, 0x80] := by decide
example : intToBytes (-129) = [0xff, 0x7f] := by decide
example : intToBytes (2^63 - 1) = [0x7f, 0xff, 0xff, 0xff, 0xff, 0xff, 0xff, 0xff] := by decide
example : bytesToInt [0x00, 0x05] = some 5 ∧ (intToBytes 5).length ≤ 2 := by decide

end TV.C10
