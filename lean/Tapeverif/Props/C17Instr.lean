import Tapeverif.Props.C17
import Tapeverif.Lemmas.Run
/-!
# C17 — the adapter-signature instructions, exactly

`Props/C17.lean` proves the adapter-signature facts in any commutative group and bridges the model's
scalar functions to that arithmetic. Here the two instructions a verifier executes are related to
those functions: what `OP_DECRYPT_ADAPTER_SIG` and `OP_CHECK_ADAPTER_SIG` leave on the stack is
exactly the value of the scalar / point functions on the popped items — so the algebra applies to
the instructions' outputs.
-/
namespace TV.C17
open Instr

variable (H : Hashes) (C : Curve)

/-- the cache after `OP_DECRYPT_ADAPTER_SIG`: the cache-copy flags 7 and 9 decide whether `RT` and
    `s` are *also* written there -/
def decCache (cfg : Cfg) (cache : List (CKey × CVal)) (RT s : Bytes) : List (CKey × CVal) :=
  (if cfg.flag 9 then [(CKey.byt (asciiBytes "s"), CVal.atom (Atom.bytes s))] else []) ++
  ((if cfg.flag 7 then [(CKey.byt (asciiBytes "RT"), CVal.atom (Atom.bytes RT))] else []) ++ cache)

/-- **`OP_DECRYPT_ADAPTER_SIG`, exactly.** With the tweak scalar on top of `R` and `sa`: the
    instruction continues with `s = sa + t` on top of `RT = R + t·G` (as the model's scalar / point
    functions compute them) whatever the cache-copy flags are; the flags only add cache entries. -/
theorem decryptAdapterSig_instruction (cfg : Cfg) (T : UInt8 → Op) (k : Op) (fr : Frame) (sh : Shared)
    (t0 Rp sa t Tp RT s : Bytes) (st : List Bytes) (r : Res)
    (hs : sh.stack = t0 :: Rp :: sa :: st)
    (ht : Sodium.clampScalar t0 false = .ok t) (hT : Sodium.derivePoint C t = .ok Tp)
    (hRT : Sodium.aggregatePoints C [Rp, Tp] = .ok RT) (hsum : Sodium.scalarAdd sa t = .ok s)
    (hRTl : RT.length ≤ cfg.lim.maxItemSize) (hsl : s.length ≤ cfg.lim.maxItemSize) (hroom : st.length + 1 < cfg.lim.maxItems)
    (hk : Steps T cfg.lim k fr { sh with stack := s :: RT :: st, cache := decCache cfg sh.cache RT s } r) :
    Steps T cfg.lim (opDecryptAdapterSig C cfg k) fr sh r := by
  unfold opDecryptAdapterSig
  nstep Steps.pop t0 (Rp :: sa :: st) hs ?_
  rw [ht]
  simp only [liftR]
  nstep Steps.pop Rp (sa :: st) rfl ?_
  nstep Steps.pop sa st rfl ?_
  simp only [bind, Except.bind, hT, hRT, hsum, pure, Except.pure]
  unfold cachePutIf decCache at *
  by_cases h7 : cfg.flag 7 = true <;> by_cases h9 : cfg.flag 9 = true
  all_goals
    simp only [h7, h9, ↓reduceIte, Bool.false_eq_true, List.nil_append, List.cons_append] at hk ⊢
  · nstep Steps.cachePut ?_
    nstep Steps.cachePut ?_
    nstep Steps.push hRTl (by simp; omega) ?_
    nstep Steps.push hsl (by simp; omega) ?_
    simpa [eKey, asciiBytes] using hk
  · nstep Steps.cachePut ?_
    nstep Steps.push hRTl (by simp; omega) ?_
    nstep Steps.push hsl (by simp; omega) ?_
    simpa [eKey, asciiBytes] using hk
  · nstep Steps.cachePut ?_
    nstep Steps.push hRTl (by simp; omega) ?_
    nstep Steps.push hsl (by simp; omega) ?_
    simpa [eKey, asciiBytes] using hk
  · nstep Steps.push hRTl (by simp; omega) ?_
    nstep Steps.push hsl (by simp; omega) ?_
    simpa using hk

/-- the adapter check as a pure function of the five popped items -/
def adapterCheck (X Tp m Rp sa : Bytes) : R Bool := do
  let saG ← Sodium.baseNoclamp C sa
  let RT ← Sodium.aggregatePoints C [Rp, Tp]
  let ca ← Sodium.clampScalar (← Sodium.hSmall H (RT ++ X ++ m)) false
  let caX ← Sodium.multNoclamp C ca X
  let RcaX ← Sodium.aggregatePoints C [Rp, caX]
  pure (decide (Sodium.leNat sa < groupL) && saG == RcaX)

/-- **`OP_CHECK_ADAPTER_SIG`, exactly**: it pushes the Boolean `sa < L ∧ sa·G == R + ca·X` with
    `ca = H(R+T ‖ X ‖ m)` — or ends in the error the scalar / point functions raise. -/
theorem checkAdapterSig_instruction (cfg : Cfg) (T : UInt8 → Op) (k : Op) (fr : Frame) (sh : Shared)
    (X Tp m Rp sa : Bytes) (st : List Bytes) (r : Res)
    (hs : sh.stack = X :: Tp :: m :: Rp :: sa :: st) (hroom : st.length < cfg.lim.maxItems) (h1 : 1 ≤ cfg.lim.maxItemSize)
    (hk : match adapterCheck H C X Tp m Rp sa with
          | .ok b => Steps T cfg.lim k fr { sh with stack := boolBytes b :: st } r
          | .error e => r = .err (.user e) { sh with stack := st }) :
    Steps T cfg.lim (opCheckAdapterSig H C k) fr sh r := by
  unfold opCheckAdapterSig
  nstep Steps.pop X (Tp :: m :: Rp :: sa :: st) hs ?_
  nstep Steps.pop Tp (m :: Rp :: sa :: st) rfl ?_
  nstep Steps.pop m (Rp :: sa :: st) rfl ?_
  nstep Steps.pop Rp (sa :: st) rfl ?_
  nstep Steps.pop sa st rfl ?_
  change Steps T cfg.lim (liftR (adapterCheck H C X Tp m Rp sa) fun ok => pushBool ok k) fr _ r
  cases hc : adapterCheck H C X Tp m Rp sa with
  | error e =>
    rw [hc] at hk
    subst hk
    simp only [liftR]
    exact Steps.fail e _ _
  | ok b =>
    rw [hc] at hk
    simp only [liftR, pushBool]
    nstep Steps.push (by cases b <;> simp [boolBytes] <;> omega) (by simpa using hroom) ?_
    exact hk


/-- a non-canonical adapter scalar is never accepted (the repaired check, fix F17) -/
theorem adapterCheck_noncanonical (X Tp m Rp sa : Bytes) (h : groupL ≤ Sodium.leNat sa) :
    adapterCheck H C X Tp m Rp sa ≠ .ok true := by
  unfold adapterCheck
  have hd : decide (Sodium.leNat sa < groupL) = false := by simp; omega
  simp only [hd, Bool.false_and, bind, Except.bind, pure, Except.pure]
  intro hc
  repeat' (split at hc)
  all_goals cases hc

/-- the values `OP_DECRYPT_ADAPTER_SIG` pushes, in the vocabulary of the group-level theorems:
    for a 32-byte tweak scalar (bit 255 clear) and a 32-byte adapter scalar whose sum does not carry
    out of 256 bits, `T = enc((t mod 2^255)·B)` and `s = (sa + t) mod L`. -/
theorem decrypt_values (t sa : Bytes) (ht : t.length = 32) (hsa : sa.length = 32)
    (hz : C.isZero (C.smul (Sodium.leNat t % 2 ^ 255) C.B) = false)
    (hsum : Sodium.leNat sa + Sodium.leNat t < 2 ^ 256) :
    Sodium.derivePoint C t = .ok (C.enc (C.smul (Sodium.leNat t % 2 ^ 255) C.B)) ∧
    Sodium.scalarAdd sa t = .ok (Sodium.leBytes32 ((Sodium.leNat sa + Sodium.leNat t) % groupL)) :=
  ⟨derivePoint_is_smul C t ht hz, scalarAdd_is_add_mod sa t hsa ht hsum⟩

end TV.C17
