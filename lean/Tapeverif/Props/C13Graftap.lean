import Tapeverif.Props.C13Locks
import Tapeverif.Props.C05Locks
/-!
# C13 / C05 — the graftap lock: a taproot lock that commits to a graftroot script

`make_graftap_lock(pk)` is `make_taproot_lock(pk, committed)` with the committed script
`dup swap 1 2 push <pk> check_sig_stack verify eval`. `Props/C05Locks.lean` shows that the taproot
lock, handed a (script, key) pair that recomputes to its root, ends with exactly the committed
script's own outcome. Here the committed script itself is executed: with (surrogate, signature) on
the stack it ends with exactly the surrogate's outcome when the signature verifies under `pk` over
the surrogate's bytes, and with the VERIFY failure — the surrogate never evaluated — when it does
not. Composed: the script-spend path of the graftap lock.
-/
namespace TV.C13
open Instr Tools

variable (H : Hashes) (C : Curve) (cfg : Cfg)

theorem graftapCommitted_bytes (pk : Bytes) :
    graftapCommitted pk = DUP ++ (SWAP 1 2 ++ (pushB pk ++ (CSS ++ (opc VERIFY ++ EVAL)))) := by
  simp [graftapCommitted, List.append_assoc]

theorem graftapCommitted_length (pk : Bytes) (hpk : pk.length = 32) : (graftapCommitted pk).length = 41 := by
  have : (pushB pk).length = 34 := by
    unfold pushB pushBytes
    simp [hpk, opc, natToBytesBE_length]
  simp [graftapCommitted_bytes, this, DUP, SWAP, CSS, EVAL, opc, VERIFY]

set_option maxHeartbeats 1600000 in
/-- **the committed script, a surrogate the key signed**: evaluated (as `OP_TAPROOT` / `OP_EVAL` do,
    in an evaluation frame) on (surrogate, signature), it evaluates the surrogate on the remaining
    stack and ends with exactly the surrogate's own outcome -/
theorem graftapCommitted_accepts (hev : cfg.disallowEval = false)
    (pk script ssig : Bytes) (st : List Bytes) (sh : Shared) (count d : Nat) (rL : Res)
    (hpk : pk.length = 32) (hsl : ssig.length = 64)
    (hs : sh.stack = script :: ssig :: st) (hr : sh.returned = false)
    (hscr : script.length ≤ cfg.lim.maxItemSize) (hne : script ≠ [])
    (hsz : 64 ≤ cfg.lim.maxItemSize) (hroom : st.length + 4 ≤ cfg.lim.maxItems) (hcnt : count + 1 < cfg.lim.callLimit)
    (hgood : Sodium.verify H C pk script ssig = true)
    (hL : TSteps (instrTable H C cfg) cfg.lim (evalFrame script (count + 1) (copyDict { sh with stack := st } d).1)
            (copyDict { sh with stack := st } d).2 rL) :
    Ends (instrTable H C cfg) cfg.lim (evalFrame (graftapCommitted pk) count d) sh
      (fun r => Res.summary r = Res.summary rL) := by
  unfold evalFrame
  rw [graftapCommitted_length pk hpk, graftapCommitted_bytes]
  have hcap : (41 : Nat) < 41 + 1 := by omega
  refine Ends.step (fun r h => run_dup H C cfg _ sh _ script (ssig :: st) r rfl hcap hr hs hscr (by simp; omega) h) ?_
  dsimp only
  refine Ends.step (fun r h => run_swap12 H C cfg _ _ _ script script ssig st r rfl hcap hr rfl hscr hscr (by omega) (by omega) h) ?_
  dsimp only
  refine Ends.step (fun r h => run_pushB H C cfg _ _ pk _ r (by omega) (by omega) rfl hcap hr (by omega) (by simp; omega) h) ?_
  dsimp only
  refine Ends.step (fun r h => run_css H C cfg _ _ (opc VERIFY ++ EVAL) pk script ssig (script :: st) r rfl hcap hr rfl hpk hsl (by omega) (by simp; omega) h) ?_
  dsimp only
  refine Ends.step (fun r h => run_verify_true H C cfg _ _ EVAL (boolBytes (Sodium.verify H C pk script ssig)) (script :: st) r rfl hcap hr rfl (by rw [hgood]; decide) h) ?_
  dsimp only
  refine ends_eval_last H C cfg hev _ _ script st rL rfl hcap hr rfl hne (by simpa [getCount] using hcnt) ?_
  simpa [getCount] using hL

set_option maxHeartbeats 1600000 in
/-- **the committed script, a surrogate the key did not sign**: it ends in the VERIFY failure; the
    surrogate is never evaluated (the failure precedes the EVAL) -/
theorem graftapCommitted_rejects
    (pk script ssig : Bytes) (st : List Bytes) (sh : Shared) (count d : Nat)
    (hpk : pk.length = 32) (hsl : ssig.length = 64)
    (hs : sh.stack = script :: ssig :: st) (hr : sh.returned = false)
    (hscr : script.length ≤ cfg.lim.maxItemSize)
    (hsz : 64 ≤ cfg.lim.maxItemSize) (hroom : st.length + 4 ≤ cfg.lim.maxItems)
    (hbad : Sodium.verify H C pk script ssig = false) :
    TSteps (instrTable H C cfg) cfg.lim (evalFrame (graftapCommitted pk) count d) sh
      (.err (.user .see) { sh with stack := script :: st }) := by
  unfold evalFrame
  rw [graftapCommitted_length pk hpk, graftapCommitted_bytes]
  have hcap : (41 : Nat) < 41 + 1 := by omega
  refine run_dup H C cfg _ sh _ script (ssig :: st) _ rfl hcap hr hs hscr (by simp; omega) ?_
  refine run_swap12 H C cfg _ _ _ script script ssig st _ rfl hcap hr rfl hscr hscr (by omega) (by omega) ?_
  refine run_pushB H C cfg _ _ pk _ _ (by omega) (by omega) rfl hcap hr (by omega) (by simp; omega) ?_
  refine run_css H C cfg _ _ (opc VERIFY ++ EVAL) pk script ssig (script :: st) _ rfl hcap hr rfl hpk hsl (by omega) (by simp; omega) ?_
  exact run_verify_false H C cfg _ _ EVAL (boolBytes (Sodium.verify H C pk script ssig)) (script :: st) rfl hcap hr rfl (by rw [hbad]; decide)

set_option maxHeartbeats 1600000 in
/-- **C13 / C05, the graftap lock, script-spend path with a surrogate the key signed.** The witness
    leaves (key, committed script, surrogate, signature): if the pair recomputes to the lock's root
    and the signature verifies under the key over the surrogate's bytes, the lock ends with exactly
    the surrogate's own outcome — its final stack or its error. -/
theorem graftapLock_surrogate_accepts (hev : cfg.disallowEval = false)
    (root pk script ssig : Bytes) (flags : Nat) (st : List Bytes) (sh : Shared) (count : Nat) (rL : Res)
    (hroot : root.length = 32) (hpk : pk.length = 32) (hsl : ssig.length = 64)
    (hrc : C05.recompute H C pk (graftapCommitted pk) = .ok root)
    (hs : sh.stack = pk :: graftapCommitted pk :: script :: ssig :: st) (hr : sh.returned = false)
    (hscr : script.length ≤ cfg.lim.maxItemSize) (hne : script ≠ [])
    (hsz : 64 ≤ cfg.lim.maxItemSize) (hroom : st.length + 5 ≤ cfg.lim.maxItems) (hcnt : count + 2 < cfg.lim.callLimit)
    (hgood : Sodium.verify H C pk script ssig = true)
    (hL : TSteps (instrTable H C cfg) cfg.lim
            (evalFrame script (count + 1)
              (copyDict { (copyDict { sh with stack := script :: ssig :: st } 0).2 with stack := st } (copyDict { sh with stack := script :: ssig :: st } 0).1).1)
            (copyDict { (copyDict { sh with stack := script :: ssig :: st } 0).2 with stack := st } (copyDict { sh with stack := script :: ssig :: st } 0).1).2 rL) :
    Ends (instrTable H C cfg) cfg.lim (topFrame (C05.tapLock root flags) count) sh
      (fun r => Res.summary r = Res.summary rL) := by
  obtain ⟨rC, hC, hP⟩ := graftapCommitted_accepts H C cfg hev pk script ssig st
    (copyDict { sh with stack := script :: ssig :: st } 0).2 count (copyDict { sh with stack := script :: ssig :: st } 0).1 rL
    hpk hsl (by simp [copyDict]) (by simp [copyDict, hr]) hscr hne hsz (by omega) (by omega) hgood hL
  have hcl : (graftapCommitted pk).length = 41 := graftapCommitted_length pk hpk
  obtain ⟨r, hT, hS⟩ := C05.tapLock_scriptpath_match H C cfg hev root pk (graftapCommitted pk) flags (script :: ssig :: st) sh count rC
    hroot hpk hrc hs hr (by omega) (by intro h; rw [h] at hcl; simp at hcl) (by omega) (by simp; omega) (by omega) hC
  exact ⟨r, hT, hS.trans hP⟩

end TV.C13
