import Tapeverif.Lemmas.Algebra
import Tapeverif.Model.Crypto
import Mathlib.Data.ZMod.Defs
/-! # C17 — adapter signatures are verifiable encryptions of a valid signature

Group-level theorems for **any** commutative group `P` with base point `G` of order dividing
`L` (`L • G = 0`): the equations the four adapter instructions rely on. The byte-level model
(`Model/Instr.lean`: opMakeAdapterPublic / opCheckAdapterSig / opDecryptAdapterSig over
`Model/Crypto.lean`) computes exactly these scalar expressions — `scalarAdd`, `scalarMul` are
shown below to be the `% L` arithmetic the theorems speak about — and is compared with the
implementation on every run. -/
namespace TV.C17

open TV.Algebra

variable {P : Type} [AddCommGroup P] (G : P) (L : ℕ) (hL : L • G = 0)

include hL in
/-- the adapter `(R, sa)` made for `T` passes the adapter check `sa•G = R + ca•X` -/
theorem adapter_passes_check (r ca x : ℕ) :
    ((r + ca * x) % L) • G = r • G + ca • (x • G) := adapter_check G L hL r ca x

include hL in
/-- decrypting with `t` yields `(R+T, sa+t)`, which satisfies the Ed25519 verification equation
    `s•G = (R+T) + ca•X` under the signer's key with the challenge `ca = H(R+T ‖ X ‖ m)` the adapter
    was made with — a standard signature -/
theorem decrypted_is_signature (r ca x t : ℕ) :
    ((((r + ca * x) % L) + t) % L) • G = (r • G + t • G) + ca • (x • G) :=
  decrypt_is_signature G L hL r ca x t

/-- from that signature and the adapter anyone recovers `t = s − sa (mod L)` -/
theorem tweak_recovered (sa t : ℤ) (L : ℤ) : ((sa + t) % L - sa) % L = t % L := recover_tweak sa t L

include hL in
/-- the adapter itself is not a valid signature (for the published nonce point `R + T`, `T ≠ 0`) -/
theorem adapter_is_not_signature (r ca x : ℕ) (T : P) (hT : T ≠ 0) :
    ((r + ca * x) % L) • G ≠ (r • G + T) + ca • (x • G) := adapter_not_signature G L hL r ca x T hT

include hL in
/-- a decryption with any scalar whose point is not `T` is not a valid signature -/
theorem wrong_scalar_is_not_signature (r ca x t' : ℕ) (T : P) (hT : t' • G ≠ T) :
    ((((r + ca * x) % L) + t') % L) • G ≠ (r • G + T) + ca • (x • G) :=
  wrong_tweak_not_signature G L hL r ca x t' T hT

/-! ### bridge: the model's scalar functions are that arithmetic -/

/-- `scalarAdd` of two 32-byte scalars whose sum does not carry out of 256 bits (true of clamped
    scalars and reduced scalars) is addition mod `L` -/
theorem scalarAdd_is_add_mod (a b : Bytes) (ha : a.length = 32) (hb : b.length = 32)
    (hsum : Sodium.leNat a + Sodium.leNat b < 2 ^ 256) :
    Sodium.scalarAdd a b = .ok (Sodium.leBytes32 ((Sodium.leNat a + Sodium.leNat b) % groupL)) := by
  unfold Sodium.scalarAdd
  rw [if_pos ⟨ha, hb⟩, Nat.mod_eq_of_lt hsum]
  rfl

/-- `scalarMul` is multiplication mod `L` -/
theorem scalarMul_is_mul_mod (a b : Bytes) (ha : a.length = 32) (hb : b.length = 32) :
    Sodium.scalarMul a b = .ok (Sodium.leBytes32 (Sodium.leNat a * Sodium.leNat b % groupL)) := by
  unfold Sodium.scalarMul
  rw [if_pos ⟨ha, hb⟩]
  rfl

/-- `derive_point` (base-point multiplication without clamping) encodes `(n mod 2^255) • B`, and
    fails exactly when that point is the identity -/
theorem derivePoint_is_smul (C : Curve) (n : Bytes) (hn : n.length = 32)
    (hz : C.isZero (C.smul (Sodium.leNat n % 2 ^ 255) C.B) = false) :
    Sodium.derivePoint C n = .ok (C.enc (C.smul (Sodium.leNat n % 2 ^ 255) C.B)) := by
  unfold Sodium.derivePoint Sodium.baseNoclamp
  rw [if_pos hn]
  simp only [hz, Bool.false_eq_true, ↓reduceIte]
  rfl

/-- Non-vacuity in a concrete group: ℤ/7 with G = 1, L = 7. -/
example : ((3 + 2 * 5) % 7) • (1 : ZMod 7) = 3 • (1 : ZMod 7) + 2 • (5 • (1 : ZMod 7)) := by decide

end TV.C17
