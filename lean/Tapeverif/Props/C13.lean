import Tapeverif.Lemmas.SigRefine
import Tapeverif.Model.Tools
import Tapeverif.Model.Auth
import Tapeverif.Lemmas.VMRun
import Tapeverif.Lemmas.RunInstr
import Tapeverif.Lemmas.MsRefine
import Tapeverif.Props.C03
/-! # C13 — signature and commitment lock builders

The single-signature lock is executed symbolically on the VM model: for **every** 32-byte key,
allowed-flags byte, witness-left stack, cache and limits its outcome is exactly the C02
specification of CHECK_SIG — which gives completeness (with C02.4) and every rejection clause
as a statement about `SigPure.checkSig`. -/
namespace TV.C13

open Instr Tools

variable (H : Hashes) (C : Curve)

/-- the lock's bytes: `PUSH1 32 <pk> CHECK_SIG <flags>` -/
theorem singleSigLock_bytes (pk : Bytes) (flags : Nat) (hpk : pk.length = 32) :
    singleSigLock pk flags = 3 :: UInt8.ofNat pk.length :: (pk ++ [35, UInt8.ofNat flags]) := by
  unfold singleSigLock pushB pushBytes CHECK_SIG opc
  have h1 : ¬ pk.length = 1 := by omega
  simp [h1, hpk, natToBytesBE]

def Res.errOf : Res → Option Err
  | .ok _ _ => none
  | .err e _ => some e

/-- **C13 single-sig, exact acceptance condition.** Running the lock (no signature-extension
    plugin installed) from any state whose stack top is `sig`: the run ends with the C02 verdict
    of `sig` under `pk` on top of the remaining stack, or with exactly the C02 error. Hence:
    the sibling witness unlocks (C02.4), and another key / other covered fields / a
    non-permitted flag are rejected exactly when `SigPure.checkSig` says so. -/
theorem singleSigLock_run (cfg : Cfg) (hno : cfg.sigExts = []) (pk : Bytes) (flags : Nat)
    (hpk : pk.length = 32) (hfl : flags < 256)
    (n : Nat) (sh : Shared) (sig : Bytes) (st : List Bytes) (count : Nat)
    (hs : sh.stack = sig :: st) (hr : sh.returned = false)
    (h1 : 32 ≤ cfg.lim.maxItemSize) (h2 : st.length + 1 < cfg.lim.maxItems) :
    let r := runTape (instrTable H C cfg) cfg.lim (n + 30) (topFrame (singleSigLock pk flags) count) sh
    (match SigPure.checkSig H C cfg.lim.maxItemSize sh.cache flags sig pk with
     | .ok b => r.shared.stack = boolBytes b :: st ∧ Res.errOf r = none
     | .error e => r.shared.stack = st ∧ Res.errOf r = some (.user e)) := by
  intro r
  have hb := singleSigLock_bytes pk flags hpk
  generalize hlen : (singleSigLock pk flags).length = len at *
  -- frames after each instruction
  let fr1 : Frame := { rest := [35, UInt8.ofNat flags], count := count, fn := none, dict := 0, len0 := len, cap := len + 1 }
  let fr2 : Frame := { rest := [], count := count, fn := none, dict := 0, len0 := len, cap := len + 1 }
  let sh1 : Shared := { sh with stack := pk :: sh.stack }
  have hT : instrTable H C cfg 3 = opPush1 .done := rfl
  have hT2 : instrTable H C cfg 35 = readU1 fun allowed => checkSigCore H C allowed .done := by
    show opCheckSig H C cfg .done = _
    unfold opCheckSig sigExt
    rw [hno]; rfl
  -- first instruction: PUSH1
  have step1 : r = runTape (instrTable H C cfg) cfg.lim (n + 29) fr1 sh1 := by
    show runTape _ _ (n + 30) (topFrame (singleSigLock pk flags) count) sh = _
    unfold topFrame
    rw [hlen, show n + 30 = (n + 29) + 1 by omega]
    rw [runTape_cons _ _ _ _ sh 3 (UInt8.ofNat pk.length :: (pk ++ [35, UInt8.ofNat flags])) hb (by simp) hr]
    rw [hT, show n + 29 = (n + 26) + 3 by omega]
    rw [run_push1 _ _ _ _ _ sh pk [35, UInt8.ofNat flags] (by omega) rfl (by omega) (by rw [hs]; simp; omega)]
    rw [show n + 26 = (n + 25) + 1 by omega, runOp_done]
  -- second instruction: CHECK_SIG
  have hn : natOfBytesBE [UInt8.ofNat flags] = flags := by
    simp [natOfBytesBE, UInt8.toNat_ofNat', Nat.mod_eq_of_lt hfl]
  have step2 : runOp (instrTable H C cfg) cfg.lim (n + 28) (instrTable H C cfg 35) { fr1 with rest := [UInt8.ofNat flags] } sh1 =
      (match SigPure.checkSig H C cfg.lim.maxItemSize sh.cache flags sig pk with
       | .ok b => .ok fr2 { sh1 with stack := boolBytes b :: st }
       | .error e => .err (.user e) { sh1 with stack := st }) := by
    rw [hT2]
    unfold readU1
    rw [show n + 28 = (n + 27) + 1 by omega, runOp_read _ _ _ 1 _ _ _ (by simp)]
    simp only [List.take_succ_cons, List.take_zero, List.drop_succ_cons, List.drop_zero]
    rw [hn, show n + 27 = (n + 14) + 13 by omega]
    rw [checkSigCore_refines _ _ H C flags .done (n + 14) _ sh1 pk sig st (by simp [sh1, hs]) (by omega) (by omega)]
    cases SigPure.checkSig H C cfg.lim.maxItemSize sh1.cache flags sig pk with
    | error e => rfl
    | ok b => simp only; rw [show n + 14 = (n + 13) + 1 by omega, runOp_done]
  rw [step1, show n + 29 = (n + 28) + 1 by omega]
  rw [runTape_cons _ _ _ fr1 sh1 35 [UInt8.ofNat flags] rfl (by simp [fr1]) hr]
  rw [step2]
  cases hspec : SigPure.checkSig H C cfg.lim.maxItemSize sh.cache flags sig pk with
  | error e => simp [Res.shared, Res.errOf]
  | ok b =>
    simp only
    rw [show n + 28 = (n + 27) + 1 by omega, runTape_nil _ _ _ fr2 _ rfl]
    simp [Res.shared, Res.errOf]

/-- consequence for the authorization verdict: with the witness having left exactly `[sig]`, the
    lock alone authorizes iff the C02 specification yields `true` -/
theorem singleSigLock_accepts_iff (cfg : Cfg) (hno : cfg.sigExts = []) (pk : Bytes) (flags : Nat)
    (hpk : pk.length = 32) (hfl : flags < 256) (n : Nat) (sh : Shared) (sig : Bytes) (count : Nat)
    (hs : sh.stack = [sig]) (hr : sh.returned = false)
    (h1 : 32 ≤ cfg.lim.maxItemSize) (h2 : 1 < cfg.lim.maxItems) :
    let r := runTape (instrTable H C cfg) cfg.lim (n + 30) (topFrame (singleSigLock pk flags) count) sh
    (Res.errOf r = none ∧ r.shared.stack = [[0xff]]) ↔
      SigPure.checkSig H C cfg.lim.maxItemSize sh.cache flags sig pk = .ok true := by
  intro r
  have := singleSigLock_run H C cfg hno pk flags hpk hfl n sh sig [] count hs hr h1 (by simpa using h2)
  simp only at this
  cases hspec : SigPure.checkSig H C cfg.lim.maxItemSize sh.cache flags sig pk with
  | error e =>
    rw [hspec] at this
    constructor
    · intro ⟨he, _⟩; rw [this.2] at he; cases he
    · intro h; cases h
  | ok b =>
    rw [hspec] at this
    constructor
    · intro ⟨_, hst⟩
      rw [this.1] at hst
      cases b <;> simp_all [boolBytes]
    · intro h
      cases h
      exact ⟨this.2, by rw [this.1]; rfl⟩

/-! ### the other signature / commitment locks -/

section more
variable (cfg : Cfg)

/-- the outcome of the second single-signature layout (key committed by a 20-byte SHAKE-256 hash) -/
def singleSig2Spec (cache : List (CKey × CVal)) (pk pk' sig : Bytes) (flags : Nat) (st : List Bytes) : Except Err (List Bytes) :=
  if H.shake256 pk 20 = H.shake256 pk' 20 then
    match SigPure.checkSig H C cfg.lim.maxItemSize cache flags sig pk' with
    | .ok b => .ok (boolBytes b :: st)
    | .error e => .error (.user e)
  else .error (.user .see)

/-- **C13, single-signature lock, layout 2: exact outcome.** The witness supplies `sig` and a
    key `pk'`: unless `pk'` hashes to the committed hash the run is an error; otherwise it ends
    with exactly the C02 verdict of `sig` under `pk'`. -/
theorem singleSigLock2_run (hno : cfg.sigExts = []) (hH : ∀ x, (H.shake256 x 20).length = 20)
    (pk pk' sig : Bytes) (flags : Nat) (st : List Bytes) (sh : Shared) (count : Nat)
    (hpk' : pk'.length ≤ cfg.lim.maxItemSize) (hfl : flags < 256)
    (hs : sh.stack = pk' :: sig :: st) (hr : sh.returned = false)
    (hsz : 20 ≤ cfg.lim.maxItemSize) (hroom : st.length + 4 ≤ cfg.lim.maxItems) :
    Ends (instrTable H C cfg) cfg.lim (topFrame (singleSigLock2 H pk flags) count) sh
      (fun r => Res.summary r = singleSig2Spec H C cfg sh.cache pk pk' sig flags st) := by
  have hb : singleSigLock2 H pk flags = DUP ++ (SHAKE256 20 ++ (pushB (H.shake256 pk 20) ++ (EQUAL_VERIFY ++ CHECK_SIG flags))) := by
    simp only [singleSigLock2, List.append_assoc]
  rw [hb]
  unfold topFrame
  generalize hlen : (DUP ++ (SHAKE256 20 ++ (pushB (H.shake256 pk 20) ++ (EQUAL_VERIFY ++ CHECK_SIG flags)))).length = len
  have hcap : len < len + 1 := by omega
  refine Ends.step (fun r h => run_dup H C cfg _ sh _ pk' (sig :: st) r rfl hcap hr hs hpk' (by simp; omega) h) ?_
  dsimp only
  refine Ends.step (fun r h => run_shake256 H C cfg _ _ _ 20 pk' (pk' :: sig :: st) r rfl (by omega) hcap hr rfl (by rw [hH]; omega) (by simp; omega) h) ?_
  dsimp only
  refine Ends.step (fun r h => run_pushB H C cfg _ _ (H.shake256 pk 20) _ r (by rw [hH]; omega) (by rw [hH]; omega) rfl hcap hr (by rw [hH]; omega) (by simp; omega) h) ?_
  dsimp only
  unfold singleSig2Spec
  by_cases heq : H.shake256 pk 20 = H.shake256 pk' 20
  · rw [if_pos heq]
    refine Ends.step (fun r h => run_equal_verify_ok H C cfg _ _ _ (H.shake256 pk 20) (H.shake256 pk' 20) (pk' :: sig :: st) r rfl hcap hr rfl heq (by omega) (by simp; omega) h) ?_
    dsimp only
    refine ⟨_, run_checksig_last H C cfg hno _ _ flags pk' sig st rfl hfl hcap hr rfl (by omega) (by omega), ?_⟩
    cases SigPure.checkSig H C cfg.lim.maxItemSize sh.cache flags sig pk' <;> rfl
  · rw [if_neg heq]
    exact ⟨_, run_equal_verify_fail H C cfg _ _ _ (H.shake256 pk 20) (H.shake256 pk' 20) (pk' :: sig :: st) rfl hcap hr rfl heq (by omega) (by simp; omega), rfl⟩


/-- the outcome of the m-of-n multisignature lock: the C03 specification on the witness's
    signatures (as popped, last pushed first) and the lock's keys (as popped, last listed first) -/
def multisigSpec (cache : List (CKey × CVal)) (pks sigs : List Bytes) (flags : Nat) (st : List Bytes) : Except Err (List Bytes) :=
  match SigPure.multisig H C cfg.lim.maxItemSize cache flags sigs pks.reverse with
  | .ok b => .ok (boolBytes b :: st)
  | .error e => .error (.user e)

/-- **C13, m-of-n multisignature lock: exact outcome.** Running `make_multisig_lock(pks, m)` on a
    stack holding `m` signature items above `st` ends with exactly the C03 specification
    `SigPure.multisig` of those signatures against the lock's keys — so by C03 it is true only if
    the signatures are pairwise distinct and matched to `m` *different* listed keys. -/
theorem multisigLock_run (hno : cfg.sigExts = []) (pks sigs : List Bytes) (m flags : Nat) (lock : Bytes)
    (hlock : multisigLock pks m flags = some lock)
    (st : List Bytes) (sh : Shared) (count : Nat)
    (hpk : ∀ k ∈ pks, k.length = 32) (hn : pks.length < 256) (hm : m < 256) (hfl : flags < 256)
    (hsl : sigs.length = m) (hsigs : ∀ s ∈ sigs, s.length ≤ cfg.lim.maxItemSize)
    (hs : sh.stack = sigs ++ st) (hr : sh.returned = false)
    (hsz : 32 ≤ cfg.lim.maxItemSize) (hroom : st.length + sigs.length + pks.length + 2 ≤ cfg.lim.maxItems) :
    Ends (instrTable H C cfg) cfg.lim (topFrame lock count) sh
      (fun r => Res.summary r = multisigSpec H C cfg sh.cache pks sigs flags st) := by
  have hb : lock = pks.flatMap pushB ++ (70 :: UInt8.ofNat flags :: UInt8.ofNat m :: UInt8.ofNat pks.length :: []) := by
    unfold multisigLock at hlock
    split at hlock
    · injection hlock with hl
      rw [← hl]
      simp [opc, List.append_assoc]
    · cases hlock
  rw [hb]
  unfold topFrame
  generalize hlen : (pks.flatMap pushB ++ (70 :: UInt8.ofNat flags :: UInt8.ofNat m :: UInt8.ofNat pks.length :: [])).length = len
  have hcap : len < len + 1 := by omega
  refine Ends.step (fun r h => run_pushes H C cfg pks _ sh _ r rfl hcap hr
    (fun v hv => by have := hpk v hv; omega) (by rw [hs]; simp; omega) h) ?_
  dsimp only
  unfold multisigSpec
  have hinstr : ∀ r,
      (match SigPure.multisig H C cfg.lim.maxItemSize sh.cache flags sigs pks.reverse with
       | .ok b => r = Res.ok { rest := [], count := count, fn := none, dict := 0, len0 := len, cap := len + 1 }
            { sh with stack := boolBytes b :: st }
       | .error e => r = .err (.user e) { sh with stack := st }) →
      Steps (instrTable H C cfg) cfg.lim (instrTable H C cfg 70)
        { rest := [UInt8.ofNat flags, UInt8.ofNat m, UInt8.ofNat pks.length], count := count, fn := none, dict := 0, len0 := len, cap := len + 1 }
        { sh with stack := pks.reverse ++ sh.stack } r := by
    intro r hr'
    show Steps _ _ (opCheckMultisig H C cfg .done) _ _ _
    refine C03.checkMultisig_instruction H C cfg hno _ .done _ _ flags m pks.length [] pks.reverse sigs st r hfl hm hn rfl
      (by simp) hsl (by simp [hs]) (fun x hx => by
        rcases List.mem_append.mp hx with h1 | h1
        · have := hpk x (by simpa using h1); omega
        · exact hsigs x h1) (by omega) (by omega) ?_
    dsimp only
    cases hms : SigPure.multisig H C cfg.lim.maxItemSize sh.cache flags sigs pks.reverse with
    | error e => rw [hms] at hr'; exact hr'
    | ok b => rw [hms] at hr'; simp only at hr' ⊢; rw [hr']; exact Steps.done _ _
  cases hms : SigPure.multisig H C cfg.lim.maxItemSize sh.cache flags sigs pks.reverse with
  | error e =>
    have := hinstr (.err (.user e) { sh with stack := st }) (by rw [hms])
    exact ⟨_, TSteps.cons_err 70 _ rfl hcap hr this, rfl⟩
  | ok b =>
    have := hinstr _ (by rw [hms])
    exact ⟨_, TSteps.cons_ok 70 _ rfl hcap hr this (TSteps.nil rfl), rfl⟩


/-- the frame of a top-level script that has been read to its end -/
def endOf (script : Bytes) (count : Nat) : Frame := { topFrame script count with rest := [] }

/-- **C13, script-hash lock, a different script.** A supplied script that does not hash to the
    committed hash ends the lock with an error before `OP_EVAL`: only the stack changed, so no
    instruction of the supplied script ran. -/
theorem scripthashLock_rejects (hs : Nat) (hhs : hs < 256) (hH : ∀ x, (H.shake256 x hs).length = hs) (hhs0 : 0 < hs)
    (script script' : Bytes) (st : List Bytes) (sh : Shared) (count : Nat)
    (hsc : script'.length ≤ cfg.lim.maxItemSize) (hstk : sh.stack = script' :: st) (hr : sh.returned = false)
    (hsz : hs ≤ cfg.lim.maxItemSize) (hroom : st.length + 3 ≤ cfg.lim.maxItems)
    (hne : H.shake256 script hs ≠ H.shake256 script' hs) :
    TSteps (instrTable H C cfg) cfg.lim (topFrame (scripthashLock H script hs) count) sh
      (.err (.user .see) { sh with stack := script' :: st }) := by
  have hb : scripthashLock H script hs = DUP ++ (SHAKE256 hs ++ (pushB (H.shake256 script hs) ++ (EQUAL_VERIFY ++ EVAL))) := by
    simp only [scripthashLock, List.append_assoc]
  rw [hb]
  unfold topFrame
  generalize hlen : (DUP ++ (SHAKE256 hs ++ (pushB (H.shake256 script hs) ++ (EQUAL_VERIFY ++ EVAL)))).length = len
  have hcap : len < len + 1 := by omega
  refine run_dup H C cfg _ sh _ script' st _ rfl hcap hr hstk hsc (by omega) ?_
  dsimp only
  refine run_shake256 H C cfg _ _ _ hs script' (script' :: st) _ rfl hhs hcap hr rfl (by rw [hH]; omega) (by simp; omega) ?_
  dsimp only
  refine run_pushB H C cfg _ _ (H.shake256 script hs) _ _ (by rw [hH]; omega) (by rw [hH]; omega) rfl hcap hr (by rw [hH]; omega) (by simp; omega) ?_
  dsimp only
  exact run_equal_verify_fail H C cfg _ _ _ (H.shake256 script hs) (H.shake256 script' hs) (script' :: st) rfl hcap hr rfl hne (by omega) (by simp; omega)

/-- **C13, script-hash lock, the committed script (or any script with the same hash).** The lock
    ends exactly as the supplied script does when evaluated on the remaining stack. -/
theorem scripthashLock_accepts (hev : cfg.disallowEval = false) (hs : Nat) (hhs : hs < 256) (hH : ∀ x, (H.shake256 x hs).length = hs) (hhs0 : 0 < hs)
    (script script' : Bytes) (st : List Bytes) (sh : Shared) (count : Nat) (rL : Res)
    (hsc : script'.length ≤ cfg.lim.maxItemSize) (hne' : script' ≠ []) (hstk : sh.stack = script' :: st) (hr : sh.returned = false)
    (hsz : hs ≤ cfg.lim.maxItemSize) (hroom : st.length + 3 ≤ cfg.lim.maxItems) (hcnt : count < cfg.lim.callLimit)
    (heq : H.shake256 script hs = H.shake256 script' hs)
    (hL : TSteps (instrTable H C cfg) cfg.lim (evalFrame script' count (copyDict { sh with stack := st } 0).1)
            (copyDict { sh with stack := st } 0).2 rL) :
    TSteps (instrTable H C cfg) cfg.lim (topFrame (scripthashLock H script hs) count) sh
      (wrapEval cfg.evalReturn (endOf (scripthashLock H script hs) count) rL) := by
  have hb : scripthashLock H script hs = DUP ++ (SHAKE256 hs ++ (pushB (H.shake256 script hs) ++ (EQUAL_VERIFY ++ EVAL))) := by
    simp only [scripthashLock, List.append_assoc]
  rw [hb]
  unfold endOf topFrame
  generalize hlen : (DUP ++ (SHAKE256 hs ++ (pushB (H.shake256 script hs) ++ (EQUAL_VERIFY ++ EVAL)))).length = len
  have hcap : len < len + 1 := by omega
  refine run_dup H C cfg _ sh _ script' st _ rfl hcap hr hstk hsc (by omega) ?_
  dsimp only
  refine run_shake256 H C cfg _ _ _ hs script' (script' :: st) _ rfl hhs hcap hr rfl (by rw [hH]; omega) (by simp; omega) ?_
  dsimp only
  refine run_pushB H C cfg _ _ (H.shake256 script hs) _ _ (by rw [hH]; omega) (by rw [hH]; omega) rfl hcap hr (by rw [hH]; omega) (by simp; omega) ?_
  dsimp only
  refine run_equal_verify_ok H C cfg _ _ _ (H.shake256 script hs) (H.shake256 script' hs) (script' :: st) _ rfl hcap hr rfl heq (by omega) (by simp; omega) ?_
  dsimp only
  refine tape_single _ _ 45 [] _ rfl cfg.evalReturn rL (by simp [EVAL, opc]) hcap hr ?_
  show Steps _ _ (opEval cfg .done) _ _ _
  exact eval_done cfg hev _ _ _ script' st rL rfl hne' (by simpa [getCount] using hcnt) (by simpa [getCount] using hL)


/-! ### graftroot -/

def graftA (flags : Nat) : Bytes := DUP ++ (SWAP 1 2 ++ (readCache "k" ++ (CSS ++ (opc VERIFY ++ EVAL))))
def graftB (flags : Nat) : Bytes := readCache "k" ++ CHECK_SIG flags

theorem graftrootLock_bytes (pk : Bytes) (flags : Nat) :
    graftrootLock pk flags = pushB pk ++ (writeCache "k" 1 ++ ifElse (graftA flags) (graftB flags)) := by
  simp only [graftrootLock, setVar1, graftA, graftB, List.append_assoc]

/-- outcome of the graftroot key path -/
def graftKeySpec (cache : List (CKey × CVal)) (pk sig : Bytes) (flags : Nat) (st : List Bytes) : Except Err (List Bytes) :=
  match SigPure.checkSig H C cfg.lim.maxItemSize cache flags sig pk with
  | .ok b => .ok (boolBytes b :: st)
  | .error e => .error (.user e)

set_option maxHeartbeats 1600000 in
/-- **C13, graftroot lock, key path: exact outcome.** With a false selector on top of a signature
    the lock ends with exactly the C02 verdict of the signature under the lock's key. -/
theorem graftrootLock_keypath_run (hno : cfg.sigExts = []) (pk c sig : Bytes) (flags : Nat) (st : List Bytes) (sh : Shared) (count : Nat)
    (hpk : pk.length = 32) (hfl : flags < 256) (hc : truthy c = false)
    (hs : sh.stack = c :: sig :: st) (hr : sh.returned = false)
    (hsz : 32 ≤ cfg.lim.maxItemSize) (hroom : st.length + 4 ≤ cfg.lim.maxItems) :
    Ends (instrTable H C cfg) cfg.lim (topFrame (graftrootLock pk flags) count) sh
      (fun r => Res.summary r = graftKeySpec H C cfg sh.cache pk sig flags st) := by
  rw [graftrootLock_bytes]
  unfold topFrame
  generalize hlen : (pushB pk ++ (writeCache "k" 1 ++ ifElse (graftA flags) (graftB flags))).length = len
  have hcap : len < len + 1 := by omega
  have hla : (graftA flags).length = 10 := by unfold graftA; decide
  have hlb : (graftB flags).length = 5 := by simp [graftB, readCache, CHECK_SIG, opc]; decide
  have hlen' : 15 < len := by
    rw [← hlen]; simp [ifElse, hla, hlb, opc]; omega
  refine Ends.step (fun r h => run_pushB H C cfg _ sh pk _ r (by omega) (by omega) rfl hcap hr (by omega) (by rw [hs]; simp; omega) h) ?_
  dsimp only
  refine Ends.step (fun r h => run_writeCache1 H C cfg _ _ _ (asciiBytes "k") pk sh.stack r rfl (by decide) (by decide) hcap hr rfl h) ?_
  dsimp only
  unfold graftKeySpec
  have hck : ∀ a s v, SigPure.checkSig H C cfg.lim.maxItemSize ((CKey.byt (asciiBytes "k"), CVal.list [Atom.bytes pk]) :: sh.cache) a s v
      = SigPure.checkSig H C cfg.lim.maxItemSize sh.cache a s v := fun a s v => checkSig_cons_byt H C _ _ _ _ a s v
  cases hspec : SigPure.checkSig H C cfg.lim.maxItemSize sh.cache flags sig pk with
  | error e =>
    refine ⟨_, run_ifelse_err H C cfg _ _ _ _ (graftA flags) (graftB flags) c (sig :: st) (.user e) rfl (by omega) (by omega) hcap hr (by rw [hs]) (by simp)
      (by
        rw [hc]
        simp only [Bool.false_eq_true, ↓reduceIte]
        refine run_readCache1 H C cfg _ _ (CHECK_SIG flags) (asciiBytes "k") pk _ rfl (by decide) (by decide)
          (by simp [inlineFrame, hlb]; omega) (by simp [copyDict, hr]) (by simp [copyDict, lookupC_byt_cons_eq]) (by omega) (by simp [copyDict]; omega) ?_
        try dsimp only
        have := run_checksig_last H C cfg hno
          { (inlineFrame (graftB flags) { rest := [], count := count, fn := none, dict := 0, len0 := len, cap := len + 1 }
              { sh with stack := sig :: st, cache := (CKey.byt (asciiBytes "k"), CVal.list [Atom.bytes pk]) :: sh.cache }) with rest := CHECK_SIG flags }
          { (copyDict { sh with stack := sig :: st, cache := (CKey.byt (asciiBytes "k"), CVal.list [Atom.bytes pk]) :: sh.cache } 0).2 with stack := pk :: sig :: st }
          flags pk sig st rfl hfl (by simp [inlineFrame, hlb]; omega) (by simp [copyDict, hr]) rfl (by omega) (by omega)
        simp only [copyDict] at this ⊢
        rw [hck, hspec] at this
        exact this), rfl⟩
  | ok b =>
    refine Ends.step (fun r h => run_ifelse_ok H C cfg _ _ _ _ _ (graftA flags) (graftB flags) c (sig :: st) r rfl (by omega) (by omega) hcap hr (by rw [hs])
      (by
        rw [hc]
        simp only [Bool.false_eq_true, ↓reduceIte]
        refine run_readCache1 H C cfg _ _ (CHECK_SIG flags) (asciiBytes "k") pk _ rfl (by decide) (by decide)
          (by simp [inlineFrame, hlb]; omega) (by simp [copyDict, hr]) (by simp [copyDict, lookupC_byt_cons_eq]) (by omega) (by simp [copyDict]; omega) ?_
        try dsimp only
        have := run_checksig_last H C cfg hno
          { (inlineFrame (graftB flags) { rest := [], count := count, fn := none, dict := 0, len0 := len, cap := len + 1 }
              { sh with stack := sig :: st, cache := (CKey.byt (asciiBytes "k"), CVal.list [Atom.bytes pk]) :: sh.cache }) with rest := CHECK_SIG flags }
          { (copyDict { sh with stack := sig :: st, cache := (CKey.byt (asciiBytes "k"), CVal.list [Atom.bytes pk]) :: sh.cache } 0).2 with stack := pk :: sig :: st }
          flags pk sig st rfl hfl (by simp [inlineFrame, hlb]; omega) (by simp [copyDict, hr]) rfl (by omega) (by omega)
        simp only [copyDict] at this ⊢
        rw [hck, hspec] at this
        exact this)
      (by simp [hr]) h) ?_
    dsimp only
    exact ⟨_, TSteps.nil rfl, rfl⟩

set_option maxHeartbeats 1600000 in
/-- **C13, graftroot lock, a surrogate not signed by the lock's key.** With a true selector on
    top of (surrogate script, signature): if the 64-byte signature does not verify under the
    lock's key over the surrogate's bytes, the lock ends in an error at the VERIFY before `OP_EVAL`
    — the surrogate is never evaluated. -/
theorem graftrootLock_surrogate_rejects (pk c script ssig : Bytes) (flags : Nat) (st : List Bytes) (sh : Shared) (count : Nat)
    (hpk : pk.length = 32) (hc : truthy c = true) (hsl : ssig.length = 64)
    (hs : sh.stack = c :: script :: ssig :: st) (hr : sh.returned = false)
    (hscr : script.length ≤ cfg.lim.maxItemSize)
    (hsz : 64 ≤ cfg.lim.maxItemSize) (hroom : st.length + 5 ≤ cfg.lim.maxItems)
    (hbad : Sodium.verify H C pk script ssig = false) :
    Ends (instrTable H C cfg) cfg.lim (topFrame (graftrootLock pk flags) count) sh
      (fun r => ∃ shE, r = .err (.user .see) shE ∧ shE.plog = sh.plog ∧ shE.randCtr = sh.randCtr ∧ shE.fns = sh.fns) := by
  rw [graftrootLock_bytes]
  unfold topFrame
  generalize hlen : (pushB pk ++ (writeCache "k" 1 ++ ifElse (graftA flags) (graftB flags))).length = len
  have hcap : len < len + 1 := by omega
  have hla : (graftA flags).length = 10 := by unfold graftA; decide
  have hlb : (graftB flags).length = 5 := by simp [graftB, readCache, CHECK_SIG, opc]; decide
  have hlen' : 15 < len := by
    rw [← hlen]; simp [ifElse, hla, hlb, opc]; omega
  refine Ends.step (fun r h => run_pushB H C cfg _ sh pk _ r (by omega) (by omega) rfl hcap hr (by omega) (by rw [hs]; simp; omega) h) ?_
  dsimp only
  refine Ends.step (fun r h => run_writeCache1 H C cfg _ _ _ (asciiBytes "k") pk sh.stack r rfl (by decide) (by decide) hcap hr rfl h) ?_
  dsimp only
  have hA : graftA flags = DUP ++ (SWAP 1 2 ++ (readCache "k" ++ (CSS ++ (opc VERIFY ++ EVAL)))) := rfl
  refine ⟨_, run_ifelse_err H C cfg _ _ _ _ (graftA flags) (graftB flags) c (script :: ssig :: st) (.user .see) rfl (by omega) (by omega) hcap hr (by rw [hs]) (by simp)
    (by
      rw [hc]
      simp only [↓reduceIte]
      refine run_dup H C cfg _ _ (SWAP 1 2 ++ (readCache "k" ++ (CSS ++ (opc VERIFY ++ EVAL)))) script (ssig :: st) _ (by simp [inlineFrame, hA])
        (by simp [inlineFrame, hla]; omega) (by simp [copyDict, hr]) (by simp [copyDict]) hscr (by simp; omega) ?_
      try dsimp only
      refine run_swap12 H C cfg _ _ (readCache "k" ++ (CSS ++ (opc VERIFY ++ EVAL))) script script ssig st _ rfl (by simp [inlineFrame, hla]; omega) (by simp [copyDict, hr]) rfl hscr hscr (by omega) (by omega) ?_
      try dsimp only
      refine run_readCache1 H C cfg _ _ (CSS ++ (opc VERIFY ++ EVAL)) (asciiBytes "k") pk _ rfl (by decide) (by decide)
        (by simp [inlineFrame, hla]; omega) (by simp [copyDict, hr]) (by simp [copyDict, lookupC_byt_cons_eq]) (by omega) (by simp; omega) ?_
      try dsimp only
      refine run_css H C cfg _ _ (opc VERIFY ++ EVAL) pk script ssig (script :: st) _ rfl (by simp [inlineFrame, hla]; omega) (by simp [copyDict, hr]) rfl hpk hsl (by omega) (by simp; omega) ?_
      try dsimp only
      exact run_verify_false H C cfg _ _ EVAL (boolBytes (Sodium.verify H C pk script ssig)) (script :: st) rfl
        (by simp [inlineFrame, hla]; omega) (by simp [copyDict, hr]) rfl (by rw [hbad]; decide)), ⟨_, rfl, ?_⟩⟩
  simp [copyDict]


end more

end TV.C13
