import Tapeverif.Lemmas.SigRefine
import Tapeverif.Model.Tools
import Tapeverif.Model.Auth
import Tapeverif.Lemmas.VMRun
/-! # C13 — signature and commitment lock builders

The single-signature lock is executed symbolically on the VM model: for **every** 32-byte key,
allowed-flags byte, witness-left stack, cache and limits its outcome is exactly the C02
specification of CHECK_SIG — which gives completeness (with C02.4) and every rejection clause
as a statement about `SigPure.checkSig`. -/
namespace TV.C13

open Instr Tools

variable (H : Hashes) (C : Curve)

/-- the lock's bytes: `PUSH1 32 <pk> CHECK_SIG <flags>` -/
theorem singleSigLock_bytes (pk : Bytes) (flags : Nat) (hpk : pk.length = 32) :
    singleSigLock pk flags = 3 :: UInt8.ofNat pk.length :: (pk ++ [35, UInt8.ofNat flags]) := by
  unfold singleSigLock pushB pushBytes CHECK_SIG opc
  have h1 : ¬ pk.length = 1 := by omega
  simp [h1, hpk, natToBytesBE]

def Res.errOf : Res → Option Err
  | .ok _ _ => none
  | .err e _ => some e

/-- **C13 single-sig, exact acceptance condition.** Running the lock (no signature-extension
    plugin installed) from any state whose stack top is `sig`: the run ends with the C02 verdict
    of `sig` under `pk` on top of the remaining stack, or with exactly the C02 error. Hence:
    the sibling witness unlocks (C02.4), and another key / other covered fields / a
    non-permitted flag are rejected exactly when `SigPure.checkSig` says so. -/
theorem singleSigLock_run (cfg : Cfg) (hno : cfg.sigExts = []) (pk : Bytes) (flags : Nat)
    (hpk : pk.length = 32) (hfl : flags < 256)
    (n : Nat) (sh : Shared) (sig : Bytes) (st : List Bytes) (count : Nat)
    (hs : sh.stack = sig :: st) (hr : sh.returned = false)
    (h1 : 32 ≤ cfg.lim.maxItemSize) (h2 : st.length + 1 < cfg.lim.maxItems) :
    let r := runTape (instrTable H C cfg) cfg.lim (n + 30) (topFrame (singleSigLock pk flags) count) sh
    (match SigPure.checkSig H C cfg.lim.maxItemSize sh.cache flags sig pk with
     | .ok b => r.shared.stack = boolBytes b :: st ∧ Res.errOf r = none
     | .error e => r.shared.stack = st ∧ Res.errOf r = some (.user e)) := by
  intro r
  have hb := singleSigLock_bytes pk flags hpk
  generalize hlen : (singleSigLock pk flags).length = len at *
  -- frames after each instruction
  let fr1 : Frame := { rest := [35, UInt8.ofNat flags], count := count, fn := none, dict := 0, len0 := len, cap := len + 1 }
  let fr2 : Frame := { rest := [], count := count, fn := none, dict := 0, len0 := len, cap := len + 1 }
  let sh1 : Shared := { sh with stack := pk :: sh.stack }
  have hT : instrTable H C cfg 3 = opPush1 .done := rfl
  have hT2 : instrTable H C cfg 35 = readU1 fun allowed => checkSigCore H C allowed .done := by
    show opCheckSig H C cfg .done = _
    unfold opCheckSig sigExt
    rw [hno]; rfl
  -- first instruction: PUSH1
  have step1 : r = runTape (instrTable H C cfg) cfg.lim (n + 29) fr1 sh1 := by
    show runTape _ _ (n + 30) (topFrame (singleSigLock pk flags) count) sh = _
    unfold topFrame
    rw [hlen, show n + 30 = (n + 29) + 1 by omega]
    rw [runTape_cons _ _ _ _ sh 3 (UInt8.ofNat pk.length :: (pk ++ [35, UInt8.ofNat flags])) hb (by simp) hr]
    rw [hT, show n + 29 = (n + 26) + 3 by omega]
    rw [run_push1 _ _ _ _ _ sh pk [35, UInt8.ofNat flags] (by omega) rfl (by omega) (by rw [hs]; simp; omega)]
    rw [show n + 26 = (n + 25) + 1 by omega, runOp_done]
  -- second instruction: CHECK_SIG
  have hn : natOfBytesBE [UInt8.ofNat flags] = flags := by
    simp [natOfBytesBE, UInt8.toNat_ofNat', Nat.mod_eq_of_lt hfl]
  have step2 : runOp (instrTable H C cfg) cfg.lim (n + 28) (instrTable H C cfg 35) { fr1 with rest := [UInt8.ofNat flags] } sh1 =
      (match SigPure.checkSig H C cfg.lim.maxItemSize sh.cache flags sig pk with
       | .ok b => .ok fr2 { sh1 with stack := boolBytes b :: st }
       | .error e => .err (.user e) { sh1 with stack := st }) := by
    rw [hT2]
    unfold readU1
    rw [show n + 28 = (n + 27) + 1 by omega, runOp_read _ _ _ 1 _ _ _ (by simp)]
    simp only [List.take_succ_cons, List.take_zero, List.drop_succ_cons, List.drop_zero]
    rw [hn, show n + 27 = (n + 14) + 13 by omega]
    rw [checkSigCore_refines _ _ H C flags .done (n + 14) _ sh1 pk sig st (by simp [sh1, hs]) (by omega) (by omega)]
    cases SigPure.checkSig H C cfg.lim.maxItemSize sh1.cache flags sig pk with
    | error e => rfl
    | ok b => simp only; rw [show n + 14 = (n + 13) + 1 by omega, runOp_done]
  rw [step1, show n + 29 = (n + 28) + 1 by omega]
  rw [runTape_cons _ _ _ fr1 sh1 35 [UInt8.ofNat flags] rfl (by simp [fr1]) hr]
  rw [step2]
  cases hspec : SigPure.checkSig H C cfg.lim.maxItemSize sh.cache flags sig pk with
  | error e => simp [Res.shared, Res.errOf]
  | ok b =>
    simp only
    rw [show n + 28 = (n + 27) + 1 by omega, runTape_nil _ _ _ fr2 _ rfl]
    simp [Res.shared, Res.errOf]

/-- consequence for the authorization verdict: with the witness having left exactly `[sig]`, the
    lock alone authorizes iff the C02 specification yields `true` -/
theorem singleSigLock_accepts_iff (cfg : Cfg) (hno : cfg.sigExts = []) (pk : Bytes) (flags : Nat)
    (hpk : pk.length = 32) (hfl : flags < 256) (n : Nat) (sh : Shared) (sig : Bytes) (count : Nat)
    (hs : sh.stack = [sig]) (hr : sh.returned = false)
    (h1 : 32 ≤ cfg.lim.maxItemSize) (h2 : 1 < cfg.lim.maxItems) :
    let r := runTape (instrTable H C cfg) cfg.lim (n + 30) (topFrame (singleSigLock pk flags) count) sh
    (Res.errOf r = none ∧ r.shared.stack = [[0xff]]) ↔
      SigPure.checkSig H C cfg.lim.maxItemSize sh.cache flags sig pk = .ok true := by
  intro r
  have := singleSigLock_run H C cfg hno pk flags hpk hfl n sh sig [] count hs hr h1 (by simpa using h2)
  simp only at this
  cases hspec : SigPure.checkSig H C cfg.lim.maxItemSize sh.cache flags sig pk with
  | error e =>
    rw [hspec] at this
    constructor
    · intro ⟨he, _⟩; rw [this.2] at he; cases he
    · intro h; cases h
  | ok b =>
    rw [hspec] at this
    constructor
    · intro ⟨_, hst⟩
      rw [this.1] at hst
      cases b <;> simp_all [boolBytes]
    · intro h
      cases h
      exact ⟨this.2, by rw [this.1]; rfl⟩

end TV.C13
