import Tapeverif.Props.C17Locks
/-!
# C18 — the locks of a hop

`setup_amhl` hands every hop the pair `make_adapter_locks_pub(pk_i, T_i, flags)` with that hop's
tweak point `T_i` (the harness compares the model's builder with what `setup_amhl` returns, byte for
byte, for every hop of every chain). So the lock-level theorems of `Props/C17Locks.lean` are
statements about AMHL hops; they are restated here in the vocabulary of the property: the hop's
first lock ends with exactly the adapter check of the hop's key and point on the pair the witness
pushed, and the decryption script with the scalar the cascade hands over leaves `s = sa + t` on top
of `R + t·G` — the pair the hop's second lock (single-signature or PTLC, `Props/C13.lean`,
`Props/C15.lean`) then checks as a signature.
-/
namespace TV.C18
open Instr Tools TV.C17

variable (H : Hashes) (C : Curve) (cfg : Cfg)

/-- **a hop's first lock**: started on the adapter `(R, sa)` of that hop, it ends with exactly
    `adapterCheck pk_i T_i m R sa` for the flag-selected message, or with exactly its error -/
theorem hopLock_run (hno : cfg.sigExts = []) (pk Ti Rp sa m : Bytes) (flags : Nat) (st : List Bytes)
    (sh : Shared) (count : Nat)
    (hpk : pk.length = 32) (hT : Ti.length = 32) (hfl : flags < 256)
    (hs : sh.stack = Rp :: sa :: st) (hr : sh.returned = false)
    (hm : SigPure.message flags sh.cache = .ok m) (hmsz : m.length ≤ cfg.lim.maxItemSize)
    (h32 : 32 ≤ cfg.lim.maxItemSize) (hroom : st.length + 5 ≤ cfg.lim.maxItems) :
    Ends (instrTable H C cfg) cfg.lim (topFrame (adapterLock1 pk Ti flags) count) sh
      (fun r => Res.summary r =
        (match adapterCheck H C pk Ti m Rp sa with
         | .ok b => .ok (boolBytes b :: st)
         | .error e => .error (.user e))) :=
  adapterLock1_run H C cfg hno pk Ti Rp sa m flags st sh count hpk hT hfl hs hr hm hmsz h32 hroom

/-- an adapter of another hop — any pair for which the check of THIS hop's key and point is false —
    leaves `00`: the verdict is false -/
theorem hopLock_other_adapter (hno : cfg.sigExts = []) (pk Ti Rp sa m : Bytes) (flags : Nat) (st : List Bytes)
    (sh : Shared) (count : Nat)
    (hpk : pk.length = 32) (hT : Ti.length = 32) (hfl : flags < 256)
    (hs : sh.stack = Rp :: sa :: st) (hr : sh.returned = false)
    (hm : SigPure.message flags sh.cache = .ok m) (hmsz : m.length ≤ cfg.lim.maxItemSize)
    (h32 : 32 ≤ cfg.lim.maxItemSize) (hroom : st.length + 5 ≤ cfg.lim.maxItems)
    (hc : adapterCheck H C pk Ti m Rp sa = .ok false) :
    Ends (instrTable H C cfg) cfg.lim (topFrame (adapterLock1 pk Ti flags) count) sh
      (fun r => Res.summary r = .ok (boolBytes false :: st)) := by
  obtain ⟨r, hr', hp⟩ := adapterLock1_run H C cfg hno pk Ti Rp sa m flags st sh count hpk hT hfl hs hr hm hmsz h32 hroom
  refine ⟨r, hr', ?_⟩
  show Res.summary r = _
  rw [hp, hc]

/-- **the decryption step of the cascade**: the script `make_adapter_decrypt(k)` on the hop's
    adapter leaves `s = sa + k` on top of `R + k·G` -/
theorem hopDecrypt_run (k t Rp sa Tq RT s : Bytes) (st : List Bytes) (sh : Shared) (count : Nat) (script : Bytes)
    (hb : adapterDecrypt k = .ok script)
    (ht : Sodium.clampScalar k false = .ok t)
    (hs : sh.stack = Rp :: sa :: st) (hr : sh.returned = false)
    (hT : Sodium.derivePoint C t = .ok Tq)
    (hRT : Sodium.aggregatePoints C [Rp, Tq] = .ok RT) (hsum : Sodium.scalarAdd sa t = .ok s)
    (hRTl : RT.length ≤ cfg.lim.maxItemSize) (hsl : s.length ≤ cfg.lim.maxItemSize)
    (h32 : 32 ≤ cfg.lim.maxItemSize) (hroom : st.length + 3 ≤ cfg.lim.maxItems) :
    Ends (instrTable H C cfg) cfg.lim (topFrame script count) sh
      (fun r => Res.summary r = .ok (s :: RT :: st)) :=
  adapterDecrypt_run H C cfg k t Rp sa Tq RT s st sh count script hb ht hs hr hT hRT hsum hRTl hsl h32 hroom

end TV.C18
